(* C02/Property.v — property C02 (connection lifecycle), theorems only. *)
From CF Require Import C02.Model C02.Proofs C02.Locks.
Open Scope Z_scope.

(* FULL STATEMENT (for reference).  The property also demands absence of deadlock and thread death under
   every thread interleaving; the theorems below cover the lifecycle at the granularity "one library
   transition function runs atomically" (events of C02/Model.v).  What is not covered is listed in
   DESIGN.md 6/C02 and in the evidence file (not_proved). *)
Definition C02_lifecycle_full : Prop :=
  forall evs s o, run init evs = Some (s, o) ->
    wf_trace o = true.

(* For every sequence of opens, packets, table/parameter completions, link errors and closes (with open_link
   only called while no link is open), the callbacks the application observes follow the grammar
     requested . (failed | eps | established . (connected . fully?)?) . (disconnected . lost?)*
   per attempt: in particular nothing of an attempt is delivered after its first disconnected. *)
Theorem C02_trace_grammar_partial : forall evs s o,
  run init evs = Some (s, o) -> wf_trace o = true.
Proof. exact trace_grammar. Qed.
Print Assumptions C02_trace_grammar_partial.

(* A link failure produces exactly connection_failed before the first packet, exactly
   disconnected; connection_lost after it, and leaves the library disconnected with no link. *)
Theorem C02_link_failure_fanout : forall s s' o, step s ELinkErr = Some (s', o) ->
  st s' = DISCONNECTED /\ link s' = false /\
  o = match st s with INITIALIZED => [Failed] | CONNECTED => [Disconnected; Lost] | DISCONNECTED => [DiscLinkErr] end.
Proof. exact link_error_fanout. Qed.
Print Assumptions C02_link_failure_fanout.

(* every close_link produces exactly one disconnected, in every state (not inside another thread's connect()) *)
Theorem C02_close_fanout : forall s, opening s = false ->
  exists s', step s EClose = Some (s', [Disconnected]) /\ st s' = DISCONNECTED /\ link s' = false.
Proof. exact close_fanout. Qed.
Print Assumptions C02_close_fanout.

(* open_link: connection_requested on entry; connection_failed when no usable driver is found *)
Theorem C02_open_fanout : forall s s1 o1 ok s2 o2,
  step s EOpenBegin = Some (s1, o1) -> step s1 (EOpenEnd ok) = Some (s2, o2) ->
  o1 = [Requested] /\ o2 = (if ok then [] else [Failed]) /\ link s2 = ok.
Proof. exact open_fanout. Qed.
Print Assumptions C02_open_fanout.

(* connected only when the tables are complete (its enabling event), fully_connected only when all parameters
   have values, link_established only for a received packet — and each only in a live session *)
Theorem C02_setup_callbacks_only_when_enabled : forall s e s' o, step s e = Some (s', o) ->
  (In Established o -> e = EPacket /\ link s = true) /\
  (In Connected o -> e = ETocs /\ st s = CONNECTED /\ link s = true) /\
  (In Fully o -> e = EParams /\ st s = CONNECTED /\ stg s = STocs).
Proof. exact setup_callbacks_only_when_enabled. Qed.
Print Assumptions C02_setup_callbacks_only_when_enabled.

(* after any link error or close the same object can connect again, completely *)
Theorem C02_reconnect : forall s e s1 o, opening s = false ->
  (e = ELinkErr \/ e = EClose) -> step s e = Some (s1, o) ->
  exists s2, run s1 [EOpenBegin; EOpenEnd true; EPacket; ETocs; EParams] =
             Some (s2, [Requested; Established; Connected; Fully]).
Proof.
  intros s e s1 o Ho He Hs. destruct (disconnect_events_reach_disconnected s e s1 o Ho He Hs) as (H1 & H2 & H3).
  exact (reconnect_after_disconnect s1 H1 H2 H3).
Qed.
Print Assumptions C02_reconnect.

(* a blocking SyncCrazyflie.open_link is still blocked only while the attempt itself is pending ... *)
Theorem C02_sync_open_blocked_only_while_pending : forall s evs s' o,
  forallb no_open evs = true ->
  run s (EOpenBegin :: evs) = Some (s', o) ->
  sync_run SyOpening o = SyOpening -> pending s' = true.
Proof. exact sync_open_blocked_only_while_pending. Qed.
Print Assumptions C02_sync_open_blocked_only_while_pending.

(* ... and the first link error, close, failed driver lookup or table completion ends the wait (returns or raises) *)
Theorem C02_sync_open_returns : forall s e s' o, pending s = true -> step s e = Some (s', o) ->
  (e = ELinkErr \/ e = EClose \/ e = EOpenEnd false \/ (e = ETocs /\ st s = CONNECTED)) ->
  sync_run SyOpening o <> SyOpening.
Proof. exact pending_ends. Qed.
Print Assumptions C02_sync_open_returns.

Theorem C02_sync_close_returns : forall s, opening s = false ->
  exists s', step s EClose = Some (s', [Disconnected]) /\ sync_run SyClosing [Disconnected] = SyIdle.
Proof. exact sync_close_returns. Qed.
Print Assumptions C02_sync_close_returns.

(* Known finding F02c, witnessed on the implementation (corpus/C02): when the link error handler (driver
   thread) and the dispatcher thread overlap, the application can observe connected AFTER disconnected;
   connection_lost.  The grammar rejects exactly that trace — i.e. the non-atomic implementation is not a
   refinement of the atomic model at this point. *)
Theorem C02_overlapping_transitions_refuted :
  wf_trace [Requested; Established; Disconnected; Lost; Connected] = false.
Proof. reflexivity. Qed.
Print Assumptions C02_overlapping_transitions_refuted.

(* ---------------------------------------------------------------- locks
   Deadlock freedom under a lock-order discipline, at the level of states (threads with the locks they hold and
   the lock they want): if every hold-and-want pair respects one strict order on locks and finished threads
   hold nothing, no state is dead-locked.  The harness collects every hold-and-want pair of the real library
   from its DetSched runs and checks that they are acyclic (lockdep style); the one cycle found is known
   finding F02e, whose two states are shown dead-locked below. *)
Theorem C02_lock_order_implies_no_deadlock : forall s, well_formed s -> ordered s -> ~ deadlocked s.
Proof. exact ordered_not_deadlocked. Qed.
Print Assumptions C02_lock_order_implies_no_deadlock.

Theorem C02_send_lock_vs_mem_write_lock_refuted :
  (well_formed f02e_two_threads /\ deadlocked f02e_two_threads) /\
  (well_formed f02e_one_thread /\ deadlocked f02e_one_thread) /\ ~ ordered f02e_two_threads.
Proof. exact (conj f02e_two_threads_deadlocked (conj f02e_one_thread_deadlocked f02e_not_orderable)). Qed.
Print Assumptions C02_send_lock_vs_mem_write_lock_refuted.
