(* C02/SyncProofs.v — SyncCrazyflie never believes in an open link that is gone, and its close_link never blocks,
   whatever the application does from inside callbacks (code after fix F02k); refuted for the code before it. *)
From Coq Require Import List Bool Arith.
From CF Require Import C02.SyncModel.
Import ListNotations.

Definition jp (s : sst) : bool := implb (isopen s) (reg s).
Definition jfull (s : sst) : bool := implb (isopen s) (reg s && lnk s).
Definition ev_le (a b : option bool) : Prop :=
  match a, b with
  | None, None => True
  | Some x, Some y => x = true -> y = true
  | _, _ => False
  end.

Lemma ev_le_refl a : ev_le a a. Proof. destruct a; cbn; auto. Qed.
Lemma ev_le_trans a b c : ev_le a b -> ev_le b c -> ev_le a c.
Proof. destruct a, b, c; cbn; auto; tauto. Qed.
Lemma ev_le_set a : ev_le a (set_ev a). Proof. destruct a; cbn; auto. Qed.

Lemma handler_ev fx c s : ev_le (dev s) (dev (handler fx c s)) /\ ev_le (cev s) (cev (handler fx c s)).
Proof.
  destruct c; cbn; try (split; apply ev_le_refl).
  - destruct (fx && negb (reg s)); cbn; split; try apply ev_le_refl; apply ev_le_set.
  - split; [apply ev_le_refl|apply ev_le_set].
  - split; apply ev_le_set.
Qed.

(* ---- facts that hold for every delivery ---- *)
Lemma deliver_mono fuel fx pol : forall n c s s' n',
  deliver fuel fx pol n c s = Some (s', n') ->
  ev_le (dev s) (dev s') /\ ev_le (cev s) (cev s') /\
  (lnk s = false -> lnk s' = false) /\
  (reg s = false -> reg s' = false /\ isopen s' = isopen s).
Proof.
  induction fuel as [|f IH]; intros n c s s' n' H; cbn [deliver] in H; [discriminate|].
  unfold bind2 in H.
  assert (A : forall m t t' m', appf (deliver f fx pol) pol m c t = Some (t', m') ->
                ev_le (dev t) (dev t') /\ ev_le (cev t) (cev t') /\ (lnk t = false -> lnk t' = false) /\
                (reg t = false -> reg t' = false /\ isopen t' = isopen t)).
  { intros m t t' m' Ha. unfold appf in Ha. destruct (pol m c).
    - apply IH in Ha. cbn in Ha. destruct Ha as (a1 & a2 & a3 & a4). repeat split; auto; apply a4; assumption.
    - injection Ha as <- <-. repeat split; auto using ev_le_refl. }
  destruct (appf (deliver f fx pol) pol n c s) as [[s1 n1]|] eqn:H1; [|discriminate].
  apply A in H1. apply A in H. destruct H1 as (d1 & c1 & l1 & r1). destruct H as (d2 & c2 & l2 & r2).
  destruct (reg s) eqn:Er.
  - destruct (handler_ev fx c s1) as (hd & hc).
    repeat split.
    + eapply ev_le_trans; [exact d1|]. eapply ev_le_trans; [exact hd|exact d2].
    + eapply ev_le_trans; [exact c1|]. eapply ev_le_trans; [exact hc|exact c2].
    + intros L. apply l2. specialize (l1 L). destruct c; cbn; try exact l1. destruct (fx && negb (reg s1)); cbn; exact l1.
    + discriminate.
    + discriminate.
  - destruct (r1 eq_refl) as (ra & rb). destruct (r2 ra) as (rc & rd).
    repeat split.
    + eapply ev_le_trans; eassumption.
    + eapply ev_le_trans; eassumption.
    + intros L. auto.
    + exact rc.
    + congruence.
Qed.

(* ---- delivering disconnected: SyncCrazyflie ends closed and unregistered, its events are set ---- *)
Lemma deliver_disc fuel pol : forall n s s' n',
  jp s = true -> deliver fuel true pol n KDisconnected s = Some (s', n') ->
  isopen s' = false /\ reg s' = false /\
  (reg s = true -> forall b, dev s = Some b -> dev s' = Some true) /\
  (reg s = true -> forall b, cev s = Some b -> cev s' = Some true).
Proof.
  induction fuel as [|f IH]; intros n s s' n' J H; [discriminate|].
  destruct (reg s) eqn:Er.
  2:{ destruct (deliver_mono _ _ _ _ _ _ _ _ H) as (_ & _ & _ & R). destruct (R Er) as (ra & rb).
      unfold jp in J. rewrite Er in J. destruct (isopen s); [discriminate|].
      repeat split; auto; discriminate. }
  cbn [deliver] in H. unfold bind2 in H. rewrite Er in H.
  destruct (appf (deliver f true pol) pol n KDisconnected s) as [[s1 n1]|] eqn:H1; [|discriminate].
  (* state after SyncCrazyflie's own handler *)
  set (s2 := handler true KDisconnected s1) in *.
  assert (R2 : reg s2 = false) by reflexivity.
  assert (O2 : isopen s2 = false) by reflexivity.
  (* the application handler registered after it *)
  assert (F : isopen s' = false /\ reg s' = false /\ ev_le (dev s2) (dev s') /\ ev_le (cev s2) (cev s')).
  { unfold appf in H. destruct (pol n1 KDisconnected).
    - destruct (deliver_mono _ _ _ _ _ _ _ _ H) as (dd & cc & _ & R). cbn in R. destruct (R R2) as (ra & rb).
      repeat split; auto.
    - injection H as <- <-. repeat split; auto using ev_le_refl. }
  destruct F as (Fo & Fr & Fd & Fc).
  (* the application handler registered before it *)
  assert (B : ev_le (dev s) (dev s1) /\ ev_le (cev s) (cev s1)).
  { unfold appf in H1. destruct (pol n KDisconnected).
    - destruct (deliver_mono _ _ _ _ _ _ _ _ H1) as (dd & cc & _). cbn in dd, cc. auto.
    - injection H1 as <- <-. split; apply ev_le_refl. }
  destruct B as (Bd & Bc).
  repeat split; auto.
  - intros _ b Hb. rewrite Hb in Bd. destruct (dev s1) as [b1|] eqn:E1; [|contradiction].
    assert (E2 : dev s2 = Some true) by (unfold s2; cbn; rewrite E1; reflexivity).
    rewrite E2 in Fd. destruct (dev s'); [|contradiction]. cbn in Fd. rewrite Fd; reflexivity.
  - intros _ b Hb. rewrite Hb in Bc. destruct (cev s1) as [b1|] eqn:E1; [|contradiction].
    assert (E2 : cev s2 = Some true) by (unfold s2; cbn; rewrite E1; reflexivity).
    rewrite E2 in Fc. destruct (cev s'); [|contradiction]. cbn in Fc. rewrite Fc; reflexivity.
Qed.

Lemma jp_down s : jp (down s) = jp s. Proof. reflexivity. Qed.
Lemma jfull_jp s : jfull s = true -> jp s = true.
Proof. unfold jfull, jp. destruct (isopen s), (reg s); cbn; auto. Qed.
Lemma closed_jfull s : isopen s = false -> jfull s = true.
Proof. unfold jfull. intros ->. reflexivity. Qed.

(* an application handler (which may close the link) keeps the full invariant *)
Lemma appf_jfull f pol m c t t' m' :
  jfull t = true -> appf (deliver f true pol) pol m c t = Some (t', m') -> jfull t' = true.
Proof.
  intros J H. unfold appf in H. destruct (pol m c).
  - apply deliver_disc in H; [|rewrite jp_down; apply jfull_jp; exact J].
    apply closed_jfull. tauto.
  - injection H as <- <-. exact J.
Qed.

(* ... and from a state with the link down it leaves SyncCrazyflie closed if it was closed or gets closed *)
Lemma deliver_jfull fuel pol n c s s' n' :
  jfull s = true -> (c = KConnected -> lnk s = true) ->
  deliver fuel true pol n c s = Some (s', n') -> jfull s' = true.
Proof.
  destruct fuel as [|f]; intros J L H; [discriminate|].
  cbn [deliver] in H. unfold bind2 in H.
  destruct (appf (deliver f true pol) pol n c s) as [[s1 n1]|] eqn:H1; [|discriminate].
  pose proof (appf_jfull _ _ _ _ _ _ _ J H1) as J1.
  eapply appf_jfull; [|exact H].
  destruct (reg s) eqn:Er; [|exact J1].
  destruct c; cbn; try exact J1; try (apply closed_jfull; reflexivity); try reflexivity.
  (* KConnected *)
  destruct (reg s1) eqn:Er1; cbn; [|exact J1].
  unfold jfull. cbn. rewrite ?Er1. cbn.
  (* the link is still up: no close happened before SyncCrazyflie's handler, otherwise it would be unregistered *)
  unfold appf in H1. destruct (pol n KConnected).
  - apply deliver_disc in H1; [|rewrite jp_down; apply jfull_jp; exact J]. destruct H1 as (_ & R & _). congruence.
  - injection H1 as <- <-. rewrite (L eq_refl). reflexivity.
Qed.

(* delivering disconnected or connection_failed after the link went down *)
Lemma deliver_down_closed fuel pol n c s s' n' :
  jp s = true -> (c = KDisconnected \/ c = KFailed) ->
  deliver fuel true pol n c s = Some (s', n') -> isopen s' = false.
Proof.
  intros J [->| ->] H.
  - apply deliver_disc in H; tauto.
  - destruct fuel as [|f]; [discriminate|]. cbn [deliver] in H. unfold bind2 in H.
    destruct (appf (deliver f true pol) pol n KFailed s) as [[s1 n1]|] eqn:H1; [|discriminate].
    assert (O1 : reg s = false -> isopen s1 = false).
    { intros Er. unfold appf in H1. destruct (pol n KFailed).
      - apply deliver_disc in H1; [tauto|rewrite jp_down; exact J].
      - injection H1 as <- <-. unfold jp in J. rewrite Er in J. destruct (isopen s); [discriminate|reflexivity]. }
    set (s2 := if reg s then handler true KFailed s1 else s1) in *.
    assert (O2 : isopen s2 = false) by (unfold s2; destruct (reg s); [reflexivity|auto]).
    unfold appf in H. destruct (pol n1 KFailed).
    + apply deliver_disc in H; [tauto|]. rewrite jp_down. unfold jp. rewrite O2. reflexivity.
    + injection H as <- <-. exact O2.
Qed.

Definition quiet (s : sst) : Prop := jfull s = true /\ dev s = None.

Lemma dev_none_kept fuel fx pol n c s s' n' :
  deliver fuel fx pol n c s = Some (s', n') -> dev s = None -> dev s' = None.
Proof.
  intros H E. destruct (deliver_mono _ _ _ _ _ _ _ _ H) as (D & _). rewrite E in D. destruct (dev s'); [contradiction|reflexivity].
Qed.

(* MAIN 1: at every quiescent point, for every sequence of SyncCrazyflie calls and Crazyflie transitions and every
   application policy: _is_link_open implies the link exists and SyncCrazyflie's handlers are registered. *)
Theorem sync_invariant_step fuel pol n s o s' n' :
  quiet s -> sstep fuel true pol n s o = Some (s', n') -> quiet s'.
Proof.
  intros (J & D) H. destruct o as [| | |o]; cbn [sstep] in H.
  - destruct (isopen s) eqn:E; [discriminate|]. injection H as <- <-. split; [apply closed_jfull; reflexivity|exact D].
  - destruct (cev s) as [[]|]; try discriminate. destruct (isopen s) eqn:E; injection H as <- <-.
    + split; [|exact D]. unfold jfull in *. cbn. rewrite E in J. exact J.
    + split; [apply closed_jfull; reflexivity|exact D].
  - destruct (isopen s) eqn:E.
    + unfold bind2 in H.
      match type of H with context [deliver ?a ?b ?c ?d ?e ?t] => destruct (deliver a b c d e t) as [[s1 n1]|] eqn:H1; [|discriminate] end.
      destruct (dev s1) as [[]|] eqn:E1; try discriminate. injection H as <- <-.
      apply deliver_disc in H1.
      * split; [apply closed_jfull; cbn; tauto|reflexivity].
      * apply jfull_jp in J. unfold jp in *. cbn. rewrite E in J. exact J.
    + injection H as <- <-. split; assumption.
  - destruct o; cbn [cfstep] in H.
    + destruct (lnk s) eqn:E; [discriminate|]. injection H as <- <-. split; [|exact D].
      unfold jfull in *. cbn. destruct (isopen s); [|reflexivity]. rewrite E, andb_false_r in J. discriminate.
    + destruct (lnk s) eqn:E; [|discriminate]. split; [|eapply dev_none_kept; eassumption].
      eapply deliver_jfull; [exact J| |exact H]. auto.
    + split; [|eapply dev_none_kept; eassumption]. eapply deliver_jfull; [exact J| |exact H]. discriminate.
    + split; [|eapply dev_none_kept; [exact H|exact D]]. apply closed_jfull.
      eapply deliver_down_closed; [|left; reflexivity|exact H]. rewrite jp_down. apply jfull_jp; exact J.
    + unfold bind2 in H.
      match type of H with context [deliver ?a ?b ?c ?d ?e ?t] => destruct (deliver a b c d e t) as [[s1 n1]|] eqn:H1; [|discriminate] end.
      assert (O1 : isopen s1 = false).
      { eapply deliver_down_closed; [|left; reflexivity|exact H1]. rewrite jp_down. apply jfull_jp; exact J. }
      split; [|eapply dev_none_kept; [exact H|]; eapply dev_none_kept; [exact H1|exact D]].
      eapply deliver_jfull; [apply closed_jfull; exact O1| |exact H]. discriminate.
    + split; [|eapply dev_none_kept; [exact H|exact D]]. apply closed_jfull.
      eapply deliver_down_closed; [|right; reflexivity|exact H]. rewrite jp_down. apply jfull_jp; exact J.
Qed.

Fixpoint srun fuel fx pol (n : nat) (s : sst) (ops : list sop) : option (sst * nat) :=
  match ops with
  | [] => Some (s, n)
  | o :: ops' => bind2 (sstep fuel fx pol n s o) (fun s1 n1 => srun fuel fx pol n1 s1 ops')
  end.

Theorem sync_invariant fuel pol : forall ops n s s' n',
  quiet s -> srun fuel true pol n s ops = Some (s', n') -> quiet s'.
Proof.
  induction ops as [|o ops IH]; intros n s s' n' Q H; cbn [srun] in H.
  - injection H as <- <-. exact Q.
  - unfold bind2 in H. destruct (sstep fuel true pol n s o) as [[s1 n1]|] eqn:H1; [|discriminate].
    eapply IH; [|exact H]. eapply sync_invariant_step; eassumption.
Qed.

Lemma quiet_init : quiet sinit. Proof. split; reflexivity. Qed.

(* MAIN 2: SyncCrazyflie.close_link returns: whenever the delivery of disconnected it triggers terminates (the
   application does not nest close_link calls without end), the event it waits for has been set. *)
Theorem sync_close_returns fuel pol n s s1 n1 :
  quiet s -> isopen s = true ->
  deliver fuel true pol n KDisconnected (down (mkS (lnk s) (reg s) (isopen s) (cev s) (Some false))) = Some (s1, n1) ->
  dev s1 = Some true /\ isopen s1 = false /\ reg s1 = false.
Proof.
  intros (J & D) O H.
  assert (R : reg s = true).
  { unfold jfull in J. rewrite O in J. cbn in J. destruct (reg s); [reflexivity|discriminate]. }
  apply deliver_disc in H.
  - destruct H as (a & b & c & _). split; [|split; assumption]. apply (c R false). reflexivity.
  - unfold jp. cbn. rewrite R. destruct (isopen s); reflexivity.
Qed.

Corollary sync_close_never_blocks fuel pol n s :
  quiet s -> sstep fuel true pol n s SCloseCall = None ->
  isopen s = true /\
  deliver fuel true pol n KDisconnected (down (mkS (lnk s) (reg s) (isopen s) (cev s) (Some false))) = None.
Proof.
  intros Q H. cbn [sstep] in H. destruct (isopen s) eqn:O; [|discriminate]. split; [reflexivity|].
  unfold bind2 in H.
  match type of H with context [deliver ?a ?b ?c ?d ?e ?t] => destruct (deliver a b c d e t) as [[s1 n1]|] eqn:H1; [|reflexivity] end.
  pose proof (sync_close_returns fuel pol n s s1 n1 Q O) as X. rewrite O in X. destruct (X H1) as (E & _).
  rewrite E in H. discriminate.
Qed.

(* MAIN 3: a blocked SyncCrazyflie.open_link is woken by connected, connection_failed and disconnected *)
Theorem sync_open_woken_by fx c s b :
  cev s = Some b -> (c = KFailed \/ c = KDisconnected \/ (c = KConnected /\ reg s = true)) ->
  cev (handler fx c s) = Some true.
Proof.
  intros E [->|[->|[-> R]]]; cbn; rewrite ?R, ?andb_false_r; cbn; rewrite ?E; reflexivity.
Qed.

(* the code before fix F02k: an application handler registered before SyncCrazyflie's closes the link inside
   connected; SyncCrazyflie ends up "open" on a dead link, unregistered, and its close_link blocks for ever *)
Definition closes_in_first_connected : apol := fun n c => match n, c with O, KConnected => true | _, _ => false end.

Theorem sync_unfixed_refuted :
  exists s n, srun 4 false closes_in_first_connected 0 sinit [SOpenBegin; Cf OLinkUp; Cf OConnected; SOpenWake] = Some (s, n) /\
    isopen s = true /\ lnk s = false /\ reg s = false /\
    sstep 4 false closes_in_first_connected n s SCloseCall = None /\
    deliver 4 false closes_in_first_connected n KDisconnected
            (down (mkS (lnk s) (reg s) (isopen s) (cev s) (Some false))) <> None.
Proof. eexists. eexists. split; [vm_compute; reflexivity|]. repeat split; vm_compute; discriminate. Qed.

(* the same history on the code after the fix: open_link raises (handlers removed), close_link returns at once *)
Example sync_fixed_same_history :
  exists s n, srun 4 true closes_in_first_connected 0 sinit [SOpenBegin; Cf OLinkUp; Cf OConnected; SOpenWake] = Some (s, n) /\
    isopen s = false /\ reg s = false /\ sstep 4 true closes_in_first_connected n s SCloseCall = Some (s, n).
Proof. eexists. eexists. split; [vm_compute; reflexivity|]. repeat split. Qed.
