(* C02/SyncModel.v — SyncCrazyflie's bookkeeping against Crazyflie's callback delivery, with application handlers
   that may close the link from inside a callback.

   cflib.utils.callbacks.Caller.call iterates over a COPY of the handler list: a handler removed while the call is
   in progress is still invoked.  SyncCrazyflie registers _connected / _connection_failed / _disconnected in
   open_link and removes them in _disconnected (and after a failed open).  An application handler registered
   before or after SyncCrazyflie's may call close_link from inside the callback; close_link delivers disconnected
   (a nested Caller.call with its own copy).

   State: the link, whether SyncCrazyflie's handlers are registered, its _is_link_open flag and its two events.
   fx = true is the code after fix F02k (_connected ignores the call when its registration is gone). *)
From Coq Require Import List Bool Arith.
Import ListNotations.

Inductive scb := KConnected | KFailed | KDisconnected | KLost | KOther.

Record sst := mkS {
  lnk : bool;            (* Crazyflie.link is not None *)
  reg : bool;            (* SyncCrazyflie's handlers are registered on the Crazyflie *)
  isopen : bool;         (* SyncCrazyflie._is_link_open *)
  cev : option bool;     (* _connect_event: None = no event object, Some b = object exists, b = it is set *)
  dev : option bool;     (* _disconnect_event *)
}.

Definition set_ev (e : option bool) : option bool := match e with Some _ => Some true | None => None end.

(* SyncCrazyflie's handler for callback c *)
Definition handler (fx : bool) (c : scb) (s : sst) : sst :=
  match c with
  | KConnected => if fx && negb (reg s) then s
                  else mkS (lnk s) (reg s) true (set_ev (cev s)) (dev s)
  | KFailed => mkS (lnk s) (reg s) false (set_ev (cev s)) (dev s)
  | KDisconnected => mkS (lnk s) false false (set_ev (cev s)) (set_ev (dev s))
  | KLost | KOther => s
  end.

(* application policy: close the link inside the n-th application handler invocation? *)
Definition apol := nat -> scb -> bool.

(* one Caller.call: [application handler registered before] ; SyncCrazyflie's (if registered when the call started)
   ; [application handler registered after].  close_link from an application handler: link := None, then a nested
   delivery of disconnected. *)
Definition down (s : sst) : sst := mkS false (reg s) (isopen s) (cev s) (dev s).

Definition bind2 (r : option (sst * nat)) (k : sst -> nat -> option (sst * nat)) :=
  match r with Some (s, n) => k s n | None => None end.

Definition appf (rec : nat -> scb -> sst -> option (sst * nat)) (pol : apol) (n : nat) (c : scb) (s : sst) :=
  if pol n c then rec (S n) KDisconnected (down s) else Some (s, S n).

Fixpoint deliver (fuel : nat) (fx : bool) (pol : apol) (n : nat) (c : scb) (s : sst) : option (sst * nat) :=
  match fuel with
  | O => None
  | S f =>
      bind2 (appf (deliver f fx pol) pol n c s) (fun s1 n1 =>
        appf (deliver f fx pol) pol n1 c (if reg s then handler fx c s1 else s1))
  end.

(* what Crazyflie does at top level (the lifecycle model says when each is possible); each delivers callbacks *)
Inductive cfop :=
| OLinkUp                (* open_link installed a link (no callback of interest) *)
| OConnected             (* _param_toc_updated_cb: only while the link is up *)
| OOther                 (* link_established / fully_connected: no SyncCrazyflie handler of interest *)
| OClose                 (* close_link *)
| OErrLost               (* _link_error_cb in state CONNECTED: disconnected ; connection_lost *)
| OErrFailed.            (* _link_error_cb in state INITIALIZED, or open_link without driver: connection_failed *)

Definition cfstep fuel fx pol n (s : sst) (o : cfop) : option (sst * nat) :=
  match o with
  | OLinkUp => if lnk s then None else Some (mkS true (reg s) (isopen s) (cev s) (dev s), n)
  | OConnected => if lnk s then deliver fuel fx pol n KConnected s else None
  | OOther => deliver fuel fx pol n KOther s
  | OClose => deliver fuel fx pol n KDisconnected (down s)
  | OErrLost => bind2 (deliver fuel fx pol n KDisconnected (down s)) (fun s1 n1 => deliver fuel fx pol n1 KLost s1)
  | OErrFailed => deliver fuel fx pol n KFailed (down s)
  end.

(* SyncCrazyflie's own calls.  A blocking wait is modelled by its two halves. *)
Inductive sop :=
| SOpenBegin             (* open_link up to the wait: raises when already open *)
| SOpenWake              (* the wait returns (possible only when the event is set) *)
| SCloseCall             (* close_link: everything up to and including the wait; None = it would block for ever *)
| Cf (o : cfop).

Definition sstep fuel fx pol n (s : sst) (o : sop) : option (sst * nat) :=
  match o with
  | SOpenBegin => if isopen s then None else Some (mkS (lnk s) true (isopen s) (Some false) (dev s), n)
  | SOpenWake =>
      match cev s with
      | Some true => if isopen s then Some (mkS (lnk s) (reg s) true None (dev s), n)
                     else Some (mkS (lnk s) false false None (dev s), n)      (* raises, handlers removed *)
      | _ => None
      end
  | SCloseCall =>
      if isopen s then
        bind2 (deliver fuel fx pol n KDisconnected (down (mkS (lnk s) (reg s) (isopen s) (cev s) (Some false))))
              (fun s1 n1 => match dev s1 with
                            | Some true => Some (mkS (lnk s1) (reg s1) (isopen s1) (cev s1) None, n1)
                            | _ => None          (* the disconnect event is never set: close_link blocks for ever *)
                            end)
      else Some (s, n)
  | Cf o => cfstep fuel fx pol n s o
  end.

Definition sinit : sst := mkS false false false None None.

(* the invariant of the quiescent states *)
Definition sinv (s : sst) : bool :=
  implb (isopen s) (reg s && lnk s) && match dev s with None => true | Some _ => false end.
