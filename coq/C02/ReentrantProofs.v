(* C02/ReentrantProofs.v — the callback grammar holds for every event list and EVERY application policy of
   closing the link from inside callbacks (any nesting depth), for the code after fix F02j; it fails before it.
   Method: a nested close_link, however deep, has one effect on the state (link gone, state DISCONNECTED) and
   delivers a non-empty run of disconnected callbacks, which the grammar automaton cannot tell from a single
   one; so every transition is simulated by a "collapsed" transition with one choice bit per callback, and the
   collapsed transitions are checked by complete enumeration inside the kernel. *)
From CF Require Import C02.Model C02.Proofs C02.Reentrant.
Open Scope Z_scope.

Lemma closed_set_link s : set_st (closed (set_link s false)) DISCONNECTED = closed s.
Proof. destruct s; reflexivity. Qed.

Lemma call_spec fuel pol : forall n s c s' o n',
  call fuel pol n s c = Some (s', o, n') ->
  (pol n c = false /\ s' = s /\ o = [c]) \/
  (pol n c = true /\ s' = closed s /\ exists k, o = c :: repeat Disconnected (S k)).
Proof.
  induction fuel as [|f IH]; intros n s c s' o n' H; cbn [call] in H; [discriminate|].
  destruct (pol n c) eqn:Hp.
  - destruct (call f pol (S n) (set_link s false) Disconnected) as [[[s1 o1] n1]|] eqn:Hc; [|discriminate].
    injection H as <- <- <-. right. split; [reflexivity|].
    destruct (IH _ _ _ _ _ _ Hc) as [(_ & -> & ->)|(_ & -> & k & ->)].
    + split; [reflexivity|]. exists O. reflexivity.
    + split; [apply closed_set_link|]. exists (S k). reflexivity.
  - injection H as <- <- <-. left. auto.
Qed.

(* ---- the grammar automaton does not distinguish one disconnected from several ---- *)
Lemma astep_disc_idem a a1 : astep a Disconnected = Some a1 -> astep a1 Disconnected = Some a1.
Proof. destruct a; cbn; intros [= <-]; reflexivity. Qed.

Lemma astep_disc_total a : exists a1, astep a Disconnected = Some a1.
Proof. destruct a; cbn; eauto. Qed.

Lemma arun_repeat_disc k : forall a, arun a (repeat Disconnected (S k)) = arun a [Disconnected].
Proof.
  induction k as [|k IH]; intros a; [reflexivity|].
  change (repeat Disconnected (S (S k))) with (Disconnected :: repeat Disconnected (S k)).
  cbn [arun]. destruct (astep_disc_total a) as (a1 & Ha). rewrite Ha.
  rewrite IH. cbn [arun]. rewrite (astep_disc_idem _ _ Ha). reflexivity.
Qed.

Definition aequiv (o o0 : list cb) : Prop := forall a, arun a o = arun a o0.

Lemma aequiv_refl o : aequiv o o. Proof. intros a; reflexivity. Qed.

Lemma aequiv_cons_repeat c k : aequiv (c :: repeat Disconnected (S k)) [c; Disconnected].
Proof. intros a. cbn [arun]. destruct (astep a c); [apply arun_repeat_disc|reflexivity]. Qed.

Lemma aequiv_app o1 o1' o2 o2' : aequiv o1 o1' -> aequiv o2 o2' -> aequiv (o1 ++ o2) (o1' ++ o2').
Proof. intros H1 H2 a. rewrite !arun_app, H1. destruct (arun a o1'); [apply H2|reflexivity]. Qed.

(* ---- collapsed delivery: one choice bit per callback of the transition ---- *)
Definition ccallf (bs : list bool) (n : nat) (s : state) (c : cb) : option (state * list cb * nat) :=
  Some (if nth n bs false then (closed s, [c; Disconnected], S n) else (s, [c], S n)).

Definition cstep (fx : bool) (bs : list bool) (s : state) (e : event) := gstep (ccallf bs) fx O s e.

(* one real delivery is simulated by a collapsed one *)
Lemma call_collapse fuel pol n s c s' o n' m :
  call fuel pol n s c = Some (s', o, n') ->
  exists o0, aequiv o o0 /\ forall bs, nth m bs false = pol n c -> ccallf bs m s c = Some (s', o0, S m).
Proof.
  intros H. destruct (call_spec _ _ _ _ _ _ _ _ H) as [(Hp & -> & ->)|(Hp & -> & k & ->)].
  - exists [c]. split; [apply aequiv_refl|]. intros bs Hb. unfold ccallf. rewrite Hb, Hp. reflexivity.
  - exists [c; Disconnected]. split; [apply aequiv_cons_repeat|]. intros bs Hb. unfold ccallf. rewrite Hb, Hp. reflexivity.
Qed.

Ltac one_call H Hc :=
  match type of H with
  | context [call ?f ?p ?n ?s ?c] =>
      destruct (call f p n s c) as [[[?s1 ?o1] ?n1]|] eqn:Hc; [|discriminate]; cbn [bind1] in H
  end.

(* every real transition is simulated by a collapsed one with the same final state and a grammar-equivalent
   output; the first bit is the policy's answer at the first callback of the transition *)
Lemma rstep_collapse fx fuel pol n s e s' o n' :
  rstep fx fuel pol n s e = Some (s', o, n') ->
  exists bs o0 m, cstep fx bs s e = Some (s', o0, m) /\ aequiv o o0 /\
                  (e = EOpenBegin -> nth 0 bs false = pol n Requested).
Proof.
  unfold rstep, cstep. intros H.
  destruct e as [|ok| | | | |]; cbn [gstep gclose] in H |- *.
  - (* EOpenBegin *)
    destruct (link s || opening s); [discriminate|]. try unfold bind1 in H.
    one_call H Hc. injection H as <- <- <-.
    destruct (call_collapse _ _ _ _ _ _ _ _ O Hc) as (o0 & He & Hb).
    exists [pol n Requested], o0, 1%nat. rewrite Hb by reflexivity. cbn [bind1]. auto.
  - (* EOpenEnd *)
    destruct (negb (opening s)); [discriminate|].
    destruct (st s), ok; try discriminate;
      try (injection H as <- <- <-; exists [], [], O; split; [reflexivity|split; [apply aequiv_refl|discriminate]]).
    destruct (call_collapse _ _ _ _ _ _ _ _ O H) as (o0 & He & Hb).
    exists [pol n Failed], o0, 1%nat. rewrite Hb by reflexivity. split; [reflexivity|split; [exact He|discriminate]].
  - (* EPacket *)
    destruct (link s && initcb s).
    + try unfold bind1 in H. one_call H Hc. injection H as <- <- <-.
      destruct (call_collapse _ _ _ _ _ _ _ _ O Hc) as (o0 & He & Hb).
      exists [pol n Established], o0, 1%nat. rewrite Hb by reflexivity. cbn [bind1]. split; [reflexivity|split; [exact He|discriminate]].
    + injection H as <- <- <-. exists [], [], O. split; [reflexivity|split; [apply aequiv_refl|discriminate]].
  - (* ETocs *)
    destruct (link s), (st s), (stg s);
      try (injection H as <- <- <-; exists [], [], O; split; [reflexivity|split; [apply aequiv_refl|discriminate]]).
    try unfold bind1 in H. one_call H Hc.
    destruct (call_collapse _ _ _ _ _ _ _ _ O Hc) as (o0 & He & Hb).
    destruct (link s1) eqn:Hl.
    + injection H as <- <- <-. exists [pol n Connected], o0, 1%nat. rewrite Hb by reflexivity. cbn [bind1]. rewrite Hl.
      split; [reflexivity|split; [exact He|discriminate]].
    + destruct fx.
      * injection H as <- <- <-. exists [pol n Connected], o0, 1%nat. rewrite Hb by reflexivity. cbn [bind1]. rewrite Hl.
        split; [reflexivity|split; [exact He|discriminate]].
      * try unfold bind1 in H.
        match type of H with context [call ?f ?p ?nn ?ss ?cc] =>
          destruct (call f p nn ss cc) as [[[s2 o2] n2]|] eqn:Hc2; [|discriminate] end.
        injection H as <- <- <-.
        destruct (call_collapse _ _ _ _ _ _ _ _ 1%nat Hc2) as (o3 & He3 & Hb3).
        exists [pol n Connected; pol n1 Fully], (o0 ++ o3), 2%nat.
        rewrite Hb by reflexivity. cbn [bind1]. rewrite Hl. rewrite Hb3 by reflexivity. cbn [bind1].
        split; [reflexivity|split; [apply aequiv_app; assumption|discriminate]].
  - (* EParams *)
    destruct (link s), (st s), (stg s);
      try (injection H as <- <- <-; exists [], [], O; split; [reflexivity|split; [apply aequiv_refl|discriminate]]).
    destruct (call_collapse _ _ _ _ _ _ _ _ O H) as (o0 & He & Hb).
    exists [pol n Fully], o0, 1%nat. rewrite Hb by reflexivity. split; [reflexivity|split; [exact He|discriminate]].
  - (* ELinkErr *)
    destruct (st s), (link s || opening s); try discriminate.
    + try unfold bind1 in H. one_call H Hc. injection H as <- <- <-.
      destruct (call_collapse _ _ _ _ _ _ _ _ O Hc) as (o0 & He & Hb).
      exists [pol n DiscLinkErr], o0, 1%nat. rewrite Hb by reflexivity. cbn [bind1]. split; [reflexivity|split; [exact He|discriminate]].
    + try unfold bind1 in H. one_call H Hc. injection H as <- <- <-.
      destruct (call_collapse _ _ _ _ _ _ _ _ O Hc) as (o0 & He & Hb).
      exists [pol n DiscLinkErr], o0, 1%nat. rewrite Hb by reflexivity. cbn [bind1]. split; [reflexivity|split; [exact He|discriminate]].
    + try unfold bind1 in H. one_call H Hc. injection H as <- <- <-.
      destruct (call_collapse _ _ _ _ _ _ _ _ O Hc) as (o0 & He & Hb).
      exists [pol n Failed], o0, 1%nat. rewrite Hb by reflexivity. cbn [bind1]. split; [reflexivity|split; [exact He|discriminate]].
    + try unfold bind1 in H. one_call H Hc. try unfold bind1 in H.
      match type of H with context [call ?f ?p ?nn ?ss ?cc] =>
        destruct (call f p nn ss cc) as [[[s2 o2] n2]|] eqn:Hc2; [|discriminate] end.
      injection H as <- <- <-.
      destruct (call_collapse _ _ _ _ _ _ _ _ O Hc) as (o0 & He & Hb).
      destruct (call_collapse _ _ _ _ _ _ _ _ 1%nat Hc2) as (o3 & He3 & Hb3).
      exists [pol n Disconnected; pol n1 Lost], (o0 ++ o3), 2%nat.
      rewrite Hb by reflexivity. cbn [bind1]. rewrite Hb3 by reflexivity. cbn [bind1].
      split; [reflexivity|split; [apply aequiv_app; assumption|discriminate]].
    + try unfold bind1 in H. one_call H Hc. try unfold bind1 in H.
      match type of H with context [call ?f ?p ?nn ?ss ?cc] =>
        destruct (call f p nn ss cc) as [[[s2 o2] n2]|] eqn:Hc2; [|discriminate] end.
      injection H as <- <- <-.
      destruct (call_collapse _ _ _ _ _ _ _ _ O Hc) as (o0 & He & Hb).
      destruct (call_collapse _ _ _ _ _ _ _ _ 1%nat Hc2) as (o3 & He3 & Hb3).
      exists [pol n Disconnected; pol n1 Lost], (o0 ++ o3), 2%nat.
      rewrite Hb by reflexivity. cbn [bind1]. rewrite Hb3 by reflexivity. cbn [bind1].
      split; [reflexivity|split; [apply aequiv_app; assumption|discriminate]].
  - (* EClose *)
    destruct (opening s); [discriminate|]. unfold gclose in H |- *. try unfold bind1 in H. one_call H Hc. injection H as <- <- <-.
    destruct (call_collapse _ _ _ _ _ _ _ _ O Hc) as (o0 & He & Hb).
    exists [pol n Disconnected], o0, 1%nat. rewrite Hb by reflexivity. cbn [bind1]. split; [reflexivity|split; [exact He|discriminate]].
Qed.

(* ---- complete enumeration of the collapsed transitions (code after fix F02j) ----
   the relation between model state and grammar state of Proofs.v, except that "disconnected" may be observed
   while open_link is still inside the driver's connect() (a link error reported during connect(), then a
   close_link from inside the connection_failed callback) *)
Definition rel2 (s : state) (a : astate) : bool :=
  match a with
  | ADf | AD => cst_eqb (st s) DISCONNECTED && negb (link s)
  | _ => rel s a
  end.

Definition is_open_begin (e : event) : bool := match e with EOpenBegin => true | _ => false end.

Definition cstep_ok (s : state) (a : astate) (e : event) (b1 b2 : bool) : bool :=
  negb (rel2 s a) || (is_open_begin e && b1) ||
  match cstep true [b1; b2] s e with
  | None => true
  | Some (s', o, _) => match arun a o with Some a' => rel2 s' a' | None => false end
  end.

Lemma cstep_ok_all :
  forallb (fun s => forallb (fun a => forallb (fun e => forallb (fun b1 => forallb (cstep_ok s a e b1) all_bool) all_bool)
                                       all_events) all_astates) all_states = true.
Proof. vm_compute. reflexivity. Qed.

Lemma all_bool_complete b : In b all_bool.
Proof. destruct b; vm_compute; tauto. Qed.

Lemma cstep_rel s a e b1 b2 s' o m :
  rel2 s a = true -> (e = EOpenBegin -> b1 = false) -> cstep true [b1; b2] s e = Some (s', o, m) ->
  exists a', arun a o = Some a' /\ rel2 s' a' = true.
Proof.
  intros Hr Hb Hs. pose proof cstep_ok_all as H.
  rewrite forallb_forall in H. specialize (H s (all_states_complete s)).
  rewrite forallb_forall in H. specialize (H a (all_astates_complete a)).
  rewrite forallb_forall in H. specialize (H e (all_events_complete e)).
  rewrite forallb_forall in H. specialize (H b1 (all_bool_complete b1)).
  rewrite forallb_forall in H. specialize (H b2 (all_bool_complete b2)).
  unfold cstep_ok in H. rewrite Hr, Hs in H. cbn [negb orb] in H.
  assert (Hob : is_open_begin e && b1 = false).
  { destruct e; try reflexivity. rewrite (Hb eq_refl). reflexivity. }
  rewrite Hob in H. cbn [orb] in H.
  destruct (arun a o) as [a'|]; [|discriminate]. exists a'. split; [reflexivity|exact H].
Qed.

(* the collapsed transition only looks at the first two choice bits *)
Lemma ccallf_two bs n s c : (n < 2)%nat -> ccallf bs n s c = ccallf [nth 0 bs false; nth 1 bs false] n s c.
Proof. intros Hn. unfold ccallf. destruct n as [|[|n]]; [reflexivity|reflexivity|]. exfalso. inversion Hn as [|? H1]. inversion H1 as [|? H2]. inversion H2. Qed.

Lemma cstep_two fx bs s e : cstep fx bs s e = cstep fx [nth 0 bs false; nth 1 bs false] s e.
Proof.
  unfold cstep. destruct e as [|ok| | | | |]; cbn [gstep gclose]; unfold gclose;
    repeat rewrite (ccallf_two bs 0) by auto; try reflexivity.
  - destruct (link s), (st s), (stg s); try reflexivity.
    unfold ccallf at 1 3. cbn [nth]. destruct (nth 0 bs false); cbn [bind1];
      match goal with |- context [link ?x] => destruct (link x) end; try reflexivity;
      destruct fx; try reflexivity; rewrite (ccallf_two bs 1) by auto; reflexivity.
  - destruct (st s), (link s || opening s); try reflexivity;
      unfold ccallf at 1 3; cbn [nth]; destruct (nth 0 bs false); cbn [bind1];
      rewrite (ccallf_two bs 1) by auto; reflexivity.
Qed.

Lemma rstep_rel fuel pol n s a e s' o n' :
  (forall m, pol m Requested = false) ->
  rel2 s a = true -> rstep true fuel pol n s e = Some (s', o, n') ->
  exists a', arun a o = Some a' /\ rel2 s' a' = true.
Proof.
  intros Hp Hr Hs.
  destruct (rstep_collapse _ _ _ _ _ _ _ _ _ Hs) as (bs & o0 & m & Hc & He & Hb).
  rewrite cstep_two in Hc.
  assert (Hb1 : e = EOpenBegin -> nth 0 bs false = false) by (intros E; rewrite (Hb E); apply Hp).
  destruct (cstep_rel s a e _ _ s' o0 m Hr Hb1 Hc) as (a' & Ha & Hr').
  exists a'. split; [rewrite He; exact Ha|exact Hr'].
Qed.

Lemma rrun_rel fuel pol : (forall m, pol m Requested = false) ->
  forall evs n s a s' o n', rel2 s a = true -> rrun true fuel pol n s evs = Some (s', o, n') ->
  exists a', arun a o = Some a' /\ rel2 s' a' = true.
Proof.
  intros Hp. induction evs as [|e evs IH]; intros n s a s' o n' Hr Hrun; cbn [rrun] in Hrun.
  - injection Hrun as <- <- <-. exists a. split; [reflexivity|exact Hr].
  - destruct (rstep true fuel pol n s e) as [[[s1 o1] n1]|] eqn:Hs; [|discriminate]. cbn [bind1] in Hrun.
    destruct (rrun true fuel pol n1 s1 evs) as [[[s2 o2] n2]|] eqn:Hr2; [|discriminate]. cbn [bind1] in Hrun.
    injection Hrun as <- <- <-.
    destruct (rstep_rel _ _ _ _ _ _ _ _ _ Hp Hr Hs) as (a1 & Ha1 & Hr1).
    destruct (IH _ _ _ _ _ _ Hr1 Hr2) as (a2 & Ha2 & Hr2').
    exists a2. split; [|exact Hr2']. rewrite arun_app, Ha1. exact Ha2.
Qed.

(* MAIN: for every event list, every policy of closing the link from inside callbacks (other than
   connection_requested, see DESIGN: known finding F02l) and every nesting depth, the callbacks the application
   observes follow the per-attempt grammar — in particular no link_established / connected / fully_connected
   after the attempt's first disconnected. *)
Theorem reentrant_trace_grammar fuel pol evs s o n :
  (forall m, pol m Requested = false) ->
  rrun true fuel pol 0 init evs = Some (s, o, n) -> wf_trace o = true.
Proof.
  intros Hp H. destruct (rrun_rel fuel pol Hp evs 0%nat init A0 s o n eq_refl H) as (a & Ha & _).
  unfold wf_trace. now rewrite Ha.
Qed.

(* before fix F02j the grammar fails: close_link inside the connected callback, fully_connected follows *)
Theorem reentrant_unfixed_refuted :
  exists pol evs s o n, (forall m, pol m Requested = false) /\
    rrun false 8 pol 0 init evs = Some (s, o, n) /\ wf_trace o = false /\
    o = [Requested; Established; Connected; Disconnected; Fully].
Proof.
  exists (fun n c => match c with Connected => true | _ => false end), [EOpenBegin; EOpenEnd true; EPacket; ETocs].
  eexists. eexists. eexists. split; [reflexivity|].
  split; [vm_compute; reflexivity|]. split; reflexivity.
Qed.

(* closing inside connection_requested: the attempt goes on after the disconnected (known finding F02l) *)
Theorem reentrant_close_inside_requested_refuted :
  exists evs s o n, rrun true 8 (pol_at [0%nat]) 0 init evs = Some (s, o, n) /\ wf_trace o = false /\
    o = [Requested; Disconnected; Established].
Proof. exists [EOpenBegin; EOpenEnd true; EPacket]. eexists. eexists. eexists. split; [vm_compute; reflexivity|]. split; reflexivity. Qed.

(* a (nested or not) close_link delivers disconnected first and leaves the object closed, whatever the
   application does inside *)
Theorem reentrant_close_effect fuel pol n s s' o n' :
  opening s = false -> rstep true fuel pol n s EClose = Some (s', o, n') ->
  s' = closed s /\ exists k, o = repeat Disconnected (S k).
Proof.
  intros Ho H. unfold rstep in H. cbn [gstep] in H. rewrite Ho in H. unfold gclose, bind1 in H.
  destruct (call fuel pol n (set_link s false) Disconnected) as [[[s1 o1] n1]|] eqn:Hc; [|discriminate].
  injection H as <- <- <-.
  destruct (call_spec _ _ _ _ _ _ _ _ Hc) as [(_ & -> & ->)|(_ & -> & k & ->)].
  - split; [reflexivity|]. exists O. reflexivity.
  - split; [apply closed_set_link|]. exists (S k). reflexivity.
Qed.

(* without re-entrant closes the re-entrant semantics is the atomic model of Model.v *)
Definition nopol : policy := fun _ _ => false.

Lemma rstep_atomic fx f n s e :
  match rstep fx (S f) nopol n s e, step s e with
  | Some (s1, o1, _), Some (s2, o2) => s1 = s2 /\ o1 = o2
  | None, None => True
  | _, _ => False
  end.
Proof.
  destruct s as [[] [] [] [] []]; destruct e as [|[]| | | | |]; destruct fx; cbn; auto.
Qed.

Theorem rrun_atomic fx f : forall evs n s,
  match rrun fx (S f) nopol n s evs, run s evs with
  | Some (s1, o1, _), Some (s2, o2) => s1 = s2 /\ o1 = o2
  | None, None => True
  | _, _ => False
  end.
Proof.
  induction evs as [|e evs IH]; intros n s; cbn [rrun run]; [auto|].
  pose proof (rstep_atomic fx f n s e) as H.
  destruct (rstep fx (S f) nopol n s e) as [[[s1 o1] n1]|], (step s e) as [[s2 o2]|]; try contradiction; cbn [bind1]; [|exact I].
  destruct H as [-> ->]. specialize (IH n1 s2).
  destruct (rrun fx (S f) nopol n1 s2 evs) as [[[s3 o3] n3]|], (run s2 evs) as [[s4 o4]|]; try contradiction; cbn [bind1]; [|exact I].
  destruct IH as [-> ->]. auto.
Qed.
