(* C05/Model.v — executable model of the log subsystem of cflib:
     cflib/crazyflie/log.py   LogVariable, LogConfig (add_variable, add_memory, create, _setup_log_elements,
                              start, stop, delete, unpack_log_data, added/started setters),
                              Log (add_config, refresh_toc, _new_packet_cb, _find_block)
     cflib/crazyflie/toc.py   Toc.get_element_id / get_element_by_id / get_element_by_complete_name
     cflib/crazyflie/syncLogger.py  SyncLogger (connect, disconnect, __next__, callbacks)
   Definitions only.  Constants and the type table come from Gen_Consts.v, which the harness regenerates
   from the source on every run.  The model follows what the code DOES (exceptions included); add_config
   is modelled WITH the repair fixes/F05b.patch (default-typed names are resolved once) and
   SyncLogger.connect WITH fixes/F05d.patch (a session starts with an empty queue), and the reset
   acknowledgement WITH fixes/F05c.patch (flags of the blocks of the previous session are cleared).
   Tie: harness/props/c05.py runs the real classes on a fake Crazyflie and compares every observation. *)
Require Export CF.Common.Bytes.
Require Export CF.C05.Gen_Consts.
Open Scope Z_scope.

(* Python exceptions that can escape the modelled methods.  OutOfFuel is a model artefact of the
   `while not is_done` loop of create(); Proofs.v shows it is never produced. *)
Inductive exn := KeyError | AttributeError | TypeError | ValueError | IndexError | StructError | OutOfFuel.

Inductive res (A : Type) : Type := Ok (a : A) | Err (e : exn).
Arguments Ok {A} a.
Arguments Err {A} e.

(* ------------------------------------------------------------------ type table (LogTocElement.types) *)
Fixpoint assoc {A : Type} (k : Z) (l : list (Z * A)) : option A :=
  match l with
  | [] => None
  | (k', a) :: r => if k =? k' then Some a else assoc k r
  end.

Definition ty_info (t : Z) : option (Z * Z * Z) := assoc t g_types.
Definition ty_size (t : Z) : option Z := match ty_info t with Some (_, _, s) => Some s | None => None end.
Definition ty_known (t : Z) : bool := match ty_info t with Some _ => true | None => false end.

(* ------------------------------------------------------------------ LogVariable *)
Record var := mkVar {
  v_toc : bool;        (* type == TOC_TYPE (false: raw memory, add_memory) *)
  v_name : Z;          (* the name, as a number (the harness maps numbers to 'group.name' strings) *)
  v_fetch : Z;         (* fetch_as  (type id) *)
  v_stored : Z;        (* stored_as (type id) *)
  v_addr : Z }.

(* get_storage_and_fetch_byte *)
Definition type_byte (v : var) : Z := Z.lor (v_fetch v) (Z.shiftl (v_stored v) 4).

(* ------------------------------------------------------------------ Toc *)
Record tentry := mkT { t_name : Z; t_ident : Z; t_ctype : Z }.
(* the elements in the iteration order of Toc.get_element_by_id (groups, then names, insertion order) *)
Definition toc := list tentry.

Definition toc_by_name (tc : toc) (n : Z) : option tentry := find (fun e => t_name e =? n) tc.
(* get_element_id: the ident, or None *)
Definition toc_element_id (tc : toc) (n : Z) : option Z :=
  match toc_by_name tc n with Some e => Some (t_ident e) | None => None end.
Definition toc_by_id (tc : toc) (i : Z) : option tentry := find (fun e => t_ident e =? i) tc.
(* get_element_by_complete_name = get_element_by_id (get_element_id name) *)
Definition toc_by_complete_name (tc : toc) (n : Z) : option tentry :=
  match toc_element_id tc n with Some i => toc_by_id tc i | None => None end.

(* ------------------------------------------------------------------ LogConfig *)
Record cfg := mkCfg {
  c_period : Z;        (* int(period_in_ms / 10) *)
  c_id : Z;
  c_cf : bool;         (* self.cf is not None *)
  c_v2 : bool;         (* useV2 *)
  c_added : bool;
  c_started : bool;
  c_pending : Z;       (* False = 0, then incremented by create() *)
  c_valid : bool;
  c_errno : Z;
  c_vars : list var;
  c_dfa : list Z }.    (* default_fetch_as *)

Definition new_cfg_p (p : Z) : cfg := mkCfg p 0 false false false false 0 false 0 [] [].
(* integer period_in_ms: int(ms / 10) truncates towards zero *)
Definition new_cfg (ms : Z) : cfg := new_cfg_p (Z.quot ms 10).

(* period_in_ms given as the exact rational a/b (b > 0): an int (b = 1) or a float (its as_integer_ratio).
   LogConfig.__init__ computes int(period_in_ms / 10): the quotient is ROUNDED to binary64 (nearest, ties to
   even; normal range), then truncated towards zero.  fperiod follows that: e.g. 29.999999999 -> 2, 30.0 -> 3. *)
Definition fperiod (a b : Z) : Z :=
  if (b <=? 0) || (a =? 0) then 0
  else
    let A := Z.abs a in
    let B := 10 * b in
    let e0 := Z.log2 A - Z.log2 B - 52 in
    let quo (e : Z) : Z * Z := if 0 <=? e then (A, B * 2 ^ e) else (A * 2 ^ (- e), B) in
    let e := if (fst (quo e0) / snd (quo e0)) <? 2 ^ 52 then e0 - 1 else e0 in
    let n := fst (quo e) in
    let d := snd (quo e) in
    let m := n / d in
    let r := n - m * d in
    let m' := if 2 * r >? d then m + 1 else if 2 * r =? d then (if Z.odd m then m + 1 else m) else m in
    let t := if 0 <=? e then m' * 2 ^ e else m' / 2 ^ (- e) in
    if a <? 0 then - t else t.

Definition set_vars (c : cfg) (vs : list var) : cfg :=
  mkCfg (c_period c) (c_id c) (c_cf c) (c_v2 c) (c_added c) (c_started c) (c_pending c) (c_valid c) (c_errno c) vs (c_dfa c).
Definition set_dfa (c : cfg) (d : list Z) : cfg :=
  mkCfg (c_period c) (c_id c) (c_cf c) (c_v2 c) (c_added c) (c_started c) (c_pending c) (c_valid c) (c_errno c) (c_vars c) d.
Definition set_valid (c : cfg) (b : bool) : cfg :=
  mkCfg (c_period c) (c_id c) (c_cf c) (c_v2 c) (c_added c) (c_started c) (c_pending c) b (c_errno c) (c_vars c) (c_dfa c).
Definition set_accept (c : cfg) (id : Z) (v2 : bool) : cfg :=
  mkCfg (c_period c) id true v2 (c_added c) (c_started c) (c_pending c) true (c_errno c) (c_vars c) (c_dfa c).
Definition set_added (c : cfg) (b : bool) : cfg :=
  mkCfg (c_period c) (c_id c) (c_cf c) (c_v2 c) b (c_started c) (c_pending c) (c_valid c) (c_errno c) (c_vars c) (c_dfa c).
Definition set_started (c : cfg) (b : bool) : cfg :=
  mkCfg (c_period c) (c_id c) (c_cf c) (c_v2 c) (c_added c) b (c_pending c) (c_valid c) (c_errno c) (c_vars c) (c_dfa c).
Definition set_pending (c : cfg) (p : Z) : cfg :=
  mkCfg (c_period c) (c_id c) (c_cf c) (c_v2 c) (c_added c) (c_started c) p (c_valid c) (c_errno c) (c_vars c) (c_dfa c).
Definition set_errno (c : cfg) (e : Z) : cfg :=
  mkCfg (c_period c) (c_id c) (c_cf c) (c_v2 c) (c_added c) (c_started c) (c_pending c) (c_valid c) e (c_vars c) (c_dfa c).

(* ------------------------------------------------------------------ observations *)
Inductive obs :=
| OWire (port chan : Z) (data : list Z) (expect : list Z)   (* cf.send_packet(pk, expected_reply=expect) *)
| OCb (kind : Z) (h : nat) (args : list Z)                   (* a Caller of config h (or of Log) fired *)
| OData (h : nat) (ts : Z) (vals : list (Z * (Z * Z))).      (* data_received_cb(ts, {name: value}, config h);
                                                                a value = (fetch type id, integer or float bit pattern) *)

(* callback kinds *)
Definition cb_block_added : Z := 1.   (* Log.block_added_cb(config) *)
Definition cb_added : Z := 2.         (* config.added_cb(config, flag)      args = [flag] *)
Definition cb_added_err : Z := 3.     (* config.added_cb(False)             (create refused) *)
Definition cb_started : Z := 4.       (* config.started_cb(config, flag)    args = [flag] *)
Definition cb_started_err : Z := 5.   (* config.started_cb(log, False)      (start refused) *)
Definition cb_error : Z := 6.         (* config.error_cb(config, msg)       args = [errno of msg] *)

Definition b2z (b : bool) : Z := if b then 1 else 0.

(* ------------------------------------------------------------------ Log.add_config: validation *)

(* resolution of default_fetch_as (first phase of the repaired loop): None = a name is not in the TOC *)
Fixpoint resolve_dfa (tc : toc) (names : list Z) : option (list var) :=
  match names with
  | [] => Some []
  | n :: r =>
      match toc_by_complete_name tc n with
      | None => None
      | Some e => match resolve_dfa tc r with
                  | None => None
                  | Some vs => Some (mkVar true n (t_ctype e) (t_ctype e) 0 :: vs)
                  end
      end
  end.

(* the size/TOC loop of add_config *)
Inductive chk := ChkOk (size : Z) | ChkBadType | ChkNoName | ChkNoToc.
(* ChkBadType: get_size_from_id raises KeyError (valid is left alone); ChkNoName: a TOC variable is
   not in the TOC (valid := False, KeyError); ChkNoToc: Log.toc is None at the first TOC lookup
   (AttributeError) *)
Fixpoint check_vars (otc : option toc) (vs : list var) (size : Z) : chk :=
  match vs with
  | [] => ChkOk size
  | v :: r =>
      match ty_size (v_fetch v) with
      | None => ChkBadType
      | Some s =>
          if v_toc v then
            match otc with
            | None => ChkNoToc
            | Some tc =>
                match toc_by_complete_name tc (v_name v) with
                | None => ChkNoName
                | Some _ => check_vars otc r (size + s)
                end
            end
          else check_vars otc r (size + s)
      end
  end.

Definition period_ok (p : Z) : bool := (0 <? p) && (p <? 255).

(* ------------------------------------------------------------------ LogConfig._setup_log_elements *)
(* One call: fills packet `pk` with the variables `vs` (= self.variables[next_to_add:]).
   Result: (is_done, variables still to add (first one = index returned), packet) or the exception. *)
Definition in_byte (z : Z) : bool := (0 <=? z) && (z <? 256).

Fixpoint setup_elems (v2 : bool) (otc : option toc) (pk : list Z) (vs : list var)
  : res (bool * list var * list Z) :=
  match vs with
  | [] => Ok (true, [], pk)
  | v :: r =>
      if negb (v_toc v) then Err TypeError            (* bytearray.append(struct.pack(...)) : F05a *)
      else
        match otc with
        | None => Err AttributeError                  (* self.cf.log.toc is None *)
        | Some tc =>
            let oid := toc_element_id tc (v_name v) in
            if negb (in_byte (type_byte v)) then Err ValueError
            else
              let pk1 := pk ++ [type_byte v] in
              if v2 then
                if g_max_data - Z.of_nat (length pk1) >=? 2 then
                  match oid with
                  | None => Err TypeError             (* None & 0xff *)
                  | Some i => setup_elems v2 otc (pk1 ++ [Z.land i 255; Z.land (Z.shiftr i 8) 255]) r
                  end
                else Ok (false, vs, pk1)              (* packet is full: the type byte stays in it *)
              else
                match oid with
                | None => Err TypeError               (* bytearray.append(None) *)
                | Some i => if in_byte i then setup_elems v2 otc (pk1 ++ [i]) r else Err ValueError
                end
        end
  end.

(* the `while not is_done` loop of create(): sends one packet per round *)
Fixpoint create_loop (fuel : nat) (v2 : bool) (otc : option toc) (id cmd : Z) (vs : list var)
  : list obs * option exn :=
  match fuel with
  | O => ([], Some OutOfFuel)
  | S f =>
      match setup_elems v2 otc [cmd; id] vs with
      | Err e => ([], Some e)
      | Ok (done, rest, pk) =>
          let o := OWire 5 g_chan_settings pk [cmd; id] in
          if done then ([o], None)
          else let '(os, e) := create_loop f v2 otc id (if v2 then g_cmd_append_v2 else g_cmd_append) rest in
               (o :: os, e)
      end
  end.

Definition create_cmd (v2 : bool) : Z := if v2 then g_cmd_create_v2 else g_cmd_create.

(* the packets create() sends for variables vs (fuel: one round per variable plus one) *)
Definition create_msgs (v2 : bool) (otc : option toc) (id : Z) (vs : list var) : list obs * option exn :=
  create_loop (S (length vs)) v2 otc id (create_cmd v2) vs.

(* ------------------------------------------------------------------ LogConfig.unpack_log_data *)
Definition decode_val (kind : Z) (bs : list Z) : Z :=
  if kind =? 1 then le_signed_val bs else le_val bs.   (* floats: the bit pattern *)

(* ret_data[name] = value *)
Fixpoint dict_set {A : Type} (d : list (Z * A)) (k : Z) (v : A) : list (Z * A) :=
  match d with
  | [] => [(k, v)]
  | (k', v') :: r => if k' =? k then (k', v) :: r else (k', v') :: dict_set r k v
  end.

Fixpoint unpack_vars (vs : list var) (data : list Z) (d : list (Z * (Z * Z))) : res (list (Z * (Z * Z))) :=
  match vs with
  | [] => Ok d
  | v :: r =>
      match ty_info (v_fetch v) with
      | None => Err KeyError
      | Some (kind, fsize, size) =>
          let chunk := firstn (Z.to_nat size) data in
          if Z.of_nat (length chunk) =? fsize
          then unpack_vars r (skipn (Z.to_nat size) data) (dict_set d (v_name v) (v_fetch v, decode_val kind chunk))
          else Err StructError
      end
  end.

(* ------------------------------------------------------------------ Log *)
Record st := mkSt {
  s_cfgs : list cfg;          (* every LogConfig object ever created, by handle *)
  s_blocks : list nat;        (* Log.log_blocks, as handles (the same object may occur twice) *)
  s_counter : Z;              (* _config_id_counter *)
  s_v2 : bool;                (* protocol version >= 4 (Log._useV2 after refresh_toc) *)
  s_toc : option toc;         (* Log.toc (None until the reset is acknowledged) *)
  s_link : bool;              (* cf.link is not None *)
  s_rp : bool }.              (* Log._toc_refresh_pending: refresh_toc was called, its reset not yet acknowledged,
                                 the link not lost since *)

Definition init_st : st := mkSt [] [] 1 false None false false.

Definition dummy_cfg : cfg := new_cfg 0.
Definition get (s : st) (h : nat) : cfg := nth h (s_cfgs s) dummy_cfg.
Definition valid_h (s : st) (h : nat) : bool := Nat.ltb h (length (s_cfgs s)).

Fixpoint upd_nth (l : list cfg) (h : nat) (c : cfg) : list cfg :=
  match l, h with
  | [], _ => []
  | _ :: r, O => c :: r
  | x :: r, S h' => x :: upd_nth r h' c
  end.

Definition put (s : st) (h : nat) (c : cfg) : st :=
  mkSt (upd_nth (s_cfgs s) h c) (s_blocks s) (s_counter s) (s_v2 s) (s_toc s) (s_link s) (s_rp s).
Definition set_blocks (s : st) (b : list nat) : st :=
  mkSt (s_cfgs s) b (s_counter s) (s_v2 s) (s_toc s) (s_link s) (s_rp s).
Definition set_counter (s : st) (c : Z) : st :=
  mkSt (s_cfgs s) (s_blocks s) c (s_v2 s) (s_toc s) (s_link s) (s_rp s).
Definition set_toc (s : st) (t : option toc) : st :=
  mkSt (s_cfgs s) (s_blocks s) (s_counter s) (s_v2 s) t (s_link s) (s_rp s).
Definition set_link (s : st) (l : bool) : st :=
  mkSt (s_cfgs s) (s_blocks s) (s_counter s) (s_v2 s) (s_toc s) l (s_rp s).
Definition set_rp (s : st) (r : bool) : st :=
  mkSt (s_cfgs s) (s_blocks s) (s_counter s) (s_v2 s) (s_toc s) (s_link s) r.
Definition set_v2 (s : st) (v : bool) : st :=
  mkSt (s_cfgs s) (s_blocks s) (s_counter s) v (s_toc s) (s_link s) (s_rp s).

Definition step_result : Type := st * list obs * option exn.

(* outcome classes of add_config *)
Inductive add_outcome := AccNotConnected | AccAccepted | AccRejected (e : exn).

(* Log.add_config(config h), with fixes/F05b.patch *)
Definition add_config (s : st) (h : nat) : st * list obs * add_outcome :=
  if negb (s_link s) then (s, [], AccNotConnected)
  else
    let c := get s h in
    (* phase 1: resolve the default-typed names *)
    let r1 : res cfg :=
      match c_dfa c with
      | [] => Ok c
      | _ :: _ =>
          match s_toc s with
          | None => Err AttributeError
          | Some tc => match resolve_dfa tc (c_dfa c) with
                       | None => Err KeyError
                       | Some vs => Ok (set_dfa (set_vars c (c_vars c ++ vs)) [])
                       end
          end
      end in
    match r1 with
    | Err AttributeError => (s, [], AccRejected AttributeError)          (* nothing assigned yet *)
    | Err e => (put s h (set_valid c false), [], AccRejected e)
    | Ok c1 =>
        match check_vars (s_toc s) (c_vars c1) 0 with
        | ChkNoToc => (put s h c1, [], AccRejected AttributeError)
        | ChkBadType => (put s h c1, [], AccRejected KeyError)
        | ChkNoName => (put s h (set_valid c1 false), [], AccRejected KeyError)
        | ChkOk size =>
            if (size <=? g_max_len) && period_ok (c_period c1) then
              let c2 := set_accept c1 (s_counter s) (s_v2 s) in
              let s1 := put s h c2 in
              let s2 := set_counter s1 ((s_counter s + 1) mod 255) in
              (set_blocks s2 (s_blocks s ++ [h]), [OCb cb_block_added h []], AccAccepted)
            else (put s h (set_valid c1 false), [], AccRejected AttributeError)
        end
    end.

(* LogConfig.create() *)
Definition block_busy (c : cfg) : bool := negb (c_pending c =? 0) || c_added c || c_started c.

Definition busy_blocks (s : st) : list cfg := filter block_busy (map (get s) (s_blocks s)).
Definition busy_vars (s : st) : Z :=
  fold_right (fun c a => Z.of_nat (length (c_vars c)) + a) 0 (busy_blocks s).

Definition create_guard (s : st) (c : cfg) : bool :=
  (Z.of_nat (length (busy_blocks s)) <? g_max_blocks) &&
  negb (busy_vars s + Z.of_nat (length (c_vars c)) >? g_max_vars).

Definition create (s : st) (h : nat) : step_result :=
  let c := get s h in
  if negb (c_cf c) then (s, [], Some AttributeError)          (* self.cf is None *)
  else if negb (create_guard s c) then (s, [], Some AttributeError)
  else
    let s1 := put s h (set_pending c (c_pending c + 1)) in
    let '(os, e) := create_msgs (c_v2 c) (s_toc s) (c_id c) (c_vars c) in
    (s1, os, e).

Definition start (s : st) (h : nat) : step_result :=
  let c := get s h in
  if negb (c_cf c) then (s, [], Some AttributeError)
  else if negb (s_link s) then (s, [], None)
  else if negb (c_added c) then create s h
  else (s, [OWire 5 g_chan_settings [g_cmd_start; c_id c; c_period c] [g_cmd_start; c_id c]], None).

Definition stop_or_delete (cmd : Z) (s : st) (h : nat) : step_result :=
  let c := get s h in
  if negb (c_cf c) then (s, [], Some AttributeError)
  else if negb (s_link s) then (s, [], None)
  else (s, [OWire 5 g_chan_settings [cmd; c_id c] [cmd; c_id c]], None).

(* Log._find_block *)
Definition find_block (s : st) (id : Z) : option nat :=
  find (fun h => c_id (get s h) =? id) (s_blocks s).

(* property setters `added` / `started`: fire the Caller when the value changes *)
Definition assign_added (s : st) (h : nat) (b : bool) : st * list obs :=
  let c := get s h in
  (put s h (set_added c b), if Bool.eqb b (c_added c) then [] else [OCb cb_added h [b2z b]]).
Definition assign_started (s : st) (h : nat) (b : bool) : st * list obs :=
  let c := get s h in
  (put s h (set_started c b), if Bool.eqb b (c_started c) then [] else [OCb cb_started h [b2z b]]).

Definition err_known (e : Z) : bool := existsb (Z.eqb e) g_err_codes.

(* the reset of the log system was acknowledged (fixes/F05c.patch): every configuration of log_blocks is
   neither started nor added nor pending any more (callbacks fire for the changes) *)
Fixpoint forget_blocks (s : st) (bl : list nat) : st * list obs :=
  match bl with
  | [] => (s, [])
  | h :: r =>
      let '(s1, o1) := assign_started s h false in
      let '(s2, o2) := assign_added s1 h false in
      let s3 := put s2 h (set_pending (get s2 h) 0) in
      let '(s4, o4) := forget_blocks s3 r in
      (s4, o1 ++ o2 ++ o4)
  end.

(* channel CHAN_SETTINGS of Log._new_packet_cb *)
Definition on_settings (s : st) (cmd id status : Z) : step_result :=
  let ob := find_block s id in
  if (cmd =? g_cmd_create) || (cmd =? g_cmd_create_v2) then
    match ob with
    | None => (s, [], None)
    | Some h =>
        let c := get s h in
        if (status =? 0) || (status =? g_eexist) then
          if negb (c_added c) then
            let w := OWire 5 g_chan_settings [g_cmd_start; id; c_period c] [g_cmd_start; id] in
            let '(s1, o1) := assign_added s h true in
            (put s1 h (set_pending (get s1 h) 0), w :: o1, None)
          else (s, [], None)
        else if err_known status then
          (put s h (set_errno c status), [OCb cb_added_err h [0]; OCb cb_error h [status]], None)
        else (s, [], Some KeyError)
    end
  else if cmd =? g_cmd_start then
    if status =? 0 then
      match ob with
      | Some h => let '(s1, o1) := assign_started s h true in (s1, o1, None)
      | None => (s, [], None)
      end
    else if err_known status then
      match ob with
      | Some h => (put s h (set_errno (get s h) status), [OCb cb_started_err h [0]], None)
      | None => (s, [], None)
      end
    else (s, [], Some KeyError)
  else if cmd =? g_cmd_stop then
    if status =? 0 then
      match ob with
      | Some h => let '(s1, o1) := assign_started s h false in (s1, o1, None)
      | None => (s, [], None)
      end
    else (s, [], None)
  else if cmd =? g_cmd_delete then
    if (status =? 0) || (status =? g_enoent) then
      match ob with
      | Some h =>
          let '(s1, o1) := assign_started s h false in
          let '(s2, o2) := assign_added s1 h false in
          (s2, o1 ++ o2, None)
      | None => (s, [], None)
      end
    else (s, [], None)
  else if cmd =? g_cmd_reset then
    match (if s_rp s then s_toc s else Some []) with      (* not self.toc and self._toc_refresh_pending *)
    | None =>
        (* log_blocks = []; toc = Toc(); TocFetcher(...).start() asks for the TOC info *)
        let ti := if s_v2 s then g_toc_info_v2 else g_toc_info in
        let '(s1, o1) := forget_blocks s (s_blocks s) in
        (set_rp (set_toc (set_blocks s1 []) (Some [])) false, o1 ++ [OWire 5 g_chan_toc [ti] [ti]], None)
    | Some _ => (s, [], None)
    end
  else (s, [], None).

(* channel CHAN_LOGDATA *)
Definition on_logdata (s : st) (data : list Z) : step_result :=
  match data with
  | id :: b0 :: b1 :: b2 :: logdata =>
      let ts := Z.lor (Z.lor b0 (Z.shiftl b1 8)) (Z.shiftl b2 16) in
      match find_block s id with
      | None => (s, [], None)
      | Some h =>
          match unpack_vars (c_vars (get s h)) logdata [] with
          | Ok d => (s, [OData h ts d], None)
          | Err e => (s, [], Some e)
          end
      end
  | _ => (s, [], Some StructError)      (* struct.unpack('<BBB', data[1:4]) on fewer than 3 bytes *)
  end.

(* Log._new_packet_cb (packet on port 5, channel chan, payload data) *)
Definition on_packet (s : st) (chan : Z) (data : list Z) : step_result :=
  match data with
  | [] => (s, [], Some IndexError)                     (* cmd = packet.data[0] *)
  | cmd :: payload =>
      if chan =? g_chan_settings then
        match payload with
        | id :: status :: _ => on_settings s cmd id status
        | _ => (s, [], Some IndexError)
        end
      else if chan =? g_chan_logdata then on_logdata s data
      else (s, [], None)
  end.

(* ------------------------------------------------------------------ histories *)
Inductive ev :=
| ENew (num den : Z)                              (* LogConfig(name, period_in_ms = num/den): handle = number of
                                                     configs so far; an int period has den = 1 *)
| EAddVar (h : nat) (name ty : Z)                 (* add_variable(name, type); ty = 0: no fetch_as given *)
| EAddMem (h : nat) (name fetch stored addr : Z)  (* add_memory *)
| EAddConfig (h : nat)                            (* Log.add_config *)
| ECreate (h : nat) | EStart (h : nat) | EStop (h : nat) | EDelete (h : nat)
| EPacket (chan : Z) (data : list Z)              (* incoming packet on the logging port *)
| ELinkDown                                       (* cf.link = None *)
| ERefresh (v2 : bool)                            (* link up, platform version set, Log.refresh_toc *)
| ESetToc (tc : toc).                             (* the TOC download completes with this table *)

Definition add_outcome_exn (a : add_outcome) : option exn :=
  match a with AccRejected e => Some e | _ => None end.

Definition step (s : st) (e : ev) : step_result :=
  match e with
  | ENew num den =>
      (mkSt (s_cfgs s ++ [new_cfg_p (fperiod num den)]) (s_blocks s) (s_counter s) (s_v2 s) (s_toc s) (s_link s) (s_rp s), [], None)
  | EAddVar h n ty =>
      if negb (valid_h s h) then (s, [], None)
      else
        let c := get s h in
        if ty =? 0 then (put s h (set_dfa c (c_dfa c ++ [n])), [], None)
        else if ty_known ty then (put s h (set_vars c (c_vars c ++ [mkVar true n ty ty 0])), [], None)
        else (s, [], Some KeyError)
  | EAddMem h n f sd a =>
      if negb (valid_h s h) then (s, [], None)
      else if ty_known f && ty_known sd
      then let c := get s h in (put s h (set_vars c (c_vars c ++ [mkVar false n f sd a])), [], None)
      else (s, [], Some KeyError)
  | EAddConfig h =>
      if negb (valid_h s h) then (s, [], None)
      else let '(s1, o, a) := add_config s h in (s1, o, add_outcome_exn a)
  | ECreate h => if negb (valid_h s h) then (s, [], None) else create s h
  | EStart h => if negb (valid_h s h) then (s, [], None) else start s h
  | EStop h => if negb (valid_h s h) then (s, [], None) else stop_or_delete g_cmd_stop s h
  | EDelete h => if negb (valid_h s h) then (s, [], None) else stop_or_delete g_cmd_delete s h
  | EPacket chan data => on_packet s chan data
  | ELinkDown => (set_rp (set_link s false) false, [], None)       (* cf.disconnected fires: Log._disconnected *)
  | ERefresh v2 =>
      (set_rp (set_toc (set_v2 (set_link s true) v2) None) true,
       [OWire 5 g_chan_settings [g_cmd_reset] [g_cmd_reset]], None)
  | ESetToc tc => (set_toc s (Some tc), [], None)
  end.

(* a history; every event's observations and exception are recorded *)
Fixpoint run (s : st) (evs : list ev) : st * list (list obs * option exn) :=
  match evs with
  | [] => (s, [])
  | e :: r => let '(s1, o, x) := step s e in
              let '(s2, tr) := run s1 r in (s2, (o, x) :: tr)
  end.

Definition final (s : st) (evs : list ev) : st := fst (run s evs).

(* ------------------------------------------------------------------ SyncLogger *)
(* queue items: a decoded sample (numbered by the harness) or DISCONNECT_EVENT *)
Inductive qitem := QSample (k : Z) | QDisc.

Record sl := mkSl { sl_conn : bool; sl_queue : list qitem }.
Definition sl_init : sl := mkSl false [].

Inductive sl_ev :=
| SConnect            (* connect(): the data callback is registered *)
| SSample (k : Z)     (* the log block decoded sample k and fired data_received_cb *)
| SNext               (* the consumer calls next() *)
| SLinkLost           (* cf.disconnected fires (_disconnected) *)
| SDisconnect.        (* disconnect() / leaving the with-block *)

Inductive sl_obs := YSample (k : Z) | YStop | YBlocked | YNone | YRaise.

Definition sl_step (s : sl) (e : sl_ev) : sl * sl_obs :=
  match e with
  | SConnect =>
      (* with fixes/F05d.patch: what a previous session left in the queue is dropped *)
      if sl_conn s then (s, YRaise) else (mkSl true [], YNone)
  | SSample k =>
      (* the callback is registered only between connect and disconnect *)
      if sl_conn s then (mkSl true (sl_queue s ++ [QSample k]), YNone) else (s, YNone)
  | SNext =>
      if negb (sl_conn s) then (s, YStop)
      else match sl_queue s with
           | [] => (s, YBlocked)                       (* queue.get() blocks *)
           | QSample k :: q => (mkSl true q, YSample k)
           | QDisc :: q => (mkSl true q, YStop)
           end
  | SLinkLost =>
      (* _disconnected is registered only while connected: disconnect(), then put the marker *)
      if sl_conn s then (mkSl false (sl_queue s ++ [QDisc]), YNone) else (s, YNone)
  | SDisconnect => (mkSl false (sl_queue s), YNone)
  end.

Fixpoint sl_run (s : sl) (evs : list sl_ev) : sl * list sl_obs :=
  match evs with
  | [] => (s, [])
  | e :: r => let '(s1, o) := sl_step s e in let '(s2, os) := sl_run s1 r in (s2, o :: os)
  end.
