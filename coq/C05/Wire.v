(* C05/Wire.v — the value contract of a sent packet (self-contained).
   The link keeps the packet OBJECT it was given (RadioDriver queues it; Crazyflie._start_answer_timer keeps
   it for the resend) and reads header and data only when the radio transmits, any number of sends later.
   Objects = cells of a heap; a send enqueues a reference and the command is what the cell holds at that
   moment; a transmission (or a resend) reads the cell then.  Theorem: if no cell is written while a
   reference to it is queued (in particular: every send allocates a fresh packet, as LogConfig.create() does
   for every create/append message), then for EVERY schedule of transmissions what is transmitted is what
   was commanded, in order.  Refutation: one packet object re-filled per message (seeded/C05-j). *)
Require Import CF.Common.Bytes.
Open Scope Z_scope.

Inductive wop :=
| WNew (d : list Z)              (* pk = CRTPPacket(); ... pk.data complete *)
| WSet (i : nat) (d : list Z)    (* pk.data = ... on an existing object *)
| WSend (i : nat)                (* cf.send_packet(pk): the link queues the reference *)
| WTx                            (* the radio transmits the oldest queued packet: reads it now *)
| WResend (i : nat).             (* the answer timer fires: the kept object is sent again (read now) *)

Record wst := mkW {
  w_heap : list (list Z);
  w_queue : list nat;            (* references waiting for transmission *)
  w_cmd : list (list Z);         (* what the caller commanded: contents at send time, in order *)
  w_out : list (list Z);         (* what went on the air *)
  w_kept : list (nat * list Z);  (* objects the resend timer holds, with what was commanded *)
  w_resent : list (list Z * list Z) }.   (* (commanded, actually resent) *)

Definition w_init : wst := mkW [] [] [] [] [] [].

Definition rd (h : list (list Z)) (i : nat) : list Z := nth i h [].

Fixpoint set_nth {A} (l : list A) (i : nat) (x : A) : list A :=
  match l, i with
  | [], _ => []
  | _ :: r, O => x :: r
  | y :: r, S j => y :: set_nth r j x
  end.

Definition w_step (s : wst) (o : wop) : wst :=
  match o with
  | WNew d => mkW (w_heap s ++ [d]) (w_queue s) (w_cmd s) (w_out s) (w_kept s) (w_resent s)
  | WSet i d => mkW (set_nth (w_heap s) i d) (w_queue s) (w_cmd s) (w_out s) (w_kept s) (w_resent s)
  | WSend i =>
      if Nat.ltb i (length (w_heap s))
      then mkW (w_heap s) (w_queue s ++ [i]) (w_cmd s ++ [rd (w_heap s) i]) (w_out s)
               (w_kept s ++ [(i, rd (w_heap s) i)]) (w_resent s)
      else s
  | WTx =>
      match w_queue s with
      | i :: q => mkW (w_heap s) q (w_cmd s) (w_out s ++ [rd (w_heap s) i]) (w_kept s) (w_resent s)
      | [] => s
      end
  | WResend i =>
      match find (fun p => Nat.eqb (fst p) i) (w_kept s) with
      | Some (_, c) => mkW (w_heap s) (w_queue s) (w_cmd s) (w_out s) (w_kept s) (w_resent s ++ [(c, rd (w_heap s) i)])
      | None => s
      end
  end.

Definition w_run (s : wst) (ops : list wop) : wst := fold_left w_step ops s.

(* the discipline: no write to an object that the link still holds (queued, or kept for a resend) *)
Definition held (s : wst) (i : nat) : bool :=
  existsb (Nat.eqb i) (w_queue s) || existsb (fun p => Nat.eqb i (fst p)) (w_kept s).

Fixpoint disciplined (s : wst) (ops : list wop) : bool :=
  match ops with
  | [] => true
  | o :: r => (match o with WSet i _ => negb (held s i) | _ => true end) && disciplined (w_step s o) r
  end.

(* invariant: everything the link holds still contains what was commanded *)
Definition w_inv (s : wst) : Prop :=
  w_out s ++ map (rd (w_heap s)) (w_queue s) = w_cmd s /\
  Forall (fun i => (i < length (w_heap s))%nat) (w_queue s) /\
  Forall (fun p => (fst p < length (w_heap s))%nat /\ rd (w_heap s) (fst p) = snd p) (w_kept s) /\
  Forall (fun p => fst p = snd p) (w_resent s).

Lemma rd_app h d i : (i < length h)%nat -> rd (h ++ [d]) i = rd h i.
Proof. intros H. unfold rd. now apply app_nth1. Qed.

Lemma set_nth_length {A} (l : list A) i x : length (set_nth l i x) = length l.
Proof. revert i; induction l as [|y l IH]; intros [|i]; cbn; auto. Qed.

Lemma rd_set_other h i j d : i <> j -> rd (set_nth h j d) i = rd h i.
Proof.
  unfold rd. revert i j; induction h as [|y h IH]; intros [|i] [|j] H; cbn; auto; try congruence.
Qed.

Lemma w_step_inv s o : w_inv s -> (match o with WSet i _ => held s i = false | _ => True end) -> w_inv (w_step s o).
Proof.
  intros (I1 & I2 & I3 & I4) Hd. destruct o; cbn [w_step].
  - (* WNew *) repeat split; cbn [w_out w_heap w_queue w_cmd w_kept w_resent]; auto.
    + rewrite <- I1. f_equal. apply map_ext_in. intros i Hi. rewrite Forall_forall in I2. apply rd_app. auto.
    + eapply Forall_impl; [|exact I2]. intros i Hi. cbn beta in *. rewrite app_length. cbn [length]. lia.
    + eapply Forall_impl; [|exact I3]. intros p [A B]. cbn beta. rewrite app_length. cbn [length]. split; [lia|]. rewrite rd_app; auto.
  - (* WSet *) unfold held in Hd. apply orb_false_iff in Hd as [H1 H2].
    repeat split; cbn [w_out w_heap w_queue w_cmd w_kept w_resent]; auto.
    + rewrite <- I1. f_equal. apply map_ext_in. intros j Hj. apply rd_set_other. intro E. subst j.
      assert (X : existsb (Nat.eqb i) (w_queue s) = true) by (apply existsb_exists; exists i; split; [exact Hj|apply Nat.eqb_refl]).
      congruence.
    + eapply Forall_impl; [|exact I2]. intros j Hj. now rewrite set_nth_length.
    + rewrite Forall_forall in *. intros p Hp. destruct (I3 p Hp) as [A B]. rewrite set_nth_length. split; [exact A|].
      rewrite rd_set_other; [exact B|]. intro E.
      assert (X : existsb (fun p0 => Nat.eqb i (fst p0)) (w_kept s) = true).
      { apply existsb_exists. exists p. split; [exact Hp|]. rewrite E. apply Nat.eqb_refl. }
      congruence.
  - (* WSend *) destruct (Nat.ltb i (length (w_heap s))) eqn:E; [|repeat split; auto].
    apply Nat.ltb_lt in E. repeat split; cbn [w_out w_heap w_queue w_cmd w_kept w_resent]; auto.
    + rewrite map_app, app_assoc, I1. reflexivity.
    + apply Forall_app. split; [exact I2|]. constructor; [exact E|constructor].
    + apply Forall_app. split; [exact I3|]. constructor; [|constructor]. cbn. auto.
  - (* WTx *) destruct (w_queue s) as [|i q] eqn:Eq; [repeat split; auto; rewrite Eq; auto|].
    repeat split; cbn [w_out w_heap w_queue w_cmd w_kept w_resent]; auto.
    + rewrite <- I1. cbn [map]. now rewrite <- app_assoc.
    + now inversion I2.
  - (* WResend *) destruct (find (fun p => Nat.eqb (fst p) i) (w_kept s)) as [[j c]|] eqn:Ef; [|repeat split; auto].
    apply find_some in Ef as [Hin Hj]. cbn in Hj. apply Nat.eqb_eq in Hj. subst j.
    repeat split; cbn [w_out w_heap w_queue w_cmd w_kept w_resent]; auto.
    apply Forall_app. split; [exact I4|]. constructor; [|constructor]. cbn.
    rewrite Forall_forall in I3. destruct (I3 _ Hin) as [_ B]. cbn in B. now rewrite B.
Qed.

Lemma w_run_inv ops : forall s, w_inv s -> disciplined s ops = true -> w_inv (w_run s ops).
Proof.
  induction ops as [|o r IH]; intros s I D; [exact I|].
  cbn [disciplined] in D. apply andb_true_iff in D as [D1 D2]. cbn [w_run fold_left].
  apply IH; [|exact D2]. apply w_step_inv; [exact I|].
  destruct o; auto. destruct (held s i); [discriminate|reflexivity].
Qed.

Lemma w_init_inv : w_inv w_init.
Proof. repeat split; constructor. Qed.

(* THE CONTRACT: under the discipline, for every program and every schedule of transmissions and resends:
   what went on the air followed by what is still queued is what was commanded, in order; and every resend
   repeated exactly what was commanded *)
Lemma wire_contract ops : disciplined w_init ops = true ->
  let s := w_run w_init ops in
  w_out s ++ map (rd (w_heap s)) (w_queue s) = w_cmd s /\ Forall (fun p => fst p = snd p) (w_resent s).
Proof.
  intros D. cbn zeta. destruct (w_run_inv ops w_init w_init_inv D) as (A & _ & _ & B). split; assumption.
Qed.

(* a program that never re-fills a packet (a fresh object for every message) is disciplined *)
Definition no_wset (o : wop) : bool := match o with WSet _ _ => false | _ => true end.

Lemma no_wset_disciplined ops : forall s, forallb no_wset ops = true -> disciplined s ops = true.
Proof.
  induction ops as [|o r IH]; intros s H; [reflexivity|].
  cbn [forallb] in H. apply andb_true_iff in H as [H1 H2]. cbn [disciplined]. rewrite IH by exact H2.
  destruct o; try reflexivity. discriminate.
Qed.

Lemma fresh_packets_contract ops : forallb no_wset ops = true ->
  let s := w_run w_init ops in
  w_out s ++ map (rd (w_heap s)) (w_queue s) = w_cmd s /\ Forall (fun p => fst p = snd p) (w_resent s).
Proof. intros H. apply wire_contract, no_wset_disciplined, H. Qed.

(* REFUTATION (seeded/C05-j): one packet object, re-filled for the second message while the link still
   holds the first reference: both transmissions and the resend of the first carry the second message *)
Lemma shared_packet_refuted m1 m2 : m1 <> m2 ->
  let s := w_run w_init [WNew m1; WSend 0; WSet 0 m2; WSend 0; WTx; WTx; WResend 0] in
  w_cmd s = [m1; m2] /\ w_out s = [m2; m2] /\ w_out s <> w_cmd s /\ w_resent s = [(m1, m2)].
Proof.
  intros H. cbn. repeat split. intro E. inversion E. congruence.
Qed.

(* ------------------------------------------------------------------ LogConfig.create(): a fresh packet per message *)
(* the loop of create(): for every message a new CRTPPacket is filled and handed to the link; `sched` says
   how many transmissions the radio manages after each send (any numbers: the radio may lag behind) *)
Fixpoint create_ops (base : nat) (msgs : list (list Z)) (sched : list nat) : list wop :=
  match msgs with
  | [] => []
  | m :: r => [WNew m; WSend base] ++ repeat WTx (hd O sched) ++ create_ops (S base) r (tl sched)
  end.

Lemma w_run_app a b s : w_run s (a ++ b) = w_run (w_run s a) b.
Proof. unfold w_run. apply fold_left_app. Qed.

Lemma w_tx_keeps n : forall s, w_heap (w_run s (repeat WTx n)) = w_heap s /\ w_cmd (w_run s (repeat WTx n)) = w_cmd s.
Proof.
  induction n as [|n IH]; intros s; [split; reflexivity|].
  cbn [repeat w_run fold_left]. fold (w_run (w_step s WTx) (repeat WTx n)).
  destruct (IH (w_step s WTx)) as [A B]. rewrite A, B. cbn [w_step]. destruct (w_queue s); split; reflexivity.
Qed.

Lemma create_ops_cmd msgs : forall sched s,
  w_cmd (w_run s (create_ops (length (w_heap s)) msgs sched)) = w_cmd s ++ msgs.
Proof.
  induction msgs as [|m r IH]; intros sched s; [cbn; now rewrite app_nil_r|].
  cbn [create_ops]. rewrite !w_run_app. cbn [w_run fold_left w_step w_heap].
  rewrite app_length. cbn [length]. replace (length (w_heap s) <? length (w_heap s) + 1)%nat with true
    by (symmetry; apply Nat.ltb_lt; lia).
  set (s1 := mkW (w_heap s ++ [m]) (w_queue s ++ [length (w_heap s)])
                 (w_cmd s ++ [rd (w_heap s ++ [m]) (length (w_heap s))]) (w_out s)
                 (w_kept s ++ [(length (w_heap s), rd (w_heap s ++ [m]) (length (w_heap s)))]) (w_resent s)).
  fold (w_run s1 (repeat WTx (hd 0%nat sched))).
  destruct (w_tx_keeps (hd 0%nat sched) s1) as [A B].
  replace (S (length (w_heap s))) with (length (w_heap (w_run s1 (repeat WTx (hd 0%nat sched)))))
    by (rewrite A; cbn; rewrite app_length; cbn; lia).
  rewrite IH, B. cbn [w_cmd s1]. unfold rd. rewrite nth_middle, <- app_assoc. reflexivity.
Qed.

Lemma create_ops_no_wset msgs : forall base sched, forallb no_wset (create_ops base msgs sched) = true.
Proof.
  induction msgs as [|m r IH]; intros base sched; [reflexivity|].
  cbn [create_ops]. rewrite !forallb_app, IH. cbn. rewrite andb_true_r.
  induction (hd 0%nat sched); cbn; auto.
Qed.

(* for every list of messages and every lag schedule: what the radio has transmitted, followed by what it
   still holds, is exactly the messages create() commanded, in order *)
Lemma create_transmitted_is_commanded msgs sched :
  let s := w_run w_init (create_ops 0 msgs sched) in
  w_out s ++ map (rd (w_heap s)) (w_queue s) = msgs /\ Forall (fun p => fst p = snd p) (w_resent s).
Proof.
  cbn zeta. destruct (fresh_packets_contract _ (create_ops_no_wset msgs 0%nat sched)) as [A B].
  split; [|exact B]. rewrite A. exact (create_ops_cmd msgs sched w_init).
Qed.
