(* C05/Proofs_unpack.v — unpack_log_data / the CHAN_LOGDATA branch of _new_packet_cb decode exactly what
   a device encodes (little-endian, two's complement, floats as bit patterns, 24-bit timestamp). *)
Require Import CF.C05.Model CF.C05.Proofs_create.
From Coq Require Import ZifyBool.
Open Scope Z_scope.
Ltac Zify.zify_post_hook ::= Z.to_euclidean_division_equations.

(* ------------------------------------------------------------------ the type table is well formed *)
Definition types_wfb : bool :=
  forallb (fun '(t, (k, f, s)) => (f =? s) && (0 <? s) && (s <=? 4) && (0 <? t) && (t <? 16)) g_types.

Lemma types_wf : types_wfb = true.
Proof. reflexivity. Qed.

Lemma assoc_in {A} k (l : list (Z * A)) a : assoc k l = Some a -> In (k, a) l.
Proof.
  induction l as [|[k' a'] l IH]; cbn; [discriminate|].
  destruct (k =? k') eqn:E; intros H.
  - inversion H; subst. left. f_equal. lia.
  - right. auto.
Qed.

Lemma ty_info_wf t k f s : ty_info t = Some (k, f, s) -> f = s /\ 0 < s <= 4 /\ 0 < t < 16.
Proof.
  intros H. apply assoc_in in H. pose proof types_wf as W. unfold types_wfb in W.
  rewrite forallb_forall in W. specialize (W _ H). cbn in W. lia.
Qed.

(* ------------------------------------------------------------------ the device side *)
Definition kind_of (t : Z) : Z := match ty_info t with Some (k, _, _) => k | None => 0 end.
Definition size_of (t : Z) : nat := match ty_info t with Some (_, _, s) => Z.to_nat s | None => O end.

(* how the firmware writes a value of fetch type t into the packet *)
Definition enc_val (t x : Z) : list Z :=
  if kind_of t =? 1 then le_signed (size_of t) x else le_bytes (size_of t) x.

(* x is a value of type t: in range for an integer type; a bit pattern of the right width for a float *)
Definition val_ok (t x : Z) : Prop :=
  ty_known t = true /\
  if kind_of t =? 1 then signed_range (size_of t) x else unsigned_range (size_of t) x.

Definition encode_sample (vs : list var) (vals : list Z) : list Z :=
  concat (map (fun '(v, x) => enc_val (v_fetch v) x) (combine vs vals)).

Lemma enc_val_length t x : length (enc_val t x) = size_of t.
Proof. unfold enc_val, le_signed. destruct (kind_of t =? 1); apply le_bytes_length. Qed.

Lemma decode_enc t x k f s : ty_info t = Some (k, f, s) -> val_ok t x -> decode_val k (enc_val t x) = x.
Proof.
  intros Hi [_ Hr]. pose proof (ty_info_wf _ _ _ _ Hi) as (_ & Hs & _).
  unfold decode_val, enc_val, kind_of, size_of in *. rewrite Hi in *.
  destruct (k =? 1).
  - apply le_signed_roundtrip; [lia|exact Hr].
  - apply le_val_le_bytes_id. exact Hr.
Qed.

(* the dictionary the callback receives, as built by successive assignments *)
Definition assign (d : list (Z * (Z * Z))) (p : var * Z) : list (Z * (Z * Z)) :=
  dict_set d (v_name (fst p)) (v_fetch (fst p), snd p).

Lemma unpack_vars_enc : forall vs vals, Forall2 (fun v x => val_ok (v_fetch v) x) vs vals ->
  forall extra d,
  unpack_vars vs (encode_sample vs vals ++ extra) d = Ok (fold_left assign (combine vs vals) d).
Proof.
  induction 1 as [|v x vs vals Hv _ IH]; intros extra d; [reflexivity|].
  unfold encode_sample. cbn [combine map concat unpack_vars fold_left].
  destruct Hv as [Hk Hr]. unfold ty_known in Hk.
  destruct (ty_info (v_fetch v)) as [[[k f] s]|] eqn:Hi; [|discriminate].
  pose proof (ty_info_wf _ _ _ _ Hi) as (Hfs & Hs & _). subst f.
  assert (Hlen : length (enc_val (v_fetch v) x) = Z.to_nat s).
  { rewrite enc_val_length. unfold size_of. now rewrite Hi. }
  rewrite <- app_assoc, <- Hlen, firstn_app_exact, skipn_app_exact.
  rewrite Hlen. replace (Z.of_nat (Z.to_nat s) =? s) with true by lia.
  fold (encode_sample vs vals). rewrite IH. f_equal.
  unfold assign at 2. cbn [fst snd].
  rewrite (decode_enc _ _ _ _ _ Hi); [reflexivity|]. split; [unfold ty_known; now rewrite Hi|exact Hr].
Qed.

(* with pairwise different names the dictionary lists the variables in order *)
Lemma dict_set_fresh {A} (d : list (Z * A)) k (a : A) : ~ In k (map fst d) -> dict_set d k a = d ++ [(k, a)].
Proof.
  induction d as [|[k' a'] d IH]; cbn; [reflexivity|]. intros H.
  destruct (k' =? k) eqn:E; [exfalso; apply H; left; lia|]. rewrite IH; [reflexivity|tauto].
Qed.

Definition sample_dict (vs : list var) (vals : list Z) : list (Z * (Z * Z)) :=
  map (fun p : var * Z => (v_name (fst p), (v_fetch (fst p), snd p))) (combine vs vals).

Lemma fold_assign_nodup : forall vs vals d, length vals = length vs ->
  NoDup (map fst d ++ map v_name vs) ->
  fold_left assign (combine vs vals) d = d ++ sample_dict vs vals.
Proof.
  induction vs as [|v vs IH]; intros vals d Hl Hn.
  - cbn. now rewrite app_nil_r.
  - destruct vals as [|x vals]; [discriminate|]. cbn [combine fold_left].
    unfold assign at 2. cbn [fst snd].
    assert (Hfresh : ~ In (v_name v) (map fst d)).
    { cbn [map] in Hn. apply NoDup_remove_2 in Hn. intro X. apply Hn. apply in_or_app. now left. }
    rewrite dict_set_fresh by exact Hfresh.
    rewrite IH.
    + unfold sample_dict. cbn [combine map fst snd]. rewrite <- app_assoc. reflexivity.
    + simpl in Hl. lia.
    + rewrite map_app. cbn [map fst]. rewrite <- app_assoc. exact Hn.
Qed.

Lemma unpack_exact vs vals extra :
  Forall2 (fun v x => val_ok (v_fetch v) x) vs vals -> NoDup (map v_name vs) ->
  unpack_vars vs (encode_sample vs vals ++ extra) [] = Ok (sample_dict vs vals).
Proof.
  intros H Hn. rewrite unpack_vars_enc by exact H.
  rewrite fold_assign_nodup; [reflexivity| |exact Hn].
  clear -H. induction H; cbn; auto.
Qed.

(* a payload that is too short is refused, never decoded into something else *)
Lemma unpack_short v vs data d k f s :
  ty_info (v_fetch v) = Some (k, f, s) -> (length data < Z.to_nat s)%nat ->
  unpack_vars (v :: vs) data d = Err StructError.
Proof.
  intros Hi Hl. pose proof (ty_info_wf _ _ _ _ Hi) as (-> & Hs & _).
  cbn [unpack_vars]. rewrite Hi. rewrite firstn_all2 by lia.
  replace (Z.of_nat (length data) =? s) with false by lia. reflexivity.
Qed.

(* ------------------------------------------------------------------ timestamp *)
Lemma ts_decode b0 b1 b2 : byte b0 -> byte b1 -> byte b2 ->
  Z.lor (Z.lor b0 (Z.shiftl b1 8)) (Z.shiftl b2 16) = b0 + 256 * b1 + 65536 * b2.
Proof.
  unfold byte. intros H0 H1 H2.
  rewrite (lor_shiftl_add b0 b1 8) by lia. change (2 ^ 8) with 256.
  rewrite (lor_shiftl_add (b0 + b1 * 256) b2 16) by lia. change (2 ^ 16) with 65536. lia.
Qed.

Lemma ts_roundtrip ts : 0 <= ts < 2 ^ 24 ->
  exists b0 b1 b2, le_bytes 3 ts = [b0; b1; b2] /\
    Z.lor (Z.lor b0 (Z.shiftl b1 8)) (Z.shiftl b2 16) = ts.
Proof.
  intros H. cbn [le_bytes]. eexists _, _, _. split; [reflexivity|].
  rewrite ts_decode by (unfold byte; lia). change (2 ^ 24) with 16777216 in H. lia.
Qed.

(* ------------------------------------------------------------------ the whole data packet *)
Lemma logdata_exact s id h ts vals extra :
  find_block s id = Some h -> 0 <= ts < 2 ^ 24 ->
  let vs := c_vars (get s h) in
  Forall2 (fun v x => val_ok (v_fetch v) x) vs vals -> NoDup (map v_name vs) ->
  on_packet s g_chan_logdata (id :: le_bytes 3 ts ++ encode_sample vs vals ++ extra)
    = (s, [OData h ts (sample_dict vs vals)], None).
Proof.
  intros Hb Hts vs Hv Hn. destruct (ts_roundtrip ts Hts) as (b0 & b1 & b2 & E & D).
  rewrite E. unfold on_packet. cbn [app].
  change (g_chan_logdata =? g_chan_settings) with false. change (g_chan_logdata =? g_chan_logdata) with true.
  cbn iota. unfold on_logdata. rewrite D, Hb. fold vs. rewrite unpack_exact by assumption. reflexivity.
Qed.
