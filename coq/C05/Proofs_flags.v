(* C05/Proofs_flags.v — lifecycle: added/started follow the acknowledgements, callbacks fire exactly on
   changes, the variable list is stable under re-adding, a never-accepted configuration sends nothing. *)
Require Import CF.C05.Model CF.C05.Proofs_add.
From Coq Require Import ZifyBool.
Open Scope Z_scope.
Ltac Zify.zify_post_hook ::= Z.to_euclidean_division_equations.

(* ------------------------------------------------------------------ heap: one lemma without side conditions *)
Lemma nth_upd_nth l : forall h h' c d,
  nth h' (upd_nth l h c) d = if (Nat.eqb h' h && Nat.ltb h (length l))%bool then c else nth h' l d.
Proof.
  induction l as [|x l IH]; intros h h' c d.
  - cbn [upd_nth length]. destruct h; rewrite andb_false_r; reflexivity.
  - destruct h as [|h], h' as [|h']; cbn [upd_nth nth length]; try reflexivity.
    rewrite IH. reflexivity.
Qed.

Lemma get_put s h c h' :
  get (put s h c) h' = if (Nat.eqb h' h && valid_h s h)%bool then c else get s h'.
Proof. unfold get, put, valid_h. cbn. apply nth_upd_nth. Qed.

Lemma get_set_blocks s b h : get (set_blocks s b) h = get s h. Proof. reflexivity. Qed.
Lemma get_set_counter s b h : get (set_counter s b) h = get s h. Proof. reflexivity. Qed.
Lemma get_set_toc s b h : get (set_toc s b) h = get s h. Proof. reflexivity. Qed.
Lemma get_set_link s b h : get (set_link s b) h = get s h. Proof. reflexivity. Qed.
Lemma get_set_v2 s b h : get (set_v2 s b) h = get s h. Proof. reflexivity. Qed.

(* what a step may do to one configuration object *)
Ltac gp :=
  repeat (rewrite ?get_put, ?get_set_blocks, ?get_set_counter, ?get_set_toc, ?get_set_link, ?get_set_v2 in *).

Ltac case_if :=
  match goal with
  | |- context [if ?b then _ else _] => let E := fresh "E" in destruct b eqn:E
  | |- context [match ?x with Some _ => _ | None => _ end] => let E := fresh "E" in destruct x eqn:E
  end.

(* ------------------------------------------------------------------ flags *)
Definition flags (c : cfg) : bool * bool := (c_added c, c_started c).

(* what an acknowledgement (cmd, status) from the device means for the addressed block *)
Definition ack_effect (cmd status : Z) (f : bool * bool) : bool * bool :=
  if (cmd =? g_cmd_create) || (cmd =? g_cmd_create_v2) then
    if (status =? 0) || (status =? g_eexist) then (true, snd f) else f
  else if cmd =? g_cmd_start then (fst f, if status =? 0 then true else snd f)
  else if cmd =? g_cmd_stop then (fst f, if status =? 0 then false else snd f)
  else if cmd =? g_cmd_delete then
    if (status =? 0) || (status =? g_enoent) then (false, false) else f
  else f.

Definition addressed (s : st) (id : Z) (h : nat) : bool :=
  match find_block s id with Some h' => Nat.eqb h h' | None => false end.

Lemma find_block_valid s id h : Forall (fun h => valid_h s h = true) (s_blocks s) ->
  find_block s id = Some h -> valid_h s h = true.
Proof.
  intros Hv H. unfold find_block in H. apply find_some in H as [H _].
  rewrite Forall_forall in Hv. auto.
Qed.

Definition blocks_valid (s : st) : Prop := Forall (fun h => valid_h s h = true) (s_blocks s).

Ltac simp_heap Hv0 :=
  cbn [fst snd]; gp; rewrite ?valid_h_put, ?Hv0, ?Nat.eqb_refl, ?andb_true_r; cbn [andb];
  gp; rewrite ?valid_h_put, ?Hv0, ?Nat.eqb_refl, ?andb_true_r; cbn [andb].

Ltac split_h h h0 :=
  let E := fresh "Eh" in
  destruct (Nat.eqb h h0) eqn:E; [apply Nat.eqb_eq in E; subst h|]; cbn [andb].

Lemma on_settings_flags s cmd id status : blocks_valid s ->
  forall h, flags (get (fst (fst (on_settings s cmd id status))) h) =
            if addressed s id h then ack_effect cmd status (flags (get s h)) else flags (get s h).
Proof.
  intros Hv h. unfold addressed, ack_effect.
  destruct (find_block s id) as [h0|] eqn:Ef.
  - pose proof (find_block_valid _ _ _ Hv Ef) as Hv0.
    unfold on_settings, assign_added, assign_started. rewrite Ef.
    destruct ((cmd =? g_cmd_create) || (cmd =? g_cmd_create_v2)) eqn:C1.
    { destruct ((status =? 0) || (status =? g_eexist)).
      - destruct (negb (c_added (get s h0))) eqn:Ea; simp_heap Hv0; split_h h h0; simp_heap Hv0; try reflexivity.
        unfold flags. destruct (c_added (get s h0)); [reflexivity|discriminate].
      - destruct (err_known status); simp_heap Hv0; split_h h h0; simp_heap Hv0; reflexivity. }
    destruct (cmd =? g_cmd_start) eqn:C2.
    { destruct (status =? 0).
      - simp_heap Hv0; split_h h h0; simp_heap Hv0; reflexivity.
      - destruct (err_known status); simp_heap Hv0; split_h h h0; simp_heap Hv0; try reflexivity;
          unfold flags; destruct (get s h0); reflexivity. }
    destruct (cmd =? g_cmd_stop) eqn:C3.
    { destruct (status =? 0); simp_heap Hv0; split_h h h0; simp_heap Hv0; try reflexivity;
        unfold flags; destruct (get s h0); reflexivity. }
    destruct (cmd =? g_cmd_delete) eqn:C4.
    { destruct ((status =? 0) || (status =? g_enoent)); simp_heap Hv0; split_h h h0; simp_heap Hv0; reflexivity. }
    destruct (cmd =? g_cmd_reset) eqn:C5.
    { destruct (s_toc s); simp_heap Hv0; split_h h h0; reflexivity. }
    simp_heap Hv0. split_h h h0; reflexivity.
  - unfold on_settings. rewrite Ef.
    repeat case_if; cbn [fst snd]; gp; reflexivity.
Qed.

(* ------------------------------------------------------------------ callbacks and packets of an acknowledgement *)
Definition is_flag_cb (x : obs) : bool :=
  match x with OCb k _ _ => (k =? cb_added) || (k =? cb_started) | _ => false end.
Definition is_wire (x : obs) : bool := match x with OWire _ _ _ _ => true | _ => false end.

(* added_cb / started_cb calls announcing a change of flags of block h from `old` to `new` *)
Definition expected_cbs (h : nat) (old new : bool * bool) : list obs :=
  (if Bool.eqb (snd new) (snd old) then [] else [OCb cb_started h [b2z (snd new)]]) ++
  (if Bool.eqb (fst new) (fst old) then [] else [OCb cb_added h [b2z (fst new)]]).

Definition create_ack_ok (cmd status : Z) : bool :=
  ((cmd =? g_cmd_create) || (cmd =? g_cmd_create_v2)) && ((status =? 0) || (status =? g_eexist)).

Ltac walk_eq :=
  repeat (cbv iota; cbn [orb andb negb fst snd];
          match goal with
          | |- context [if ?b then _ else _] =>
              lazymatch b with true => fail | false => fail | _ => destruct b eqn:? end
          | |- context [match ?x with Some _ => _ | None => _ end] =>
              lazymatch x with Some _ => fail | None => fail | _ => destruct x eqn:? end
          end).

Lemma added_after_started s h b : c_added (get (put s h (set_started (get s h) b)) h) = c_added (get s h).
Proof. rewrite get_put. destruct (Nat.eqb h h && valid_h s h)%bool; reflexivity. Qed.

Lemma on_settings_obs s cmd id status :
  let o := snd (fst (on_settings s cmd id status)) in
  filter is_flag_cb o =
    match find_block s id with
    | Some h => expected_cbs h (flags (get s h)) (ack_effect cmd status (flags (get s h)))
    | None => []
    end /\
  filter is_wire o =
    match find_block s id with
    | Some h => if create_ack_ok cmd status && negb (c_added (get s h))
                then [OWire 5 g_chan_settings [g_cmd_start; id; c_period (get s h)] [g_cmd_start; id]]
                else if (cmd =? g_cmd_reset) && match s_toc s with None => true | Some _ => false end
                then [OWire 5 g_chan_toc [if s_v2 s then g_toc_info_v2 else g_toc_info] [if s_v2 s then g_toc_info_v2 else g_toc_info]]
                else []
    | None => if (cmd =? g_cmd_reset) && match s_toc s with None => true | Some _ => false end
              then [OWire 5 g_chan_toc [if s_v2 s then g_toc_info_v2 else g_toc_info] [if s_v2 s then g_toc_info_v2 else g_toc_info]]
              else []
    end.
Proof.
  cbn zeta. unfold on_settings, ack_effect, create_ack_ok, expected_cbs, assign_added, assign_started, flags.
  destruct (find_block s id) as [h0|] eqn:Ef.
  - destruct (c_added (get s h0)) eqn:Ea, (c_started (get s h0)) eqn:Es;
    cbv beta iota zeta; rewrite ?added_after_started, ?Ea, ?Es;
    walk_eq; cbv beta iota zeta; rewrite ?added_after_started, ?Ea, ?Es; cbn; rewrite ?Ea, ?Es; cbn;
    try (split; reflexivity);
    exfalso; unfold g_cmd_create, g_cmd_create_v2, g_cmd_start, g_cmd_stop, g_cmd_delete, g_cmd_reset in *; lia.
  - walk_eq; cbn; try (split; reflexivity);
    exfalso; unfold g_cmd_create, g_cmd_create_v2, g_cmd_start, g_cmd_stop, g_cmd_delete, g_cmd_reset in *; lia.
Qed.

(* ------------------------------------------------------------------ packets: the flags follow the acknowledgement *)
Definition ack_of (chan : Z) (data : list Z) : option (Z * Z * Z) :=
  if chan =? g_chan_settings then
    match data with cmd :: id :: status :: _ => Some (cmd, id, status) | _ => None end
  else None.

Lemma on_logdata_state s data : fst (fst (on_logdata s data)) = s.
Proof.
  unfold on_logdata. destruct data as [|a [|b [|c [|d r]]]]; try reflexivity.
  destruct (find_block s a); [|reflexivity]. destruct (unpack_vars _ _ _); reflexivity.
Qed.

Lemma on_logdata_no_cb s data : filter is_flag_cb (snd (fst (on_logdata s data))) = [] /\
                                filter is_wire (snd (fst (on_logdata s data))) = [].
Proof.
  unfold on_logdata. destruct data as [|a [|b [|c [|d r]]]]; try (split; reflexivity).
  destruct (find_block s a); [|split; reflexivity]. destruct (unpack_vars _ _ _); split; reflexivity.
Qed.

Lemma packet_flags s chan data : blocks_valid s -> forall h,
  flags (get (fst (fst (on_packet s chan data))) h) =
    match ack_of chan data with
    | Some (cmd, id, status) =>
        if addressed s id h then ack_effect cmd status (flags (get s h)) else flags (get s h)
    | None => flags (get s h)
    end.
Proof.
  intros Hv h. unfold on_packet, ack_of. destruct data as [|cmd payload]; [destruct (chan =? g_chan_settings); reflexivity|].
  destruct (chan =? g_chan_settings) eqn:C.
  - destruct payload as [|id [|status r]]; try reflexivity. now apply on_settings_flags.
  - destruct (chan =? g_chan_logdata); [now rewrite on_logdata_state|reflexivity].
Qed.

Lemma packet_obs s chan data :
  let o := snd (fst (on_packet s chan data)) in
  filter is_flag_cb o =
    match ack_of chan data with
    | Some (cmd, id, status) =>
        match find_block s id with
        | Some h => expected_cbs h (flags (get s h)) (ack_effect cmd status (flags (get s h)))
        | None => []
        end
    | None => []
    end.
Proof.
  cbn zeta. unfold on_packet, ack_of. destruct data as [|cmd payload]; [destruct (chan =? g_chan_settings); reflexivity|].
  destruct (chan =? g_chan_settings) eqn:C.
  - destruct payload as [|id [|status r]]; try reflexivity. apply on_settings_obs.
  - destruct (chan =? g_chan_logdata); [apply on_logdata_no_cb|reflexivity].
Qed.

(* START is sent exactly on the (first) positive acknowledgement of the creation *)
Lemma packet_start_sent s chan data cmd id status h :
  ack_of chan data = Some (cmd, id, status) -> find_block s id = Some h ->
  In (OWire 5 g_chan_settings [g_cmd_start; id; c_period (get s h)] [g_cmd_start; id])
     (snd (fst (on_packet s chan data)))
  <-> create_ack_ok cmd status = true /\ c_added (get s h) = false.
Proof.
  intros Ha Hb. unfold ack_of in Ha. unfold on_packet.
  destruct (chan =? g_chan_settings) eqn:C; [|discriminate].
  destruct data as [|cmd' [|id' [|status' r]]]; try discriminate. inversion Ha; subst. clear Ha.
  pose proof (on_settings_obs s cmd id status) as [_ W]. cbn zeta in W. rewrite Hb in W.
  set (o := snd (fst (on_settings s cmd id status))) in *.
  set (w := OWire 5 g_chan_settings [g_cmd_start; id; c_period (get s h)] [g_cmd_start; id]).
  assert (Hin : In w o <-> In w (filter is_wire o)).
  { rewrite filter_In. cbn. tauto. }
  rewrite Hin, W. clear Hin W.
  destruct (create_ack_ok cmd status && negb (c_added (get s h))) eqn:E.
  - apply andb_true_iff in E as [E1 E2]. split; [intros _; split; [exact E1|destruct (c_added (get s h)); [discriminate|reflexivity]]|intros _; left; reflexivity].
  - split.
    + intros Hw. exfalso.
      destruct ((cmd =? g_cmd_reset) && match s_toc s with None => true | Some _ => false end); cbn in Hw; [|tauto].
      destruct Hw as [Hw|[]]. unfold w in Hw. inversion Hw.
    + intros [E1 E2]. rewrite E1, E2 in E. discriminate.
Qed.

(* ------------------------------------------------------------------ everything else leaves the flags alone *)
Lemma nth_app_new l ms h : flags (nth h (l ++ [new_cfg ms]) dummy_cfg) = flags (nth h l dummy_cfg)
  /\ c_vars (nth h (l ++ [new_cfg ms]) dummy_cfg) = c_vars (nth h l dummy_cfg)
  /\ c_dfa (nth h (l ++ [new_cfg ms]) dummy_cfg) = c_dfa (nth h l dummy_cfg)
  /\ c_cf (nth h (l ++ [new_cfg ms]) dummy_cfg) = c_cf (nth h l dummy_cfg).
Proof.
  destruct (Nat.lt_ge_cases h (length l)) as [H|H].
  - rewrite app_nth1 by exact H. auto.
  - rewrite app_nth2 by exact H. rewrite (nth_overflow l) by exact H.
    destruct (h - length l)%nat as [|[|k]]; cbn; auto.
Qed.

Ltac put_cases :=
  repeat (rewrite ?get_set_blocks, ?get_set_counter, ?get_set_toc, ?get_set_link, ?get_set_v2;
  match goal with
  | |- context [get (put ?s ?h0 ?c) ?h] => rewrite (get_put s h0 c h)
  | |- context [if (Nat.eqb ?h ?h0 && valid_h ?s ?h0)%bool then _ else _] =>
      let E := fresh "E" in
      destruct (Nat.eqb h h0 && valid_h s h0)%bool eqn:E;
      [apply andb_true_iff in E as [E _]; apply Nat.eqb_eq in E; subst|]
  end).

Lemma add_config_flags s h0 h : flags (get (fst (fst (add_config s h0))) h) = flags (get s h).
Proof.
  unfold add_config. destruct (negb (s_link s)); [reflexivity|].
  destruct (c_dfa (get s h0)) as [|n r] eqn:Ed.
  - destruct (check_vars (s_toc s) (c_vars (get s h0)) 0); cbn [fst snd]; put_cases; try reflexivity.
    destruct ((size <=? g_max_len) && period_ok (c_period (get s h0))); cbn [fst snd]; put_cases; reflexivity.
  - destruct (s_toc s) as [tc|]; [|reflexivity].
    destruct (resolve_dfa tc (n :: r)) as [vs|]; [|cbn [fst snd]; put_cases; reflexivity].
    destruct (check_vars _ _ _); cbn [fst snd]; put_cases; try reflexivity.
    destruct ((size <=? g_max_len) && _); cbn [fst snd]; put_cases; reflexivity.
Qed.

Lemma add_config_no_flag_cb s h0 : filter is_flag_cb (snd (fst (add_config s h0))) = [].
Proof.
  unfold add_config. destruct (negb (s_link s)); [reflexivity|].
  destruct (match c_dfa (get s h0) with [] => Ok (get s h0) | _ :: _ => _ end) as [c1|[]]; try reflexivity.
  destruct (check_vars _ _ _); try reflexivity.
  destruct ((size <=? g_max_len) && _); reflexivity.
Qed.

Lemma create_flags s h0 h : flags (get (fst (fst (create s h0))) h) = flags (get s h).
Proof.
  unfold create. destruct (negb (c_cf (get s h0))); [reflexivity|].
  destruct (negb (create_guard s (get s h0))); [reflexivity|].
  destruct (create_msgs _ _ _ _) as [os e]. cbn [fst snd]. put_cases; reflexivity.
Qed.

Lemma create_loop_only_wires : forall fuel v2 otc id cmd vs,
  filter is_flag_cb (fst (create_loop fuel v2 otc id cmd vs)) = [].
Proof.
  induction fuel as [|f IH]; intros; cbn [create_loop]; [reflexivity|].
  destruct (setup_elems v2 otc [cmd; id] vs) as [[[d rest] pk]|e]; [|reflexivity].
  destruct d; [reflexivity|].
  specialize (IH v2 otc id (if v2 then g_cmd_append_v2 else g_cmd_append) rest).
  destruct (create_loop f v2 otc id _ rest) as [os e]. cbn in *. exact IH.
Qed.

Lemma create_no_flag_cb s h0 : filter is_flag_cb (snd (fst (create s h0))) = [].
Proof.
  unfold create. destruct (negb (c_cf (get s h0))); [reflexivity|].
  destruct (negb (create_guard s (get s h0))); [reflexivity|].
  unfold create_msgs. pose proof (create_loop_only_wires (S (length (c_vars (get s h0)))) (c_v2 (get s h0)) (s_toc s) (c_id (get s h0)) (create_cmd (c_v2 (get s h0))) (c_vars (get s h0))) as H.
  destruct (create_loop _ _ _ _ _ _) as [os e]. exact H.
Qed.

Definition is_packet (e : ev) : bool := match e with EPacket _ _ => true | _ => false end.

Lemma step_flags_other s e : is_packet e = false ->
  (forall h, flags (get (fst (fst (step s e))) h) = flags (get s h)) /\
  filter is_flag_cb (snd (fst (step s e))) = [].
Proof.
  intros Hp. destruct e; try discriminate; cbn [step].
  - (* ENew *) split; [|reflexivity]. intros h'. unfold get. cbn. apply nth_app_new.
  - (* EAddVar *) destruct (negb (valid_h s h)); [split; reflexivity|].
    destruct (ty =? 0); [|destruct (ty_known ty)]; (split; [intros h'; cbn [fst snd]; put_cases; reflexivity|reflexivity]).
  - (* EAddMem *) destruct (negb (valid_h s h)); [split; reflexivity|].
    destruct (ty_known fetch && ty_known stored); (split; [intros h'; cbn [fst snd]; put_cases; reflexivity|reflexivity]).
  - (* EAddConfig *) destruct (negb (valid_h s h)); [split; reflexivity|].
    pose proof (add_config_flags s h) as F. pose proof (add_config_no_flag_cb s h) as C.
    destruct (add_config s h) as [[s1 o] a]. cbn [fst snd] in *. split; assumption.
  - (* ECreate *) destruct (negb (valid_h s h)); [split; reflexivity|].
    split; [intros; apply create_flags|apply create_no_flag_cb].
  - (* EStart *) destruct (negb (valid_h s h)); [split; reflexivity|]. unfold start.
    destruct (negb (c_cf (get s h))); [split; reflexivity|].
    destruct (negb (s_link s)); [split; reflexivity|].
    destruct (negb (c_added (get s h))); [split; [intros; apply create_flags|apply create_no_flag_cb]|split; reflexivity].
  - (* EStop *) destruct (negb (valid_h s h)); [split; reflexivity|]. unfold stop_or_delete.
    destruct (negb (c_cf (get s h))); [split; reflexivity|]. destruct (negb (s_link s)); split; reflexivity.
  - (* EDelete *) destruct (negb (valid_h s h)); [split; reflexivity|]. unfold stop_or_delete.
    destruct (negb (c_cf (get s h))); [split; reflexivity|]. destruct (negb (s_link s)); split; reflexivity.
  - split; reflexivity.
  - split; reflexivity.
  - split; reflexivity.
Qed.
