(* C05/Proofs_flags.v — lifecycle: added/started follow the acknowledgements, callbacks fire exactly on
   changes, the variable list is stable under re-adding, a never-accepted configuration sends nothing. *)
Require Import CF.C05.Model CF.C05.Proofs_add.
From Coq Require Import ZifyBool.
Open Scope Z_scope.
Ltac Zify.zify_post_hook ::= Z.to_euclidean_division_equations.

(* ------------------------------------------------------------------ heap: one lemma without side conditions *)
Lemma nth_upd_nth l : forall h h' c d,
  nth h' (upd_nth l h c) d = if (Nat.eqb h' h && Nat.ltb h (length l))%bool then c else nth h' l d.
Proof.
  induction l as [|x l IH]; intros h h' c d.
  - cbn [upd_nth length]. destruct h; rewrite andb_false_r; reflexivity.
  - destruct h as [|h], h' as [|h']; cbn [upd_nth nth length]; try reflexivity.
    rewrite IH. reflexivity.
Qed.

Lemma get_put s h c h' :
  get (put s h c) h' = if (Nat.eqb h' h && valid_h s h)%bool then c else get s h'.
Proof. unfold get, put, valid_h. cbn. apply nth_upd_nth. Qed.

Lemma get_set_blocks s b h : get (set_blocks s b) h = get s h. Proof. reflexivity. Qed.
Lemma get_set_counter s b h : get (set_counter s b) h = get s h. Proof. reflexivity. Qed.
Lemma get_set_toc s b h : get (set_toc s b) h = get s h. Proof. reflexivity. Qed.
Lemma get_set_link s b h : get (set_link s b) h = get s h. Proof. reflexivity. Qed.
Lemma get_set_v2 s b h : get (set_v2 s b) h = get s h. Proof. reflexivity. Qed.
Lemma get_set_rp s b h : get (set_rp s b) h = get s h. Proof. reflexivity. Qed.

(* what a step may do to one configuration object *)
Ltac gp :=
  repeat (rewrite ?get_put, ?get_set_blocks, ?get_set_counter, ?get_set_toc, ?get_set_link, ?get_set_v2, ?get_set_rp in *).

Ltac case_if :=
  match goal with
  | |- context [if ?b then _ else _] => let E := fresh "E" in destruct b eqn:E
  | |- context [match ?x with Some _ => _ | None => _ end] => let E := fresh "E" in destruct x eqn:E
  end.

(* ------------------------------------------------------------------ flags *)
Definition flags (c : cfg) : bool * bool := (c_added c, c_started c).

(* what an acknowledgement (cmd, status) from the device means for the addressed block *)
Definition ack_effect (cmd status : Z) (f : bool * bool) : bool * bool :=
  if (cmd =? g_cmd_create) || (cmd =? g_cmd_create_v2) then
    if (status =? 0) || (status =? g_eexist) then (true, snd f) else f
  else if cmd =? g_cmd_start then (fst f, if status =? 0 then true else snd f)
  else if cmd =? g_cmd_stop then (fst f, if status =? 0 then false else snd f)
  else if cmd =? g_cmd_delete then
    if (status =? 0) || (status =? g_enoent) then (false, false) else f
  else f.

Definition addressed (s : st) (id : Z) (h : nat) : bool :=
  match find_block s id with Some h' => Nat.eqb h h' | None => false end.

Lemma find_block_valid s id h : Forall (fun h => valid_h s h = true) (s_blocks s) ->
  find_block s id = Some h -> valid_h s h = true.
Proof.
  intros Hv H. unfold find_block in H. apply find_some in H as [H _].
  rewrite Forall_forall in Hv. auto.
Qed.

Definition blocks_valid (s : st) : Prop := Forall (fun h => valid_h s h = true) (s_blocks s).

Ltac simp_heap Hv0 :=
  cbn [fst snd]; gp; rewrite ?valid_h_put, ?Hv0, ?Nat.eqb_refl, ?andb_true_r; cbn [andb];
  gp; rewrite ?valid_h_put, ?Hv0, ?Nat.eqb_refl, ?andb_true_r; cbn [andb].

Ltac split_h h h0 :=
  let E := fresh "Eh" in
  destruct (Nat.eqb h h0) eqn:E; [apply Nat.eqb_eq in E; subst h|]; cbn [andb].

(* on_settings without the effect of an acknowledged reset (handled separately below) *)
Definition on_settings_old (s : st) (cmd id status : Z) : step_result :=
  let ob := find_block s id in
  if (cmd =? g_cmd_create) || (cmd =? g_cmd_create_v2) then
    match ob with
    | None => (s, [], None)
    | Some h =>
        let c := get s h in
        if (status =? 0) || (status =? g_eexist) then
          if negb (c_added c) then
            let w := OWire 5 g_chan_settings [g_cmd_start; id; c_period c] [g_cmd_start; id] in
            let '(s1, o1) := assign_added s h true in
            (put s1 h (set_pending (get s1 h) 0), w :: o1, None)
          else (s, [], None)
        else if err_known status then
          (put s h (set_errno c status), [OCb cb_added_err h [0]; OCb cb_error h [status]], None)
        else (s, [], Some KeyError)
    end
  else if cmd =? g_cmd_start then
    if status =? 0 then
      match ob with
      | Some h => let '(s1, o1) := assign_started s h true in (s1, o1, None)
      | None => (s, [], None)
      end
    else if err_known status then
      match ob with
      | Some h => (put s h (set_errno (get s h) status), [OCb cb_started_err h [0]], None)
      | None => (s, [], None)
      end
    else (s, [], Some KeyError)
  else if cmd =? g_cmd_stop then
    if status =? 0 then
      match ob with
      | Some h => let '(s1, o1) := assign_started s h false in (s1, o1, None)
      | None => (s, [], None)
      end
    else (s, [], None)
  else if cmd =? g_cmd_delete then
    if (status =? 0) || (status =? g_enoent) then
      match ob with
      | Some h =>
          let '(s1, o1) := assign_started s h false in
          let '(s2, o2) := assign_added s1 h false in
          (s2, o1 ++ o2, None)
      | None => (s, [], None)
      end
    else (s, [], None)
  else if cmd =? g_cmd_reset then (s, [], None)
  else (s, [], None).


Definition reset_applies (s : st) (cmd : Z) : bool :=
  (cmd =? g_cmd_reset) && match (if s_rp s then s_toc s else Some []) with None => true | Some _ => false end.

Definition toc_info_wire (s : st) : obs :=
  OWire 5 g_chan_toc [if s_v2 s then g_toc_info_v2 else g_toc_info] [if s_v2 s then g_toc_info_v2 else g_toc_info].

Lemma on_settings_old_flags s cmd id status : blocks_valid s ->
  forall h, flags (get (fst (fst (on_settings_old s cmd id status))) h) =
            if addressed s id h then ack_effect cmd status (flags (get s h)) else flags (get s h).
Proof.
  intros Hv h. unfold addressed, ack_effect.
  destruct (find_block s id) as [h0|] eqn:Ef.
  - pose proof (find_block_valid _ _ _ Hv Ef) as Hv0.
    unfold on_settings_old, assign_added, assign_started. rewrite Ef.
    destruct ((cmd =? g_cmd_create) || (cmd =? g_cmd_create_v2)) eqn:C1.
    { destruct ((status =? 0) || (status =? g_eexist)).
      - destruct (negb (c_added (get s h0))) eqn:Ea; simp_heap Hv0; split_h h h0; simp_heap Hv0; try reflexivity.
        unfold flags. destruct (c_added (get s h0)); [reflexivity|discriminate].
      - destruct (err_known status); simp_heap Hv0; split_h h h0; simp_heap Hv0; reflexivity. }
    destruct (cmd =? g_cmd_start) eqn:C2.
    { destruct (status =? 0).
      - simp_heap Hv0; split_h h h0; simp_heap Hv0; reflexivity.
      - destruct (err_known status); simp_heap Hv0; split_h h h0; simp_heap Hv0; try reflexivity;
          unfold flags; destruct (get s h0); reflexivity. }
    destruct (cmd =? g_cmd_stop) eqn:C3.
    { destruct (status =? 0); simp_heap Hv0; split_h h h0; simp_heap Hv0; try reflexivity;
        unfold flags; destruct (get s h0); reflexivity. }
    destruct (cmd =? g_cmd_delete) eqn:C4.
    { destruct ((status =? 0) || (status =? g_enoent)); simp_heap Hv0; split_h h h0; simp_heap Hv0; reflexivity. }
    destruct (cmd =? g_cmd_reset) eqn:C5.
    { simp_heap Hv0; split_h h h0; reflexivity. }
    simp_heap Hv0. split_h h h0; reflexivity.
  - unfold on_settings_old. rewrite Ef.
    repeat case_if; cbn [fst snd]; gp; reflexivity.
Qed.

(* ------------------------------------------------------------------ callbacks and packets of an acknowledgement *)
Definition is_flag_cb (x : obs) : bool :=
  match x with OCb k _ _ => (k =? cb_added) || (k =? cb_started) | _ => false end.
Definition is_wire (x : obs) : bool := match x with OWire _ _ _ _ => true | _ => false end.

(* added_cb / started_cb calls announcing a change of flags of block h from `old` to `new` *)
Definition expected_cbs (h : nat) (old new : bool * bool) : list obs :=
  (if Bool.eqb (snd new) (snd old) then [] else [OCb cb_started h [b2z (snd new)]]) ++
  (if Bool.eqb (fst new) (fst old) then [] else [OCb cb_added h [b2z (fst new)]]).

Definition create_ack_ok (cmd status : Z) : bool :=
  ((cmd =? g_cmd_create) || (cmd =? g_cmd_create_v2)) && ((status =? 0) || (status =? g_eexist)).

Ltac walk_eq :=
  repeat (cbv iota; cbn [orb andb negb fst snd];
          match goal with
          | |- context [if ?b then _ else _] =>
              lazymatch b with true => fail | false => fail | _ => destruct b eqn:? end
          | |- context [match ?x with Some _ => _ | None => _ end] =>
              lazymatch x with Some _ => fail | None => fail | _ => destruct x eqn:? end
          end).

Lemma added_after_started s h b : c_added (get (put s h (set_started (get s h) b)) h) = c_added (get s h).
Proof. rewrite get_put. destruct (Nat.eqb h h && valid_h s h)%bool; reflexivity. Qed.

Lemma on_settings_old_obs s cmd id status :
  let o := snd (fst (on_settings_old s cmd id status)) in
  filter is_flag_cb o =
    match find_block s id with
    | Some h => expected_cbs h (flags (get s h)) (ack_effect cmd status (flags (get s h)))
    | None => []
    end /\
  filter is_wire o =
    match find_block s id with
    | Some h => if create_ack_ok cmd status && negb (c_added (get s h))
                then [OWire 5 g_chan_settings [g_cmd_start; id; c_period (get s h)] [g_cmd_start; id]]
                else []
    | None => []
    end.
Proof.
  cbn zeta. unfold on_settings_old, ack_effect, create_ack_ok, expected_cbs, assign_added, assign_started, flags.
  destruct (find_block s id) as [h0|] eqn:Ef.
  - destruct (c_added (get s h0)) eqn:Ea, (c_started (get s h0)) eqn:Es;
    cbv beta iota zeta; rewrite ?added_after_started, ?Ea, ?Es;
    walk_eq; cbv beta iota zeta; rewrite ?added_after_started, ?Ea, ?Es; cbn; rewrite ?Ea, ?Es; cbn;
    try (split; reflexivity);
    exfalso; unfold g_cmd_create, g_cmd_create_v2, g_cmd_start, g_cmd_stop, g_cmd_delete, g_cmd_reset in *; lia.
  - walk_eq; cbn; try (split; reflexivity);
    exfalso; unfold g_cmd_create, g_cmd_create_v2, g_cmd_start, g_cmd_stop, g_cmd_delete, g_cmd_reset in *; lia.
Qed.

(* ------------------------------------------------------------------ the acknowledged reset (fixes/F05c.patch) *)
Lemma on_settings_split s cmd id status :
  on_settings s cmd id status =
    if reset_applies s cmd then
      let '(s1, o1) := forget_blocks s (s_blocks s) in
      (set_rp (set_toc (set_blocks s1 []) (Some [])) false, o1 ++ [toc_info_wire s], None)
    else on_settings_old s cmd id status.
Proof.
  unfold reset_applies, on_settings, on_settings_old, toc_info_wire.
  destruct (cmd =? g_cmd_reset) eqn:C5.
  - assert (cmd = 5) by (unfold g_cmd_reset in C5; lia). subst cmd.
    change (5 =? g_cmd_create) with false. change (5 =? g_cmd_create_v2) with false.
    change (5 =? g_cmd_start) with false. change (5 =? g_cmd_stop) with false.
    change (5 =? g_cmd_delete) with false. change (5 =? g_cmd_reset) with true. cbn [orb andb].
    destruct (if s_rp s then s_toc s else Some []); reflexivity.
  - cbn [andb]. reflexivity.
Qed.

Definition memb (h : nat) (l : list nat) : bool := existsb (Nat.eqb h) l.

Lemma forget_blocks_shape bl : forall s,
  let s1 := fst (forget_blocks s bl) in
  length (s_cfgs s1) = length (s_cfgs s) /\ s_blocks s1 = s_blocks s /\ s_toc s1 = s_toc s /\
  s_counter s1 = s_counter s /\ s_v2 s1 = s_v2 s /\ s_link s1 = s_link s.
Proof.
  induction bl as [|h r IH]; intros s; cbn zeta; [cbn; auto 10|].
  cbn [forget_blocks]. unfold assign_started, assign_added.
  match goal with |- context [forget_blocks ?s3 r] => specialize (IH s3); destruct (forget_blocks s3 r) as [s4 o4] end.
  cbn [fst snd] in *. cbn zeta in IH. destruct IH as (A & B & C & D & E & F).
  unfold put in *. cbn [s_cfgs s_blocks s_toc s_counter s_v2 s_link] in *.
  rewrite !upd_nth_length in A. auto 10.
Qed.

(* every field but added / started / pending is left alone *)
Lemma forget_blocks_static bl : forall s h,
  let c1 := get (fst (forget_blocks s bl)) h in
  c_vars c1 = c_vars (get s h) /\ c_dfa c1 = c_dfa (get s h) /\ c_cf c1 = c_cf (get s h) /\
  c_id c1 = c_id (get s h) /\ c_period c1 = c_period (get s h) /\ c_valid c1 = c_valid (get s h).
Proof.
  induction bl as [|h0 r IH]; intros s h; cbn zeta; [cbn; auto 10|].
  cbn [forget_blocks]. unfold assign_started, assign_added.
  match goal with |- context [forget_blocks ?s3 r] => specialize (IH s3 h); destruct (forget_blocks s3 r) as [s4 o4] end.
  cbn [fst snd] in *. cbn zeta in IH. destruct IH as (A & B & C & D & E & F).
  rewrite A, B, C, D, E, F. clear.
  repeat (rewrite get_put;
          match goal with
          | |- context [if (Nat.eqb ?a ?b && ?v)%bool then _ else _] =>
              let E := fresh "E" in
              destruct (Nat.eqb a b) eqn:E; [apply Nat.eqb_eq in E; subst|]; cbn [andb]; try destruct v
          end); cbn; auto 10.
Qed.

Lemma forget_blocks_flags bl : forall s h, Forall (fun h => valid_h s h = true) bl ->
  flags (get (fst (forget_blocks s bl)) h) = if memb h bl then (false, false) else flags (get s h).
Proof.
  induction bl as [|h0 r IH]; intros s h Hv; [reflexivity|].
  inversion Hv as [|x y Hv0 Hvr]; subst.
  cbn [forget_blocks]. unfold assign_started, assign_added.
  match goal with |- context [forget_blocks ?s3 r] =>
    specialize (IH s3 h); destruct (forget_blocks s3 r) as [s4 o4] eqn:Ef end.
  cbn [fst snd] in *. rewrite IH.
  - unfold memb. cbn [existsb]. fold (memb h r). destruct (memb h r); [now rewrite orb_true_r|].
    rewrite orb_false_r. rewrite !get_put, !valid_h_put, Hv0, !Nat.eqb_refl. cbn [andb].
    destruct (Nat.eqb h h0) eqn:E; cbn [andb]; reflexivity.
  - eapply Forall_impl; [|exact Hvr]. intros a Ha. now rewrite !valid_h_put.
Qed.

Lemma forget_blocks_pending bl : forall s h, Forall (fun h => valid_h s h = true) bl ->
  c_pending (get (fst (forget_blocks s bl)) h) = if memb h bl then 0 else c_pending (get s h).
Proof.
  induction bl as [|h0 r IH]; intros s h Hv; [reflexivity|].
  inversion Hv as [|x y Hv0 Hvr]; subst.
  cbn [forget_blocks]. unfold assign_started, assign_added.
  match goal with |- context [forget_blocks ?s3 r] =>
    specialize (IH s3 h); destruct (forget_blocks s3 r) as [s4 o4] eqn:Ef end.
  cbn [fst snd] in *. rewrite IH.
  - unfold memb. cbn [existsb]. fold (memb h r). destruct (memb h r); [now rewrite orb_true_r|].
    rewrite orb_false_r. rewrite !get_put, !valid_h_put, Hv0, !Nat.eqb_refl. cbn [andb].
    destruct (Nat.eqb h h0) eqn:E; cbn [andb]; reflexivity.
  - eapply Forall_impl; [|exact Hvr]. intros a Ha. now rewrite !valid_h_put.
Qed.

Lemma forget_blocks_obs bl : forall s,
  filter is_wire (snd (forget_blocks s bl)) = [] /\
  filter is_flag_cb (snd (forget_blocks s bl)) = snd (forget_blocks s bl).
Proof.
  induction bl as [|h0 r IH]; intros s; [split; reflexivity|].
  cbn [forget_blocks]. unfold assign_started, assign_added.
  match goal with |- context [forget_blocks ?s3 r] => specialize (IH s3); destruct (forget_blocks s3 r) as [s4 o4] end.
  cbn [fst snd] in *. destruct IH as [A B]. rewrite !filter_app, A, B.
  split; repeat match goal with |- context [if ?b then _ else _] => destruct b end; reflexivity.
Qed.

Lemma flat_map_ext_in' {A B} (f g : A -> list B) l : (forall a, In a l -> f a = g a) -> flat_map f l = flat_map g l.
Proof. induction l as [|x l IH]; intros H; cbn; [reflexivity|]. rewrite H by now left. rewrite IH; [reflexivity|]. intros; apply H; now right. Qed.

(* with pairwise different blocks: one started_cb(False) / added_cb(False) per flag that was set *)
Lemma forget_blocks_cbs bl : forall s, Forall (fun h => valid_h s h = true) bl -> NoDup bl ->
  snd (forget_blocks s bl) = flat_map (fun h => expected_cbs h (flags (get s h)) (false, false)) bl.
Proof.
  induction bl as [|h0 r IH]; intros s Hv Hn; [reflexivity|].
  inversion Hv as [|x y Hv0 Hvr]; subst. inversion Hn as [|x y Hni Hnr]; subst.
  cbn [forget_blocks flat_map]. unfold assign_started, assign_added.
  match goal with |- context [forget_blocks ?s3 r] =>
    specialize (IH s3); destruct (forget_blocks s3 r) as [s4 o4] eqn:Ef end.
  cbn [fst snd] in *. rewrite IH; [| |exact Hnr].
  - rewrite app_assoc. f_equal.
    + unfold expected_cbs, flags. cbn [fst snd]. rewrite added_after_started.
      destruct (c_started (get s h0)), (c_added (get s h0)); reflexivity.
    + apply flat_map_ext_in'. intros a Ha. rewrite !get_put.
      destruct (Nat.eqb a h0) eqn:E; [apply Nat.eqb_eq in E; subst; contradiction|]. reflexivity.
  - eapply Forall_impl; [|exact Hvr]. intros a Ha. now rewrite !valid_h_put.
Qed.

Lemma on_settings_flags s cmd id status : blocks_valid s ->
  forall h, flags (get (fst (fst (on_settings s cmd id status))) h) =
            if reset_applies s cmd && memb h (s_blocks s) then (false, false)
            else if addressed s id h then ack_effect cmd status (flags (get s h)) else flags (get s h).
Proof.
  intros Hv h. rewrite on_settings_split. destruct (reset_applies s cmd) eqn:R; cbn [andb].
  - pose proof (forget_blocks_flags (s_blocks s) s h Hv) as F.
    destruct (forget_blocks s (s_blocks s)) as [s1 o1]. cbn [fst snd] in *.
    rewrite get_set_rp, get_set_toc, get_set_blocks, F. destruct (memb h (s_blocks s)); [reflexivity|].
    (* cmd = reset: the acknowledgement table leaves the flags alone *)
    unfold reset_applies in R. apply andb_true_iff in R as [R _].
    assert (cmd = 5) by (unfold g_cmd_reset in R; lia). subst cmd.
    unfold ack_effect. change (5 =? g_cmd_create) with false. change (5 =? g_cmd_create_v2) with false.
    change (5 =? g_cmd_start) with false. change (5 =? g_cmd_stop) with false.
    change (5 =? g_cmd_delete) with false. cbn [orb]. destruct (addressed s id h); reflexivity.
  - now apply on_settings_old_flags.
Qed.

Lemma on_settings_obs s cmd id status :
  let o := snd (fst (on_settings s cmd id status)) in
  filter is_flag_cb o =
    (if reset_applies s cmd then snd (forget_blocks s (s_blocks s))
     else match find_block s id with
          | Some h => expected_cbs h (flags (get s h)) (ack_effect cmd status (flags (get s h)))
          | None => []
          end) /\
  filter is_wire o =
    (if reset_applies s cmd then [toc_info_wire s]
     else match find_block s id with
          | Some h => if create_ack_ok cmd status && negb (c_added (get s h))
                      then [OWire 5 g_chan_settings [g_cmd_start; id; c_period (get s h)] [g_cmd_start; id]]
                      else []
          | None => []
          end).
Proof.
  cbn zeta. rewrite on_settings_split. destruct (reset_applies s cmd) eqn:R.
  - destruct (forget_blocks_obs (s_blocks s) s) as [A B].
    destruct (forget_blocks s (s_blocks s)) as [s1 o1]. cbn [fst snd] in *.
    rewrite !filter_app, A, B. cbn. rewrite app_nil_r. split; reflexivity.
  - apply on_settings_old_obs.
Qed.

(* ------------------------------------------------------------------ packets: the flags follow the acknowledgement *)
Definition ack_of (chan : Z) (data : list Z) : option (Z * Z * Z) :=
  if chan =? g_chan_settings then
    match data with cmd :: id :: status :: _ => Some (cmd, id, status) | _ => None end
  else None.

Lemma on_logdata_state s data : fst (fst (on_logdata s data)) = s.
Proof.
  unfold on_logdata. destruct data as [|a [|b [|c [|d r]]]]; try reflexivity.
  destruct (find_block s a); [|reflexivity]. destruct (unpack_vars _ _ _); reflexivity.
Qed.

Lemma on_logdata_no_cb s data : filter is_flag_cb (snd (fst (on_logdata s data))) = [] /\
                                filter is_wire (snd (fst (on_logdata s data))) = [].
Proof.
  unfold on_logdata. destruct data as [|a [|b [|c [|d r]]]]; try (split; reflexivity).
  destruct (find_block s a); [|split; reflexivity]. destruct (unpack_vars _ _ _); split; reflexivity.
Qed.

Lemma packet_flags s chan data : blocks_valid s -> forall h,
  flags (get (fst (fst (on_packet s chan data))) h) =
    match ack_of chan data with
    | Some (cmd, id, status) =>
        if reset_applies s cmd && memb h (s_blocks s) then (false, false)
        else if addressed s id h then ack_effect cmd status (flags (get s h)) else flags (get s h)
    | None => flags (get s h)
    end.
Proof.
  intros Hv h. unfold on_packet, ack_of. destruct data as [|cmd payload]; [destruct (chan =? g_chan_settings); reflexivity|].
  destruct (chan =? g_chan_settings) eqn:C.
  - destruct payload as [|id [|status r]]; try reflexivity. now apply on_settings_flags.
  - destruct (chan =? g_chan_logdata); [now rewrite on_logdata_state|reflexivity].
Qed.

Lemma packet_obs s chan data :
  let o := snd (fst (on_packet s chan data)) in
  filter is_flag_cb o =
    match ack_of chan data with
    | Some (cmd, id, status) =>
        if reset_applies s cmd then snd (forget_blocks s (s_blocks s))
        else match find_block s id with
             | Some h => expected_cbs h (flags (get s h)) (ack_effect cmd status (flags (get s h)))
             | None => []
             end
    | None => []
    end.
Proof.
  cbn zeta. unfold on_packet, ack_of. destruct data as [|cmd payload]; [destruct (chan =? g_chan_settings); reflexivity|].
  destruct (chan =? g_chan_settings) eqn:C.
  - destruct payload as [|id [|status r]]; try reflexivity. apply on_settings_obs.
  - destruct (chan =? g_chan_logdata); [apply on_logdata_no_cb|reflexivity].
Qed.

(* START is sent exactly on the (first) positive acknowledgement of the creation *)
Lemma packet_start_sent s chan data cmd id status h :
  ack_of chan data = Some (cmd, id, status) -> find_block s id = Some h ->
  In (OWire 5 g_chan_settings [g_cmd_start; id; c_period (get s h)] [g_cmd_start; id])
     (snd (fst (on_packet s chan data)))
  <-> create_ack_ok cmd status = true /\ c_added (get s h) = false.
Proof.
  intros Ha Hb. unfold ack_of in Ha. unfold on_packet.
  destruct (chan =? g_chan_settings) eqn:C; [|discriminate].
  destruct data as [|cmd' [|id' [|status' r]]]; try discriminate. inversion Ha; subst. clear Ha.
  pose proof (on_settings_obs s cmd id status) as [_ W]. cbn zeta in W. rewrite Hb in W.
  set (o := snd (fst (on_settings s cmd id status))) in *.
  set (w := OWire 5 g_chan_settings [g_cmd_start; id; c_period (get s h)] [g_cmd_start; id]).
  assert (Hin : In w o <-> In w (filter is_wire o)).
  { rewrite filter_In. cbn. tauto. }
  rewrite Hin, W. clear Hin W.
  destruct (reset_applies s cmd) eqn:R.
  - unfold reset_applies in R. apply andb_true_iff in R as [R _].
    assert (cmd = 5) by (unfold g_cmd_reset in R; lia). subst cmd.
    unfold create_ack_ok. change (5 =? g_cmd_create) with false. change (5 =? g_cmd_create_v2) with false. cbn [orb andb].
    split; [|intros [X _]; discriminate].
    intros [Hw|[]]. unfold w, toc_info_wire in Hw. inversion Hw.
  - destruct (create_ack_ok cmd status && negb (c_added (get s h))) eqn:E.
    + apply andb_true_iff in E as [E1 E2]. split; [intros _; split; [exact E1|destruct (c_added (get s h)); [discriminate|reflexivity]]|intros _; left; reflexivity].
    + split; [intros []|]. intros [E1 E2]. rewrite E1, E2 in E. discriminate.
Qed.

(* the acknowledged reset empties log_blocks *)
Lemma reset_ack_blocks s cmd id status : reset_applies s cmd = true ->
  s_blocks (fst (fst (on_settings s cmd id status))) = [] /\
  s_toc (fst (fst (on_settings s cmd id status))) = Some [].
Proof.
  intros R. rewrite on_settings_split, R. destruct (forget_blocks s (s_blocks s)). split; reflexivity.
Qed.

(* ------------------------------------------------------------------ everything else leaves the flags alone *)
Lemma nth_app_new l ms h : flags (nth h (l ++ [new_cfg_p ms]) dummy_cfg) = flags (nth h l dummy_cfg)
  /\ c_vars (nth h (l ++ [new_cfg_p ms]) dummy_cfg) = c_vars (nth h l dummy_cfg)
  /\ c_dfa (nth h (l ++ [new_cfg_p ms]) dummy_cfg) = c_dfa (nth h l dummy_cfg)
  /\ c_cf (nth h (l ++ [new_cfg_p ms]) dummy_cfg) = c_cf (nth h l dummy_cfg).
Proof.
  destruct (Nat.lt_ge_cases h (length l)) as [H|H].
  - rewrite app_nth1 by exact H. auto.
  - rewrite app_nth2 by exact H. rewrite (nth_overflow l) by exact H.
    destruct (h - length l)%nat as [|[|k]]; cbn; auto.
Qed.

Ltac put_cases :=
  repeat (rewrite ?get_set_blocks, ?get_set_counter, ?get_set_toc, ?get_set_link, ?get_set_v2, ?get_set_rp;
  match goal with
  | |- context [get (put ?s ?h0 ?c) ?h] => rewrite (get_put s h0 c h)
  | |- context [if (Nat.eqb ?h ?h0 && valid_h ?s ?h0)%bool then _ else _] =>
      let E := fresh "E" in
      destruct (Nat.eqb h h0 && valid_h s h0)%bool eqn:E;
      [apply andb_true_iff in E as [E _]; apply Nat.eqb_eq in E; subst|]
  end).

Lemma add_config_flags s h0 h : flags (get (fst (fst (add_config s h0))) h) = flags (get s h).
Proof.
  unfold add_config. destruct (negb (s_link s)); [reflexivity|].
  destruct (c_dfa (get s h0)) as [|n r] eqn:Ed.
  - destruct (check_vars (s_toc s) (c_vars (get s h0)) 0); cbn [fst snd]; put_cases; try reflexivity.
    destruct ((size <=? g_max_len) && period_ok (c_period (get s h0))); cbn [fst snd]; put_cases; reflexivity.
  - destruct (s_toc s) as [tc|]; [|reflexivity].
    destruct (resolve_dfa tc (n :: r)) as [vs|]; [|cbn [fst snd]; put_cases; reflexivity].
    destruct (check_vars _ _ _); cbn [fst snd]; put_cases; try reflexivity.
    destruct ((size <=? g_max_len) && _); cbn [fst snd]; put_cases; reflexivity.
Qed.

Lemma add_config_no_flag_cb s h0 : filter is_flag_cb (snd (fst (add_config s h0))) = [].
Proof.
  unfold add_config. destruct (negb (s_link s)); [reflexivity|].
  destruct (match c_dfa (get s h0) with [] => Ok (get s h0) | _ :: _ => _ end) as [c1|[]]; try reflexivity.
  destruct (check_vars _ _ _); try reflexivity.
  destruct ((size <=? g_max_len) && _); reflexivity.
Qed.

Lemma create_flags s h0 h : flags (get (fst (fst (create s h0))) h) = flags (get s h).
Proof.
  unfold create. destruct (negb (c_cf (get s h0))); [reflexivity|].
  destruct (negb (create_guard s (get s h0))); [reflexivity|].
  destruct (create_msgs _ _ _ _) as [os e]. cbn [fst snd]. put_cases; reflexivity.
Qed.

Lemma create_loop_only_wires : forall fuel v2 otc id cmd vs,
  filter is_flag_cb (fst (create_loop fuel v2 otc id cmd vs)) = [].
Proof.
  induction fuel as [|f IH]; intros; cbn [create_loop]; [reflexivity|].
  destruct (setup_elems v2 otc [cmd; id] vs) as [[[d rest] pk]|e]; [|reflexivity].
  destruct d; [reflexivity|].
  specialize (IH v2 otc id (if v2 then g_cmd_append_v2 else g_cmd_append) rest).
  destruct (create_loop f v2 otc id _ rest) as [os e]. cbn in *. exact IH.
Qed.

Lemma create_no_flag_cb s h0 : filter is_flag_cb (snd (fst (create s h0))) = [].
Proof.
  unfold create. destruct (negb (c_cf (get s h0))); [reflexivity|].
  destruct (negb (create_guard s (get s h0))); [reflexivity|].
  unfold create_msgs. pose proof (create_loop_only_wires (S (length (c_vars (get s h0)))) (c_v2 (get s h0)) (s_toc s) (c_id (get s h0)) (create_cmd (c_v2 (get s h0))) (c_vars (get s h0))) as H.
  destruct (create_loop _ _ _ _ _ _) as [os e]. exact H.
Qed.

Definition is_packet (e : ev) : bool := match e with EPacket _ _ => true | _ => false end.

Lemma step_flags_other s e : is_packet e = false ->
  (forall h, flags (get (fst (fst (step s e))) h) = flags (get s h)) /\
  filter is_flag_cb (snd (fst (step s e))) = [].
Proof.
  intros Hp. destruct e; try discriminate; cbn [step].
  - (* ENew *) split; [|reflexivity]. intros h'. unfold get. cbn. apply nth_app_new.
  - (* EAddVar *) destruct (negb (valid_h s h)); [split; reflexivity|].
    destruct (ty =? 0); [|destruct (ty_known ty)]; (split; [intros h'; cbn [fst snd]; put_cases; reflexivity|reflexivity]).
  - (* EAddMem *) destruct (negb (valid_h s h)); [split; reflexivity|].
    destruct (ty_known fetch && ty_known stored); (split; [intros h'; cbn [fst snd]; put_cases; reflexivity|reflexivity]).
  - (* EAddConfig *) destruct (negb (valid_h s h)); [split; reflexivity|].
    pose proof (add_config_flags s h) as F. pose proof (add_config_no_flag_cb s h) as C.
    destruct (add_config s h) as [[s1 o] a]. cbn [fst snd] in *. split; assumption.
  - (* ECreate *) destruct (negb (valid_h s h)); [split; reflexivity|].
    split; [intros; apply create_flags|apply create_no_flag_cb].
  - (* EStart *) destruct (negb (valid_h s h)); [split; reflexivity|]. unfold start.
    destruct (negb (c_cf (get s h))); [split; reflexivity|].
    destruct (negb (s_link s)); [split; reflexivity|].
    destruct (negb (c_added (get s h))); [split; [intros; apply create_flags|apply create_no_flag_cb]|split; reflexivity].
  - (* EStop *) destruct (negb (valid_h s h)); [split; reflexivity|]. unfold stop_or_delete.
    destruct (negb (c_cf (get s h))); [split; reflexivity|]. destruct (negb (s_link s)); split; reflexivity.
  - (* EDelete *) destruct (negb (valid_h s h)); [split; reflexivity|]. unfold stop_or_delete.
    destruct (negb (c_cf (get s h))); [split; reflexivity|]. destruct (negb (s_link s)); split; reflexivity.
  - split; reflexivity.
  - split; reflexivity.
  - split; reflexivity.
Qed.

(* the reset reply of a new session forgets: whatever state the configurations of log_blocks are in (whatever
   acknowledgements of the old session arrived after its link was gone), afterwards none of them is added,
   started or pending, and log_blocks is empty *)
Lemma reset_reply_forgets s cmd id status : blocks_valid s -> reset_applies s cmd = true ->
  let s1 := fst (fst (on_settings s cmd id status)) in
  s_blocks s1 = [] /\
  forall h, memb h (s_blocks s) = true -> flags (get s1 h) = (false, false) /\ c_pending (get s1 h) = 0.
Proof.
  intros Hv R. cbn zeta. split; [apply (reset_ack_blocks s cmd id status R)|].
  intros h Hm. split.
  - rewrite on_settings_flags by exact Hv. now rewrite R, Hm.
  - rewrite on_settings_split, R.
    pose proof (forget_blocks_pending (s_blocks s) s h Hv) as P.
    destruct (forget_blocks s (s_blocks s)) as [sf o1]. cbn [fst snd] in *.
    rewrite get_set_rp, get_set_toc, get_set_blocks, P, Hm. reflexivity.
Qed.
