(* C05/Property.v — property C05 (log blocks are created as configured and log data decodes to device
   values), theorems only.  Each is closed by `exact <lemma>` and followed by Print Assumptions.
   Model: C05/Model.v (with fixes/F05b.patch applied to add_config and fixes/F05d.patch to SyncLogger.connect, fixes/F05c.patch to the reset acknowledgement).  Clauses that the code does NOT
   satisfy are stated as Definitions `..._full` with a theorem `..._refuted` (finding F05a). *)
Require Import CF.C05.Model CF.C05.Proofs_create CF.C05.Proofs_add CF.C05.Proofs_unpack CF.C05.Proofs_flags CF.C05.Proofs_hist CF.C05.Proofs_sync CF.C05.SyncThreads CF.C05.Proofs_threads CF.C05.Wire CF.C05.Examples.
Open Scope Z_scope.

(* ---------------------------------------------------------------- acceptance *)

(* Connected, TOC known: add_config accepts iff every name (typed or default-typed) is in the TOC, the
   period int(ms/10) is in 1..254 and the payload fits 26 bytes; and add_config never sends a packet. *)
Theorem C05_accept_iff : forall s h tc,
  s_link s = true -> s_toc s = Some tc -> toc_types_known tc -> types_known (c_vars (get s h)) ->
  let c := get s h in
  (snd (add_config s h) = AccAccepted <->
     all_in_toc tc c /\ 1 <= c_period c <= 254 /\ payload_size tc c <= 26) /\
  (forall p ch d e, ~ In (OWire p ch d e) (snd (fst (add_config s h)))).
Proof. exact accept_iff. Qed.
Print Assumptions C05_accept_iff.

(* LogConfig(name, ms): the period test is 10 ms <= ms < 2550 ms (effective period 10 ms .. 2.54 s) *)
Theorem C05_period_window : forall ms, 1 <= c_period (new_cfg ms) <= 254 <-> 10 <= ms < 2550.
Proof. exact period_window. Qed.
Print Assumptions C05_period_window.

(* what acceptance does: id from the counter, protocol version, listed in log_blocks, default-typed
   names appended once with the TOC's type and the list of pending names emptied, one block_added_cb *)
Theorem C05_accepted_state : forall s h tc,
  s_link s = true -> s_toc s = Some tc -> toc_types_known tc -> types_known (c_vars (get s h)) ->
  snd (add_config s h) = AccAccepted ->
  let c := get s h in
  add_config s h =
    (set_blocks (set_counter (put s h (set_accept (set_dfa (set_vars c (resolved_vars tc c)) []) (s_counter s) (s_v2 s)))
                             ((s_counter s + 1) mod 255)) (s_blocks s ++ [h]),
     [OCb cb_block_added h []], AccAccepted).
Proof. exact accepted_state. Qed.
Print Assumptions C05_accepted_state.

(* INVARIANT of the requested variables.  `name_seq c` = names of the typed variables followed by the names
   still waiting for their type; `extends c c'` = the typed list of c' is the one of c followed by rs, and
   the names of rs followed by the pending names of c' are the pending names of c.  No event other than
   add_variable/add_memory on configuration h -- add_config accepted or rejected, with any table, in any
   order, acknowledgements, data, link loss, new sessions -- duplicates, drops or reorders a name or touches
   an existing typed variable: add_config only moves pending names, in order, to the end of the typed list. *)
Theorem C05_requested_variables_invariant_step : forall s e h, touches h e = false ->
  extends (get s h) (get (fst (fst (step s e))) h).
Proof. exact step_extends. Qed.
Print Assumptions C05_requested_variables_invariant_step.

Theorem C05_requested_variables_invariant : forall evs s h,
  forallb (fun e => negb (touches h e)) evs = true ->
  extends (get s h) (get (final s evs) h) /\ name_seq (get (final s evs) h) = name_seq (get s h).
Proof. intros evs s h H. split; [exact (run_extends evs s h H)|exact (run_name_seq evs s h H)]. Qed.
Print Assumptions C05_requested_variables_invariant.

(* corollary: when add_config accepts at the end of such a history, the variable list of the configuration
   (the list the creation messages enumerate, C05_create_messages_exact_partial) names exactly the requested
   variables, once each, typed ones first, then the default-typed ones in their order *)
Theorem C05_accepted_variables_are_the_requested : forall evs s h,
  forallb (fun e => negb (touches h e)) evs = true ->
  valid_h (final s evs) h = true ->
  snd (add_config (final s evs) h) = AccAccepted ->
  map v_name (c_vars (get (fst (fst (add_config (final s evs) h))) h)) = name_seq (get s h).
Proof. exact accepted_vars_are_requested. Qed.
Print Assumptions C05_accepted_variables_are_the_requested.

(* a rejected add_config announces nothing (and add_config never sends, C05_accept_iff); log_blocks, the id
   counter, id and cf stay as they were *)
Theorem C05_rejected_add_quiet : forall s h e, valid_h s h = true -> snd (add_config s h) = AccRejected e ->
  snd (fst (add_config s h)) = [] /\
  s_blocks (fst (fst (add_config s h))) = s_blocks s /\ s_counter (fst (fst (add_config s h))) = s_counter s /\
  c_id (get (fst (fst (add_config s h))) h) = c_id (get s h) /\ c_cf (get (fst (fst (add_config s h))) h) = c_cf (get s h).
Proof. exact rejected_add_quiet. Qed.
Print Assumptions C05_rejected_add_quiet.

(* reject on a device that lacks the third default-typed name, accept on a device that has all: three
   variables *)
Theorem C05_reject_then_accept_example :
  let s7 := final init_st (firstn 7 ex_reject_then_accept) in
  let s8 := final init_st (firstn 8 ex_reject_then_accept) in
  snd (add_config s7 0) = AccRejected KeyError /\ s8 = s7 /\
  c_vars (get s8 0) = [] /\ c_dfa (get s8 0) = [20; 1; 21] /\ s_blocks s8 = [] /\
  c_vars (get (final init_st ex_reject_then_accept) 0)
    = [mkVar true 20 7 7 0; mkVar true 1 1 1 0; mkVar true 21 3 3 0].
Proof. exact ex_rejected_add_changes_nothing. Qed.
Print Assumptions C05_reject_then_accept_example.

(* the one-pass loop of seeded/C05-f (append every name as soon as it resolves, clear the pending list only
   when the loop completes) violates the invariant: after a rejection the names are both typed and pending,
   the next acceptance enumerates [20; 1; 20; 1; 21] for the request [20; 1; 21] *)
Theorem C05_onepass_variant_refuted :
  let '(vs1, ok1) := onepass ex_toc_small [20; 1; 21] [] in
  let '(vs2, ok2) := onepass (ex_toc ++ [mkT 21 9 3]) [20; 1; 21] vs1 in
  ok1 = false /\ ok2 = true /\ map v_name vs1 = [20; 1] /\ map v_name vs2 = [20; 1; 20; 1; 21] /\
  let c0 := set_dfa (new_cfg 100) [20; 1; 21] in
  let c1 := set_vars c0 vs1 in
  name_seq c0 = [20; 1; 21] /\ name_seq c1 = [20; 1; 20; 1; 21] /\ ~ extends c0 c1.
Proof. exact ex_onepass_duplicates. Qed.
Print Assumptions C05_onepass_variant_refuted.

(* As long as a configuration has never been accepted (its `cf` is unset), none of its add_config /
   create / start / stop / delete calls sends anything, in every history. *)
Theorem C05_never_accepted_sends_nothing : forall evs s h, c_cf (get s h) = false -> quiet s h evs.
Proof. exact never_accepted_quiet. Qed.
Print Assumptions C05_never_accepted_sends_nothing.

Theorem C05_cf_unset_until_accepted : forall s e h, c_cf (get s h) = false ->
  (forall h', e = EAddConfig h' -> h' <> h \/ snd (add_config s h) <> AccAccepted) ->
  c_cf (get (fst (fst (step s e))) h) = false.
Proof. exact cf_unset_preserved. Qed.
Print Assumptions C05_cf_unset_until_accepted.

(* ---------------------------------------------------------------- block creation (protocol V2) *)

(* For every list of table variables whose names are in the TOC (16-bit index): create() terminates
   without exception; the messages are (6,id,...) then (7,id,...)*; each is at most 30 bytes; the device
   (entry count = (size-2)/3, so the dangling type byte cflib leaves at each split is ignored) decodes
   exactly the variables, once each, in order, as (type byte, index); every append message carries at
   least one variable; the number of messages is max 1 ceil(n/9). *)
Theorem C05_create_messages_exact_partial : forall tc id vs,
  Forall (var_good tc) vs ->
  let msgs := messages_v2 tc id vs in
  create_msgs true (Some tc) id vs = (map (wire id) msgs, None) /\
  concat (map fw_decode msgs) = map (entry_of tc) vs /\
  Forall (fun m => (length m <= 30)%nat) msgs /\
  (exists m0 rest, msgs = m0 :: rest /\ firstn 2 m0 = [g_cmd_create_v2; id] /\
                   Forall (fun m => firstn 2 m = [g_cmd_append_v2; id] /\ fw_decode m <> []) rest) /\
  Z.of_nat (length msgs) = Z.max 1 ((Z.of_nat (length vs) + 8) / 9).
Proof. exact create_messages_exact. Qed.
Print Assumptions C05_create_messages_exact_partial.

(* the type byte: fetch type in the low nibble, stored type in the high nibble *)
Theorem C05_type_byte_nibbles : forall v, 0 <= v_fetch v < 16 -> 0 <= v_stored v < 16 ->
  Z.land (type_byte v) 15 = v_fetch v /\ Z.shiftr (type_byte v) 4 = v_stored v /\ in_byte (type_byte v) = true.
Proof. exact type_byte_nibbles. Qed.
Print Assumptions C05_type_byte_nibbles.

(* the `while not is_done` loop of create() terminates for every input (both protocol versions, any TOC) *)
Theorem C05_create_terminates : forall v2 otc id vs, snd (create_msgs v2 otc id vs) <> Some OutOfFuel.
Proof. exact create_terminates. Qed.
Print Assumptions C05_create_terminates.

(* protocol V1 (firmware protocol < 4; not the "current protocol" of the property): one message
   (0, id, then one (type, index) pair per variable), decoded by the device into exactly the variables; there is NO room test in the
   code, the message has 2 + 2n bytes and exceeds the 30-byte CRTP payload for n >= 15 *)
Theorem C05_create_messages_v1 : forall tc id vs, Forall (var_good_v1 tc) vs ->
  let msg := [g_cmd_create; id] ++ enc_v1 (map (entry_of tc) vs) in
  create_msgs false (Some tc) id vs = ([OWire 5 g_chan_settings msg [g_cmd_create; id]], None) /\
  fw_entries_v1 (skipn 2 msg) = map (entry_of tc) vs /\
  length msg = (2 + 2 * length vs)%nat.
Proof. exact create_messages_v1. Qed.
Print Assumptions C05_create_messages_v1.

(* The full clause also covers raw-memory variables (LogConfig.add_memory).  It is false: F05a. *)
Definition C05_create_all_variables_full : Prop :=
  forall tc id vs, Forall (fun v => v_toc v = true -> var_good tc v) vs ->
                   Forall (fun v => in_byte (type_byte v) = true) vs ->
                   snd (create_msgs true (Some tc) id vs) = None.

Theorem C05_create_all_variables_refuted : ~ C05_create_all_variables_full.
Proof. exact memvar_refutes_create_full. Qed.
Print Assumptions C05_create_all_variables_refuted.

(* the same on a whole history: a configuration with a raw-memory variable is accepted, and start()
   raises TypeError without sending anything *)
Theorem C05_memvar_accepted_but_not_created : exists evs,
  let s := final init_st evs in
  In 0%nat (s_blocks s) /\ c_valid (get s 0) = true /\
  start s 0 = (put s 0 (set_pending (get s 0) 1), [], Some TypeError).
Proof. exact (ex_intro _ ex_mem_history ex_memvar_accepted_but_create_raises). Qed.
Print Assumptions C05_memvar_accepted_but_not_created.

(* ---------------------------------------------------------------- log data *)

(* every fetch type, any mix, pairwise different names, any trailing bytes: unpack_log_data returns
   exactly the values the device encoded (integers by value, floats by bit pattern), in order *)
Theorem C05_unpack_exact : forall vs vals extra,
  Forall2 (fun v x => val_ok (v_fetch v) x) vs vals -> NoDup (map v_name vs) ->
  unpack_vars vs (encode_sample vs vals ++ extra) [] = Ok (sample_dict vs vals).
Proof. exact unpack_exact. Qed.
Print Assumptions C05_unpack_exact.

(* without the NoDup hypothesis: the dictionary built by successive assignments *)
Theorem C05_unpack_general : forall vs vals, Forall2 (fun v x => val_ok (v_fetch v) x) vs vals ->
  forall extra d,
  unpack_vars vs (encode_sample vs vals ++ extra) d = Ok (fold_left assign (combine vs vals) d).
Proof. exact unpack_vars_enc. Qed.
Print Assumptions C05_unpack_general.

(* the whole packet: block id, 24-bit little-endian timestamp, payload *)
Theorem C05_logdata_packet_exact : forall s id h ts vals extra,
  find_block s id = Some h -> 0 <= ts < 2 ^ 24 ->
  let vs := c_vars (get s h) in
  Forall2 (fun v x => val_ok (v_fetch v) x) vs vals -> NoDup (map v_name vs) ->
  on_packet s g_chan_logdata (id :: le_bytes 3 ts ++ encode_sample vs vals ++ extra)
    = (s, [OData h ts (sample_dict vs vals)], None).
Proof. exact logdata_exact. Qed.
Print Assumptions C05_logdata_packet_exact.

(* a payload too short for the next variable raises struct.error; nothing is delivered *)
Theorem C05_unpack_short_refused : forall v vs data d k f s,
  ty_info (v_fetch v) = Some (k, f, s) -> (length data < Z.to_nat s)%nat ->
  unpack_vars (v :: vs) data d = Err StructError.
Proof. exact unpack_short. Qed.
Print Assumptions C05_unpack_short_refused.

(* ---------------------------------------------------------------- lifecycle *)

(* log_blocks only ever holds handles of existing configurations, in every reachable state *)
Theorem C05_reachable_blocks_valid : forall evs, blocks_valid (final init_st evs).
Proof. exact reachable_blocks_valid. Qed.
Print Assumptions C05_reachable_blocks_valid.

(* An incoming packet changes added/started of the addressed block exactly as the acknowledgement says
   (create ok/EEXIST: added; start ok: started; stop ok: not started; delete ok/ENOENT: neither), the
   acknowledged reset of a new session clears both for every block of log_blocks (fixes/F05c.patch),
   and no other configuration is touched. *)
Theorem C05_flags_follow_acks : forall s chan data, blocks_valid s -> forall h,
  flags (get (fst (fst (on_packet s chan data))) h) =
    match ack_of chan data with
    | Some (cmd, id, status) =>
        if reset_applies s cmd && memb h (s_blocks s) then (false, false)
        else if addressed s id h then ack_effect cmd status (flags (get s h)) else flags (get s h)
    | None => flags (get s h)
    end.
Proof. exact packet_flags. Qed.
Print Assumptions C05_flags_follow_acks.

(* added_cb(config, flag) / started_cb(config, flag) fire exactly for the changes *)
Theorem C05_callbacks_follow_acks : forall s chan data,
  let o := snd (fst (on_packet s chan data)) in
  filter is_flag_cb o =
    match ack_of chan data with
    | Some (cmd, id, status) =>
        if reset_applies s cmd then snd (forget_blocks s (s_blocks s))
        else match find_block s id with
             | Some h => expected_cbs h (flags (get s h)) (ack_effect cmd status (flags (get s h)))
             | None => []
             end
    | None => []
    end.
Proof. exact packet_obs. Qed.
Print Assumptions C05_callbacks_follow_acks.

(* ... where the callbacks of the acknowledged reset are, for pairwise different blocks, one
   started_cb(config, False) / added_cb(config, False) per flag that was set *)
Theorem C05_reset_callbacks : forall bl s, Forall (fun h => valid_h s h = true) bl -> NoDup bl ->
  snd (forget_blocks s bl) = flat_map (fun h => expected_cbs h (flags (get s h)) (false, false)) bl.
Proof. exact forget_blocks_cbs. Qed.
Print Assumptions C05_reset_callbacks.

Theorem C05_reset_ack_empties_blocks : forall s cmd id status, reset_applies s cmd = true ->
  s_blocks (fst (fst (on_settings s cmd id status))) = [] /\
  s_toc (fst (fst (on_settings s cmd id status))) = Some [].
Proof. exact reset_ack_blocks. Qed.
Print Assumptions C05_reset_ack_empties_blocks.

(* START (with the period) is sent exactly on a positive create acknowledgement of a block not yet added *)
Theorem C05_start_sent_on_create_ack : forall s chan data cmd id status h,
  ack_of chan data = Some (cmd, id, status) -> find_block s id = Some h ->
  In (OWire 5 g_chan_settings [g_cmd_start; id; c_period (get s h)] [g_cmd_start; id])
     (snd (fst (on_packet s chan data)))
  <-> create_ack_ok cmd status = true /\ c_added (get s h) = false.
Proof. exact packet_start_sent. Qed.
Print Assumptions C05_start_sent_on_create_ack.

(* nothing but an incoming packet changes a flag or fires added_cb/started_cb *)
Theorem C05_flags_only_by_acks : forall s e, is_packet e = false ->
  (forall h, flags (get (fst (fst (step s e))) h) = flags (get s h)) /\
  filter is_flag_cb (snd (fst (step s e))) = [].
Proof. exact step_flags_other. Qed.
Print Assumptions C05_flags_only_by_acks.

(* Once add_config has accepted a configuration, no later history (acks, data, stop, delete, link loss,
   new sessions with any TOC, adding it again any number of times) changes its variable list, unless
   the user adds variables to it. *)
Theorem C05_readd_idempotent : forall s h evs,
  valid_h s h = true -> snd (add_config s h) = AccAccepted ->
  forallb (fun e => negb (touches h e)) evs = true ->
  let s1 := fst (fst (add_config s h)) in
  c_vars (get (final s1 evs) h) = c_vars (get s1 h) /\ c_dfa (get (final s1 evs) h) = [].
Proof. exact readd_idempotent. Qed.
Print Assumptions C05_readd_idempotent.

(* Reconnect: the block was added and started in the first session; after the reset acknowledgement of
   the second session its flags are clear (callbacks fired), the re-added configuration gets a new id and
   start() sends the creation message again (finding F05c, repaired by fixes/F05c.patch). *)
Theorem C05_reconnect_recreates : exists evs,
  let s := final init_st evs in
  s_blocks s = [0%nat] /\ c_valid (get s 0) = true /\ c_id (get s 0) = 2 /\
  flags (get s 0) = (false, false) /\
  start s 0 = (put s 0 (set_pending (get s 0) 1), [OWire 5 1 [6; 2; 17; 45; 1] [6; 2]], None) /\
  nth 11 (snd (run init_st evs)) ([], None)
    = ([OCb cb_started 0 [0]; OCb cb_added 0 [0]; OWire 5 0 [3] [3]], None).
Proof. exact (ex_intro _ ex_reconnect_history ex_reconnect_recreates). Qed.
Print Assumptions C05_reconnect_recreates.

(* ---------------------------------------------------------------- SyncLogger *)

(* One session of a SyncLogger object, whatever happened to the object before (connect, then anything
   but connect): what next() yielded so far, followed by what is still queued, is exactly the sequence
   of samples the block delivered while connected -- FIFO, no duplicate, no loss, no reordering, and
   nothing from an earlier session (with fixes/F05d.patch). *)
Theorem C05_synclogger_fifo : forall s0 evs, sl_conn s0 = false ->
  forallb (fun e => negb (is_connect e)) evs = true ->
  let r := sl_run s0 (SConnect :: evs) in
  yields (snd r) ++ qsamples (sl_queue (fst r)) = delivered true evs.
Proof. exact sl_session. Qed.
Print Assumptions C05_synclogger_fifo.

Theorem C05_synclogger_session_starts_empty : forall s0, sl_conn s0 = false ->
  sl_step s0 SConnect = (mkSl true [], YNone).
Proof. exact sl_connect_fresh. Qed.
Print Assumptions C05_synclogger_session_starts_empty.

(* ... ending at the disconnect: after link loss / disconnect() every next() raises StopIteration and
   nothing more is yielded (samples still queued at that moment are dropped) *)
Theorem C05_synclogger_ends_at_disconnect : forall pre d post,
  forallb (fun e => negb (is_connect e)) (pre ++ d :: post) = true -> is_end d = true ->
  forallb (fun e => negb (is_end e)) pre = true ->
  let r1 := sl_run (mkSl true []) pre in
  let r := sl_run (mkSl true []) (pre ++ d :: post) in
  yields (snd r) = yields (snd r1) /\
  yields (snd r1) ++ qsamples (sl_queue (fst r1)) = delivered true pre.
Proof. exact sl_session_split. Qed.
Print Assumptions C05_synclogger_ends_at_disconnect.

Theorem C05_synclogger_stopped : forall evs s, sl_conn s = false ->
  forallb (fun e => negb (is_connect e)) evs = true ->
  yields (snd (sl_run s evs)) = [] /\
  Forall (fun o => o = YStop \/ o = YNone) (snd (sl_run s evs)) /\
  sl_conn (fst (sl_run s evs)) = false.
Proof. exact sl_after_end. Qed.
Print Assumptions C05_synclogger_stopped.

(* ---------------------------------------------------------------- SyncLogger under threads (SyncThreads.v) *)
(* dispatcher (data callbacks, link-loss callback in two halves), user thread (connect in one go or step by
   step, disconnect) and consumer (next(): the _is_connected test, then inside get()) interleave arbitrarily. *)

(* For every state and every interleaving without a (new) connect(): yielded ++ still queued = queued before
   ++ enqueued, where enqueued = the data packets of the blocks whose data callback is registered.  So the
   iterator yields a PREFIX of what its blocks delivered: each sample at most once, in order, nothing else. *)
Theorem C05_threads_conservation : forall evs s,
  forallb (fun e => negb (clears_queue e)) evs = true ->
  tyields (snd (t_run s evs)) ++ qsamples (t_queue (fst (t_run s evs)))
    = qsamples (t_queue s) ++ tenq s evs.
Proof. exact t_conservation. Qed.
Print Assumptions C05_threads_conservation.

(* One session, whatever happened to the object before: connect() (at once, or its first step) empties the
   queue -- nothing of an earlier run is yielded. *)
Theorem C05_threads_session : forall s0 e evs, clears_queue e = true -> snd (t_step s0 e) = ONone ->
  forallb (fun e => negb (clears_queue e)) evs = true ->
  let r := t_run s0 (e :: evs) in
  tyields (snd r) ++ qsamples (t_queue (fst r)) = tenq (fst (t_step s0 e)) evs.
Proof. exact t_session. Qed.
Print Assumptions C05_threads_session.

(* never a sample of another block / another logger's configuration: data callbacks are only ever
   registered on the logger's own configurations (invariant), and only their packets are enqueued *)
Theorem C05_threads_nothing_foreign : forall evs s k, dreg_own s -> In k (tenq s evs) ->
  exists c, owns s c = true /\ In (TSample c k) evs.
Proof. exact tenq_own. Qed.
Print Assumptions C05_threads_nothing_foreign.

Theorem C05_threads_own_registrations_invariant : forall s e, dreg_own s ->
  dreg_own (fst (t_step s e)) /\ t_own (fst (t_step s e)) = t_own s.
Proof. exact t_step_dreg_own. Qed.
Print Assumptions C05_threads_own_registrations_invariant.

(* Liveness invariant (no explicit disconnect, connect() in one go): a consumer inside get() always has the
   connection up, or a sentinel on its way, or something to take; it is never stuck after a link loss. *)
Theorem C05_threads_live : forall evs s,
  forallb (fun e => negb (is_tdisconnect e) && negb (is_tbegin e) && negb (is_tconnect e)) evs = true ->
  live s -> live (fst (t_run s evs)).
Proof. exact t_run_live. Qed.
Print Assumptions C05_threads_live.

Theorem C05_threads_terminates_after_link_loss : forall s, live s -> t_conn s = false -> t_pend s = 0%nat ->
  let s1 := match t_cons s with CInGet => fst (t_step s TGet) | CIdle => s end in
  t_cons s1 = CIdle /\ t_step s1 TNext = (s1, OStop).
Proof. exact t_terminates_after_link_loss. Qed.
Print Assumptions C05_threads_terminates_after_link_loss.

(* LINK LOSS AT ANY POINT OF connect(): connect() step by step over its n configurations, the link lost
   after j of them, for EVERY j <= n (between two steps, or inside the last send of step j), the rest of
   connect() and the second half of the link-loss callback, then the consumer iterates: it gets
   StopIteration, it does not block -- because _disconnected is registered before the first step that can
   lose the link.  (j = n, or the configurations have been accepted before: the remaining turns do not
   raise; the other case is the next theorem.) *)
Theorem C05_threads_loss_during_connect_terminates : forall s n j,
  fresh s -> n = length (t_own s) -> (j <= n)%nat -> j = n \/ allknown s ->
  last (snd (t_run s (connect_with_loss n j))) ONone = OStop /\
  t_cons (fst (t_run s (connect_with_loss n j))) = CIdle.
Proof. exact loss_during_connect_terminates. Qed.
Print Assumptions C05_threads_loss_during_connect_terminates.

(* the link lost before a configuration that was never accepted: its start() raises AttributeError, connect()
   ends without _is_connected, next() raises StopIteration at once *)
Theorem C05_threads_loss_before_unknown_config : forall early s j c,
  t_cpos s = Some j -> nth_error (t_own s) j = Some c ->
  t_link s = false -> memz c (t_known s) = false -> t_conn s = false -> t_cons s = CIdle ->
  let s1 := fst (t_stepg early s TConnCfg) in
  snd (t_stepg early s TConnCfg) = ORaiseAttr /\ t_cpos s1 = None /\ t_conn s1 = false /\
  t_stepg early s1 TNext = (s1, OStop).
Proof. exact loss_before_unknown_config. Qed.
Print Assumptions C05_threads_loss_before_unknown_config.

(* refutation of the variant that registers _disconnected AFTER the loop (seeded/C05-i): for every such
   position of the loss the consumer ends inside get() with an empty queue, no sentinel on its way, and a
   logger that believes it is connected *)
Theorem C05_threads_late_registration_refuted : forall s n j,
  fresh s -> n = length (t_own s) -> (j <= n)%nat -> j = n \/ allknown s ->
  let s' := fst (t_rung false s (connect_with_loss n j)) in
  last (snd (t_rung false s (connect_with_loss n j))) ONone = ONoop /\
  t_cons s' = CInGet /\ t_queue s' = [] /\ t_pend s' = 0%nat /\ t_conn s' = true.
Proof. exact late_registration_blocks. Qed.
Print Assumptions C05_threads_late_registration_refuted.

(* OBSERVATION, stated as a theorem about the model of the unchanged code: disconnect() from another thread
   while the consumer is inside get() on an empty queue leaves it blocked until a new connect() *)
Theorem C05_threads_explicit_disconnect_can_block : forall evs s, stuck s ->
  forallb (fun e => negb (clears_queue e)) evs = true ->
  stuck (fst (t_run s evs)) /\ tyields (snd (t_run s evs)) = [].
Proof. exact t_stuck_for_ever. Qed.
Print Assumptions C05_threads_explicit_disconnect_can_block.

(* several SyncLoggers on one Crazyflie: each one sees exactly its own projection of the system run *)
Theorem C05_threads_system_projection : forall evs ls i s, nth_error ls i = Some s ->
  nth_error (fst (sys_run ls evs)) i = Some (fst (t_run s (concat (map (proj i) evs)))).
Proof. exact sys_projection. Qed.
Print Assumptions C05_threads_system_projection.

(* ---------------------------------------------------------------- what is TRANSMITTED (Wire.v) *)
(* The link keeps the packet object and reads it when the radio transmits (and again for a resend).  Contract:
   if no packet object is written while the link holds a reference to it, then for every program and every
   schedule of transmissions and resends the air carries what was commanded, in order. *)
Theorem C05_wire_contract : forall ops, disciplined w_init ops = true ->
  let s := w_run w_init ops in
  w_out s ++ map (rd (w_heap s)) (w_queue s) = w_cmd s /\ Forall (fun p => fst p = snd p) (w_resent s).
Proof. exact wire_contract. Qed.
Print Assumptions C05_wire_contract.

(* LogConfig.create() allocates a fresh packet for every create/append message: for every list of messages
   (hence every variable count and every split, C05_create_messages_exact_partial) and every lag of the radio,
   transmitted ++ still held = the messages, in order; resends repeat them exactly *)
Theorem C05_create_transmitted_is_commanded : forall msgs sched,
  let s := w_run w_init (create_ops 0 msgs sched) in
  w_out s ++ map (rd (w_heap s)) (w_queue s) = msgs /\ Forall (fun p => fst p = snd p) (w_resent s).
Proof. exact create_transmitted_is_commanded. Qed.
Print Assumptions C05_create_transmitted_is_commanded.

(* refutation of one packet object re-filled per message (seeded/C05-j) *)
Theorem C05_shared_packet_refuted : forall m1 m2, m1 <> m2 ->
  let s := w_run w_init [WNew m1; WSend 0; WSet 0 m2; WSend 0; WTx; WTx; WResend 0] in
  w_cmd s = [m1; m2] /\ w_out s = [m2; m2] /\ w_out s <> w_cmd s /\ w_resent s = [(m1, m2)].
Proof. exact shared_packet_refuted. Qed.
Print Assumptions C05_shared_packet_refuted.

(* ---------------------------------------------------------------- the period: ints and floats *)
(* LogConfig(name, period_in_ms) with period_in_ms = a/b exactly (an int: b = 1; a float: its
   as_integer_ratio): the period byte is int(period_in_ms / 10) -- fperiod: quotient rounded to binary64,
   truncated towards zero.  Acceptance (C05_accept_iff) and the START request on the create acknowledgement
   (C05_start_sent_on_create_ack) are stated on that integer, whatever the type of the argument was. *)
Theorem C05_period_of_new_config : forall s num den,
  let '(s1, o, x) := step s (ENew num den) in
  c_period (get s1 (length (s_cfgs s))) = fperiod num den /\ o = [] /\ x = None.
Proof. exact period_of_new_config. Qed.
Print Assumptions C05_period_of_new_config.

(* integer periods: the same as integer division, for every ms in [-200, 3400) (complete enumeration) *)
Theorem C05_int_period_is_quot : forall ms, -200 <= ms < 3400 -> fperiod ms 1 = Z.quot ms 10.
Proof. exact int_period_is_quot. Qed.
Print Assumptions C05_int_period_is_quot.

(* ---------------------------------------------------------------- refused creation, start() again (wave 12) *)
(* start() of an accepted configuration that is not added always sends the creation messages -- `pending`
   (creation in flight) does not hold it back; so after a refused creation a later start() creates again *)
Theorem C05_start_not_added_creates : forall s h,
  c_cf (get s h) = true -> s_link s = true -> c_added (get s h) = false -> create_guard s (get s h) = true ->
  start s h = (put s h (set_pending (get s h) (c_pending (get s h) + 1)),
               fst (create_msgs (c_v2 (get s h)) (s_toc s) (c_id (get s h)) (c_vars (get s h))),
               snd (create_msgs (c_v2 (get s h)) (s_toc s) (c_id (get s h)) (c_vars (get s h)))).
Proof. exact start_not_added_creates. Qed.
Print Assumptions C05_start_not_added_creates.

(* what a refused creation does: err_no, added_cb(False), error_cb; flags and pending unchanged, nothing sent *)
Theorem C05_refused_create_ack : forall s cmd id status h,
  (cmd =? g_cmd_create) || (cmd =? g_cmd_create_v2) = true -> find_block s id = Some h ->
  (status =? 0) || (status =? g_eexist) = false -> err_known status = true ->
  on_settings s cmd id status =
    (put s h (set_errno (get s h) status), [OCb cb_added_err h [0]; OCb cb_error h [status]], None).
Proof. exact refused_create_keeps_pending. Qed.
Print Assumptions C05_refused_create_ack.

(* refusal (ENOMEM), then start() again: the code re-creates and the block gets added and started; the variant
   that returns while `pending` is set (seeded/C05-l) sends nothing *)
Theorem C05_pending_guarded_start_refuted :
  let s := final init_st ex_refused_history in
  flags (get s 0) = (false, false) /\ c_pending (get s 0) = 1 /\ c_errno (get s 0) = 12 /\
  snd (fst (start s 0)) = [OWire 5 1 [6; 1; 17; 45; 1] [6; 1]] /\
  snd (fst (start_guarded s 0)) = [] /\
  (let s2 := final init_st (ex_refused_history ++ [EStart 0; EPacket 1 [6; 1; 0]; EPacket 1 [3; 1; 0]]) in
   flags (get s2 0) = (true, true) /\ c_pending (get s2 0) = 0).
Proof. exact ex_refused_then_start_again. Qed.
Print Assumptions C05_pending_guarded_start_refuted.

(* OBSERVATION (beyond the text; the model follows the code): a second start() before the create
   acknowledgement sends the creation messages a second time *)
Theorem C05_start_twice_observation :
  let s := final init_st (ex_session ++ [ENew 100 1; EAddVar 0 1 1; EAddConfig 0; EStart 0]) in
  snd (fst (start s 0)) = [OWire 5 1 [6; 1; 17; 45; 1] [6; 1]] /\ c_pending (get (fst (fst (start s 0))) 0) = 2.
Proof. exact ex_start_twice_sends_create_twice. Qed.
Print Assumptions C05_start_twice_observation.

(* ---------------------------------------------------------------- protocol generation of a session (wave 14) *)
(* every accepted add_config binds the configuration to the CURRENT session: protocol generation (useV2 :=
   Log._useV2 of this session), id, Crazyflie -- also when the same object was added in an earlier session
   with another generation.  With C05_start_not_added_creates the creation messages of any add use the
   command set and index width of the session in which the add happens. *)
Theorem C05_accepted_binds_session : forall s h, valid_h s h = true -> snd (add_config s h) = AccAccepted ->
  let s1 := fst (fst (add_config s h)) in
  c_v2 (get s1 h) = s_v2 s /\ c_id (get s1 h) = s_counter s /\ c_cf (get s1 h) = true.
Proof. exact accepted_binds_session. Qed.
Print Assumptions C05_accepted_binds_session.

(* V1 session, reconnect to V2 firmware with index 300, re-add: V2 create message with the 16-bit index; the
   bind-once variant (seeded/C05-n) would build a legacy message and raise ValueError *)
Theorem C05_bind_once_generation_refuted :
  snd (fst (start (final init_st (firstn 6 ex_generation_history)) 0)) = [OWire 5 1 [0; 1; 17; 44] [0; 1]] /\
  let s := final init_st ex_generation_history in
  c_v2 (get s 0) = true /\ c_id (get s 0) = 2 /\
  snd (fst (start s 0)) = [OWire 5 1 [6; 2; 17; 44; 1] [6; 2]] /\
  create_msgs false (s_toc s) (c_id (get s 0)) (c_vars (get s 0)) = ([], Some ValueError).
Proof. exact ex_generation_follows_session. Qed.
Print Assumptions C05_bind_once_generation_refuted.

(* ---------------------------------------------------------------- late acknowledgements of the old session (wave 15) *)
(* the reset reply of a new session forgets the state of every configuration of log_blocks -- for EVERY state,
   hence whatever acknowledgements of the old session (create, start, stop, delete, for blocks in any lifecycle
   state) were dispatched after its link was gone *)
Theorem C05_reset_reply_forgets : forall s cmd id status, blocks_valid s -> reset_applies s cmd = true ->
  let s1 := fst (fst (on_settings s cmd id status)) in
  s_blocks s1 = [] /\
  forall h, memb h (s_blocks s) = true -> flags (get s1 h) = (false, false) /\ c_pending (get s1 h) = 0.
Proof. exact reset_reply_forgets. Qed.
Print Assumptions C05_reset_reply_forgets.

(* a create acknowledgement dispatched after the disconnect sets added again; the code forgets at the reset
   reply and the re-added configuration is created; forgetting at the disconnect instead (seeded/C05-o) leaves
   added set and start() sends START for a block the device does not have *)
Theorem C05_forget_at_disconnect_refuted :
  let s := final init_st ex_late_ack_history in
  flags (get s 0) = (true, false) /\
  (let s2 := final s [ERefresh true; EPacket 1 [5; 0; 0]; ESetToc ex_toc; EAddConfig 0] in
   flags (get s2 0) = (false, false) /\ c_pending (get s2 0) = 0 /\
   snd (fst (start s2 0)) = [OWire 5 1 [6; 2; 17; 45; 1] [6; 2]]) /\
  (let s2' := final (reset_reply_without_forget (final s [ERefresh true])) [ESetToc ex_toc; EAddConfig 0] in
   flags (get s2' 0) = (true, false) /\
   snd (fst (start s2' 0)) = [OWire 5 1 [3; 2; 10] [3; 2]]).
Proof. exact ex_late_ack. Qed.
Print Assumptions C05_forget_at_disconnect_refuted.

(* ---------------------------------------------------------------- table installed after lookups (wave 16) *)
(* Lookups are functions of the CURRENT table: from any state (whatever add_config attempts were made on the
   still empty table of the session), once the session's table is installed -- downloaded or taken from the
   TOC cache -- Log.toc is that table and C05_accept_iff decides acceptance against it. *)
Theorem C05_installed_table_is_current : forall s tc,
  let s1 := fst (fst (step s (ESetToc tc))) in
  s_toc s1 = Some tc /\ s_cfgs s1 = s_cfgs s /\ s_blocks s1 = s_blocks s /\ s_link s1 = s_link s /\
  snd (fst (step s (ESetToc tc))) = [].
Proof. exact installed_table_is_current. Qed.
Print Assumptions C05_installed_table_is_current.

Theorem C05_early_add_then_table_example :
  let evs := [ERefresh true; EPacket 1 [5; 0; 0]; ENew 100 1; EAddVar 0 1 1; EAddConfig 0] in
  snd (add_config (final init_st (firstn 4 evs)) 0) = AccRejected KeyError /\
  snd (add_config (final init_st (evs ++ [ESetToc ex_toc])) 0) = AccAccepted.
Proof. exact ex_early_add_then_table. Qed.
Print Assumptions C05_early_add_then_table_example.

(* a memoised ident index that the installation by assignment does not invalidate (seeded/C05-p) answers
   "not found" for an element that is in the table *)
Theorem C05_memoised_index_refuted :
  let m0 := mkMemo [] None in
  let '(m1, r1) := memo_by_id m0 301 in
  let m2 := memo_install m1 ex_toc in
  r1 = None /\ snd (memo_by_id m2 301) = None /\
  toc_by_id (m_table m2) 301 = Some (mkT 1 301 1).
Proof. exact ex_memoised_index_refuted. Qed.
Print Assumptions C05_memoised_index_refuted.

(* ---------------------------------------------------------------- packets carry a block id (wave 17) *)
(* a packet for block id i reaches only a configuration of log_blocks whose CURRENT id is i: the lookup of
   every acknowledgement (C05_flags_follow_acks: `addressed`) and of every data packet *)
Theorem C05_find_block_current_id : forall s id h,
  find_block s id = Some h -> c_id (get s h) = id /\ In h (s_blocks s).
Proof. exact find_block_current_id. Qed.
Print Assumptions C05_find_block_current_id.

Theorem C05_logdata_only_current_id : forall s data h ts vals,
  In (OData h ts vals) (snd (fst (on_packet s g_chan_logdata data))) -> exists r, data = c_id (get s h) :: r.
Proof. exact logdata_only_current_id. Qed.
Print Assumptions C05_logdata_only_current_id.

(* the same object added again in one session gets a new id; data and duplicated STOP/DELETE acknowledgements
   that carry the old id change nothing and deliver nothing; an id -> object map that keeps the old id
   (seeded/C05-q) would apply them to the running block *)
Theorem C05_stale_id_map_refuted :
  let s := final init_st ex_readd_same_session in
  c_id (get s 0) = 2 /\ flags (get s 0) = (true, true) /\
  find_block s 1 = None /\ find_block s 2 = Some 0%nat /\
  on_packet s 2 [1; 9; 9; 9; 90] = (s, [], None) /\
  on_packet s 1 [4; 1; 0] = (s, [], None) /\
  on_packet s 1 [2; 1; 0] = (s, [], None) /\
  stale_map_lookup [(1, 0%nat); (2, 0%nat)] 1 = Some 0%nat.
Proof. exact ex_old_id_traffic_ignored. Qed.
Print Assumptions C05_stale_id_map_refuted.
