(* C05/Proofs_hist.v — facts about whole histories: state invariant, stability of the variable list,
   re-adding, configurations that were never accepted. *)
Require Import CF.C05.Model CF.C05.Proofs_add CF.C05.Proofs_flags.
From Coq Require Import ZifyBool.
Open Scope Z_scope.

(* ------------------------------------------------------------------ handles in log_blocks are valid *)
Lemma valid_h_mono s s1 : (length (s_cfgs s) <= length (s_cfgs s1))%nat ->
  forall h, valid_h s h = true -> valid_h s1 h = true.
Proof. unfold valid_h. intros H h Hh. apply Nat.ltb_lt in Hh. apply Nat.ltb_lt. lia. Qed.

Lemma put_len s h c : length (s_cfgs (put s h c)) = length (s_cfgs s).
Proof. unfold put. cbn. apply upd_nth_length. Qed.

Ltac walk :=
  repeat (cbv iota; cbn [orb andb negb];
          match goal with
          | |- context [if ?b then _ else _] =>
              lazymatch b with true => fail | false => fail | _ => destruct b end
          | |- context [match ?x with Some _ => _ | None => _ end] =>
              lazymatch x with Some _ => fail | None => fail | _ => destruct x end
          end).

Lemma on_settings_shape s cmd id status :
  let s1 := fst (fst (on_settings s cmd id status)) in
  length (s_cfgs s1) = length (s_cfgs s) /\ (s_blocks s1 = s_blocks s \/ s_blocks s1 = []).
Proof.
  cbn zeta. rewrite on_settings_split. destruct (reset_applies s cmd).
  - pose proof (forget_blocks_shape (s_blocks s) s) as P. cbv zeta in P.
    destruct (forget_blocks s (s_blocks s)) as [s1 o1]. cbn [fst snd] in *. destruct P as (A & _).
    cbn [s_cfgs s_blocks set_toc set_blocks]. auto.
  - unfold on_settings_old, assign_added, assign_started.
    walk; cbn [fst snd s_cfgs s_blocks set_toc set_blocks]; rewrite ?put_len; auto.
Qed.

Lemma add_config_shape s h : valid_h s h = true ->
  let s1 := fst (fst (add_config s h)) in
  length (s_cfgs s1) = length (s_cfgs s) /\ (s_blocks s1 = s_blocks s \/ s_blocks s1 = s_blocks s ++ [h]).
Proof.
  intros Hv. cbn zeta. unfold add_config. destruct (negb (s_link s)); [auto|].
  destruct (match c_dfa (get s h) with [] => Ok (get s h) | _ :: _ => _ end) as [c1|[]];
    cbn [fst snd]; rewrite ?put_len; auto.
  destruct (check_vars _ _ _); cbn [fst snd]; rewrite ?put_len; auto.
  destruct ((size <=? g_max_len) && _); cbn [fst snd]; cbn [s_cfgs s_blocks set_blocks set_counter]; rewrite ?put_len; auto.
Qed.

Lemma create_shape s h :
  let s1 := fst (fst (create s h)) in
  length (s_cfgs s1) = length (s_cfgs s) /\ s_blocks s1 = s_blocks s.
Proof.
  cbn zeta. unfold create. destruct (negb (c_cf (get s h))); [auto|].
  destruct (negb (create_guard s (get s h))); [auto|].
  destruct (create_msgs _ _ _ _). cbn [fst snd]. rewrite put_len. auto.
Qed.

Lemma step_blocks_valid s e : blocks_valid s -> blocks_valid (fst (fst (step s e))).
Proof.
  unfold blocks_valid. intros Hv.
  assert (K : forall s1, (length (s_cfgs s) <= length (s_cfgs s1))%nat ->
              (s_blocks s1 = s_blocks s \/ s_blocks s1 = []) ->
              Forall (fun h => valid_h s1 h = true) (s_blocks s1)).
  { intros s1 Hl [Hb|Hb]; rewrite Hb; [|constructor].
    eapply Forall_impl; [|exact Hv]. intros h. now apply valid_h_mono. }
  destruct e; cbn [step].
  - apply K; cbn; [rewrite app_length; lia|auto].
  - destruct (negb (valid_h s h)); [exact Hv|].
    destruct (ty =? 0); [|destruct (ty_known ty)]; cbn [fst snd]; try exact Hv; apply K; rewrite ?put_len; auto.
  - destruct (negb (valid_h s h)); [exact Hv|].
    destruct (ty_known fetch && ty_known stored); cbn [fst snd]; try exact Hv; apply K; rewrite ?put_len; auto.
  - destruct (negb (valid_h s h)) eqn:Eh; [exact Hv|].
    pose proof (add_config_shape s h ltac:(destruct (valid_h s h); [reflexivity|discriminate])) as [Hl Hb].
    destruct (add_config s h) as [[s1 o] a]. cbn [fst snd] in *.
    destruct Hb as [Hb|Hb]; [apply K; [lia|auto]|].
    rewrite Hb. apply Forall_app. split.
    + eapply Forall_impl; [|exact Hv]. intros h'. apply valid_h_mono. lia.
    + constructor; [|constructor]. apply (valid_h_mono s); [lia|]. destruct (valid_h s h); [reflexivity|discriminate].
  - destruct (negb (valid_h s h)); [exact Hv|]. destruct (create_shape s h) as [Hl Hb]. apply K; [lia|auto].
  - destruct (negb (valid_h s h)); [exact Hv|]. unfold start.
    destruct (negb (c_cf (get s h))); [exact Hv|]. destruct (negb (s_link s)); [exact Hv|].
    destruct (negb (c_added (get s h))); [|exact Hv]. destruct (create_shape s h) as [Hl Hb]. apply K; [lia|auto].
  - destruct (negb (valid_h s h)); [exact Hv|]. unfold stop_or_delete.
    destruct (negb (c_cf (get s h))); [exact Hv|]. destruct (negb (s_link s)); exact Hv.
  - destruct (negb (valid_h s h)); [exact Hv|]. unfold stop_or_delete.
    destruct (negb (c_cf (get s h))); [exact Hv|]. destruct (negb (s_link s)); exact Hv.
  - unfold on_packet. destruct data as [|cmd payload]; [exact Hv|].
    destruct (chan =? g_chan_settings).
    + destruct payload as [|id [|status r]]; try exact Hv.
      destruct (on_settings_shape s cmd id status) as [Hl Hb]. apply K; [lia|exact Hb].
    + destruct (chan =? g_chan_logdata); [rewrite on_logdata_state|]; exact Hv.
  - exact Hv.
  - exact Hv.
  - exact Hv.
Qed.

Lemma final_cons s e r : final s (e :: r) = final (fst (fst (step s e))) r.
Proof.
  unfold final. cbn [run]. destruct (step s e) as [[s1 o] x]. cbn [fst]. destruct (run s1 r). reflexivity.
Qed.

Lemma run_blocks_valid evs : forall s, blocks_valid s -> blocks_valid (final s evs).
Proof.
  induction evs as [|e r IH]; intros s H; [exact H|]. rewrite final_cons. apply IH, step_blocks_valid, H.
Qed.

Lemma reachable_blocks_valid evs : blocks_valid (final init_st evs).
Proof. apply run_blocks_valid. constructor. Qed.

(* ------------------------------------------------------------------ the variable list of a configuration *)
Definition touches (h : nat) (e : ev) : bool :=
  match e with
  | EAddVar h' _ _ => Nat.eqb h h'
  | EAddMem h' _ _ _ _ => Nat.eqb h h'
  | _ => false
  end.

Lemma on_settings_static s cmd id status h :
  let s1 := fst (fst (on_settings s cmd id status)) in
  c_vars (get s1 h) = c_vars (get s h) /\ c_dfa (get s1 h) = c_dfa (get s h) /\ c_cf (get s1 h) = c_cf (get s h).
Proof.
  cbn zeta. rewrite on_settings_split. destruct (reset_applies s cmd).
  - pose proof (forget_blocks_static (s_blocks s) s h) as P. cbv zeta in P.
    destruct (forget_blocks s (s_blocks s)) as [s1 o1]. cbn [fst snd] in *.
    rewrite get_set_rp, get_set_toc, get_set_blocks. tauto.
  - unfold on_settings_old, assign_added, assign_started.
    walk; cbn [fst snd]; put_cases; auto.
Qed.

Lemma create_static s h0 h :
  let s1 := fst (fst (create s h0)) in
  c_vars (get s1 h) = c_vars (get s h) /\ c_dfa (get s1 h) = c_dfa (get s h) /\ c_cf (get s1 h) = c_cf (get s h).
Proof.
  cbn zeta. unfold create. destruct (negb (c_cf (get s h0))); [auto|].
  destruct (negb (create_guard s (get s h0))); [auto|].
  destruct (create_msgs _ _ _ _). cbn [fst snd]. put_cases; auto.
Qed.

(* add_config of another configuration, or of this one when no default-typed name is pending *)
Lemma add_config_static s h0 h : (h0 <> h \/ c_dfa (get s h) = []) ->
  let s1 := fst (fst (add_config s h0)) in
  c_vars (get s1 h) = c_vars (get s h) /\ c_dfa (get s1 h) = c_dfa (get s h).
Proof.
  intros Hc. cbn zeta. unfold add_config. destruct (negb (s_link s)); [auto|].
  destruct (c_dfa (get s h0)) as [|n r] eqn:Ed.
  - destruct (check_vars (s_toc s) (c_vars (get s h0)) 0); cbn [fst snd]; put_cases; auto.
    destruct ((size <=? g_max_len) && _); cbn [fst snd]; put_cases; auto.
  - assert (Hne : h0 <> h) by (destruct Hc as [Hc|Hc]; [exact Hc|intro; subst; rewrite Hc in Ed; discriminate]).
    assert (G : forall s' c', get (put s' h0 c') h = get s' h).
    { intros. rewrite get_put. destruct (Nat.eqb h h0) eqn:E; [apply Nat.eqb_eq in E; congruence|reflexivity]. }
    destruct (s_toc s) as [tc|]; [|auto].
    destruct (resolve_dfa tc (n :: r)) as [vs|]; [|cbn [fst snd]; rewrite G; auto].
    destruct (check_vars _ _ _); cbn [fst snd]; rewrite ?G; auto.
    destruct ((size <=? g_max_len) && _); cbn [fst snd]; rewrite ?get_set_blocks, ?get_set_counter, ?G; auto.
Qed.

Lemma step_static s e h : touches h e = false -> c_dfa (get s h) = [] ->
  let s1 := fst (fst (step s e)) in
  c_vars (get s1 h) = c_vars (get s h) /\ c_dfa (get s1 h) = [].
Proof.
  intros Ht Hd. cbn zeta.
  assert (R : forall s1, c_vars (get s1 h) = c_vars (get s h) /\ c_dfa (get s1 h) = c_dfa (get s h) ->
                    c_vars (get s1 h) = c_vars (get s h) /\ c_dfa (get s1 h) = []).
  { intros s1 [A B]. split; [exact A|congruence]. }
  destruct e; cbn [step]; cbn [touches] in Ht.
  - apply R. unfold get. cbn [s_cfgs fst snd]. destruct (nth_app_new (s_cfgs s) (fperiod num den) h) as (_ & A & B & _). split; [exact A|exact B].
  - destruct (negb (valid_h s h0)); [auto|].
    assert (G : forall c', get (put s h0 c') h = get s h).
    { intros. rewrite get_put. rewrite Ht. reflexivity. }
    destruct (ty =? 0); [|destruct (ty_known ty)]; cbn [fst snd]; rewrite ?G; auto.
  - destruct (negb (valid_h s h0)); [auto|].
    assert (G : forall c', get (put s h0 c') h = get s h).
    { intros. rewrite get_put. rewrite Ht. reflexivity. }
    destruct (ty_known fetch && ty_known stored); cbn [fst snd]; rewrite ?G; auto.
  - destruct (negb (valid_h s h0)); [auto|]. apply R.
    pose proof (add_config_static s h0 h (or_intror Hd)) as P. cbv zeta in P.
    destruct (add_config s h0) as [[s1 o] a]. exact P.
  - destruct (negb (valid_h s h0)); [auto|]. apply R. pose proof (create_static s h0 h) as P. cbv zeta in P. destruct P as (A & B & _). split; assumption.
  - destruct (negb (valid_h s h0)); [auto|]. unfold start.
    destruct (negb (c_cf (get s h0))); [auto|]. destruct (negb (s_link s)); [auto|].
    destruct (negb (c_added (get s h0))); [|auto]. apply R. pose proof (create_static s h0 h) as P. cbv zeta in P. destruct P as (A & B & _). split; assumption.
  - destruct (negb (valid_h s h0)); [auto|]. unfold stop_or_delete.
    destruct (negb (c_cf (get s h0))); [auto|]. destruct (negb (s_link s)); auto.
  - destruct (negb (valid_h s h0)); [auto|]. unfold stop_or_delete.
    destruct (negb (c_cf (get s h0))); [auto|]. destruct (negb (s_link s)); auto.
  - unfold on_packet. destruct data as [|cmd payload]; [auto|].
    destruct (chan =? g_chan_settings).
    + destruct payload as [|id [|status r]]; auto. apply R. pose proof (on_settings_static s cmd id status h) as P. cbv zeta in P. destruct P as (A & B & _). split; assumption.
    + destruct (chan =? g_chan_logdata); [rewrite on_logdata_state|]; auto.
  - auto.
  - auto.
  - auto.
Qed.

Lemma run_static evs : forall s h, forallb (fun e => negb (touches h e)) evs = true -> c_dfa (get s h) = [] ->
  c_vars (get (final s evs) h) = c_vars (get s h) /\ c_dfa (get (final s evs) h) = [].
Proof.
  induction evs as [|e r IH]; intros s h Ht Hd; [auto|].
  cbn [forallb] in Ht. apply andb_true_iff in Ht as [Ht1 Ht2]. rewrite final_cons.
  destruct (step_static s e h ltac:(destruct (touches h e); [discriminate|reflexivity]) Hd) as [A B].
  destruct (IH _ h Ht2 B) as [A' B']. split; [congruence|exact B'].
Qed.

(* once accepted, nothing is left to resolve *)
Lemma accepted_dfa_nil s h : valid_h s h = true -> snd (add_config s h) = AccAccepted ->
  let s1 := fst (fst (add_config s h)) in
  c_dfa (get s1 h) = [] /\ c_cf (get s1 h) = true /\ c_valid (get s1 h) = true /\ In h (s_blocks s1).
Proof.
  intros Hv. cbn zeta. unfold add_config. destruct (negb (s_link s)); [discriminate|].
  assert (Hc1 : forall c1, match c_dfa (get s h) with
                      | [] => Ok (get s h)
                      | _ :: _ => match s_toc s with
                                  | None => Err AttributeError
                                  | Some tc => match resolve_dfa tc (c_dfa (get s h)) with
                                               | None => Err KeyError
                                               | Some vs => Ok (set_dfa (set_vars (get s h) (c_vars (get s h) ++ vs)) [])
                                               end
                                  end
                      end = Ok c1 -> c_dfa c1 = []).
  { intros c1. destruct (c_dfa (get s h)) eqn:E; [intros H; inversion H; subst; exact E|].
    destruct (s_toc s); [|discriminate]. destruct (resolve_dfa _ _); [|discriminate]. intros H; inversion H; reflexivity. }
  destruct (match c_dfa (get s h) with [] => Ok (get s h) | _ :: _ => _ end) as [c1|[]] eqn:E1; try discriminate.
  specialize (Hc1 c1 eq_refl).
  destruct (check_vars _ _ _); try discriminate.
  destruct ((size <=? g_max_len) && _); [|discriminate]. intros _. cbn [fst snd].
  rewrite get_set_blocks, get_set_counter, get_put, Hv, Nat.eqb_refl. cbn [andb].
  cbn [c_dfa c_cf c_valid set_accept s_blocks set_blocks]. repeat split; [exact Hc1|]. apply in_or_app. right. now left.
Qed.

(* ------------------------------------------------------------------ a configuration that was never accepted *)
Definition is_op_on (h : nat) (e : ev) : bool :=
  match e with
  | EAddConfig h' | ECreate h' | EStart h' | EStop h' | EDelete h' => Nat.eqb h h'
  | _ => false
  end.

Fixpoint quiet (s : st) (h : nat) (evs : list ev) : Prop :=
  match evs with
  | [] => True
  | e :: r =>
      let s1 := fst (fst (step s e)) in
      (is_op_on h e = true -> filter is_wire (snd (fst (step s e))) = []) /\
      (c_cf (get s1 h) = false -> quiet s1 h r)
  end.

Lemma add_config_no_wire s h : filter is_wire (snd (fst (add_config s h))) = [].
Proof.
  unfold add_config. destruct (negb (s_link s)); [reflexivity|].
  destruct (match c_dfa (get s h) with [] => Ok (get s h) | _ :: _ => _ end) as [c1|[]]; try reflexivity.
  destruct (check_vars _ _ _); try reflexivity.
  destruct ((size <=? g_max_len) && _); reflexivity.
Qed.

Lemma never_accepted_quiet evs : forall s h, c_cf (get s h) = false -> quiet s h evs.
Proof.
  induction evs as [|e r IH]; intros s h Hc; [exact I|].
  cbn [quiet]. split; [|intros H; apply IH, H].
  intros Ho. destruct e; cbn [is_op_on] in Ho; try discriminate; apply Nat.eqb_eq in Ho; subst h0; cbn [step].
  - destruct (negb (valid_h s h)); [reflexivity|].
    pose proof (add_config_no_wire s h) as W. destruct (add_config s h) as [[s1 o] a]. exact W.
  - destruct (negb (valid_h s h)); [reflexivity|]. unfold create. now rewrite Hc.
  - destruct (negb (valid_h s h)); [reflexivity|]. unfold start. now rewrite Hc.
  - destruct (negb (valid_h s h)); [reflexivity|]. unfold stop_or_delete. now rewrite Hc.
  - destruct (negb (valid_h s h)); [reflexivity|]. unfold stop_or_delete. now rewrite Hc.
Qed.

(* cf stays unset unless add_config accepts *)
Lemma cf_unset_preserved s e h : c_cf (get s h) = false ->
  (forall h', e = EAddConfig h' -> h' <> h \/ snd (add_config s h) <> AccAccepted) ->
  c_cf (get (fst (fst (step s e))) h) = false.
Proof.
  intros Hc He. destruct e; cbn [step].
  - unfold get. cbn. pose proof (nth_app_new (s_cfgs s) (fperiod num den) h) as (_ & _ & _ & E). unfold get in Hc. congruence.
  - destruct (negb (valid_h s h0)); [exact Hc|].
    destruct (ty =? 0); [|destruct (ty_known ty)]; cbn [fst snd]; put_cases; auto.
  - destruct (negb (valid_h s h0)); [exact Hc|].
    destruct (ty_known fetch && ty_known stored); cbn [fst snd]; put_cases; auto.
  - destruct (negb (valid_h s h0)); [exact Hc|].
    specialize (He h0 eq_refl).
    unfold add_config in *. destruct (negb (s_link s)); [exact Hc|].
    destruct (Nat.eq_dec h0 h) as [->|Hne].
    + destruct He as [He|He]; [congruence|].
      destruct (match c_dfa (get s h) with [] => Ok (get s h) | _ :: _ => _ end) as [c1|[]] eqn:E1; cbn [fst snd] in *; put_cases; auto.
      * assert (Hc1 : c_cf c1 = false).
        { destruct (c_dfa (get s h)); [inversion E1; subst; exact Hc|].
          destruct (s_toc s); [|discriminate]. destruct (resolve_dfa _ _); [|discriminate]. inversion E1; subst. exact Hc. }
        destruct (check_vars _ _ _); cbn [fst snd] in *; put_cases; auto.
        destruct ((size <=? g_max_len) && _); cbn [fst snd] in *; put_cases; auto. congruence.
    + assert (G : forall s' c', get (put s' h0 c') h = get s' h).
      { intros. rewrite get_put. destruct (Nat.eqb h h0) eqn:E; [apply Nat.eqb_eq in E; congruence|reflexivity]. }
      destruct (match c_dfa (get s h0) with [] => Ok (get s h0) | _ :: _ => _ end) as [c1|[]]; cbn [fst snd]; rewrite ?G; auto.
      destruct (check_vars _ _ _); cbn [fst snd]; rewrite ?G; auto.
      destruct ((size <=? g_max_len) && _); cbn [fst snd]; rewrite ?get_set_blocks, ?get_set_counter, ?G; auto.
  - destruct (negb (valid_h s h0)); [exact Hc|]. pose proof (create_static s h0 h) as P. cbv zeta in P. destruct P as (_ & _ & E). congruence.
  - destruct (negb (valid_h s h0)); [exact Hc|]. unfold start.
    destruct (negb (c_cf (get s h0))); [exact Hc|]. destruct (negb (s_link s)); [exact Hc|].
    destruct (negb (c_added (get s h0))); [|exact Hc]. pose proof (create_static s h0 h) as P. cbv zeta in P. destruct P as (_ & _ & E). congruence.
  - destruct (negb (valid_h s h0)); [exact Hc|]. unfold stop_or_delete.
    destruct (negb (c_cf (get s h0))); [exact Hc|]. destruct (negb (s_link s)); exact Hc.
  - destruct (negb (valid_h s h0)); [exact Hc|]. unfold stop_or_delete.
    destruct (negb (c_cf (get s h0))); [exact Hc|]. destruct (negb (s_link s)); exact Hc.
  - unfold on_packet. destruct data as [|cmd payload]; [exact Hc|].
    destruct (chan =? g_chan_settings).
    + destruct payload as [|id [|status r]]; auto. pose proof (on_settings_static s cmd id status h) as P. cbv zeta in P. destruct P as (_ & _ & E). congruence.
    + destruct (chan =? g_chan_logdata); [rewrite on_logdata_state|]; auto.
  - exact Hc.
  - exact Hc.
  - exact Hc.
Qed.

Lemma readd_idempotent s h evs :
  valid_h s h = true -> snd (add_config s h) = AccAccepted ->
  forallb (fun e => negb (touches h e)) evs = true ->
  let s1 := fst (fst (add_config s h)) in
  c_vars (get (final s1 evs) h) = c_vars (get s1 h) /\ c_dfa (get (final s1 evs) h) = [].
Proof.
  intros Hv Ha Ht. cbn zeta.
  pose proof (accepted_dfa_nil s h Hv Ha) as P. cbv zeta in P. destruct P as (Hd & _).
  now apply run_static.
Qed.

(* ------------------------------------------------------------------ the requested variables are never duplicated, dropped or reordered *)
Lemma extends_eq c c' : c_vars c' = c_vars c -> c_dfa c' = c_dfa c -> extends c c'.
Proof. intros A B. exists []. rewrite A, B, app_nil_r. auto. Qed.

Lemma step_extends s e h : touches h e = false ->
  extends (get s h) (get (fst (fst (step s e))) h).
Proof.
  intros Ht.
  destruct e; cbn [step]; cbn [touches] in Ht; try apply extends_refl.
  - unfold get. cbn [s_cfgs fst snd]. destruct (nth_app_new (s_cfgs s) (fperiod num den) h) as (_ & A & B & _). now apply extends_eq.
  - destruct (negb (valid_h s h0)); [apply extends_refl|].
    assert (G : forall c', get (put s h0 c') h = get s h).
    { intros. rewrite get_put. rewrite Ht. reflexivity. }
    destruct (ty =? 0); [|destruct (ty_known ty)]; cbn [fst snd]; rewrite ?G; apply extends_refl.
  - destruct (negb (valid_h s h0)); [apply extends_refl|].
    assert (G : forall c', get (put s h0 c') h = get s h).
    { intros. rewrite get_put. rewrite Ht. reflexivity. }
    destruct (ty_known fetch && ty_known stored); cbn [fst snd]; rewrite ?G; apply extends_refl.
  - destruct (negb (valid_h s h0)) eqn:Ev; [apply extends_refl|].
    assert (Hv : valid_h s h0 = true) by (destruct (valid_h s h0); [reflexivity|discriminate]).
    pose proof (add_config_effect s h0 Hv) as P.
    destruct (add_config s h0) as [[s1 o] a]. cbn [fst snd]. destruct P as (A & B & _).
    destruct (Nat.eq_dec h h0) as [->|Hn]; [exact A|]. rewrite (B h Hn). apply extends_refl.
  - destruct (negb (valid_h s h0)); [apply extends_refl|]. pose proof (create_static s h0 h) as P. cbv zeta in P.
    destruct P as (A & B & _). now apply extends_eq.
  - destruct (negb (valid_h s h0)); [apply extends_refl|]. unfold start.
    destruct (negb (c_cf (get s h0))); [apply extends_refl|]. destruct (negb (s_link s)); [apply extends_refl|].
    destruct (negb (c_added (get s h0))); [|apply extends_refl]. pose proof (create_static s h0 h) as P. cbv zeta in P.
    destruct P as (A & B & _). now apply extends_eq.
  - destruct (negb (valid_h s h0)); [apply extends_refl|]. unfold stop_or_delete.
    destruct (negb (c_cf (get s h0))); [apply extends_refl|]. destruct (negb (s_link s)); apply extends_refl.
  - destruct (negb (valid_h s h0)); [apply extends_refl|]. unfold stop_or_delete.
    destruct (negb (c_cf (get s h0))); [apply extends_refl|]. destruct (negb (s_link s)); apply extends_refl.
  - unfold on_packet. destruct data as [|cmd payload]; [apply extends_refl|].
    destruct (chan =? g_chan_settings).
    + destruct payload as [|id [|status r]]; try apply extends_refl.
      pose proof (on_settings_static s cmd id status h) as P. cbv zeta in P. destruct P as (A & B & _). now apply extends_eq.
    + destruct (chan =? g_chan_logdata); [rewrite on_logdata_state|]; apply extends_refl.
Qed.

(* every history that does not call add_variable / add_memory on configuration h *)
Lemma run_extends evs : forall s h, forallb (fun e => negb (touches h e)) evs = true ->
  extends (get s h) (get (final s evs) h).
Proof.
  induction evs as [|e r IH]; intros s h Ht; [apply extends_refl|].
  cbn [forallb] in Ht. apply andb_true_iff in Ht as [Ht1 Ht2]. rewrite final_cons.
  assert (Hte : touches h e = false) by (destruct (touches h e); [discriminate|reflexivity]).
  eapply extends_trans; [apply (step_extends s e h Hte)|apply IH, Ht2].
Qed.

Lemma run_name_seq evs s h : forallb (fun e => negb (touches h e)) evs = true ->
  name_seq (get (final s evs) h) = name_seq (get s h).
Proof. intros H. apply extends_name_seq, run_extends, H. Qed.

(* so the variable list of a configuration that gets accepted at the end of such a history is exactly the
   requested sequence: each name once, typed ones first, pending ones after them in their order *)
Lemma accepted_vars_are_requested evs s h : forallb (fun e => negb (touches h e)) evs = true ->
  valid_h (final s evs) h = true ->
  snd (add_config (final s evs) h) = AccAccepted ->
  map v_name (c_vars (get (fst (fst (add_config (final s evs) h))) h)) = name_seq (get s h).
Proof.
  intros Ht Hv Ha. rewrite <- (run_name_seq evs s h Ht).
  pose proof (add_config_effect (final s evs) h Hv) as P.
  destruct (add_config (final s evs) h) as [[s1 o] a]. cbn [fst snd] in *. destruct P as (A & _ & _ & D).
  rewrite <- (extends_name_seq _ _ A). unfold name_seq. rewrite (D Ha), app_nil_r. reflexivity.
Qed.

(* a rejected add_config announces nothing and leaves log_blocks and the id counter alone *)
Lemma rejected_add_quiet s h e : valid_h s h = true -> snd (add_config s h) = AccRejected e ->
  snd (fst (add_config s h)) = [] /\
  s_blocks (fst (fst (add_config s h))) = s_blocks s /\ s_counter (fst (fst (add_config s h))) = s_counter s /\
  c_id (get (fst (fst (add_config s h))) h) = c_id (get s h) /\ c_cf (get (fst (fst (add_config s h))) h) = c_cf (get s h).
Proof.
  intros Hv Ha. pose proof (add_config_effect s h Hv) as P.
  destruct (add_config s h) as [[s1 o] a]. cbn [fst snd] in *. destruct P as (_ & _ & C & _).
  apply C. rewrite Ha. discriminate.
Qed.

(* ------------------------------------------------------------------ every accepted add binds the configuration to the session *)
Lemma accepted_binds_session s h : valid_h s h = true -> snd (add_config s h) = AccAccepted ->
  let s1 := fst (fst (add_config s h)) in
  c_v2 (get s1 h) = s_v2 s /\ c_id (get s1 h) = s_counter s /\ c_cf (get s1 h) = true.
Proof.
  intros Hv. cbn zeta. unfold add_config. destruct (negb (s_link s)); [discriminate|].
  destruct (match c_dfa (get s h) with [] => Ok (get s h) | _ :: _ => _ end) as [c1|[]]; try discriminate.
  destruct (check_vars _ _ _); try discriminate.
  destruct ((size <=? g_max_len) && _); [|discriminate]. intros _. cbn [fst snd].
  rewrite get_set_blocks, get_set_counter, get_put, Hv, Nat.eqb_refl. cbn [andb]. repeat split.
Qed.
