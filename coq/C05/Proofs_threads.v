(* C05/Proofs_threads.v — SyncLogger under threads: for ALL interleavings of dispatcher, user and consumer
   steps (coq/C05/SyncThreads.v): FIFO / at-most-once / nothing foreign / nothing of an earlier session;
   a consumer inside get() is never stuck after a link loss; where the code can block for ever. *)
Require Import CF.C05.Model CF.C05.SyncThreads CF.C05.Proofs_sync.
Open Scope Z_scope.

Definition is_tconnect (e : tev) : bool := match e with TConnect => true | _ => false end.
Definition is_tdisconnect (e : tev) : bool := match e with TDisconnect => true | _ => false end.

Fixpoint tyields (os : list tobs) : list Z :=
  match os with [] => [] | OYield k :: r => k :: tyields r | _ :: r => tyields r end.

(* the samples the logger's own blocks deliver while it is connected *)
Fixpoint tdelivered (own : list Z) (conn : bool) (evs : list tev) : list Z :=
  match evs with
  | [] => []
  | TSample c k :: r => if conn && existsb (Z.eqb c) own then k :: tdelivered own conn r else tdelivered own conn r
  | TDisconnect :: r | TLost1 :: r => tdelivered own false r
  | TConnect :: r => tdelivered own conn r
  | _ :: r => tdelivered own conn r
  end.

Lemma t_step_own s e : t_own (fst (t_step s e)) = t_own s.
Proof.
  destruct e; cbn [t_step]; try reflexivity.
  - destruct (t_conn s); reflexivity.
  - destruct (t_cons s); [destruct (t_conn s)|]; reflexivity.
  - destruct (t_cons s), (t_queue s) as [|[k|] q]; reflexivity.
  - destruct (t_conn s && owns s cfg); reflexivity.
  - destruct (t_conn s); reflexivity.
  - destruct (t_pend s); reflexivity.
Qed.

(* ------------------------------------------------------------------ conservation (safety) *)
(* yielded ++ still queued = queued before ++ delivered: for every state and every interleaving without
   connect().  Hence what is yielded is a prefix of what was delivered: in order, once each, nothing else. *)
Lemma t_conservation evs : forall s,
  forallb (fun e => negb (is_tconnect e)) evs = true ->
  tyields (snd (t_run s evs)) ++ qsamples (t_queue (fst (t_run s evs)))
    = qsamples (t_queue s) ++ tdelivered (t_own s) (t_conn s) evs.
Proof.
  induction evs as [|e r IH]; intros s Hc.
  - cbn. now rewrite app_nil_r.
  - cbn [forallb] in Hc. apply andb_true_iff in Hc as [Hc1 Hc2].
    cbn [t_run]. pose proof (t_step_own s e) as Ho.
    destruct (t_step s e) as [s1 o] eqn:Es. cbn [fst] in Ho.
    specialize (IH s1 Hc2). destruct (t_run s1 r) as [s2 os]. cbn [fst snd] in *.
    rewrite Ho in IH.
    destruct e; try discriminate; cbn [t_step] in Es.
    + (* TDisconnect *) inversion Es; subst. cbn [tyields tdelivered t_queue t_conn set_q] in *. exact IH.
    + (* TNext *) destruct (t_cons s); [destruct (t_conn s) eqn:Ec|]; inversion Es; subst;
        cbn [tyields tdelivered t_queue t_conn set_q] in *; rewrite ?Ec in *; exact IH.
    + (* TGet *) destruct (t_cons s), (t_queue s) as [|[k|] q] eqn:Eq; inversion Es; subst;
        cbn [tyields tdelivered t_queue t_conn set_q qsamples app] in *; rewrite ?Eq in *;
        cbn [qsamples app]; try exact IH. f_equal. exact IH.
    + (* TSample *) unfold owns in Es. cbn [tdelivered].
      destruct (t_conn s && existsb (Z.eqb cfg) (t_own s)) eqn:E; inversion Es; subst;
        cbn [tyields t_queue t_conn set_q] in *; [|exact IH].
      apply andb_true_iff in E as [E1 _]. rewrite E1.
      rewrite IH, qsamples_app. cbn [qsamples app]. now rewrite <- app_assoc.
    + (* TLost1 *) destruct (t_conn s) eqn:Ec; inversion Es; subst;
        cbn [tyields tdelivered t_queue t_conn set_q] in *; rewrite ?Ec in *; exact IH.
    + (* TLost2 *) destruct (t_pend s); inversion Es; subst; cbn [tyields tdelivered t_queue t_conn set_q] in *;
        [exact IH|]. rewrite IH, qsamples_app. cbn [qsamples]. now rewrite app_nil_r.
Qed.

(* one session of a logger, whatever happened to the object before (earlier sessions, a consumer still
   inside get(), a sentinel still on its way): connect, then anything but connect *)
Lemma t_session s0 evs : t_conn s0 = false ->
  forallb (fun e => negb (is_tconnect e)) evs = true ->
  let r := t_run s0 (TConnect :: evs) in
  tyields (snd r) ++ qsamples (t_queue (fst r)) = tdelivered (t_own s0) true evs.
Proof.
  intros H0 Hc. cbn zeta. cbn [t_run t_step]. rewrite H0.
  pose proof (t_conservation evs (set_q s0 true [] (t_cons s0) (t_pend s0)) Hc) as H.
  destruct (t_run (set_q s0 true [] (t_cons s0) (t_pend s0)) evs) as [s2 os].
  cbn [fst snd tyields t_queue t_conn t_own set_q qsamples app] in *. exact H.
Qed.

(* nothing foreign: a delivered (hence a yielded) sample comes from one of the logger's own blocks *)
Lemma tdelivered_own own evs : forall conn k, In k (tdelivered own conn evs) ->
  exists c, existsb (Z.eqb c) own = true /\ In (TSample c k) evs.
Proof.
  induction evs as [|e r IH]; intros conn k H; [contradiction|].
  destruct e; cbn [tdelivered] in H;
    try (destruct (IH _ _ H) as (c & A & B); exists c; split; [exact A|now right]).
  destruct (conn && existsb (Z.eqb cfg) own) eqn:E.
  - destruct H as [<-|H].
    + exists cfg. apply andb_true_iff in E as [_ E]. split; [exact E|now left].
    + destruct (IH _ _ H) as (c & A & B). exists c. split; [exact A|now right].
  - destruct (IH _ _ H) as (c & A & B). exists c. split; [exact A|now right].
Qed.

(* ------------------------------------------------------------------ liveness: never stuck after a link loss *)
(* a consumer inside get() has the connection still up, or a sentinel on its way (the dispatcher will put
   it: TLost2), or something to take *)
Definition live (s : tsl) : Prop :=
  t_cons s = CInGet -> t_conn s = true \/ (0 < t_pend s)%nat \/ t_queue s <> [].

Lemma t_step_live s e : is_tdisconnect e = false -> live s -> live (fst (t_step s e)).
Proof.
  intros Hd L. unfold live in *. destruct s as [conn q k p own]. cbn [t_cons t_conn t_pend t_queue] in L.
  destruct e; try discriminate; cbn [t_step t_conn t_cons t_queue t_pend].
  - destruct conn; cbn; auto.
  - destruct k; [destruct conn|]; cbn; auto; try discriminate.
  - destruct k, q as [|[x|] q']; cbn; auto; try discriminate.
  - unfold owns. cbn [t_conn t_own]. destruct (conn && existsb (Z.eqb cfg) own) eqn:E; cbn; auto.
  - destruct conn; cbn; auto. intros _. right. left. apply Nat.lt_0_succ.
  - destruct p; cbn; auto. intros _. right. right. destruct q; discriminate.
Qed.

Lemma t_final_cons s e r : fst (t_run s (e :: r)) = fst (t_run (fst (t_step s e)) r).
Proof. cbn [t_run]. destruct (t_step s e) as [s1 o]. cbn [fst]. destruct (t_run s1 r). reflexivity. Qed.

Lemma t_run_live evs : forall s, forallb (fun e => negb (is_tdisconnect e)) evs = true -> live s ->
  live (fst (t_run s evs)).
Proof.
  induction evs as [|e r IH]; intros s Hd L; [exact L|].
  cbn [forallb] in Hd. apply andb_true_iff in Hd as [Hd1 Hd2]. rewrite t_final_cons.
  apply IH; [exact Hd2|]. apply t_step_live; [destruct (is_tdisconnect e); [discriminate|reflexivity]|exact L].
Qed.

(* progress: what is enabled in a live state *)
Lemma t_get_returns s : t_cons s = CInGet -> t_queue s <> [] ->
  t_cons (fst (t_step s TGet)) = CIdle /\ snd (t_step s TGet) <> ONoop.
Proof.
  intros Hk Hq. cbn [t_step]. rewrite Hk. destruct (t_queue s) as [|[k|] q]; [contradiction| |]; cbn; split; auto; discriminate.
Qed.

Lemma t_lost2_puts s : (0 < t_pend s)%nat -> t_queue (fst (t_step s TLost2)) <> [].
Proof. intros H. cbn [t_step]. destruct (t_pend s); [inversion H|]. cbn. destruct (t_queue s); discriminate. Qed.

Lemma t_next_stops s : t_cons s = CIdle -> t_conn s = false -> t_step s TNext = (s, OStop).
Proof. intros A B. cbn [t_step]. now rewrite A, B. Qed.

(* after the link loss has completed (flag cleared, sentinel put), the consumer terminates: if it is inside
   get() it returns (a sample that was queued before, or StopIteration), and its next next() stops *)
Lemma t_terminates_after_link_loss s : live s -> t_conn s = false -> t_pend s = 0%nat ->
  let s1 := match t_cons s with CInGet => fst (t_step s TGet) | CIdle => s end in
  t_cons s1 = CIdle /\ t_step s1 TNext = (s1, OStop).
Proof.
  intros L Hc Hp. cbn zeta. destruct (t_cons s) eqn:Ek.
  - split; [exact Ek|]. now apply t_next_stops.
  - destruct (L Ek) as [A|[A|A]]; [congruence|rewrite Hp in A; inversion A|].
    destruct (t_get_returns s Ek A) as [B _]. split; [exact B|]. apply t_next_stops; [exact B|].
    cbn [t_step]. rewrite Ek. destruct (t_queue s) as [|[k|] q]; [contradiction| |]; cbn; exact Hc.
Qed.

(* where the code does block for ever: disconnect() called by another thread while the consumer is inside
   get() on an empty queue -- no sentinel is put, and no later event but a new connect() changes anything *)
Definition stuck (s : tsl) : Prop :=
  t_cons s = CInGet /\ t_conn s = false /\ t_pend s = 0%nat /\ t_queue s = [].

Lemma t_stuck_for_ever evs : forall s, stuck s ->
  forallb (fun e => negb (is_tconnect e)) evs = true ->
  fst (t_run s evs) = s /\ tyields (snd (t_run s evs)) = [].
Proof.
  induction evs as [|e r IH]; intros s St Hc; [split; reflexivity|].
  cbn [forallb] in Hc. apply andb_true_iff in Hc as [Hc1 Hc2].
  destruct St as (A & B & C & D).
  assert (Es : fst (t_step s e) = s /\ tyields [snd (t_step s e)] = []).
  { destruct e; try discriminate; cbn [t_step]; rewrite ?A, ?B, ?C, ?D; cbn; split; try reflexivity.
    destruct s; cbn in *; subst; reflexivity. }
  cbn [t_run]. destruct (t_step s e) as [s1 o]. cbn [fst snd] in Es. destruct Es as [-> Eo].
  specialize (IH s (conj A (conj B (conj C D))) Hc2). destruct (t_run s r) as [s2 os]. cbn [fst snd] in *.
  destruct IH as [-> Y]. split; [reflexivity|]. destruct o; cbn in *; try exact Y. discriminate.
Qed.

(* ------------------------------------------------------------------ several loggers: each sees its own projection *)
Lemma nth_error_upd l : forall i j (x : tsl), nth_error (upd_tsl l i x) j =
  if Nat.eqb j i then match nth_error l i with Some _ => Some x | None => None end else nth_error l j.
Proof.
  induction l as [|y l IH]; intros i j x.
  - cbn. destruct i, j; cbn; try reflexivity. destruct (Nat.eqb j i); reflexivity.
  - destruct i, j; cbn; try reflexivity. apply IH.
Qed.

Lemma t_run_app a : forall b s, fst (t_run s (a ++ b)) = fst (t_run (fst (t_run s a)) b).
Proof.
  induction a as [|e a IH]; intros b s; [reflexivity|].
  cbn [app]. rewrite !t_final_cons. apply IH.
Qed.

Lemma sys_projection evs : forall ls i s, nth_error ls i = Some s ->
  nth_error (fst (sys_run ls evs)) i = Some (fst (t_run s (concat (map (proj i) evs)))).
Proof.
  induction evs as [|e r IH]; intros ls i s H; [exact H|].
  cbn [sys_run map concat]. destruct (sys_step ls e) as [l1 o] eqn:Es.
  specialize (IH l1 i). destruct (sys_run l1 r) as [l2 os] eqn:Er. cbn [fst] in *.
  rewrite t_run_app. apply IH. clear IH Er.
  destruct e; cbn [sys_step proj] in *.
  - destruct (nth_error ls i0) as [s'|] eqn:E0.
    + destruct (t_step s' e) as [s1 o1] eqn:E1. inversion Es; subst. rewrite nth_error_upd.
      destruct (Nat.eqb i i0) eqn:Ei.
      * apply Nat.eqb_eq in Ei. subst i0. rewrite E0. rewrite H in E0. inversion E0; subst.
        rewrite t_final_cons, E1. reflexivity.
      * cbn. exact H.
    + inversion Es; subst. destruct (Nat.eqb i i0) eqn:Ei; [|exact H].
      apply Nat.eqb_eq in Ei. subst. congruence.
  - inversion Es; subst. rewrite nth_error_map, H. cbn [option_map]. rewrite t_final_cons. reflexivity.
  - inversion Es; subst. rewrite nth_error_map, H. cbn [option_map]. rewrite t_final_cons. reflexivity.
Qed.
