(* C05/Proofs_threads.v — SyncLogger under threads: for ALL interleavings of dispatcher, user and consumer
   steps (coq/C05/SyncThreads.v): FIFO / at-most-once / nothing foreign / nothing of an earlier session;
   a consumer inside get() is never stuck after a link loss, also when the link is lost at any point of
   connect(); where the code can block for ever; refutation of registering _disconnected after the loop. *)
Require Import CF.C05.Model CF.C05.SyncThreads CF.C05.Proofs_sync.
Open Scope Z_scope.

Definition clears_queue (e : tev) : bool := match e with TConnect | TConnBegin => true | _ => false end.
Definition is_tdisconnect (e : tev) : bool := match e with TDisconnect => true | _ => false end.
Definition is_tbegin (e : tev) : bool := match e with TConnBegin => true | _ => false end.

Fixpoint tyields (os : list tobs) : list Z :=
  match os with [] => [] | OYield k :: r => k :: tyields r | _ :: r => tyields r end.

(* the samples put into the queue: data packets of blocks whose data callback is registered *)
Fixpoint tenq (s : tsl) (evs : list tev) : list Z :=
  match evs with
  | [] => []
  | e :: r =>
      (match e with TSample c k => if memz c (t_dreg s) && memz c (t_blk s) then [k] else [] | _ => [] end)
      ++ tenq (fst (t_step s e)) r
  end.

Lemma t_run_cons s e r : t_run s (e :: r) =
  (fst (t_run (fst (t_step s e)) r), snd (t_step s e) :: snd (t_run (fst (t_step s e)) r)).
Proof.
  unfold t_run, t_step. cbn [t_rung]. destruct (t_stepg true s e) as [s1 o]. cbn [fst snd].
  destruct (t_rung true s1 r). reflexivity.
Qed.

Lemma t_final_cons s e r : fst (t_run s (e :: r)) = fst (t_run (fst (t_step s e)) r).
Proof. now rewrite t_run_cons. Qed.

(* ------------------------------------------------------------------ conservation (safety) *)
(* the queue content changes by enqueueing at the tail and the consumer taking the head, nothing else,
   unless connect() empties it *)
Lemma t_step_queue s e : clears_queue e = false ->
  tyields [snd (t_step s e)] ++ qsamples (t_queue (fst (t_step s e)))
    = qsamples (t_queue s) ++ (match e with TSample c k => if memz c (t_dreg s) && memz c (t_blk s) then [k] else [] | _ => [] end).
Proof.
  intros Hc. destruct s as [conn q k p own reg dreg cpos link known blk]. unfold t_step.
  destruct e; try discriminate; cbn [t_stepg t_conn t_queue t_cons t_pend t_own t_reg t_dreg t_cpos t_link t_known t_blk];
    unfold cfg_turn;
    repeat match goal with
           | |- context [match ?x with _ => _ end] => destruct x
           | |- context [if ?x then _ else _] => destruct x
           end; cbn; rewrite ?qsamples_app, ?app_nil_r; cbn; rewrite ?app_nil_r; reflexivity.
Qed.

Lemma tyields_cons o os : tyields (o :: os) = tyields [o] ++ tyields os.
Proof. destruct o; reflexivity. Qed.

Lemma t_conservation evs : forall s,
  forallb (fun e => negb (clears_queue e)) evs = true ->
  tyields (snd (t_run s evs)) ++ qsamples (t_queue (fst (t_run s evs)))
    = qsamples (t_queue s) ++ tenq s evs.
Proof.
  induction evs as [|e r IH]; intros s Hc.
  - cbn. now rewrite app_nil_r.
  - cbn [forallb] in Hc. apply andb_true_iff in Hc as [Hc1 Hc2].
    rewrite t_run_cons. cbn [fst snd tenq]. rewrite tyields_cons, <- app_assoc, IH by exact Hc2.
    rewrite app_assoc, t_step_queue by (destruct (clears_queue e); [discriminate|reflexivity]).
    now rewrite <- app_assoc.
Qed.

(* one session of a logger, whatever happened to the object before: connect() (in one go or step by step)
   empties the queue, so nothing of an earlier run is yielded *)
Lemma t_session s0 e evs : clears_queue e = true -> snd (t_step s0 e) = ONone ->
  forallb (fun e => negb (clears_queue e)) evs = true ->
  let r := t_run s0 (e :: evs) in
  tyields (snd r) ++ qsamples (t_queue (fst r)) = tenq (fst (t_step s0 e)) evs.
Proof.
  intros Hc Ho Hn. cbn zeta. rewrite t_run_cons. cbn [fst snd]. rewrite tyields_cons, Ho. cbn [tyields app].
  rewrite t_conservation by exact Hn.
  assert (Q : t_queue (fst (t_step s0 e)) = []).
  { destruct s0 as [conn q k p own reg dreg cpos link known blk]. unfold t_step in *.
    destruct e; try discriminate; cbn [t_stepg t_conn t_cpos t_link t_own t_dreg t_known t_blk] in *; destruct cpos; try discriminate;
      destruct conn; try discriminate; try reflexivity.
    destruct (cfg_loop link own dreg known blk) as [[[d1 k1] b1] ok]. destruct ok; [reflexivity|discriminate]. }
  now rewrite Q.
Qed.

(* nothing foreign: data callbacks are registered on the logger's own configurations only *)
Definition dreg_own (s : tsl) : Prop := forall c, memz c (t_dreg s) = true -> owns s c = true.

Lemma memz_add_reg c x l : memz c (add_reg x l) = true -> memz c l = true \/ c = x.
Proof.
  unfold add_reg. destruct (memz x l); [auto|]. unfold memz. rewrite existsb_app. cbn.
  intros H. apply orb_true_iff in H as [H|H]; [auto|]. right. rewrite orb_false_r in H. now apply Z.eqb_eq in H.
Qed.

Lemma memz_in c l : memz c l = true <-> In c l.
Proof.
  unfold memz. rewrite existsb_exists. split.
  - intros (x & A & B). apply Z.eqb_eq in B. now subst.
  - intros H. exists c. split; [exact H|apply Z.eqb_refl].
Qed.

Lemma fold_add_reg_own own : forall xs l c, (forall x, In x xs -> In x own) ->
  memz c (fold_left (fun l c => add_reg c l) xs l) = true -> memz c l = true \/ In c own.
Proof.
  induction xs as [|x xs IH]; intros l c Hs H; [auto|]. cbn [fold_left] in H.
  destruct (IH _ _ (fun y Hy => Hs y (or_intror Hy)) H) as [A|A]; [|auto].
  destruct (memz_add_reg _ _ _ A) as [B|E]; [auto|]. subst. right. apply Hs. now left.
Qed.

Lemma cfg_loop_dreg link : forall cs dreg known blk d1 k1 b1 ok c,
  cfg_loop link cs dreg known blk = (d1, k1, b1, ok) -> memz c d1 = true -> memz c dreg = true \/ In c cs.
Proof.
  induction cs as [|x cs IH]; intros dreg known blk d1 k1 b1 ok c H Hm; cbn [cfg_loop] in H.
  - inversion H; subst. auto.
  - unfold cfg_turn in H. destruct (memz x (if link then add_reg x known else known)).
    + destruct (IH _ _ _ _ _ _ _ c H Hm) as [A|A]; [|right; now right].
      destruct (memz_add_reg _ _ _ A) as [B|E]; [auto|subst; right; now left].
    + inversion H; subst. destruct (memz_add_reg _ _ _ Hm) as [B|E]; [auto|subst; right; now left].
Qed.

Lemma t_step_dreg_own s e : dreg_own s -> dreg_own (fst (t_step s e)) /\ t_own (fst (t_step s e)) = t_own s.
Proof.
  intros D. destruct s as [conn q k p own reg dreg cpos link known blk]. unfold dreg_own, owns, t_step in *.
  cbn [t_dreg t_own] in D.
  destruct e; cbn [t_stepg t_conn t_queue t_cons t_pend t_own t_reg t_dreg t_cpos t_link t_known t_blk].
  - destruct cpos; [split; auto|]. destruct conn; [split; auto|].
    destruct (cfg_loop link own dreg known blk) as [[[d1 k1] b1] ok] eqn:E.
    assert (G : forall c, memz c d1 = true -> memz c own = true).
    { intros c H. destruct (cfg_loop_dreg _ _ _ _ _ _ _ _ _ c E H) as [A|A]; [auto|now apply memz_in]. }
    destruct ok; cbn; split; auto.
  - destruct cpos; [split; auto|]. destruct conn; cbn; split; auto.
  - destruct cpos as [j|]; [|split; auto]. destruct (nth_error own j) as [c|] eqn:En; [|split; auto].
    unfold cfg_turn.
    assert (G : forall x, memz x (add_reg c dreg) = true -> memz x own = true).
    { intros x H. destruct (memz_add_reg _ _ _ H) as [A|E]; [auto|subst]. apply memz_in. eapply nth_error_In. eassumption. }
    destruct (memz c (if link then add_reg c known else known)); cbn; split; auto.
  - destruct cpos as [j|]; [destruct (Nat.eqb j (length own))|]; cbn; split; auto.
  - destruct cpos; [|destruct conn]; cbn; split; auto; discriminate.
  - destruct k; [destruct conn|]; cbn; split; auto.
  - destruct k, q as [|[x|] q']; cbn; split; auto.
  - destruct (memz cfg dreg && memz cfg blk); cbn; split; auto.
  - destruct link; cbn; split; auto.
  - destruct reg; [destruct conn|]; cbn; split; auto; discriminate.
  - destruct p; cbn; split; auto.
Qed.

Lemma tenq_own evs : forall s k, dreg_own s -> In k (tenq s evs) ->
  exists c, owns s c = true /\ In (TSample c k) evs.
Proof.
  induction evs as [|e r IH]; intros s k D H; [contradiction|].
  cbn [tenq] in H. apply in_app_or in H as [H|H].
  - destruct e; try contradiction. destruct (memz cfg (t_dreg s) && memz cfg (t_blk s)) eqn:E; [|contradiction].
    apply andb_true_iff in E as [E _].
    destruct H as [<-|[]]. exists cfg. split; [now apply D|now left].
  - destruct (t_step_dreg_own s e D) as [D1 O1].
    destruct (IH _ _ D1 H) as (c & A & B). exists c. unfold owns in *. rewrite O1 in A. split; [exact A|now right].
Qed.

(* ------------------------------------------------------------------ liveness: never stuck after a link loss *)
Definition live (s : tsl) : Prop :=
  t_cons s = CInGet -> t_conn s = true \/ (0 < t_pend s)%nat \/ t_queue s <> [].

Definition is_tconnect (e : tev) : bool := match e with TConnect => true | _ => false end.

Lemma t_step_live s e : is_tdisconnect e = false -> is_tbegin e = false -> is_tconnect e = false ->
  live s -> live (fst (t_step s e)).
Proof.
  intros Hd Hb Hc L. unfold live in *. destruct s as [conn q k p own reg dreg cpos link known blk]. unfold t_step.
  cbn [t_cons t_conn t_pend t_queue] in L.
  destruct e; try discriminate; cbn [t_stepg t_conn t_cons t_queue t_pend t_own t_reg t_dreg t_cpos t_link t_known t_blk].
  - destruct cpos as [j|]; [destruct (nth_error own j)|]; unfold cfg_turn;
      repeat match goal with |- context [if ?x then _ else _] => destruct x end; cbn; auto.
  - destruct cpos as [j|]; [destruct (Nat.eqb j (length own))|]; cbn; auto.
  - destruct k; [destruct conn|]; cbn; auto; try discriminate.
  - destruct k, q as [|[x|] q']; cbn; auto; try discriminate.
  - destruct (memz cfg dreg && memz cfg blk); cbn; auto. intros H. destruct (L H) as [A|[A|A]]; auto.
    right. right. destruct q; discriminate.
  - destruct link; cbn; auto.
  - destruct reg; [destruct conn|]; cbn; auto; intros _; right; left; apply Nat.lt_0_succ.
  - destruct p; cbn; auto. intros _. right. right. destruct q; discriminate.
Qed.

(* connect() in one go that succeeds keeps the invariant as well *)
Lemma t_connect_live s : snd (t_step s TConnect) = ONone -> live (fst (t_step s TConnect)).
Proof.
  unfold live, t_step. destruct s as [conn q k p own reg dreg cpos link known blk].
  cbn [t_stepg t_conn t_cpos t_link t_own t_dreg t_known t_blk]. destruct cpos; [discriminate|]. destruct conn; [discriminate|].
  destruct (cfg_loop link own dreg known blk) as [[[d1 k1] b1] ok]. destruct ok; [|discriminate]. cbn. auto.
Qed.

Lemma t_run_live evs : forall s,
  forallb (fun e => negb (is_tdisconnect e) && negb (is_tbegin e) && negb (is_tconnect e)) evs = true ->
  live s -> live (fst (t_run s evs)).
Proof.
  induction evs as [|e r IH]; intros s Hd L; [exact L|].
  cbn [forallb] in Hd. apply andb_true_iff in Hd as [Hd1 Hd2]. apply andb_true_iff in Hd1 as [Hd1 Hc].
  apply andb_true_iff in Hd1 as [Ha Hb].
  rewrite t_final_cons. apply IH; [exact Hd2|].
  apply t_step_live; [destruct (is_tdisconnect e)|destruct (is_tbegin e)|destruct (is_tconnect e)|exact L]; try discriminate; reflexivity.
Qed.

Lemma t_get_returns s : t_cons s = CInGet -> t_queue s <> [] ->
  t_cons (fst (t_step s TGet)) = CIdle /\ snd (t_step s TGet) <> ONoop.
Proof.
  intros Hk Hq. unfold t_step. cbn [t_stepg]. rewrite Hk.
  destruct (t_queue s) as [|[k|] q]; [contradiction| |]; cbn; split; auto; discriminate.
Qed.

Lemma t_lost2_puts s : (0 < t_pend s)%nat -> t_queue (fst (t_step s TLost2)) <> [].
Proof.
  intros H. unfold t_step. cbn [t_stepg]. destruct (t_pend s); [inversion H|]. cbn. destruct (t_queue s); discriminate.
Qed.

Lemma t_next_stops s : t_cons s = CIdle -> t_conn s = false -> t_step s TNext = (s, OStop).
Proof. intros A B. unfold t_step. cbn [t_stepg]. now rewrite A, B. Qed.

Lemma t_terminates_after_link_loss s : live s -> t_conn s = false -> t_pend s = 0%nat ->
  let s1 := match t_cons s with CInGet => fst (t_step s TGet) | CIdle => s end in
  t_cons s1 = CIdle /\ t_step s1 TNext = (s1, OStop).
Proof.
  intros L Hc Hp. cbn zeta. destruct (t_cons s) eqn:Ek.
  - split; [exact Ek|]. now apply t_next_stops.
  - destruct (L Ek) as [A|[A|A]]; [congruence|rewrite Hp in A; inversion A|].
    destruct (t_get_returns s Ek A) as [B _]. split; [exact B|]. apply t_next_stops; [exact B|].
    unfold t_step. cbn [t_stepg]. rewrite Ek. destruct (t_queue s) as [|[k|] q]; [contradiction| |]; cbn; exact Hc.
Qed.

(* where the code does block for ever: disconnect() by another thread while the consumer is inside get() *)
Definition stuck (s : tsl) : Prop :=
  t_cons s = CInGet /\ t_conn s = false /\ t_pend s = 0%nat /\ t_queue s = [] /\ t_dreg s = [] /\ t_reg s = false /\
  t_cpos s = None.

Lemma t_stuck_for_ever evs : forall s, stuck s ->
  forallb (fun e => negb (clears_queue e)) evs = true ->
  stuck (fst (t_run s evs)) /\ tyields (snd (t_run s evs)) = [].
Proof.
  induction evs as [|e r IH]; intros s St Hc; [split; [exact St|reflexivity]|].
  cbn [forallb] in Hc. apply andb_true_iff in Hc as [Hc1 Hc2].
  assert (Es : stuck (fst (t_step s e)) /\ tyields [snd (t_step s e)] = []).
  { destruct s as [conn q k p own reg dreg cpos link known blk]. destruct St as (A & B & C & D & E & F & G).
    cbn in A, B, C, D, E, F, G. subst.
    unfold t_step, stuck. destruct e; try discriminate; cbn; try destruct link; cbn; repeat split; reflexivity. }
  rewrite t_run_cons. cbn [fst snd]. destruct Es as [E1 E2].
  destruct (IH _ E1 Hc2) as [A B]. split; [exact A|]. rewrite tyields_cons, E2, B. reflexivity.
Qed.

(* ------------------------------------------------------------------ link loss at any point of connect() *)
(* connect() step by step over n configurations; the link is lost after j of them (between two steps, or
   inside the last send of step j, which is the same sequence of steps); then the consumer iterates *)
Definition connect_with_loss (n j : nat) : list tev :=
  [TConnBegin] ++ repeat TConnCfg j ++ [TLost1] ++ repeat TConnCfg (n - j) ++ [TConnEnd; TLost2; TNext; TGet].

Definition fresh (s : tsl) : Prop :=
  t_conn s = false /\ t_cpos s = None /\ t_reg s = false /\ t_cons s = CIdle /\ t_pend s = 0%nat /\ t_link s = true.

(* no turn of the loop of connect() raises: the link is up (add_config accepts), or every own configuration
   has been accepted before *)
Definition allknown (s : tsl) : Prop := forall c, In c (t_own s) -> memz c (t_known s) = true.
Definition noraise (s : tsl) : Prop := t_link s = true \/ allknown s.

Lemma memz_add_reg_self c l : memz c (add_reg c l) = true.
Proof.
  unfold add_reg. destruct (memz c l) eqn:E; [exact E|]. unfold memz. rewrite existsb_app. cbn.
  rewrite Z.eqb_refl. now rewrite orb_true_r.
Qed.

Lemma memz_add_reg_mono c x l : memz c l = true -> memz c (add_reg x l) = true.
Proof.
  intros H. unfold add_reg. destruct (memz x l); [exact H|]. unfold memz in *. rewrite existsb_app, H. reflexivity.
Qed.

Lemma cfg_steps early : forall m s a, t_cpos s = Some a -> (a + m <= length (t_own s))%nat ->
  m = 0%nat \/ noraise s ->
  let s' := fst (t_rung early s (repeat TConnCfg m)) in
  t_cpos s' = Some (a + m)%nat /\ t_conn s' = t_conn s /\ t_queue s' = t_queue s /\ t_cons s' = t_cons s /\
  t_pend s' = t_pend s /\ t_reg s' = t_reg s /\ t_own s' = t_own s /\ t_link s' = t_link s /\
  (allknown s -> allknown s') /\
  snd (t_rung early s (repeat TConnCfg m)) = repeat ONone m.
Proof.
  induction m as [|m IH]; intros s a Hc Hl Hn; cbn zeta.
  - cbn. rewrite Nat.add_0_r. auto 12.
  - destruct Hn as [Hn|Hn]; [discriminate|].
    cbn [repeat t_rung t_stepg]. rewrite Hc.
    destruct (nth_error (t_own s) a) as [c|] eqn:En; [|apply nth_error_None in En; lia].
    unfold cfg_turn.
    assert (Hok : memz c (if t_link s then add_reg c (t_known s) else t_known s) = true).
    { destruct Hn as [Hn|Hn]; [rewrite Hn; apply memz_add_reg_self|].
      destruct (t_link s); [apply memz_add_reg_self|]. apply Hn. eapply nth_error_In. eassumption. }
    rewrite Hok.
    set (s1 := set_kb (upd s (t_conn s) (t_queue s) (t_cons s) (t_pend s) (t_reg s) (add_reg c (t_dreg s)) (Some (S a)))
                      (if t_link s then add_reg c (t_known s) else t_known s)
                      (if t_link s then add_reg c (t_blk s) else t_blk s)).
    assert (Ak : allknown s -> allknown s1).
    { intros A x Hx. cbn. destruct (t_link s); [apply memz_add_reg_mono|]; now apply A. }
    assert (N1 : noraise s1).
    { destruct Hn as [Hn|Hn]; [left; exact Hn|right; now apply Ak]. }
    specialize (IH s1 (S a) eq_refl ltac:(cbn; lia) (or_intror N1)). cbn zeta in IH.
    destruct (t_rung early s1 (repeat TConnCfg m)) as [s2 os]. cbn [fst snd] in *.
    destruct IH as (A & B & C & D & E & F & G & Hk & K & H). rewrite A, B, C, D, E, F, G, Hk, H.
    replace (S a + m)%nat with (a + S m)%nat by lia. repeat split; auto.
Qed.

Lemma t_rung_app early a : forall b s,
  t_rung early s (a ++ b) =
    (fst (t_rung early (fst (t_rung early s a)) b), snd (t_rung early s a) ++ snd (t_rung early (fst (t_rung early s a)) b)).
Proof.
  induction a as [|e a IH]; intros b s.
  - cbn. destruct (t_rung early s b); reflexivity.
  - cbn [app t_rung]. destruct (t_stepg early s e) as [s1 o]. rewrite IH.
    destruct (t_rung early s1 a) as [s2 os]. cbn [fst snd]. reflexivity.
Qed.

Lemma last_app {A} (l l' : list A) d : l' <> [] -> last (l ++ l') d = last l' d.
Proof.
  intros H. induction l as [|x l IH]; [reflexivity|]. cbn [app].
  assert (E : l ++ l' <> []) by (destruct l; [exact H|discriminate]).
  destruct (l ++ l') eqn:E2; [contradiction|]. cbn [last]. exact IH.
Qed.

(* the outcome of the scenario for both places of the registration *)
Lemma connect_with_loss_outcome early s n j : fresh s -> n = length (t_own s) -> (j <= n)%nat ->
  j = n \/ allknown s ->
  let os := snd (t_rung early s (connect_with_loss n j)) in
  let s' := fst (t_rung early s (connect_with_loss n j)) in
  if early
  then last os ONone = OStop /\ t_cons s' = CIdle           (* the sentinel reaches the consumer *)
  else last os ONone = ONoop /\ t_cons s' = CInGet /\ t_queue s' = [] /\ t_pend s' = 0%nat /\ t_conn s' = true.
Proof.
  intros (Fc & Fp & Fr & Fk & Fn & Fl) Hn Hj Hk. cbn zeta. unfold connect_with_loss.
  rewrite (t_rung_app early [TConnBegin]). cbn [t_rung t_stepg fst snd]. rewrite Fp, Fc. cbn [fst snd].
  set (s1 := upd s false [] (t_cons s) (t_pend s) (if early then true else t_reg s) (t_dreg s) (Some 0%nat)).
  rewrite (t_rung_app early (repeat TConnCfg j)).
  pose proof (cfg_steps early j s1 0%nat eq_refl ltac:(cbn; lia) (or_intror (or_introl Fl))) as P1. cbn zeta in P1.
  destruct (t_rung early s1 (repeat TConnCfg j)) as [s2 o2]. cbn [fst snd] in *.
  destruct P1 as (A1 & B1 & C1 & D1 & E1 & F1 & G1 & L1 & K1 & H1).
  cbn [t_conn t_queue t_cons t_pend t_reg t_own t_link s1 upd] in *.
  assert (Hm : (n - j = 0)%nat \/ allknown s2).
  { destruct Hk as [Hk|Hk]; [left; lia|right; apply K1; exact Hk]. }
  rewrite (t_rung_app early [TLost1]). cbn [t_rung t_stepg fst snd]. rewrite F1, B1.
  destruct early.
  - cbn [fst snd].
    set (s3 := upd (set_link s2 false) false (t_queue s2) (t_cons s2) (S (t_pend s2)) true (t_dreg s2) (t_cpos s2)).
    rewrite (t_rung_app true (repeat TConnCfg (n - j))).
    assert (N3 : (n - j = 0)%nat \/ noraise s3).
    { destruct Hm as [Hm|Hm]; [left; exact Hm|right; right; exact Hm]. }
    pose proof (cfg_steps true (n - j) s3 j A1 ltac:(cbn; rewrite G1; lia) N3) as P2. cbn zeta in P2.
    destruct (t_rung true s3 (repeat TConnCfg (n - j))) as [s4 o4]. cbn [fst snd] in *.
    destruct P2 as (A2 & B2 & C2 & D2 & E2 & F2 & G2 & L2 & K2 & H2).
    cbn [t_conn t_queue t_cons t_pend t_reg t_own t_link s3 upd set_link] in *.
    cbn [t_rung t_stepg]. rewrite A2, G2, G1. replace (j + (n - j))%nat with n by lia.
    rewrite Hn, Nat.eqb_refl. cbn [fst snd t_pend t_cons t_conn t_queue upd set_q].
    rewrite E2, E1, Fn, D2, D1, Fk, C2, C1. cbn -[last app].
    rewrite !app_assoc. rewrite last_app by discriminate. split; reflexivity.
  - rewrite Fr. cbn [fst snd].
    rewrite (t_rung_app false (repeat TConnCfg (n - j))).
    assert (N3 : (n - j = 0)%nat \/ noraise (set_link s2 false)).
    { destruct Hm as [Hm|Hm]; [left; exact Hm|right; right; exact Hm]. }
    pose proof (cfg_steps false (n - j) (set_link s2 false) j A1 ltac:(cbn; rewrite G1; lia) N3) as P2. cbn zeta in P2.
    destruct (t_rung false (set_link s2 false) (repeat TConnCfg (n - j))) as [s4 o4]. cbn [fst snd] in *.
    destruct P2 as (A2 & B2 & C2 & D2 & E2 & F2 & G2 & L2 & K2 & H2).
    cbn [t_conn t_queue t_cons t_pend t_reg t_own t_link set_link] in *.
    cbn [t_rung t_stepg]. rewrite A2, G2, G1. replace (j + (n - j))%nat with n by lia.
    rewrite Hn, Nat.eqb_refl. cbn [fst snd t_pend t_cons t_conn t_queue upd set_q].
    rewrite E2, E1, Fn, D2, D1, Fk, C2, C1. cbn -[last app].
    rewrite !app_assoc. rewrite last_app by discriminate. repeat split; reflexivity.
Qed.

(* the two readings of the outcome *)
Lemma loss_during_connect_terminates s n j : fresh s -> n = length (t_own s) -> (j <= n)%nat ->
  j = n \/ allknown s ->
  last (snd (t_run s (connect_with_loss n j))) ONone = OStop /\
  t_cons (fst (t_run s (connect_with_loss n j))) = CIdle.
Proof. intros F Hn Hj Hk. exact (connect_with_loss_outcome true s n j F Hn Hj Hk). Qed.

Lemma late_registration_blocks s n j : fresh s -> n = length (t_own s) -> (j <= n)%nat ->
  j = n \/ allknown s ->
  let s' := fst (t_rung false s (connect_with_loss n j)) in
  last (snd (t_rung false s (connect_with_loss n j))) ONone = ONoop /\
  t_cons s' = CInGet /\ t_queue s' = [] /\ t_pend s' = 0%nat /\ t_conn s' = true.
Proof. intros F Hn Hj Hk. exact (connect_with_loss_outcome false s n j F Hn Hj Hk). Qed.

(* the remaining case: the link is lost before a configuration that was never accepted: its start() raises,
   connect() ends without _is_connected, and next() stops at once (with either place of the registration) *)
Lemma loss_before_unknown_config early s j c : t_cpos s = Some j -> nth_error (t_own s) j = Some c ->
  t_link s = false -> memz c (t_known s) = false -> t_conn s = false -> t_cons s = CIdle ->
  let s1 := fst (t_stepg early s TConnCfg) in
  snd (t_stepg early s TConnCfg) = ORaiseAttr /\ t_cpos s1 = None /\ t_conn s1 = false /\
  t_stepg early s1 TNext = (s1, OStop).
Proof.
  intros Hc Hn Hl Hk Hcn Hco. cbn zeta. cbn [t_stepg]. rewrite Hc, Hn. unfold cfg_turn. rewrite Hl, Hk.
  cbn. rewrite Hco, Hcn. repeat split; reflexivity.
Qed.

(* ------------------------------------------------------------------ several loggers: each sees its own projection *)
Lemma nth_error_upd l : forall i j (x : tsl), nth_error (upd_tsl l i x) j =
  if Nat.eqb j i then match nth_error l i with Some _ => Some x | None => None end else nth_error l j.
Proof.
  induction l as [|y l IH]; intros i j x.
  - cbn. destruct i, j; cbn; try reflexivity. destruct (Nat.eqb j i); reflexivity.
  - destruct i, j; cbn; try reflexivity. apply IH.
Qed.

Lemma t_run_app a : forall b s, fst (t_run s (a ++ b)) = fst (t_run (fst (t_run s a)) b).
Proof. intros b s. unfold t_run. rewrite t_rung_app. reflexivity. Qed.

Lemma sys_projection evs : forall ls i s, nth_error ls i = Some s ->
  nth_error (fst (sys_run ls evs)) i = Some (fst (t_run s (concat (map (proj i) evs)))).
Proof.
  induction evs as [|e r IH]; intros ls i s H; [exact H|].
  cbn [sys_run map concat]. destruct (sys_step ls e) as [l1 o] eqn:Es.
  specialize (IH l1 i). destruct (sys_run l1 r) as [l2 os] eqn:Er. cbn [fst] in *.
  rewrite t_run_app. apply IH. clear IH Er.
  destruct e; cbn [sys_step proj] in *.
  - destruct (nth_error ls i0) as [s'|] eqn:E0.
    + destruct (t_step s' e) as [s1 o1] eqn:E1. inversion Es; subst. rewrite nth_error_upd.
      destruct (Nat.eqb i i0) eqn:Ei.
      * apply Nat.eqb_eq in Ei. subst i0. rewrite E0. rewrite H in E0. inversion E0; subst.
        rewrite t_final_cons, E1. reflexivity.
      * cbn. exact H.
    + inversion Es; subst. destruct (Nat.eqb i i0) eqn:Ei; [|exact H].
      apply Nat.eqb_eq in Ei. subst. congruence.
  - inversion Es; subst. rewrite nth_error_map, H. cbn [option_map]. rewrite t_final_cons. reflexivity.
  - inversion Es; subst. rewrite nth_error_map, H. cbn [option_map]. rewrite t_final_cons. reflexivity.
  - inversion Es; subst. rewrite nth_error_map, H. cbn [option_map]. rewrite t_final_cons. reflexivity.
  - destruct (nth_error ls i0) as [s'|] eqn:E0.
    + destruct (t_step s' TConnCfg) as [s1 o1] eqn:E1. inversion Es; subst.
      rewrite nth_error_map, nth_error_upd.
      destruct (Nat.eqb i i0) eqn:Ei.
      * apply Nat.eqb_eq in Ei. subst i0. rewrite E0. rewrite H in E0. inversion E0; subst.
        cbn [option_map app]. rewrite t_final_cons, E1. cbn [fst]. rewrite t_final_cons. reflexivity.
      * rewrite H. cbn [option_map app]. rewrite t_final_cons. reflexivity.
    + inversion Es; subst. rewrite nth_error_map, H. cbn [option_map].
      destruct (Nat.eqb i i0) eqn:Ei; [apply Nat.eqb_eq in Ei; subst; congruence|].
      cbn [app]. rewrite t_final_cons. reflexivity.
Qed.
