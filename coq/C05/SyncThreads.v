(* C05/SyncThreads.v — SyncLogger under threads (cflib/crazyflie/syncLogger.py).
   Threads: the dispatcher (incoming-packet thread: data callbacks `_log_callback`, the link-loss callback
   `_disconnected`), the user thread (connect / disconnect) and the consumer (the thread iterating:
   `__next__`).  Granularity: a thread runs from one hand-over point to the next; hand-over points are the
   queue operations -- `get()` (the consumer has passed the `_is_connected` test and is inside get(): it
   takes the head as soon as there is one) and the `put` of DISCONNECT_EVENT at the end of
   `_disconnected` -- and every packet.  The queue, the sentinel and the position of the consumer are
   explicit state.  Definitions only; tied by harness/fakes/c05_sync_threads.py (real SyncLogger on the
   real Log with real threads behind a deterministic gate). *)
Require Import CF.C05.Model.
Open Scope Z_scope.

Inductive cons := CIdle | CInGet.

Record tsl := mkTsl {
  t_conn : bool;              (* _is_connected *)
  t_queue : list qitem;
  t_cons : cons;              (* where the consumer thread is *)
  t_pend : nat;               (* _disconnected calls that have not yet put their DISCONNECT_EVENT *)
  t_own : list Z;             (* the log configurations given to the constructor *)
  t_reg : bool;               (* _disconnected is registered in cf.disconnected *)
  t_dreg : list Z;            (* configurations whose data_received_cb holds _log_callback *)
  t_cpos : option nat;        (* the user thread is inside connect(): index of the next configuration *)
  t_link : bool;              (* cf.link is not None *)
  t_known : list Z;           (* configurations that Log.add_config has accepted at some time (their cf is set) *)
  t_blk : list Z }.           (* configurations in Log.log_blocks (accepted since the last log reset): only their
                                 data packets are decoded *)

Definition tsl_init (own : list Z) : tsl := mkTsl false [] CIdle 0 own false [] None true [] [].

Definition memz (c : Z) (l : list Z) : bool := existsb (Z.eqb c) l.
Definition owns (s : tsl) (c : Z) : bool := memz c (t_own s).

Inductive tev :=
| TConnect                   (* user thread: connect() without interruption (also __enter__) *)
| TConnBegin                 (* connect() step by step: the test, emptying the queue, registering _disconnected *)
| TConnCfg                   (*   one configuration: add_config, data callback registered, start() *)
| TConnEnd                   (*   _is_connected = True *)
| TDisconnect                (* user thread: disconnect() (also __exit__) *)
| TNext                      (* consumer: calls next(): the _is_connected test, then enters get() *)
| TGet                       (* consumer inside get(): takes the head if the queue is not empty *)
| TSample (cfg k : Z)        (* dispatcher: block `cfg` decoded sample number k and fired data_received_cb *)
| TLinkUp                    (* a new link: the Crazyflie is connected again, log reset, TOC known *)
| TLost1                     (* the link is lost; cf.disconnected fires: _disconnected (if registered) runs disconnect() ... *)
| TLost2.                    (* ... and puts DISCONNECT_EVENT *)

Inductive tobs := OYield (k : Z) | OStop | OInGet | ONone | ORaise | ONoop
  | ORaiseAttr.   (* connect(): config.start() on a configuration that was never accepted while the link is down *)

Definition upd (s : tsl) (conn : bool) (q : list qitem) (c : cons) (p : nat) (reg : bool) (dreg : list Z)
  (cpos : option nat) : tsl := mkTsl conn q c p (t_own s) reg dreg cpos (t_link s) (t_known s) (t_blk s).

Definition set_q (s : tsl) (conn : bool) (q : list qitem) (c : cons) (p : nat) : tsl :=
  upd s conn q c p (t_reg s) (t_dreg s) (t_cpos s).

Definition set_link (s : tsl) (l : bool) : tsl :=
  mkTsl (t_conn s) (t_queue s) (t_cons s) (t_pend s) (t_own s) (t_reg s) (t_dreg s) (t_cpos s) l (t_known s) (t_blk s).

Definition set_kb (s : tsl) (k b : list Z) : tsl :=
  mkTsl (t_conn s) (t_queue s) (t_cons s) (t_pend s) (t_own s) (t_reg s) (t_dreg s) (t_cpos s) (t_link s) k b.

Definition add_reg (c : Z) (l : list Z) : list Z := if memz c l then l else l ++ [c].   (* Caller.add_callback *)

(* one turn of the loop of connect() for configuration c: add_config (accepts when the link is up, returns
   silently otherwise), the data callback is registered, start() -- which raises AttributeError when the
   configuration has never been accepted (its cf is None).  Result: (dreg, known, log_blocks, ok) *)
Definition cfg_turn (link : bool) (c : Z) (dreg known blk : list Z) : list Z * list Z * list Z * bool :=
  let known1 := if link then add_reg c known else known in
  let blk1 := if link then add_reg c blk else blk in
  (add_reg c dreg, known1, blk1, memz c known1).

(* the whole loop, stopping at the first exception *)
Fixpoint cfg_loop (link : bool) (cs : list Z) (dreg known blk : list Z) : list Z * list Z * list Z * bool :=
  match cs with
  | [] => (dreg, known, blk, true)
  | c :: r => let '(d1, k1, b1, ok) := cfg_turn link c dreg known blk in
              if ok then cfg_loop link r d1 k1 b1 else (d1, k1, b1, false)
  end.

(* `early` = where connect() registers _disconnected: true = before the loop over the configurations (the
   code), false = after it (the variant refuted in Proofs_threads.v) *)
Definition t_stepg (early : bool) (s : tsl) (e : tev) : tsl * tobs :=
  match e with
  | TConnect =>
      match t_cpos s with
      | Some _ => (s, ONoop)                                   (* the user thread is busy *)
      | None =>
          if t_conn s then (s, ORaise)
          else
            let '(d1, k1, b1, ok) := cfg_loop (t_link s) (t_own s) (t_dreg s) (t_known s) (t_blk s) in
            if ok then (set_kb (upd s true [] (t_cons s) (t_pend s) true d1 None) k1 b1, ONone)
            else (set_kb (upd s false [] (t_cons s) (t_pend s) (if early then true else t_reg s) d1 None) k1 b1,
                  ORaiseAttr)
      end
  | TConnBegin =>
      match t_cpos s with
      | Some _ => (s, ONoop)
      | None =>
          if t_conn s then (s, ORaise)
          else (upd s false [] (t_cons s) (t_pend s) (if early then true else t_reg s) (t_dreg s) (Some O), ONone)
      end
  | TConnCfg =>
      match t_cpos s with
      | Some j =>
          match nth_error (t_own s) j with
          | Some c =>
              let '(d1, k1, b1, ok) := cfg_turn (t_link s) c (t_dreg s) (t_known s) (t_blk s) in
              if ok then (set_kb (upd s (t_conn s) (t_queue s) (t_cons s) (t_pend s) (t_reg s) d1 (Some (S j))) k1 b1, ONone)
              else (set_kb (upd s (t_conn s) (t_queue s) (t_cons s) (t_pend s) (t_reg s) d1 None) k1 b1, ORaiseAttr)
          | None => (s, ONoop)
          end
      | None => (s, ONoop)
      end
  | TConnEnd =>
      match t_cpos s with
      | Some j =>
          if Nat.eqb j (length (t_own s))
          then (upd s true (t_queue s) (t_cons s) (t_pend s) (if early then t_reg s else true) (t_dreg s) None, ONone)
          else (s, ONoop)
      | None => (s, ONoop)
      end
  | TDisconnect =>
      match t_cpos s with
      | Some _ => (s, ONoop)
      | None => if t_conn s then (upd s false (t_queue s) (t_cons s) (t_pend s) false [] None, ONone)
                else (s, ONone)
      end
  | TNext =>
      match t_cons s with
      | CInGet => (s, ONoop)                                   (* the consumer thread is busy *)
      | CIdle => if t_conn s then (set_q s true (t_queue s) CInGet (t_pend s), OInGet) else (s, OStop)
      end
  | TGet =>
      match t_cons s, t_queue s with
      | CInGet, QSample k :: q => (set_q s (t_conn s) q CIdle (t_pend s), OYield k)
      | CInGet, QDisc :: q => (set_q s (t_conn s) q CIdle (t_pend s), OStop)
      | _, _ => (s, ONoop)                                     (* still blocked / not in get() *)
      end
  | TSample c k =>
      if memz c (t_dreg s) && memz c (t_blk s)
      then (set_q s (t_conn s) (t_queue s ++ [QSample k]) (t_cons s) (t_pend s), ONone)
      else (s, ONone)
  | TLinkUp =>
      (* nothing when the link is up; otherwise a new session: the log reset empties log_blocks *)
      if t_link s then (s, ONone) else (set_kb (set_link s true) (t_known s) [], ONone)
  | TLost1 =>
      let s0 := set_link s false in
      if t_reg s then
        (* _disconnected: disconnect() does something only when _is_connected *)
        if t_conn s then (upd s0 false (t_queue s) (t_cons s) (S (t_pend s)) false [] (t_cpos s), ONone)
        else (upd s0 false (t_queue s) (t_cons s) (S (t_pend s)) true (t_dreg s) (t_cpos s), ONone)
      else (s0, ONone)
  | TLost2 =>
      match t_pend s with
      | O => (s, ONoop)
      | S p => (set_q s (t_conn s) (t_queue s ++ [QDisc]) (t_cons s) p, ONone)
      end
  end.

Definition t_step : tsl -> tev -> tsl * tobs := t_stepg true.

Fixpoint t_rung (early : bool) (s : tsl) (evs : list tev) : tsl * list tobs :=
  match evs with
  | [] => (s, [])
  | e :: r => let '(s1, o) := t_stepg early s e in let '(s2, os) := t_rung early s1 r in (s2, o :: os)
  end.

Definition t_run : tsl -> list tev -> tsl * list tobs := t_rung true.

(* ------------------------------------------------------------------ several SyncLoggers on one Crazyflie *)
Inductive sev :=
| SOp (i : nat) (e : tev)        (* connect/disconnect/next/get/second half of link loss of logger i *)
| SSampleAll (cfg k : Z)         (* a data packet: every registered callback of that block fires *)
| SLinkUpAll                     (* the Crazyflie is connected again *)
| SLostAll                       (* the link is lost; cf.disconnected fires: every registered _disconnected runs (first half) *)
| SCfgLose (i : nat).            (* one configuration step of logger i's connect() during whose send the link is lost *)

Fixpoint upd_tsl (l : list tsl) (i : nat) (x : tsl) : list tsl :=
  match l, i with
  | [], _ => []
  | _ :: r, O => x :: r
  | y :: r, S j => y :: upd_tsl r j x
  end.

Definition sys_step (ls : list tsl) (e : sev) : list tsl * tobs :=
  match e with
  | SOp i ev =>
      match nth_error ls i with
      | Some s => let '(s1, o) := t_step s ev in (upd_tsl ls i s1, o)
      | None => (ls, ONoop)
      end
  | SSampleAll c k => (map (fun s => fst (t_step s (TSample c k))) ls, ONone)
  | SLinkUpAll => (map (fun s => fst (t_step s TLinkUp)) ls, ONone)
  | SLostAll => (map (fun s => fst (t_step s TLost1)) ls, ONone)
  | SCfgLose i =>
      match nth_error ls i with
      | Some s => let '(s1, o) := t_step s TConnCfg in
                  (map (fun s => fst (t_step s TLost1)) (upd_tsl ls i s1), o)
      | None => (map (fun s => fst (t_step s TLost1)) ls, ONoop)
      end
  end.

Fixpoint sys_run (ls : list tsl) (evs : list sev) : list tsl * list tobs :=
  match evs with
  | [] => (ls, [])
  | e :: r => let '(l1, o) := sys_step ls e in let '(l2, os) := sys_run l1 r in (l2, o :: os)
  end.

(* the events of a system run as logger i sees them *)
Definition proj (i : nat) (e : sev) : list tev :=
  match e with
  | SOp j ev => if Nat.eqb i j then [ev] else []
  | SSampleAll c k => [TSample c k]
  | SLinkUpAll => [TLinkUp]
  | SLostAll => [TLost1]
  | SCfgLose j => (if Nat.eqb i j then [TConnCfg] else []) ++ [TLost1]
  end.
