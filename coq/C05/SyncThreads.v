(* C05/SyncThreads.v — SyncLogger under threads (cflib/crazyflie/syncLogger.py).
   Threads: the dispatcher (incoming-packet thread: data callbacks `_log_callback`, the link-loss callback
   `_disconnected`), the user thread (connect / disconnect) and the consumer (the thread iterating:
   `__next__`).  Granularity: a thread runs from one hand-over point to the next; hand-over points are the
   queue operations -- `get()` (the consumer has passed the `_is_connected` test and is inside get(): it
   takes the head as soon as there is one) and the `put` of DISCONNECT_EVENT at the end of
   `_disconnected` -- and every packet.  The queue, the sentinel and the position of the consumer are
   explicit state.  Definitions only; tied by harness/fakes/c05_sync_threads.py (real SyncLogger on the
   real Log with real threads behind a deterministic gate). *)
Require Import CF.C05.Model.
Open Scope Z_scope.

Inductive cons := CIdle | CInGet.

Record tsl := mkTsl {
  t_conn : bool;              (* _is_connected (= data callbacks and _disconnected registered) *)
  t_queue : list qitem;
  t_cons : cons;              (* where the consumer thread is *)
  t_pend : nat;               (* _disconnected calls that have not yet put their DISCONNECT_EVENT *)
  t_own : list Z }.           (* the log configurations given to the constructor *)

Definition tsl_init (own : list Z) : tsl := mkTsl false [] CIdle 0 own.

Definition owns (s : tsl) (c : Z) : bool := existsb (Z.eqb c) (t_own s).

Inductive tev :=
| TConnect | TDisconnect     (* user thread: connect() / disconnect() (also __enter__ / __exit__) *)
| TNext                      (* consumer: calls next(): the _is_connected test, then enters get() *)
| TGet                       (* consumer inside get(): takes the head if the queue is not empty *)
| TSample (cfg k : Z)        (* dispatcher: block `cfg` decoded sample number k and fired data_received_cb *)
| TLost1                     (* dispatcher: _disconnected runs disconnect() ... *)
| TLost2.                    (* ... and puts DISCONNECT_EVENT *)

Inductive tobs := OYield (k : Z) | OStop | OInGet | ONone | ORaise | ONoop.

Definition set_q (s : tsl) (conn : bool) (q : list qitem) (c : cons) (p : nat) : tsl :=
  mkTsl conn q c p (t_own s).

Definition t_step (s : tsl) (e : tev) : tsl * tobs :=
  match e with
  | TConnect =>
      (* raises when connected; otherwise empties the queue (fixes/F05d), registers, sets the flag *)
      if t_conn s then (s, ORaise) else (set_q s true [] (t_cons s) (t_pend s), ONone)
  | TDisconnect => (set_q s false (t_queue s) (t_cons s) (t_pend s), ONone)
  | TNext =>
      match t_cons s with
      | CInGet => (s, ONoop)                                   (* the consumer thread is busy *)
      | CIdle => if t_conn s then (set_q s true (t_queue s) CInGet (t_pend s), OInGet) else (s, OStop)
      end
  | TGet =>
      match t_cons s, t_queue s with
      | CInGet, QSample k :: q => (set_q s (t_conn s) q CIdle (t_pend s), OYield k)
      | CInGet, QDisc :: q => (set_q s (t_conn s) q CIdle (t_pend s), OStop)
      | _, _ => (s, ONoop)                                     (* still blocked / not in get() *)
      end
  | TSample c k =>
      if t_conn s && owns s c then (set_q s true (t_queue s ++ [QSample k]) (t_cons s) (t_pend s), ONone)
      else (s, ONone)
  | TLost1 =>
      if t_conn s then (set_q s false (t_queue s) (t_cons s) (S (t_pend s)), ONone) else (s, ONone)
  | TLost2 =>
      match t_pend s with
      | O => (s, ONoop)
      | S p => (set_q s (t_conn s) (t_queue s ++ [QDisc]) (t_cons s) p, ONone)
      end
  end.

Fixpoint t_run (s : tsl) (evs : list tev) : tsl * list tobs :=
  match evs with
  | [] => (s, [])
  | e :: r => let '(s1, o) := t_step s e in let '(s2, os) := t_run s1 r in (s2, o :: os)
  end.

(* ------------------------------------------------------------------ several SyncLoggers on one Crazyflie *)
Inductive sev :=
| SOp (i : nat) (e : tev)        (* connect/disconnect/next/get/second half of link loss of logger i *)
| SSampleAll (cfg k : Z)         (* a data packet: every registered callback of that block fires *)
| SLostAll.                      (* cf.disconnected fires: every registered _disconnected runs (first half) *)

Fixpoint upd_tsl (l : list tsl) (i : nat) (x : tsl) : list tsl :=
  match l, i with
  | [], _ => []
  | _ :: r, O => x :: r
  | y :: r, S j => y :: upd_tsl r j x
  end.

Definition sys_step (ls : list tsl) (e : sev) : list tsl * tobs :=
  match e with
  | SOp i ev =>
      match nth_error ls i with
      | Some s => let '(s1, o) := t_step s ev in (upd_tsl ls i s1, o)
      | None => (ls, ONoop)
      end
  | SSampleAll c k => (map (fun s => fst (t_step s (TSample c k))) ls, ONone)
  | SLostAll => (map (fun s => fst (t_step s TLost1)) ls, ONone)
  end.

Fixpoint sys_run (ls : list tsl) (evs : list sev) : list tsl * list tobs :=
  match evs with
  | [] => (ls, [])
  | e :: r => let '(l1, o) := sys_step ls e in let '(l2, os) := sys_run l1 r in (l2, o :: os)
  end.

(* the events of a system run as logger i sees them *)
Definition proj (i : nat) (e : sev) : list tev :=
  match e with
  | SOp j ev => if Nat.eqb i j then [ev] else []
  | SSampleAll c k => [TSample c k]
  | SLostAll => [TLost1]
  end.
