(* C05/Proofs_sync.v — SyncLogger: one connect ... disconnect session yields the decoded samples in FIFO
   order, each at most once, and stops at the disconnect. *)
Require Import CF.C05.Model.
Open Scope Z_scope.

Definition is_connect (e : sl_ev) : bool := match e with SConnect => true | _ => false end.
Definition is_end (e : sl_ev) : bool := match e with SLinkLost | SDisconnect => true | _ => false end.

(* samples in a queue / yielded by a run *)
Fixpoint qsamples (q : list qitem) : list Z :=
  match q with [] => [] | QSample k :: r => k :: qsamples r | QDisc :: r => qsamples r end.
Fixpoint yields (os : list sl_obs) : list Z :=
  match os with [] => [] | YSample k :: r => k :: yields r | _ :: r => yields r end.

(* the samples the log block delivers while the logger is connected (none after the session ended) *)
Fixpoint delivered (conn : bool) (evs : list sl_ev) : list Z :=
  match evs with
  | [] => []
  | SSample k :: r => if conn then k :: delivered conn r else delivered conn r
  | SLinkLost :: r | SDisconnect :: r => delivered false r
  | _ :: r => delivered conn r
  end.

Definition no_marker (q : list qitem) : Prop := Forall (fun i => i <> QDisc) q.

Lemma qsamples_app a b : qsamples (a ++ b) = qsamples a ++ qsamples b.
Proof. induction a as [|[k|] a IH]; cbn; congruence. Qed.

(* conservation: yielded ++ still queued = previously queued ++ delivered *)
Lemma sl_conservation evs : forall s,
  forallb (fun e => negb (is_connect e)) evs = true ->
  (sl_conn s = true -> no_marker (sl_queue s)) ->
  yields (snd (sl_run s evs)) ++ qsamples (sl_queue (fst (sl_run s evs)))
    = qsamples (sl_queue s) ++ delivered (sl_conn s) evs.
Proof.
  induction evs as [|e r IH]; intros s Hc Hm.
  - cbn. now rewrite app_nil_r.
  - cbn [forallb] in Hc. apply andb_true_iff in Hc as [Hc1 Hc2].
    cbn [sl_run]. destruct s as [conn q]. cbn [sl_conn sl_queue] in *.
    destruct e; try discriminate; cbn [sl_step sl_conn sl_queue delivered].
    + (* SSample *) destruct conn.
      * specialize (IH (mkSl true (q ++ [QSample k])) Hc2).
        destruct (sl_run (mkSl true (q ++ [QSample k])) r) as [s2 os]. cbn [fst snd yields] in *.
        rewrite IH.
        -- cbn [sl_queue sl_conn]. rewrite qsamples_app. cbn. now rewrite <- app_assoc.
        -- intros _. apply Forall_app. split; [now apply Hm|]. constructor; [discriminate|constructor].
      * specialize (IH (mkSl false q) Hc2). destruct (sl_run (mkSl false q) r) as [s2 os]. cbn [fst snd yields] in *.
        apply IH. discriminate.
    + (* SNext *) destruct conn; cbn [negb].
      * destruct q as [|[k|] q'].
        -- specialize (IH (mkSl true []) Hc2). destruct (sl_run (mkSl true []) r) as [s2 os]. cbn [fst snd yields] in *.
           apply IH. intros _. constructor.
        -- specialize (IH (mkSl true q') Hc2). destruct (sl_run (mkSl true q') r) as [s2 os]. cbn [fst snd yields] in *.
           cbn [qsamples app]. f_equal. apply IH. intros _. specialize (Hm eq_refl). now inversion Hm.
        -- exfalso. specialize (Hm eq_refl). inversion Hm; subst. congruence.
      * specialize (IH (mkSl false q) Hc2). destruct (sl_run (mkSl false q) r) as [s2 os]. cbn [fst snd yields] in *.
        apply IH. discriminate.
    + (* SLinkLost *) destruct conn.
      * specialize (IH (mkSl false (q ++ [QDisc])) Hc2).
        destruct (sl_run (mkSl false (q ++ [QDisc])) r) as [s2 os]. cbn [fst snd yields] in *.
        rewrite IH by discriminate. cbn [sl_queue sl_conn]. rewrite qsamples_app. cbn. now rewrite app_nil_r.
      * specialize (IH (mkSl false q) Hc2). destruct (sl_run (mkSl false q) r) as [s2 os]. cbn [fst snd yields] in *.
        apply IH. discriminate.
    + (* SDisconnect *)
      specialize (IH (mkSl false q) Hc2). destruct (sl_run (mkSl false q) r) as [s2 os]. cbn [fst snd yields] in *.
      apply IH. discriminate.
Qed.

(* after the end of the session nothing more is yielded: every next() stops *)
Lemma sl_after_end evs : forall s, sl_conn s = false ->
  forallb (fun e => negb (is_connect e)) evs = true ->
  yields (snd (sl_run s evs)) = [] /\
  Forall (fun o => o = YStop \/ o = YNone) (snd (sl_run s evs)) /\
  sl_conn (fst (sl_run s evs)) = false.
Proof.
  induction evs as [|e r IH]; intros s Hs Hc; [cbn; auto|].
  cbn [forallb] in Hc. apply andb_true_iff in Hc as [Hc1 Hc2].
  cbn [sl_run]. destruct s as [conn q]. cbn [sl_conn] in Hs. subst conn.
  destruct e; try discriminate; cbn [sl_step sl_conn sl_queue negb];
    match goal with |- context [sl_run ?s0 r] => specialize (IH s0 eq_refl Hc2); destruct (sl_run s0 r) as [s2 os] end;
    cbn [fst snd yields] in *; destruct IH as (A & B & C); repeat split; auto.
Qed.

(* while connected and with a sample queued, next() returns the oldest one *)
Lemma sl_next_head k q : sl_step (mkSl true (QSample k :: q)) SNext = (mkSl true q, YSample k).
Proof. reflexivity. Qed.

(* the run of one session, after any earlier use of the object: connect, then anything but connect *)
Lemma sl_session s0 evs : sl_conn s0 = false ->
  forallb (fun e => negb (is_connect e)) evs = true ->
  let r := sl_run s0 (SConnect :: evs) in
  yields (snd r) ++ qsamples (sl_queue (fst r)) = delivered true evs.
Proof.
  intros H0 Hc. cbn zeta. cbn [sl_run sl_step]. rewrite H0.
  pose proof (sl_conservation evs (mkSl true []) Hc ltac:(intros _; constructor)) as H.
  destruct (sl_run (mkSl true []) evs) as [s2 os]. cbn [fst snd yields sl_conn sl_queue qsamples app] in *. exact H.
Qed.

Lemma sl_connect_fresh s0 : sl_conn s0 = false -> sl_step s0 SConnect = (mkSl true [], YNone).
Proof. intros H. cbn [sl_step]. now rewrite H. Qed.

(* if the consumer has taken everything before the session ends, nothing is lost *)
Lemma sl_session_split pre d post :
  forallb (fun e => negb (is_connect e)) (pre ++ d :: post) = true -> is_end d = true ->
  forallb (fun e => negb (is_end e)) pre = true ->
  let r1 := sl_run (mkSl true []) pre in
  let r := sl_run (mkSl true []) (pre ++ d :: post) in
  yields (snd r) = yields (snd r1) /\
  yields (snd r1) ++ qsamples (sl_queue (fst r1)) = delivered true pre.
Proof.
  intros Hc Hd Hp. cbn zeta.
  rewrite forallb_app in Hc. apply andb_true_iff in Hc as [Hc1 Hc2]. cbn [forallb] in Hc2.
  apply andb_true_iff in Hc2 as [_ Hc3].
  pose proof (sl_conservation pre (mkSl true []) Hc1 ltac:(intros _; constructor)) as Hcons.
  cbn [sl_conn sl_queue qsamples app] in Hcons.
  split; [|exact Hcons].
  assert (Happ : forall a b s, sl_run s (a ++ b) =
            (fst (sl_run (fst (sl_run s a)) b), snd (sl_run s a) ++ snd (sl_run (fst (sl_run s a)) b))).
  { induction a as [|e a IHa]; intros b s.
    - cbn. destruct (sl_run s b); reflexivity.
    - cbn [app sl_run]. destruct (sl_step s e) as [s1 o]. rewrite IHa.
      destruct (sl_run s1 a) as [s2 os]. cbn [fst snd]. destruct (sl_run s2 b); reflexivity. }
  rewrite Happ. cbn [snd].
  assert (Hy : forall a b, yields (a ++ b) = yields a ++ yields b).
  { induction a as [|[k| | | |] a IHa]; intros b; cbn; rewrite ?IHa; reflexivity. }
  rewrite Hy.
  set (s1 := fst (sl_run (mkSl true []) pre)).
  cbn [sl_run]. 
  assert (He : sl_conn (fst (sl_step s1 d)) = false /\ (snd (sl_step s1 d) = YNone)).
  { clearbody s1. destruct s1 as [c q]. destruct d; try discriminate; destruct c; cbn; split; reflexivity. }
  destruct (sl_step s1 d) as [s2 o2]. cbn [fst snd] in He. destruct He as [He1 He2]. subst o2.
  destruct (sl_after_end post s2 He1 Hc3) as (A & _ & _).
  destruct (sl_run s2 post) as [s3 os]. cbn [fst snd yields] in *. rewrite A. now rewrite app_nil_r.
Qed.
