(* C05/Proofs_add.v — Log.add_config: acceptance criterion, effects of acceptance, nothing is sent. *)
Require Import CF.C05.Model.
From Coq Require Import ZifyBool.
Open Scope Z_scope.
Ltac Zify.zify_post_hook ::= Z.to_euclidean_division_equations.

(* ------------------------------------------------------------------ heap lemmas *)
Lemma upd_nth_length l h c : length (upd_nth l h c) = length l.
Proof. revert h; induction l as [|x l IH]; intros [|h]; cbn; auto. Qed.

Lemma nth_upd_nth_same l h c d : (h < length l)%nat -> nth h (upd_nth l h c) d = c.
Proof. revert h; induction l as [|x l IH]; intros [|h] H; cbn in *; try lia; auto. apply IH. lia. Qed.

Lemma nth_upd_nth_other l h h' c d : h <> h' -> nth h' (upd_nth l h c) d = nth h' l d.
Proof. revert h h'; induction l as [|x l IH]; intros [|h] [|h'] H; cbn; auto; try congruence. Qed.

Lemma get_put_same s h c : valid_h s h = true -> get (put s h c) h = c.
Proof. unfold valid_h, get, put. cbn. intros H. apply Nat.ltb_lt in H. now apply nth_upd_nth_same. Qed.

Lemma get_put_other s h h' c : h <> h' -> get (put s h c) h' = get s h'.
Proof. unfold get, put. cbn. apply nth_upd_nth_other. Qed.

Lemma valid_h_put s h c h' : valid_h (put s h c) h' = valid_h s h'.
Proof. unfold valid_h, put. cbn. now rewrite upd_nth_length. Qed.

(* ------------------------------------------------------------------ sizes *)
Definition zsum (l : list Z) : Z := fold_right Z.add 0 l.

Definition var_size (v : var) : Z := match ty_size (v_fetch v) with Some s => s | None => 0 end.

Definition in_tocb (tc : toc) (n : Z) : bool :=
  match toc_by_complete_name tc n with Some _ => true | None => false end.

Definition name_size (tc : toc) (n : Z) : Z :=
  match toc_by_complete_name tc n with
  | Some e => match ty_size (t_ctype e) with Some s => s | None => 0 end
  | None => 0
  end.

(* the log-data payload the configuration asks for (default-typed names: the size of the stored type) *)
Definition payload_size (tc : toc) (c : cfg) : Z :=
  zsum (map var_size (c_vars c)) + zsum (map (name_size tc) (c_dfa c)).

Definition all_in_toc (tc : toc) (c : cfg) : Prop :=
  (forall n, In n (c_dfa c) -> in_tocb tc n = true) /\
  (forall v, In v (c_vars c) -> v_toc v = true -> in_tocb tc (v_name v) = true).

Definition types_known (vs : list var) : Prop := Forall (fun v => ty_known (v_fetch v) = true) vs.
Definition toc_types_known (tc : toc) : Prop := Forall (fun e => ty_known (t_ctype e) = true) tc.

Lemma ty_known_size t : ty_known t = true -> exists s, ty_size t = Some s.
Proof. unfold ty_known, ty_size. destruct (ty_info t) as [[[k f] s]|]; [eauto|discriminate]. Qed.

Lemma by_complete_name_in tc n e : toc_by_complete_name tc n = Some e -> In e tc.
Proof.
  unfold toc_by_complete_name, toc_by_id. destruct (toc_element_id tc n); [|discriminate].
  intros H. apply find_some in H. tauto.
Qed.

(* ------------------------------------------------------------------ phase 1 *)
Definition resolved_var (tc : toc) (n : Z) : var :=
  match toc_by_complete_name tc n with
  | Some e => mkVar true n (t_ctype e) (t_ctype e) 0
  | None => mkVar true n 0 0 0
  end.

Lemma resolve_dfa_spec tc names :
  resolve_dfa tc names = if forallb (in_tocb tc) names then Some (map (resolved_var tc) names) else None.
Proof.
  induction names as [|n r IH]; [reflexivity|].
  cbn [resolve_dfa forallb map]. unfold in_tocb at 1, resolved_var at 1.
  destruct (toc_by_complete_name tc n) as [e|]; [|reflexivity].
  rewrite IH. cbn [andb]. destruct (forallb (in_tocb tc) r); reflexivity.
Qed.

Lemma resolved_sizes tc names :
  map var_size (map (resolved_var tc) names) = map (name_size tc) names.
Proof.
  rewrite map_map. apply map_ext. intros n. unfold resolved_var, name_size, var_size.
  destruct (toc_by_complete_name tc n); reflexivity.
Qed.

Lemma resolved_types_known tc names : toc_types_known tc -> forallb (in_tocb tc) names = true ->
  types_known (map (resolved_var tc) names).
Proof.
  intros Ht H. unfold types_known. apply Forall_forall. intros v Hv. apply in_map_iff in Hv as (n & <- & Hn).
  rewrite forallb_forall in H. specialize (H n Hn). unfold in_tocb, resolved_var in *.
  destruct (toc_by_complete_name tc n) as [e|] eqn:E; [|discriminate]. cbn.
  unfold toc_types_known in Ht. rewrite Forall_forall in Ht. apply Ht. eapply by_complete_name_in; eauto.
Qed.

(* ------------------------------------------------------------------ phase 2 *)
Definition toc_vars_in (tc : toc) (vs : list var) : bool :=
  forallb (fun v => negb (v_toc v) || in_tocb tc (v_name v)) vs.

Lemma check_vars_spec tc vs : types_known vs -> forall acc,
  check_vars (Some tc) vs acc =
    if toc_vars_in tc vs then ChkOk (acc + zsum (map var_size vs)) else ChkNoName.
Proof.
  induction 1 as [|v vs Hv _ IH]; intros acc.
  - cbn. f_equal. lia.
  - cbn [check_vars toc_vars_in forallb map zsum fold_right]. unfold var_size at 1.
    destruct (ty_known_size _ Hv) as [sz Hs]. rewrite Hs.
    destruct (v_toc v); cbn [negb orb].
    + unfold in_tocb at 1. destruct (toc_by_complete_name tc (v_name v)); cbn [andb]; [|reflexivity].
      rewrite IH. fold (toc_vars_in tc vs). destruct (toc_vars_in tc vs); cbn [andb]; [f_equal; unfold zsum; lia|reflexivity].
    + rewrite IH. fold (toc_vars_in tc vs). destruct (toc_vars_in tc vs); cbn [andb]; [f_equal; unfold zsum; lia|reflexivity].
Qed.

Lemma types_known_app a b : types_known a -> types_known b -> types_known (a ++ b).
Proof. unfold types_known. intros. apply Forall_app. auto. Qed.

Lemma zsum_app a b : zsum (a ++ b) = zsum a + zsum b.
Proof. unfold zsum. induction a as [|x a IH]; cbn [app fold_right]; lia. Qed.

Lemma toc_vars_in_app tc a b : toc_vars_in tc (a ++ b) = toc_vars_in tc a && toc_vars_in tc b.
Proof. apply forallb_app. Qed.

Lemma toc_vars_in_resolved tc names : forallb (in_tocb tc) names = true ->
  toc_vars_in tc (map (resolved_var tc) names) = true.
Proof.
  intros H. unfold toc_vars_in. rewrite forallb_forall. intros v Hv. apply in_map_iff in Hv as (n & <- & Hn).
  rewrite forallb_forall in H. specialize (H n Hn).
  assert (v_name (resolved_var tc n) = n) as ->.
  { unfold resolved_var. destruct (toc_by_complete_name tc n); reflexivity. }
  rewrite H. apply orb_true_r.
Qed.

(* ------------------------------------------------------------------ the outcome of add_config *)
Definition resolved_vars (tc : toc) (c : cfg) : list var := c_vars c ++ map (resolved_var tc) (c_dfa c).

Definition acceptable (tc : toc) (c : cfg) : bool :=
  forallb (in_tocb tc) (c_dfa c) && toc_vars_in tc (c_vars c) &&
  (payload_size tc c <=? g_max_len) && period_ok (c_period c).

Lemma set_dfa_vars_nil c : c_dfa c = [] -> set_dfa (set_vars c (c_vars c ++ [])) [] = c.
Proof. intros H. rewrite app_nil_r. destruct c; cbn in *. now subst. Qed.

Lemma add_config_outcome s h tc :
  s_link s = true -> s_toc s = Some tc -> toc_types_known tc -> types_known (c_vars (get s h)) ->
  let c := get s h in
  (add_config s h =
    if acceptable tc c then
      let c2 := set_accept (set_dfa (set_vars c (resolved_vars tc c)) []) (s_counter s) (s_v2 s) in
      (set_blocks (set_counter (put s h c2) ((s_counter s + 1) mod 255)) (s_blocks s ++ [h]),
       [OCb cb_block_added h []], AccAccepted)
    else (fst (fst (add_config s h)), [], snd (add_config s h))) /\
  (acceptable tc c = false -> exists e, snd (add_config s h) = AccRejected e).
Proof.
  intros Hl Ht Htk Hvk c. unfold add_config. rewrite Hl, Ht. cbn [negb]. fold c.
  unfold acceptable, payload_size, resolved_vars.
  assert (Hdfa : match c_dfa c with
                 | [] => Ok c
                 | _ :: _ => match resolve_dfa tc (c_dfa c) with
                             | None => Err KeyError
                             | Some vs => Ok (set_dfa (set_vars c (c_vars c ++ vs)) [])
                             end
                 end =
                 if forallb (in_tocb tc) (c_dfa c)
                 then Ok (set_dfa (set_vars c (c_vars c ++ map (resolved_var tc) (c_dfa c))) [])
                 else Err KeyError).
  { destruct (c_dfa c) as [|n r] eqn:E.
    - cbn [forallb map]. f_equal. symmetry. now apply set_dfa_vars_nil.
    - rewrite resolve_dfa_spec. destruct (forallb (in_tocb tc) (n :: r)); reflexivity. }
  rewrite Hdfa. clear Hdfa.
  destruct (forallb (in_tocb tc) (c_dfa c)) eqn:Ed; cbn [andb].
  2:{ split; [reflexivity|]. intros _. eexists. reflexivity. }
  cbn [c_vars set_dfa set_vars].
  rewrite check_vars_spec by (apply types_known_app; [exact Hvk|apply resolved_types_known; assumption]).
  rewrite toc_vars_in_app, toc_vars_in_resolved by exact Ed. rewrite andb_true_r.
  destruct (toc_vars_in tc (c_vars c)) eqn:Ev; cbn [andb].
  2:{ split; [reflexivity|]. intros _. eexists. reflexivity. }
  rewrite map_app, zsum_app, resolved_sizes. cbn [c_period set_dfa set_vars].
  replace (0 + (zsum (map var_size (c_vars c)) + zsum (map (name_size tc) (c_dfa c))))
    with (zsum (map var_size (c_vars c)) + zsum (map (name_size tc) (c_dfa c))) by lia.
  destruct ((zsum (map var_size (c_vars c)) + zsum (map (name_size tc) (c_dfa c)) <=? g_max_len)
            && period_ok (c_period c)) eqn:Es.
  - split; [reflexivity|discriminate].
  - split; [reflexivity|]. intros _. eexists. reflexivity.
Qed.

Lemma acceptable_iff tc c :
  acceptable tc c = true <->
  all_in_toc tc c /\ 1 <= c_period c <= 254 /\ payload_size tc c <= 26.
Proof.
  unfold acceptable, all_in_toc, period_ok, toc_vars_in, g_max_len. rewrite !andb_true_iff, !forallb_forall.
  split.
  - intros [[[H1 H2] H3] H4]. repeat split; try lia; auto.
    intros v Hv Ht. specialize (H2 v Hv). rewrite Ht in H2. exact H2.
  - intros [[H1 H2] [H3 H4]]. repeat split; try lia; auto.
    intros v Hv. destruct (v_toc v) eqn:E; cbn; auto.
Qed.

(* add_config never sends anything *)
Lemma add_config_sends_nothing s h : forall p ch d e, ~ In (OWire p ch d e) (snd (fst (add_config s h))).
Proof.
  intros p ch d e. unfold add_config.
  destruct (negb (s_link s)); [cbn; tauto|].
  destruct (match c_dfa (get s h) with [] => Ok (get s h) | _ :: _ => _ end) as [c1|[]]; try (cbn; tauto).
  destruct (check_vars (s_toc s) (c_vars c1) 0); try (cbn; tauto).
  destruct ((size <=? g_max_len) && period_ok (c_period c1)); cbn; [|tauto].
  intros [H|[]]. discriminate.
Qed.

(* the period: int(period_in_ms / 10) in [1, 254]  <->  10 ms <= period_in_ms < 2550 ms *)
Lemma period_window ms : 1 <= c_period (new_cfg ms) <= 254 <-> 10 <= ms < 2550.
Proof.
  unfold new_cfg. cbn [new_cfg_p c_period]. destruct (Z_lt_le_dec ms 0) as [Hn|Hp].
  - rewrite <- (Z.opp_involutive ms), Z.quot_opp_l by lia. rewrite Z.quot_div_nonneg by lia. lia.
  - rewrite Z.quot_div_nonneg by lia. lia.
Qed.

Lemma accept_iff s h tc :
  s_link s = true -> s_toc s = Some tc -> toc_types_known tc -> types_known (c_vars (get s h)) ->
  let c := get s h in
  (snd (add_config s h) = AccAccepted <->
     all_in_toc tc c /\ 1 <= c_period c <= 254 /\ payload_size tc c <= 26) /\
  (forall p ch d e, ~ In (OWire p ch d e) (snd (fst (add_config s h)))).
Proof.
  intros Hl Ht Htk Hvk c. split; [|apply add_config_sends_nothing].
  rewrite <- acceptable_iff. destruct (add_config_outcome s h tc Hl Ht Htk Hvk) as [H1 H2]. fold c in H1, H2.
  destruct (acceptable tc c) eqn:E.
  - rewrite H1. cbn. tauto.
  - destruct (H2 eq_refl) as [e He]. rewrite He. split; discriminate.
Qed.

Lemma accepted_state s h tc :
  s_link s = true -> s_toc s = Some tc -> toc_types_known tc -> types_known (c_vars (get s h)) ->
  snd (add_config s h) = AccAccepted ->
  let c := get s h in
  add_config s h =
    (set_blocks (set_counter (put s h (set_accept (set_dfa (set_vars c (resolved_vars tc c)) []) (s_counter s) (s_v2 s)))
                             ((s_counter s + 1) mod 255)) (s_blocks s ++ [h]),
     [OCb cb_block_added h []], AccAccepted).
Proof.
  intros Hl Ht Htk Hvk Ha c. destruct (add_config_outcome s h tc Hl Ht Htk Hvk) as [H1 H2]. fold c in H1, H2.
  destruct (acceptable tc c) eqn:E; [exact H1|].
  destruct (H2 eq_refl) as [e He]. rewrite He in Ha. discriminate.
Qed.

(* ------------------------------------------------------------------ what add_config may do to a configuration *)
(* The requested variables of a configuration, in order: the typed ones, then the names still waiting for
   their type.  add_config never duplicates, drops or reorders a name: it only moves pending names (all of
   them, in order) to the end of the typed list. *)
Definition name_seq (c : cfg) : list Z := map v_name (c_vars c) ++ c_dfa c.

(* c' continues c: the typed list grew by rs, whose names were the first pending ones *)
Definition extends (c c' : cfg) : Prop :=
  exists rs, c_vars c' = c_vars c ++ rs /\ map v_name rs ++ c_dfa c' = c_dfa c.

Lemma extends_refl c : extends c c.
Proof. exists []. split; [now rewrite app_nil_r|reflexivity]. Qed.

Lemma extends_trans a b c : extends a b -> extends b c -> extends a c.
Proof.
  intros (r1 & A1 & B1) (r2 & A2 & B2). exists (r1 ++ r2). split.
  - rewrite A2, A1. now rewrite app_assoc.
  - rewrite map_app, <- app_assoc, B2. exact B1.
Qed.

Lemma extends_name_seq c c' : extends c c' -> name_seq c' = name_seq c.
Proof.
  intros (rs & A & B). unfold name_seq. rewrite A, map_app, <- app_assoc, B. reflexivity.
Qed.

Lemma resolve_dfa_names tc names vs : resolve_dfa tc names = Some vs -> map v_name vs = names.
Proof.
  rewrite resolve_dfa_spec. destruct (forallb (in_tocb tc) names); [|discriminate].
  intros H. inversion H. rewrite map_map. rewrite <- (map_id names) at 2. apply map_ext.
  intros n. unfold resolved_var. destruct (toc_by_complete_name tc n); reflexivity.
Qed.

Lemma extends_valid c c' b : extends c c' -> extends c (set_valid c' b).
Proof. intros (rs & A & B). exists rs. auto. Qed.

Lemma gsb s b h : get (set_blocks s b) h = get s h. Proof. reflexivity. Qed.
Lemma gsc s b h : get (set_counter s b) h = get s h. Proof. reflexivity. Qed.

(* every outcome of add_config: configuration h continues its old self, log_blocks and the id counter
   change only on acceptance, callbacks only on acceptance, nothing is ever sent *)
Lemma add_config_effect s h : valid_h s h = true ->
  let '(s1, o, a) := add_config s h in
  extends (get s h) (get s1 h) /\
  (forall h', h' <> h -> get s1 h' = get s h') /\
  (a <> AccAccepted -> o = [] /\ s_blocks s1 = s_blocks s /\ s_counter s1 = s_counter s /\
                       c_id (get s1 h) = c_id (get s h) /\ c_cf (get s1 h) = c_cf (get s h)) /\
  (a = AccAccepted -> c_dfa (get s1 h) = []).
Proof.
  intros Hv. unfold add_config. destruct (negb (s_link s)).
  { repeat split; auto using extends_refl; intros; congruence. }
  set (c := get s h).
  assert (G : forall s' c', valid_h s' h = true -> get (put s' h c') h = c').
  { intros. now apply get_put_same. }
  assert (G' : forall s' c' h', h' <> h -> get (put s' h c') h' = get s' h').
  { intros. apply get_put_other. congruence. }
  assert (R1 : forall r1 : res cfg,
            match c_dfa c with
            | [] => Ok c
            | _ :: _ => match s_toc s with
                        | None => Err AttributeError
                        | Some tc => match resolve_dfa tc (c_dfa c) with
                                     | None => Err KeyError
                                     | Some vs => Ok (set_dfa (set_vars c (c_vars c ++ vs)) [])
                                     end
                        end
            end = r1 ->
            match r1 with
            | Ok c1 => extends c c1 /\ c_dfa c1 = [] /\ c_id c1 = c_id c /\ c_cf c1 = c_cf c
            | Err _ => True
            end).
  { intros r1 <-. destruct (c_dfa c) as [|n r] eqn:Ed.
    - repeat split; auto using extends_refl.
    - destruct (s_toc s) as [tc|]; [|exact I]. destruct (resolve_dfa tc (n :: r)) as [vs|] eqn:Er; [|exact I].
      repeat split. exists vs. cbn [c_vars c_dfa set_dfa set_vars]. split; [reflexivity|].
      rewrite app_nil_r, Ed. now apply resolve_dfa_names in Er. }
  specialize (R1 _ eq_refl).
  destruct (match c_dfa c with [] => Ok c | _ :: _ => _ end) as [c1|e].
  - destruct R1 as (X & Xd & Xi & Xc).
    destruct (check_vars (s_toc s) (c_vars c1) 0).
    + destruct ((size <=? g_max_len) && period_ok (c_period c1)).
      * rewrite gsb, gsc, G by exact Hv. repeat split;
          try (match goal with H : ?x <> ?x |- _ => now elim H end).
        -- destruct X as (rs & A & B). exists rs. auto.
        -- intros h' Hn. rewrite gsb, gsc. now apply G'.
        -- intros _. exact Xd.
      * rewrite G by exact Hv. repeat split; auto using extends_valid; try discriminate;
        try (intros h' Hn; now apply G').
    + rewrite G by exact Hv. repeat split; auto; try discriminate; try (intros h' Hn; now apply G').
    + rewrite G by exact Hv. repeat split; auto using extends_valid; try discriminate; try (intros h' Hn; now apply G').
    + rewrite G by exact Hv. repeat split; auto; try discriminate; try (intros h' Hn; now apply G').
  - destruct e; try (rewrite G by exact Hv; repeat split; auto using extends_valid, extends_refl; try discriminate;
                     intros h' Hn; now apply G').
    repeat split; auto using extends_refl; discriminate.
Qed.
