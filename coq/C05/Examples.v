(* C05/Examples.v — concrete instances: the hypotheses of the theorems are satisfiable (non-vacuity), and
   the witnesses of the refuted clauses (findings F05a, F05c).  Everything by computation. *)
Require Import CF.C05.Model CF.C05.Proofs_create CF.C05.Proofs_add CF.C05.Proofs_unpack CF.C05.Proofs_flags CF.C05.Proofs_hist CF.C05.Proofs_sync CF.C05.SyncThreads CF.C05.Proofs_threads CF.C05.Wire.
Open Scope Z_scope.

(* a TOC with 12 one-byte variables (idents 300..311) and a float *)
Definition ex_toc : toc :=
  map (fun k => mkT k (300 + k) 1) [0;1;2;3;4;5;6;7;8;9;10;11] ++ [mkT 20 7 7].

(* session set-up: refresh, reset acknowledged, TOC known *)
Definition ex_session : list ev := [ERefresh true; EPacket 1 [5; 0; 0]; ESetToc ex_toc].

(* a configuration with 12 one-byte variables: two messages (nine + three) *)
Definition ex_cfg12 : list ev :=
  ENew 100 1 :: map (fun k => EAddVar 0 k 1) [0;1;2;3;4;5;6;7;8;9;10;11].

Example ex_split_at_nine :
  snd (run init_st (ex_session ++ ex_cfg12 ++ [EAddConfig 0; EStart 0])) <> [] /\
  let s := final init_st (ex_session ++ ex_cfg12 ++ [EAddConfig 0]) in
  start s 0 =
   (put s 0 (set_pending (get s 0) 1),
    [OWire 5 1 [6;1; 17;44;1; 17;45;1; 17;46;1; 17;47;1; 17;48;1; 17;49;1; 17;50;1; 17;51;1; 17;52;1; 17] [6;1];
     OWire 5 1 [7;1; 17;53;1; 17;54;1; 17;55;1] [7;1]], None).
Proof. vm_compute. split; [discriminate|reflexivity]. Qed.

Example ex_vars_good : Forall (var_good ex_toc) (map (fun k => mkVar true k 1 1 0) [0;1;2;3;4;5;6;7;8;9;10;11]).
Proof.
  apply Forall_forall. intros v Hv. cbn [map In] in Hv.
  repeat (destruct Hv as [<-|Hv]; [split; [reflexivity|split; [reflexivity|eexists; split; [vm_compute; reflexivity|lia]]]|]).
  contradiction.
Qed.

(* accept_iff: the hypotheses hold in the state before add_config, and the configuration is accepted *)
Example ex_accept :
  let s := final init_st (ex_session ++ ex_cfg12) in
  s_link s = true /\ s_toc s = Some ex_toc /\ snd (add_config s 0) = AccAccepted.
Proof. vm_compute. repeat split; reflexivity. Qed.

(* the 26-byte boundary: 22 one-byte variables + a float = 26 accepted, one more byte rejected *)
Definition ex_bytes (n : list Z) : list ev := map (fun k => EAddVar 0 k 1) n.
Example ex_boundary_26_27 :
  let b22 := ex_bytes [0;1;2;3;4;5;6;7;8;9;10;11;0;1;2;3;4;5;6;7;8;9] in
  snd (add_config (final init_st (ex_session ++ [ENew 100 1] ++ b22 ++ [EAddVar 0 20 7])) 0) = AccAccepted /\
  snd (add_config (final init_st (ex_session ++ [ENew 100 1] ++ b22 ++ [EAddVar 0 20 7; EAddVar 0 10 1])) 0)
    = AccRejected AttributeError /\
  snd (add_config (final init_st (ex_session ++ [ENew 2550 1] ++ b22)) 0) = AccRejected AttributeError /\
  snd (add_config (final init_st (ex_session ++ [ENew 2549 1] ++ b22)) 0) = AccAccepted /\
  snd (add_config (final init_st (ex_session ++ [ENew 9 1] ++ b22)) 0) = AccRejected AttributeError /\
  snd (add_config (final init_st (ex_session ++ [ENew 100 1] ++ b22 ++ [EAddVar 0 30 1])) 0) = AccRejected KeyError.
Proof. vm_compute. repeat split; reflexivity. Qed.

(* unpack: int8 -1, uint16 0xBEEF, float bits *)
Example ex_unpack :
  let vs := [mkVar true 1 4 4 0; mkVar true 2 2 2 0; mkVar true 3 7 7 0] in
  Forall2 (fun v x => val_ok (v_fetch v) x) vs [-1; 48879; 1065353216] /\
  encode_sample vs [-1; 48879; 1065353216] = [255; 239; 190; 0; 0; 128; 63] /\
  unpack_vars vs [255; 239; 190; 0; 0; 128; 63] [] = Ok [(1, (4, -1)); (2, (2, 48879)); (3, (7, 1065353216))].
Proof.
  cbn zeta. split; [|split; vm_compute; reflexivity].
  constructor; [|constructor; [|constructor; [|constructor]]];
    (split; [reflexivity|vm_compute; split; [discriminate|reflexivity]]).
Qed.

(* ---------------------------------------------------------------- F05a: raw-memory variable *)
Definition ex_mem_history : list ev :=
  ex_session ++ [ENew 100 1; EAddMem 0 5 1 3 536870912; EAddConfig 0].

Example ex_memvar_accepted_but_create_raises :
  let s := final init_st ex_mem_history in
  In 0%nat (s_blocks s) /\ c_valid (get s 0) = true /\
  start s 0 = (put s 0 (set_pending (get s 0) 1), [], Some TypeError).
Proof. vm_compute. repeat split; try reflexivity. left. reflexivity. Qed.

Lemma memvar_refutes_create_full :
  ~ (forall tc id vs, Forall (fun v => v_toc v = true -> var_good tc v) vs ->
                      Forall (fun v => in_byte (type_byte v) = true) vs ->
                      snd (create_msgs true (Some tc) id vs) = None).
Proof.
  intros H. specialize (H ex_toc 1 [mkVar false 5 1 3 536870912]).
  assert (X : snd (create_msgs true (Some ex_toc) 1 [mkVar false 5 1 3 536870912]) = Some TypeError) by (vm_compute; reflexivity).
  rewrite H in X; [discriminate| |].
  - constructor; [|constructor]. cbn. discriminate.
  - constructor; [|constructor]. vm_compute. reflexivity.
Qed.

(* ---------------------------------------------------------------- reconnect, re-add, start (F05c repaired) *)
Definition ex_reconnect_history : list ev :=
  ex_session ++ [ENew 100 1; EAddVar 0 1 1; EAddConfig 0; EStart 0;
                 EPacket 1 [6; 1; 0];      (* block created *)
                 EPacket 1 [3; 1; 0];      (* logging started *)
                 ELinkDown] ++
  ex_session ++                              (* new session: the device has been reset, all blocks are gone *)
  [EAddConfig 0].                            (* accepted again, new id 2 *)

(* the reset acknowledgement of the second session cleared the flags (with callbacks), so start()
   creates the block again (the unrepaired code sent only START for id 2) *)
Example ex_reconnect_recreates :
  let s := final init_st ex_reconnect_history in
  s_blocks s = [0%nat] /\ c_valid (get s 0) = true /\ c_id (get s 0) = 2 /\
  flags (get s 0) = (false, false) /\
  start s 0 = (put s 0 (set_pending (get s 0) 1), [OWire 5 1 [6; 2; 17; 45; 1] [6; 2]], None) /\
  nth 11 (snd (run init_st ex_reconnect_history)) ([], None)
    = ([OCb cb_started 0 [0]; OCb cb_added 0 [0]; OWire 5 0 [3] [3]], None).
Proof. vm_compute. repeat split; reflexivity. Qed.

(* protocol V1: 15 one-byte variables are accepted and sent in ONE message of 32 bytes *)
Example ex_v1_32_bytes :
  let evs := [ERefresh false; EPacket 1 [5; 0; 0]; ESetToc ex_toc; ENew 100 1] ++
             ex_bytes [0;1;2;3;4;5;6;7;8;9;10;11;0;1;2] ++ [EAddConfig 0] in
  match snd (fst (start (final init_st (map (fun e => match e with ESetToc _ => ESetToc (map (fun k => mkT k k 1) [0;1;2;3;4;5;6;7;8;9;10;11]) | _ => e end) evs)) 0)) with
  | [OWire _ _ m _] => length m = 32%nat
  | _ => False
  end.
Proof. vm_compute. reflexivity. Qed.

(* ---------------------------------------------------------------- reject, then accept; one-pass variant refuted *)
(* three default-typed names; the first device lacks the third one (name 21): KeyError, the configuration
   keeps vars = [] and all three pending names; the second device has them all: accepted with exactly
   three variables *)
Definition ex_toc_small : toc := [mkT 20 7 7; mkT 1 301 1].
Definition ex_reject_then_accept : list ev :=
  [ERefresh true; EPacket 1 [5; 0; 0]; ESetToc ex_toc_small;
   ENew 100 1; EAddVar 0 20 0; EAddVar 0 1 0; EAddVar 0 21 0; EAddConfig 0; ELinkDown;
   ERefresh true; EPacket 1 [5; 0; 0]; ESetToc (ex_toc ++ [mkT 21 9 3]); EAddConfig 0].

Example ex_rejected_add_changes_nothing :
  let s7 := final init_st (firstn 7 ex_reject_then_accept) in
  let s8 := final init_st (firstn 8 ex_reject_then_accept) in
  snd (add_config s7 0) = AccRejected KeyError /\ s8 = s7 /\
  c_vars (get s8 0) = [] /\ c_dfa (get s8 0) = [20; 1; 21] /\ s_blocks s8 = [] /\
  c_vars (get (final init_st ex_reject_then_accept) 0)
    = [mkVar true 20 7 7 0; mkVar true 1 1 1 0; mkVar true 21 3 3 0].
Proof. vm_compute. repeat split; reflexivity. Qed.

(* the one-pass loop (seeded/C05-f): every name is appended as soon as it resolves, the pending list is
   cleared only when the loop completes *)
Fixpoint onepass (tc : toc) (names : list Z) (vs : list var) : list var * bool :=
  match names with
  | [] => (vs, true)
  | n :: r => match toc_by_complete_name tc n with
              | None => (vs, false)
              | Some e => onepass tc r (vs ++ [mkVar true n (t_ctype e) (t_ctype e) 0])
              end
  end.

(* what the one-pass loop leaves in the configuration after the rejection, and after the later
   acceptance: the sequence of requested names [20; 1; 21] becomes [20; 1; 20; 1; 21] -- it does not
   continue (`extends`) the configuration it started from *)
Example ex_onepass_duplicates :
  let '(vs1, ok1) := onepass ex_toc_small [20; 1; 21] [] in
  let '(vs2, ok2) := onepass (ex_toc ++ [mkT 21 9 3]) [20; 1; 21] vs1 in
  ok1 = false /\ ok2 = true /\ map v_name vs1 = [20; 1] /\ map v_name vs2 = [20; 1; 20; 1; 21] /\
  let c0 := set_dfa (new_cfg 100) [20; 1; 21] in
  let c1 := set_vars c0 vs1 in                  (* rejected: names appended AND still pending *)
  name_seq c0 = [20; 1; 21] /\ name_seq c1 = [20; 1; 20; 1; 21] /\ ~ extends c0 c1.
Proof.
  vm_compute. repeat split; try reflexivity.
  intros (rs & A & B). cbn in A, B. subst rs. cbn in B. discriminate.
Qed.

(* SyncLogger: samples queued when the link is lost are not yielded *)
Example ex_sync_session :
  snd (sl_run sl_init [SConnect; SSample 1; SSample 2; SNext; SSample 3; SLinkLost; SNext; SNext])
    = [YNone; YNone; YNone; YSample 1; YNone; YNone; YStop; YStop].
Proof. vm_compute. reflexivity. Qed.

(* a reused SyncLogger starts its second session with an empty queue (fixes/F05d.patch; the unrepaired
   code returned StopIteration for the first next() of the second session: stale DISCONNECT_EVENT) *)
Example ex_sync_reuse :
  snd (sl_run sl_init [SConnect; SSample 7; SLinkLost; SConnect; SSample 1; SNext; SNext])
    = [YNone; YNone; YNone; YNone; YNone; YSample 1; YBlocked].
Proof. vm_compute. reflexivity. Qed.

(* ---------------------------------------------------------------- SyncLogger under threads *)
(* two loggers on one Crazyflie (own blocks 0 and 1,2), a block 3 without logger: samples go to their
   owner only; a consumer inside get() when the link is lost takes what was queued, then stops *)
Example ex_threads_two_loggers :
  snd (sys_run [tsl_init [0]; tsl_init [1; 2]]
         [SOp 0 TConnect; SOp 1 TConnect; SOp 1 TNext; SSampleAll 0 5; SSampleAll 3 9; SSampleAll 2 6; SOp 1 TGet;
          SOp 1 TNext; SLostAll; SOp 1 TGet; SOp 1 TLost2; SOp 1 TGet; SOp 1 TNext; SOp 0 TNext])
    = [ONone; ONone; OInGet; ONone; ONone; ONone; OYield 6; OInGet; ONone; ONoop; ONone; OStop; OStop; OStop].
Proof. vm_compute. reflexivity. Qed.

(* OBSERVATION (not claimed as a violation): disconnect() called by another thread while the consumer is
   inside get() on an empty queue: no sentinel is put, the consumer stays blocked *)
Example ex_threads_explicit_disconnect_blocks :
  stuck (fst (t_run (tsl_init [0]) [TConnect; TNext; TDisconnect])).
Proof. vm_compute. repeat split; reflexivity. Qed.

(* link lost while connect() starts its last configuration (the code; the late-registration variant) *)
Example ex_threads_loss_during_connect :
  snd (t_run (tsl_init [1; 2]) (connect_with_loss 2 2))
    = [ONone; ONone; ONone; ONone; ONone; ONone; OInGet; OStop] /\
  snd (t_rung false (tsl_init [1; 2]) (connect_with_loss 2 2))
    = [ONone; ONone; ONone; ONone; ONone; ONoop; OInGet; ONoop] /\
  (* lost after the first of two new configurations: the second one's start() raises, next() stops *)
  snd (t_run (tsl_init [1; 2]) (connect_with_loss 2 1))
    = [ONone; ONone; ONone; ORaiseAttr; ONoop; ONone; OStop; ONoop].
Proof. vm_compute. repeat split; reflexivity. Qed.

(* OBSERVATION: connect() scheduled between the two halves of _disconnected: the sentinel of the old
   session lands in the queue of the new one and ends its iteration *)
Example ex_threads_stale_sentinel_race :
  snd (t_run (tsl_init [0]) [TConnect; TLost1; TConnect; TLost2; TSample 0 7; TNext; TGet])
    = [ONone; ONone; ONone; ONone; ONone; OInGet; OStop].
Proof. vm_compute. reflexivity. Qed.

(* ---------------------------------------------------------------- the value contract on the 12-variable block *)
(* the two messages of the block (nine + three variables) through a radio that transmits nothing until both
   are queued: with a fresh packet per message both arrive; with one re-filled packet the create message is lost *)
Example ex_wire_12_variables :
  let vs := map (fun k => mkVar true k 1 1 0) [0;1;2;3;4;5;6;7;8;9;10;11] in
  let msgs := messages_v2 ex_toc 1 vs in
  length msgs = 2%nat /\
  w_out (w_run w_init (create_ops 0 msgs [0%nat; 2%nat])) = msgs /\
  w_out (w_run w_init [WNew (nth 0 msgs []); WSend 0; WSet 0 (nth 1 msgs []); WSend 0; WTx; WTx])
    = [nth 1 msgs []; nth 1 msgs []].
Proof. vm_compute. repeat split; reflexivity. Qed.

(* ---------------------------------------------------------------- float periods (LogConfig(name, 33.3), 1000/rate ...) *)
(* the period is int(period_in_ms / 10): binary64 quotient, truncated.  Each line: as_integer_ratio of the float,
   the period the code computes. *)
Example ex_float_periods :
  map (fun '(a, b) => fperiod a b)
    [(5623870034678907, 562949953421312)   (* 9.99 *);
     (10, 1)   (* 10.0 *);
     (5629499534213119, 562949953421312)   (* 9.999999999999998 *);
     (5607289399332045, 2199023255552)   (* 2549.9 *);
     (2550, 1)   (* 2550.0 *);
     (5607509301657599, 2199023255552)   (* 2549.9999999999995 *);
     (8444249301038205, 281474976710656)   (* 29.999999999 *);
     (30, 1)   (* 30.0 *);
     (8444249301319679, 281474976710656)   (* 29.999999999999996 *);
     (2343279181116211, 70368744177664)   (* 33.3 *);
     (20, 1)   (* 20.0 *);
     (5864062014805333, 17592186044416)   (* 333.3333333333333 *);
     (-1, 2)   (* -0.5 *);
     (1152921504606847, 1152921504606846976)   (* 0.001 *)]
  = [0; 1; 0; 254; 255; 254; 2; 3; 2; 3; 2; 33; 0; 0].
Proof. vm_compute. reflexivity. Qed.

(* for integer periods the rounded quotient truncates like integer division, on the whole range the acceptance
   test can distinguish (bound in the statement) *)
Example ex_int_periods_quot :
  forallb (fun k => fperiod (Z.of_nat k - 200) 1 =? Z.quot (Z.of_nat k - 200) 10) (seq 0 3600) = true.
Proof. vm_compute. reflexivity. Qed.

Lemma period_of_new_config : forall s num den,
  let '(s1, o, x) := step s (ENew num den) in
  c_period (get s1 (length (s_cfgs s))) = fperiod num den /\ o = [] /\ x = None.
Proof.
  intros s num den. cbn [step]. unfold get. cbn [s_cfgs]. rewrite app_nth2 by lia.
  rewrite Nat.sub_diag. cbn. auto.
Qed.

Lemma int_period_is_quot : forall ms, -200 <= ms < 3400 -> fperiod ms 1 = Z.quot ms 10.
Proof.
  intros ms H. pose proof ex_int_periods_quot as E. rewrite forallb_forall in E.
  specialize (E (Z.to_nat (ms + 200))). rewrite Z2Nat.id in E by lia.
  replace (ms + 200 - 200) with ms in E by lia. apply Z.eqb_eq, E. apply in_seq. lia.
Qed.

(* ---------------------------------------------------------------- a refused creation, then start() again (wave 12) *)
(* start() of a block that is not added sends the creation messages, whatever `pending` says *)
Lemma start_not_added_creates s h :
  c_cf (get s h) = true -> s_link s = true -> c_added (get s h) = false -> create_guard s (get s h) = true ->
  start s h = (put s h (set_pending (get s h) (c_pending (get s h) + 1)),
               fst (create_msgs (c_v2 (get s h)) (s_toc s) (c_id (get s h)) (c_vars (get s h))),
               snd (create_msgs (c_v2 (get s h)) (s_toc s) (c_id (get s h)) (c_vars (get s h)))).
Proof.
  intros Hc Hl Ha Hg. unfold start, create. rewrite Hc, Hl, Ha, Hg. cbn [negb].
  destruct (create_msgs _ _ _ _). reflexivity.
Qed.

(* a refused creation (error status of Log._err_codes other than EEXIST) leaves added, started AND pending as
   they were: only err_no changes, added_cb(False) and error_cb fire, nothing is sent *)
Lemma refused_create_keeps_pending s cmd id status h :
  (cmd =? g_cmd_create) || (cmd =? g_cmd_create_v2) = true -> find_block s id = Some h ->
  (status =? 0) || (status =? g_eexist) = false -> err_known status = true ->
  on_settings s cmd id status =
    (put s h (set_errno (get s h) status), [OCb cb_added_err h [0]; OCb cb_error h [status]], None).
Proof.
  intros Hc Hf Hs He. unfold on_settings. rewrite Hf, Hc, Hs, He. reflexivity.
Qed.

(* the variant that does nothing while `pending` is set (seeded/C05-l) *)
Definition start_guarded (s : st) (h : nat) : step_result :=
  if negb (c_added (get s h)) && negb (c_pending (get s h) =? 0) then (s, [], None) else start s h.

(* one variable; the device refuses the creation with ENOMEM; start() again: the code sends the creation
   message again (and the device's positive acknowledgement then adds and starts the block); the guarded
   variant sends nothing for ever *)
Definition ex_refused_history : list ev :=
  ex_session ++ [ENew 100 1; EAddVar 0 1 1; EAddConfig 0; EStart 0; EPacket 1 [6; 1; 12]].

Example ex_refused_then_start_again :
  let s := final init_st ex_refused_history in
  flags (get s 0) = (false, false) /\ c_pending (get s 0) = 1 /\ c_errno (get s 0) = 12 /\
  snd (fst (start s 0)) = [OWire 5 1 [6; 1; 17; 45; 1] [6; 1]] /\
  snd (fst (start_guarded s 0)) = [] /\
  (let s2 := final init_st (ex_refused_history ++ [EStart 0; EPacket 1 [6; 1; 0]; EPacket 1 [3; 1; 0]]) in
   flags (get s2 0) = (true, true) /\ c_pending (get s2 0) = 0).
Proof. vm_compute. repeat split; reflexivity. Qed.

(* OBSERVATION (beyond the property text): start() twice before the create acknowledgement sends the creation
   messages twice (the device answers the second with EEXIST, which the code treats as success) *)
Example ex_start_twice_sends_create_twice :
  let s := final init_st (ex_session ++ [ENew 100 1; EAddVar 0 1 1; EAddConfig 0; EStart 0]) in
  snd (fst (start s 0)) = [OWire 5 1 [6; 1; 17; 45; 1] [6; 1]] /\ c_pending (get (fst (fst (start s 0))) 0) = 2.
Proof. vm_compute. split; reflexivity. Qed.

(* ---------------------------------------------------------------- the protocol generation changes between sessions (wave 14) *)
(* first session: firmware with protocol version < 4 (V1 messages, 8-bit indices); the same LogConfig is
   added again after a reconnect to firmware with version >= 4 whose TOC gives the variable index 300 *)
Definition ex_generation_history : list ev :=
  [ERefresh false; EPacket 1 [5; 0; 0]; ESetToc [mkT 1 44 1];
   ENew 100 1; EAddVar 0 1 1; EAddConfig 0; EStart 0; EPacket 1 [0; 1; 0]; EPacket 1 [3; 1; 0];
   EStop 0; EPacket 1 [4; 1; 0]; EDelete 0; EPacket 1 [2; 1; 0]; ELinkDown;
   ERefresh true; EPacket 1 [5; 0; 0]; ESetToc [mkT 1 300 1]; EAddConfig 0].

Example ex_generation_follows_session :
  (* first session: legacy create message (0, id, type, 8-bit index) *)
  snd (fst (start (final init_st (firstn 6 ex_generation_history)) 0)) = [OWire 5 1 [0; 1; 17; 44] [0; 1]] /\
  let s := final init_st ex_generation_history in
  c_v2 (get s 0) = true /\ c_id (get s 0) = 2 /\
  (* the re-added block is created with the V2 command and the 16-bit index of the current table *)
  snd (fst (start s 0)) = [OWire 5 1 [6; 2; 17; 44; 1] [6; 2]] /\
  (* bind-once (seeded/C05-n): the generation of the first session with the table of the second: the index does
     not fit the legacy message, start() raises ValueError on an accepted configuration *)
  create_msgs false (s_toc s) (c_id (get s 0)) (c_vars (get s 0)) = ([], Some ValueError).
Proof. vm_compute. repeat split; reflexivity. Qed.

(* ---------------------------------------------------------------- acknowledgements of the old session that arrive late (wave 15) *)
(* session 1: add, start (CREATE sent); the link is closed while the create acknowledgement is still in the
   receive queue; it is dispatched after the disconnected callbacks and sets added again (and sends START into
   the void).  Session 2: the reset reply forgets, the re-added configuration is created again. *)
Definition ex_late_ack_history : list ev :=
  ex_session ++ [ENew 100 1; EAddVar 0 1 1; EAddConfig 0; EStart 0; ELinkDown;
                 EPacket 1 [6; 1; 0]].      (* the late create acknowledgement *)

(* the variant that forgets in Log._disconnected and only empties log_blocks at the reset reply (seeded/C05-o) *)
Definition reset_reply_without_forget (s : st) : st := set_rp (set_toc (set_blocks s []) (Some [])) false.

Example ex_late_ack :
  let s := final init_st ex_late_ack_history in
  flags (get s 0) = (true, false) /\
  (* the code: reset reply of session 2, table, re-add, start(): creation message *)
  (let s2 := final s [ERefresh true; EPacket 1 [5; 0; 0]; ESetToc ex_toc; EAddConfig 0] in
   flags (get s2 0) = (false, false) /\ c_pending (get s2 0) = 0 /\
   snd (fst (start s2 0)) = [OWire 5 1 [6; 2; 17; 45; 1] [6; 2]]) /\
  (* the variant: the flag survives the reset reply, start() sends START for a block the device does not have *)
  (let s2' := final (reset_reply_without_forget (final s [ERefresh true])) [ESetToc ex_toc; EAddConfig 0] in
   flags (get s2' 0) = (true, false) /\
   snd (fst (start s2' 0)) = [OWire 5 1 [3; 2; 10] [3; 2]]).
Proof. vm_compute. repeat split; reflexivity. Qed.

(* ---------------------------------------------------------------- the table is installed after lookups were made (wave 16) *)
(* whatever happened before (add_config attempts on the still empty table of the session ...), after the table
   of the session is installed the lookups of add_config are made in THAT table *)
Lemma installed_table_is_current s tc :
  let s1 := fst (fst (step s (ESetToc tc))) in
  s_toc s1 = Some tc /\ s_cfgs s1 = s_cfgs s /\ s_blocks s1 = s_blocks s /\ s_link s1 = s_link s /\
  snd (fst (step s (ESetToc tc))) = [].
Proof. cbn. auto. Qed.

(* an early add_config (empty table: rejected), then the table arrives, the same configuration is accepted *)
Example ex_early_add_then_table :
  let evs := [ERefresh true; EPacket 1 [5; 0; 0]; ENew 100 1; EAddVar 0 1 1; EAddConfig 0] in
  snd (add_config (final init_st (firstn 4 evs)) 0) = AccRejected KeyError /\
  snd (add_config (final init_st (evs ++ [ESetToc ex_toc])) 0) = AccAccepted.
Proof. vm_compute. split; reflexivity. Qed.

(* the memoised variant (seeded/C05-p): get_element_by_id answers from an index built at the first lookup;
   installing the table by assignment (`toc.toc = cached table`) does not invalidate it *)
Record memo_toc := mkMemo { m_table : toc; m_index : option toc }.
Definition memo_by_id (m : memo_toc) (i : Z) : memo_toc * option tentry :=
  match m_index m with
  | Some ix => (m, toc_by_id ix i)
  | None => (mkMemo (m_table m) (Some (m_table m)), toc_by_id (m_table m) i)
  end.
Definition memo_install (m : memo_toc) (t : toc) : memo_toc := mkMemo t (m_index m).

Example ex_memoised_index_refuted :
  let m0 := mkMemo [] None in
  let '(m1, r1) := memo_by_id m0 301 in                (* the early lookup: nothing there, index = {} *)
  let m2 := memo_install m1 ex_toc in                  (* the cache hit installs the table *)
  r1 = None /\ snd (memo_by_id m2 301) = None /\       (* the stale index still answers: not found *)
  toc_by_id (m_table m2) 301 = Some (mkT 1 301 1).     (* although the element is in the table *)
Proof. vm_compute. repeat split; reflexivity. Qed.

(* ---------------------------------------------------------------- the same configuration added again within one session (wave 17) *)
(* Log._find_block: the first configuration of log_blocks whose CURRENT id is the packet's id *)
Lemma find_block_current_id s id h : find_block s id = Some h -> c_id (get s h) = id /\ In h (s_blocks s).
Proof.
  unfold find_block. intros H. apply find_some in H as [A B]. split; [now apply Z.eqb_eq in B|exact A].
Qed.

(* a data packet reaches a configuration only under its current id *)
Lemma logdata_only_current_id s data h ts vals :
  In (OData h ts vals) (snd (fst (on_packet s g_chan_logdata data))) -> exists r, data = c_id (get s h) :: r.
Proof.
  unfold on_packet. destruct data as [|cmd payload]; [intros []|].
  change (g_chan_logdata =? g_chan_settings) with false. change (g_chan_logdata =? g_chan_logdata) with true. cbn iota.
  unfold on_logdata. destruct payload as [|b0 [|b1 [|b2 rest]]]; try (intros []).
  destruct (find_block s cmd) as [h0|] eqn:Ef; [|intros []].
  destruct (unpack_vars _ _ _); [|intros []]. intros [H|[]]. inversion H; subst.
  apply find_block_current_id in Ef as [E _]. exists (b0 :: b1 :: b2 :: rest). now rewrite E.
Qed.

(* add, start, stop, delete (block id 1), add the same object again (id 2), start: traffic with id 1 *)
Definition ex_readd_same_session : list ev :=
  ex_session ++ [ENew 100 1; EAddVar 0 1 1; EAddConfig 0; EStart 0; EPacket 1 [6; 1; 0]; EPacket 1 [3; 1; 0];
                 EStop 0; EPacket 1 [4; 1; 0]; EDelete 0; EPacket 1 [2; 1; 0];
                 EAddConfig 0; EStart 0; EPacket 1 [6; 2; 0]; EPacket 1 [3; 2; 0]].

(* an id -> configuration map that is filled by add_config and never loses an id (seeded/C05-q) *)
Definition stale_map_lookup (m : list (Z * nat)) (id : Z) : option nat :=
  match find (fun p => fst p =? id) m with Some p => Some (snd p) | None => None end.

Example ex_old_id_traffic_ignored :
  let s := final init_st ex_readd_same_session in
  c_id (get s 0) = 2 /\ flags (get s 0) = (true, true) /\
  find_block s 1 = None /\ find_block s 2 = Some 0%nat /\
  on_packet s 2 [1; 9; 9; 9; 90] = (s, [], None) /\            (* late data of the deleted block: dropped *)
  on_packet s 1 [4; 1; 0] = (s, [], None) /\                   (* duplicated STOP acknowledgement of block 1 *)
  on_packet s 1 [2; 1; 0] = (s, [], None) /\                   (* duplicated DELETE acknowledgement of block 1 *)
  stale_map_lookup [(1, 0%nat); (2, 0%nat)] 1 = Some 0%nat.     (* the stale map still finds the configuration *)
Proof. vm_compute. repeat split; reflexivity. Qed.
