(* C05/Proofs_create.v — create()/_setup_log_elements: termination, message shape, device-side decoding. *)
Require Import CF.C05.Model.
From Coq Require Import ZifyBool.
Open Scope Z_scope.
Ltac Zify.zify_post_hook ::= Z.to_euclidean_division_equations.

(* ------------------------------------------------------------------ bit arithmetic *)
Lemma land_shiftl_disjoint a b n :
  0 <= n -> 0 <= a < 2 ^ n -> Z.land a (Z.shiftl b n) = 0.
Proof.
  intros Hn Ha. apply Z.bits_inj'. intros m Hm.
  rewrite Z.land_spec, Z.bits_0.
  destruct (Z_lt_le_dec m n) as [Hlt|Hge].
  - rewrite (Z.shiftl_spec_low b n m Hlt). apply andb_false_r.
  - replace a with (a mod 2 ^ n) by (apply Z.mod_small; exact Ha).
    rewrite Z.mod_pow2_bits_high by lia. reflexivity.
Qed.

Lemma lor_shiftl_add a b n :
  0 <= n -> 0 <= a < 2 ^ n -> Z.lor a (Z.shiftl b n) = a + b * 2 ^ n.
Proof.
  intros Hn Ha. pose proof (land_shiftl_disjoint a b n Hn Ha) as D.
  rewrite <- (Z.lxor_lor _ _ D), <- (Z.add_nocarry_lxor _ _ D), Z.shiftl_mul_pow2 by exact Hn.
  reflexivity.
Qed.

Lemma land_255 i : Z.land i 255 = i mod 256.
Proof. change 255 with (Z.ones 8). rewrite Z.land_ones by lia. reflexivity. Qed.

Lemma shiftr_8 i : Z.shiftr i 8 = i / 256.
Proof. rewrite Z.shiftr_div_pow2 by lia. reflexivity. Qed.

Lemma u16_split i : 0 <= i < 65536 ->
  Z.land i 255 + 256 * Z.land (Z.shiftr i 8) 255 = i.
Proof. intros H. rewrite !land_255, shiftr_8. lia. Qed.

Lemma u16_split_bytes i : byte (Z.land i 255) /\ byte (Z.land (Z.shiftr i 8) 255).
Proof. rewrite !land_255. unfold byte. lia. Qed.

(* ------------------------------------------------------------------ the device's view of a create/append message *)
(* firmware: the payload after (cmd, id) is an array of {u8 type; u16 id}; count = (size - 2) / 3,
   so a trailing partial entry (cflib leaves one type byte at every split) is ignored *)
Fixpoint fw_entries (l : list Z) : list (Z * Z) :=
  match l with
  | t :: lo :: hi :: r => (t, lo + 256 * hi) :: fw_entries r
  | _ => []
  end.

Definition fw_decode (msg : list Z) : list (Z * Z) := fw_entries (skipn 2 msg).

Lemma fw_entries_count l : Z.of_nat (length (fw_entries l)) = Z.of_nat (length l) / 3.
Proof.
  assert (H : forall n l, (length l <= n)%nat -> Z.of_nat (length (fw_entries l)) = Z.of_nat (length l) / 3).
  { induction n as [|n IH]; intros l0 Hl.
    - destruct l0; [reflexivity|simpl in Hl; lia].
    - destruct l0 as [|a [|b [|c r]]]; try reflexivity.
      cbn [fw_entries length]. rewrite !Nat2Z.inj_succ, IH by (simpl in Hl; lia). lia. }
  apply (H (length l)). lia.
Qed.

Definition enc_entry (e : Z * Z) : list Z := [fst e; Z.land (snd e) 255; Z.land (Z.shiftr (snd e) 8) 255].
Definition enc_entries (es : list (Z * Z)) : list Z := concat (map enc_entry es).

Definition entry_ok (e : Z * Z) : Prop := 0 <= snd e < 65536.

Lemma enc_entries_length es : length (enc_entries es) = (3 * length es)%nat.
Proof. induction es as [|e es IH]; [reflexivity|]. unfold enc_entries in *. cbn [map concat]. rewrite app_length, IH. simpl. lia. Qed.

Lemma enc_entries_app a b : enc_entries (a ++ b) = enc_entries a ++ enc_entries b.
Proof. unfold enc_entries. now rewrite map_app, concat_app. Qed.

Lemma fw_entries_enc es tail : Forall entry_ok es -> (length tail < 3)%nat ->
  fw_entries (enc_entries es ++ tail) = es.
Proof.
  intros H Ht. induction H as [|e es He _ IH].
  - cbn. destruct tail as [|a [|b [|c r]]]; try reflexivity. simpl in Ht. lia.
  - unfold enc_entries in *. cbn [map concat enc_entry app fw_entries]. rewrite IH.
    destruct e as [t i]. cbn [fst snd] in *. unfold entry_ok in He. cbn [snd] in He.
    now rewrite u16_split.
Qed.

(* ------------------------------------------------------------------ variables that can be created *)
Definition ident_of (tc : toc) (v : var) : Z :=
  match toc_element_id tc (v_name v) with Some i => i | None => 0 end.
Definition entry_of (tc : toc) (v : var) : Z * Z := (type_byte v, ident_of tc v).

(* a table variable whose name is in the TOC with a 16-bit index, and whose type byte is a byte *)
Definition var_good (tc : toc) (v : var) : Prop :=
  v_toc v = true /\ in_byte (type_byte v) = true /\
  exists i, toc_element_id tc (v_name v) = Some i /\ 0 <= i < 65536.

Lemma entry_of_ok tc v : var_good tc v -> entry_ok (entry_of tc v).
Proof. intros (_ & _ & i & Hi & Hr). unfold entry_ok, entry_of, ident_of. cbn [snd]. now rewrite Hi. Qed.

(* ------------------------------------------------------------------ _setup_log_elements, V2 *)
(* packet = head (2 bytes) ++ k complete entries; 9 entries fill it (2 + 27 = 29 bytes); the 10th
   variable's type byte is still appended (30 bytes) before the room test fails *)
Lemma setup_elems_v2 tc hd vs : length hd = 2%nat -> Forall (var_good tc) vs ->
  forall es, (length es <= 9)%nat ->
  setup_elems true (Some tc) (hd ++ enc_entries es) vs =
    if (length es + length vs <=? 9)%nat
    then Ok (true, [], hd ++ enc_entries (es ++ map (entry_of tc) vs))
    else Ok (false, skipn (9 - length es) vs,
             hd ++ enc_entries (es ++ map (entry_of tc) (firstn (9 - length es) vs))
                ++ [type_byte (nth (9 - length es) vs (mkVar true 0 0 0 0))]).
Proof.
  intros Hhd Hvs. induction Hvs as [|v vs Hv _ IH]; intros es Hes.
  - cbn [setup_elems length]. replace (length es + 0 <=? 9)%nat with true by (symmetry; apply Nat.leb_le; lia).
    cbn [map]. now rewrite app_nil_r.
  - destruct Hv as (Ht & Hb & i & Hi & Hr).
    cbn [setup_elems]. rewrite Ht. cbn [negb]. cbv zeta.
    rewrite Hb.
    cbn [negb].
    rewrite Hi.
    rewrite !app_length, enc_entries_length, Hhd. cbn [length].
    unfold g_max_data.
    destruct (Nat.eq_dec (length es) 9) as [E9|N9].
    + (* full *)
      replace (30 - Z.of_nat (2 + 3 * length es + 1) >=? 2) with false by lia.
      replace (length es + S (length vs) <=? 9)%nat with false by (symmetry; apply Nat.leb_gt; lia).
      rewrite E9. replace (9 - 9)%nat with 0%nat by lia. cbn [skipn firstn map nth].
      rewrite app_nil_r, <- app_assoc. reflexivity.
    + replace (30 - Z.of_nat (2 + 3 * length es + 1) >=? 2) with true by lia.
      assert (Hstep : ((hd ++ enc_entries es) ++ [type_byte v]) ++ [Z.land i 255; Z.land (Z.shiftr i 8) 255]
                      = hd ++ enc_entries (es ++ [entry_of tc v])).
      { rewrite enc_entries_app, <- !app_assoc. do 2 f_equal.
        unfold enc_entries. cbn [map concat enc_entry entry_of fst snd app].
        unfold ident_of. rewrite Hi. reflexivity. }
      rewrite Hstep, IH by (rewrite app_length; simpl; lia).
      rewrite app_length. cbn [length].
      replace (length es + 1 + length vs)%nat with (length es + S (length vs))%nat by lia.
      destruct (length es + S (length vs) <=? 9)%nat eqn:C.
      * rewrite <- app_assoc. reflexivity.
      * replace (9 - length es)%nat with (S (9 - (length es + 1)))%nat by lia.
        cbn [skipn firstn map nth]. rewrite <- !app_assoc. reflexivity.
Qed.

(* ------------------------------------------------------------------ the create loop, V2 *)
Definition wire (id : Z) (m : list Z) : obs := OWire 5 g_chan_settings m [hd 0 m; id].

(* the messages, as a function of the variable list: groups of nine *)
Fixpoint split_msgs (fuel : nat) (tc : toc) (id cmd : Z) (vs : list var) : list (list Z) :=
  match fuel with
  | O => []
  | S f =>
      if (length vs <=? 9)%nat then [[cmd; id] ++ enc_entries (map (entry_of tc) vs)]
      else ([cmd; id] ++ enc_entries (map (entry_of tc) (firstn 9 vs))
              ++ [type_byte (nth 9 vs (mkVar true 0 0 0 0))])
           :: split_msgs f tc id g_cmd_append_v2 (skipn 9 vs)
  end.

Lemma create_loop_v2 tc id : forall fuel cmd vs,
  (length vs < fuel)%nat -> Forall (var_good tc) vs ->
  create_loop fuel true (Some tc) id cmd vs = (map (wire id) (split_msgs fuel tc id cmd vs), None).
Proof.
  induction fuel as [|f IH]; intros cmd vs Hf Hvs; [lia|].
  cbn [create_loop split_msgs].
  pose proof (setup_elems_v2 tc [cmd; id] vs eq_refl Hvs [] ltac:(simpl; lia)) as E.
  change ([cmd; id] ++ enc_entries []) with [cmd; id] in E. rewrite E. clear E.
  cbn [length Nat.add app]. replace (9 - 0)%nat with 9%nat by lia.
  destruct (length vs <=? 9)%nat eqn:C.
  - reflexivity.
  - apply Nat.leb_gt in C.
    rewrite IH.
    + reflexivity.
    + rewrite skipn_length. lia.
    + clear -Hvs. revert Hvs. generalize 9%nat. intros n. revert vs.
      induction n as [|n IHn]; intros vs H; [exact H|]. destruct vs; [constructor|]. inversion H; subst. cbn. auto.
Qed.

(* properties of the message list *)
Lemma firstn_skipn_good {A} (P : A -> Prop) n l : Forall P l -> Forall P (firstn n l) /\ Forall P (skipn n l).
Proof.
  revert l; induction n as [|n IH]; intros l H; cbn; [split; [constructor|exact H]|].
  destruct l as [|x l]; [split; constructor|]. inversion H; subst. destruct (IH l H3). split; [constructor|]; assumption.
Qed.

Lemma map_entry_ok tc vs : Forall (var_good tc) vs -> Forall entry_ok (map (entry_of tc) vs).
Proof. induction 1; cbn; constructor; auto using entry_of_ok. Qed.

Lemma split_msgs_spec tc id : forall fuel cmd vs,
  (length vs < fuel)%nat -> Forall (var_good tc) vs ->
  let msgs := split_msgs fuel tc id cmd vs in
  concat (map fw_decode msgs) = map (entry_of tc) vs /\
  Forall (fun m => (length m <= 30)%nat) msgs /\
  (exists m0 rest, msgs = m0 :: rest /\ firstn 2 m0 = [cmd; id] /\ (vs <> [] -> fw_decode m0 <> []) /\
                   Forall (fun m => firstn 2 m = [g_cmd_append_v2; id] /\ fw_decode m <> []) rest) /\
  Z.of_nat (length msgs) = Z.max 1 ((Z.of_nat (length vs) + 8) / 9).
Proof.
  induction fuel as [|f IH]; intros cmd vs Hf Hvs; [lia|].
  cbn [split_msgs]. destruct (length vs <=? 9)%nat eqn:C.
  - apply Nat.leb_le in C. cbn zeta. cbn [map concat]. rewrite app_nil_r.
    assert (Hdec : fw_decode ([cmd; id] ++ enc_entries (map (entry_of tc) vs)) = map (entry_of tc) vs).
    { unfold fw_decode. cbn [app skipn]. rewrite <- (app_nil_r (enc_entries _)).
      apply fw_entries_enc; [apply map_entry_ok; exact Hvs|simpl; lia]. }
    repeat split.
    + exact Hdec.
    + constructor; [|constructor]. cbn [app length]. rewrite enc_entries_length, map_length. lia.
    + exists ([cmd; id] ++ enc_entries (map (entry_of tc) vs)), []. repeat split; [|constructor].
      rewrite Hdec. intros Hne E. destruct vs; [now apply Hne|discriminate].
    + cbn [length]. lia.
  - apply Nat.leb_gt in C. cbn zeta.
    destruct (firstn_skipn_good (var_good tc) 9 vs Hvs) as [Hf9 Hs9].
    assert (Hl9 : length (firstn 9 vs) = 9%nat) by (rewrite firstn_length; lia).
    assert (Hls : length (skipn 9 vs) = (length vs - 9)%nat) by apply skipn_length.
    specialize (IH g_cmd_append_v2 (skipn 9 vs) ltac:(lia) Hs9).
    cbn zeta in IH. destruct IH as (IH1 & IH2 & (m0 & rest & IH3 & IH4 & IH4' & IH5) & IH6).
    assert (Hdec : fw_decode ([cmd; id] ++ enc_entries (map (entry_of tc) (firstn 9 vs))
                     ++ [type_byte (nth 9 vs (mkVar true 0 0 0 0))]) = map (entry_of tc) (firstn 9 vs)).
    { unfold fw_decode. cbn [app skipn]. apply fw_entries_enc; [apply map_entry_ok; exact Hf9|simpl; lia]. }
    repeat split.
    + cbn [map concat]. rewrite Hdec, IH1, <- map_app, firstn_skipn. reflexivity.
    + constructor; [|exact IH2]. cbn [app length]. rewrite app_length, enc_entries_length, map_length, Hl9. simpl. lia.
    + eexists _, _. split; [reflexivity|]. split; [reflexivity|]. split.
      * intros _. rewrite Hdec. destruct (firstn 9 vs); [simpl in Hl9; lia|discriminate].
      * rewrite IH3. constructor; [|exact IH5]. split; [exact IH4|]. apply IH4'.
        intro E. rewrite E in Hls. simpl in Hls. lia.
    + cbn [length]. rewrite Nat2Z.inj_succ, IH6, Hls. lia.
Qed.

(* ------------------------------------------------------------------ the theorem about create(), V2 *)
Definition messages_v2 (tc : toc) (id : Z) (vs : list var) : list (list Z) :=
  split_msgs (S (length vs)) tc id g_cmd_create_v2 vs.

Lemma create_messages_exact tc id vs :
  Forall (var_good tc) vs ->
  let msgs := messages_v2 tc id vs in
  create_msgs true (Some tc) id vs = (map (wire id) msgs, None) /\
  concat (map fw_decode msgs) = map (entry_of tc) vs /\
  Forall (fun m => (length m <= 30)%nat) msgs /\
  (exists m0 rest, msgs = m0 :: rest /\ firstn 2 m0 = [g_cmd_create_v2; id] /\
                   Forall (fun m => firstn 2 m = [g_cmd_append_v2; id] /\ fw_decode m <> []) rest) /\
  Z.of_nat (length msgs) = Z.max 1 ((Z.of_nat (length vs) + 8) / 9).
Proof.
  intros Hvs. cbn zeta. unfold messages_v2, create_msgs, create_cmd.
  pose proof (split_msgs_spec tc id (S (length vs)) g_cmd_create_v2 vs ltac:(lia) Hvs) as H.
  cbn zeta in H. destruct H as (H1 & H2 & (m0 & rest & H3 & H4 & _ & H5) & H6).
  split; [apply create_loop_v2; [lia|exact Hvs]|].
  repeat split; try assumption. exists m0, rest. auto.
Qed.

(* the type byte carries the fetch type in the low and the stored type in the high nibble *)
Lemma type_byte_nibbles v : 0 <= v_fetch v < 16 -> 0 <= v_stored v < 16 ->
  Z.land (type_byte v) 15 = v_fetch v /\ Z.shiftr (type_byte v) 4 = v_stored v /\ in_byte (type_byte v) = true.
Proof.
  intros Hf Hs. unfold type_byte. rewrite lor_shiftl_add by lia.
  change 15 with (Z.ones 4). rewrite Z.land_ones, Z.shiftr_div_pow2 by lia.
  change (2 ^ 4) with 16. unfold in_byte. lia.
Qed.

(* ------------------------------------------------------------------ the create loop always terminates *)
Lemma setup_elems_rest_le v2 otc : forall vs pk d rest pk',
  setup_elems v2 otc pk vs = Ok (d, rest, pk') -> (length rest <= length vs)%nat.
Proof.
  induction vs as [|v vs IH]; intros pk d rest pk' H; cbn [setup_elems] in H.
  - inversion H; subst. simpl. lia.
  - destruct (negb (v_toc v)); [discriminate|]. destruct otc as [tc|]; [|discriminate].
    cbv zeta in H. destruct (negb (in_byte (type_byte v))); [discriminate|].
    destruct v2.
    + destruct (g_max_data - Z.of_nat (length (pk ++ [type_byte v])) >=? 2).
      * destruct (toc_element_id tc (v_name v)); [|discriminate]. apply IH in H. simpl. lia.
      * inversion H; subst. lia.
    + destruct (toc_element_id tc (v_name v)); [|discriminate]. destruct (in_byte z); [|discriminate].
      apply IH in H. simpl. lia.
Qed.

Lemma setup_elems_progress v2 otc cmd id vs d rest pk' :
  setup_elems v2 otc [cmd; id] vs = Ok (d, rest, pk') -> d = false -> (length rest < length vs)%nat.
Proof.
  intros H Hd. subst d. destruct vs as [|v vs]; cbn [setup_elems] in H; [inversion H|].
  destruct (negb (v_toc v)); [discriminate|]. destruct otc as [tc|]; [|discriminate].
  cbv zeta in H. destruct (negb (in_byte (type_byte v))); [discriminate|].
  destruct v2.
  - cbn [app length] in H. unfold g_max_data in H.
    replace (30 - Z.of_nat 3 >=? 2) with true in H by reflexivity.
    destruct (toc_element_id tc (v_name v)); [|discriminate].
    apply setup_elems_rest_le in H. simpl. lia.
  - destruct (toc_element_id tc (v_name v)); [|discriminate]. destruct (in_byte z); [|discriminate].
    apply setup_elems_rest_le in H. simpl. lia.
Qed.

Lemma create_loop_fuel v2 otc id : forall fuel cmd vs, (length vs < fuel)%nat ->
  snd (create_loop fuel v2 otc id cmd vs) <> Some OutOfFuel.
Proof.
  induction fuel as [|f IH]; intros cmd vs Hf; [lia|].
  cbn [create_loop]. destruct (setup_elems v2 otc [cmd; id] vs) as [[[d rest] pk]|e] eqn:E.
  - destruct d; [cbn; discriminate|].
    pose proof (setup_elems_progress _ _ _ _ _ _ _ _ E eq_refl) as Hp.
    specialize (IH (if v2 then g_cmd_append_v2 else g_cmd_append) rest ltac:(lia)).
    destruct (create_loop f v2 otc id _ rest) as [os e]. cbn in *. exact IH.
  - cbn. destruct vs as [|v vs]; cbn [setup_elems] in E; [discriminate|].
    intro X. inversion X; subst e.
    destruct (negb (v_toc v)); [discriminate|]. destruct otc as [tc|]; [|discriminate].
    cbv zeta in E. destruct (negb (in_byte (type_byte v))); [discriminate|].
    clear -E. revert E. generalize ([cmd; id] ++ [type_byte v]). intros pk E.
    (* no branch of setup_elems produces OutOfFuel *)
    assert (G : forall vs pk, setup_elems v2 (Some tc) pk vs <> Err OutOfFuel).
    { clear. induction vs as [|w ws IHw]; intros pk; cbn [setup_elems]; [discriminate|].
      destruct (negb (v_toc w)); [discriminate|]. cbv zeta.
      destruct (negb (in_byte (type_byte w))); [discriminate|].
      destruct v2.
      - destruct (g_max_data - Z.of_nat (length (pk ++ [type_byte w])) >=? 2); [|discriminate].
        destruct (toc_element_id tc (v_name w)); [apply IHw|discriminate].
      - destruct (toc_element_id tc (v_name w)); [|discriminate]. destruct (in_byte z); [apply IHw|discriminate]. }
    destruct v2.
    + destruct (g_max_data - Z.of_nat (length pk) >=? 2); [|discriminate].
      destruct (toc_element_id tc (v_name v)); [|discriminate]. exact (G _ _ E).
    + destruct (toc_element_id tc (v_name v)); [|discriminate]. destruct (in_byte z); [|discriminate]. exact (G _ _ E).
Qed.

Lemma create_terminates v2 otc id vs : snd (create_msgs v2 otc id vs) <> Some OutOfFuel.
Proof. apply create_loop_fuel. lia. Qed.

(* a raw-memory variable makes _setup_log_elements raise TypeError when it is reached (F05a) *)
Lemma setup_elems_mem v2 otc pk v vs : v_toc v = false -> setup_elems v2 otc pk (v :: vs) = Err TypeError.
Proof. intros H. cbn [setup_elems]. now rewrite H. Qed.

(* ------------------------------------------------------------------ protocol V1 (firmware protocol version < 4) *)
(* entries are {u8 type; u8 index}; the code has no room test: always one message of 2 + 2n bytes *)
Fixpoint fw_entries_v1 (l : list Z) : list (Z * Z) :=
  match l with
  | t :: i :: r => (t, i) :: fw_entries_v1 r
  | _ => []
  end.

Definition enc_v1 (es : list (Z * Z)) : list Z := concat (map (fun e => [fst e; snd e]) es).

Definition var_good_v1 (tc : toc) (v : var) : Prop :=
  v_toc v = true /\ in_byte (type_byte v) = true /\
  exists i, toc_element_id tc (v_name v) = Some i /\ 0 <= i < 256.

Lemma fw_entries_v1_enc es : fw_entries_v1 (enc_v1 es) = es.
Proof. induction es as [|[t i] es IH]; [reflexivity|]. unfold enc_v1 in *. cbn. now rewrite IH. Qed.

Lemma enc_v1_length es : length (enc_v1 es) = (2 * length es)%nat.
Proof. induction es as [|e es IH]; [reflexivity|]. unfold enc_v1 in *. cbn [map concat app length]. rewrite IH. lia. Qed.

Lemma setup_elems_v1 tc : forall vs pk, Forall (var_good_v1 tc) vs ->
  setup_elems false (Some tc) pk vs = Ok (true, [], pk ++ enc_v1 (map (entry_of tc) vs)).
Proof.
  induction vs as [|v vs IH]; intros pk H.
  - cbn. now rewrite app_nil_r.
  - inversion H as [|x y (Ht & Hb & i & Hi & Hr) Hvs]; subst.
    cbn [setup_elems]. rewrite Ht. cbn [negb]. cbv zeta. rewrite Hb, Hi. cbn [negb].
    replace (in_byte i) with true by (unfold in_byte; lia).
    rewrite IH by exact Hvs. unfold enc_v1. cbn [map concat entry_of fst snd].
    unfold ident_of. rewrite Hi. rewrite <- !app_assoc. reflexivity.
Qed.

Lemma create_messages_v1 tc id vs : Forall (var_good_v1 tc) vs ->
  let msg := [g_cmd_create; id] ++ enc_v1 (map (entry_of tc) vs) in
  create_msgs false (Some tc) id vs = ([OWire 5 g_chan_settings msg [g_cmd_create; id]], None) /\
  fw_entries_v1 (skipn 2 msg) = map (entry_of tc) vs /\
  length msg = (2 + 2 * length vs)%nat.
Proof.
  intros H. cbn zeta. unfold create_msgs, create_cmd. cbn [create_loop].
  rewrite setup_elems_v1 by exact H. repeat split.
  - cbn [app skipn]. apply fw_entries_v1_enc.
  - cbn [app length]. rewrite enc_v1_length, map_length. lia.
Qed.
