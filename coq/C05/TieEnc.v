(* C05/TieEnc.v — flattening of model runs into integer lists, for the correspondence step only
   (harness/props/c05.py produces the same flattening from the real classes; compared by digest).
   Test plumbing: no theorem depends on this file. *)
Require Import CF.C05.Model.
Open Scope Z_scope.

Definition enc_exn (x : option exn) : Z :=
  match x with
  | None => 0
  | Some KeyError => 1 | Some AttributeError => 2 | Some TypeError => 3 | Some ValueError => 4
  | Some IndexError => 5 | Some StructError => 6 | Some OutOfFuel => 7
  end.

Definition zlen {A} (l : list A) : Z := Z.of_nat (length l).

(* floats are compared as bit patterns, all NaNs identified *)
Definition is_nan (size bits : Z) : bool :=
  if size =? 2 then (Z.land (Z.shiftr bits 10) 31 =? 31) && negb (Z.land bits 1023 =? 0)
  else (Z.land (Z.shiftr bits 23) 255 =? 255) && negb (Z.land bits 8388607 =? 0).

Definition canon_val (ty v : Z) : Z :=
  match ty_info ty with
  | Some (2, _, size) => if is_nan size v then -1 else v
  | _ => v
  end.

Definition enc_obs (o : obs) : list Z :=
  match o with
  | OWire p c d e => [1; p; c; zlen d] ++ d ++ [zlen e] ++ e
  | OCb k h a => [2; k; Z.of_nat h; zlen a] ++ a
  | OData h ts vals =>
      [3; Z.of_nat h; ts; zlen vals] ++ concat (map (fun '(n, (ty, v)) => [n; ty; canon_val ty v]) vals)
  end.

Definition enc_var (v : var) : list Z := [b2z (v_toc v); v_name v; v_fetch v; v_stored v; v_addr v].

Definition enc_cfg (c : cfg) : list Z :=
  [c_period c; c_id c; b2z (c_cf c); b2z (c_v2 c); b2z (c_added c); b2z (c_started c); c_pending c;
   b2z (c_valid c); c_errno c; zlen (c_vars c)] ++ concat (map enc_var (c_vars c)) ++ [zlen (c_dfa c)] ++ c_dfa c.

Definition enc_st (s : st) : list Z :=
  [s_counter s; b2z (s_v2 s); match s_toc s with None => 0 | Some _ => 1 end; b2z (s_link s); b2z (s_rp s);
   zlen (s_blocks s)] ++ map Z.of_nat (s_blocks s) ++ [zlen (s_cfgs s)] ++ concat (map enc_cfg (s_cfgs s)).

(* The 61/89-bit digest costs ~0.2 ms per numeral inside Coq, so the state (hundreds of numerals after
   every event) is first reduced with two cheap 16-bit polynomial hashes; the full encoding is used to
   localise a difference once one is seen. *)
Definition mix (m p : Z) (h v : Z) : Z := (h * m + v mod p) mod p.
Definition st_hash (s : st) : list Z :=
  let l := enc_st s in [fold_left (mix 31 65521) l 17; fold_left (mix 37 65519) l 23].

(* per event: observations, exception, (hash of the) complete state afterwards *)
Fixpoint enc_run (s : st) (evs : list ev) : list Z :=
  match evs with
  | [] => []
  | e :: r =>
      let '(s1, o, x) := step s e in
      [zlen o] ++ concat (map enc_obs o) ++ [enc_exn x] ++ st_hash s1 ++ enc_run s1 r
  end.

(* one full record per event (used only to localise a difference: digests first, then one record) *)
Fixpoint enc_run_recs (s : st) (evs : list ev) : list (list Z) :=
  match evs with
  | [] => []
  | e :: r =>
      let '(s1, o, x) := step s e in
      ([zlen o] ++ concat (map enc_obs o) ++ [enc_exn x] ++ enc_st s1) :: enc_run_recs s1 r
  end.

Definition rec_hash (l : list Z) : Z := fold_left (mix 31 65521) l 17 + 65536 * fold_left (mix 37 65519) l 23.

Definition enc_sl_obs (o : sl_obs) : Z :=
  match o with YSample k => 10 + k | YStop => 1 | YBlocked => 2 | YNone => 0 | YRaise => 3 end.

Definition enc_sl_run (evs : list sl_ev) : list Z := map enc_sl_obs (snd (sl_run sl_init evs)).

(* ---- SyncLogger under threads (C05/SyncThreads.v) *)
Require Import CF.C05.SyncThreads.

Definition enc_tobs (o : tobs) : Z :=
  match o with OYield k => 10 + k | OStop => 1 | OInGet => 2 | ONone => 0 | ORaise => 3 | ONoop => 4 | ORaiseAttr => 5 end.

Definition enc_qitem (i : qitem) : Z := match i with QSample k => 10 + k | QDisc => 1 end.

Definition enc_tsl (s : tsl) : list Z :=
  [b2z (t_conn s); match t_cons s with CIdle => 0 | CInGet => 1 end; Z.of_nat (t_pend s); b2z (t_reg s);
   match t_cpos s with None => -1 | Some j => Z.of_nat j end]
  ++ map (fun c => b2z (memz c (t_dreg s))) (t_own s)
  ++ [b2z (t_link s)] ++ map (fun c => b2z (memz c (t_known s))) (t_own s)
  ++ map (fun c => b2z (memz c (t_blk s))) (t_own s)
  ++ [zlen (t_queue s)] ++ map enc_qitem (t_queue s).

Fixpoint enc_sys_run (ls : list tsl) (evs : list sev) : list Z :=
  match evs with
  | [] => []
  | e :: r => let '(l1, o) := sys_step ls e in
              [enc_tobs o] ++ concat (map enc_tsl l1) ++ enc_sys_run l1 r
  end.
