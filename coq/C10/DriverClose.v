(* C10/DriverClose.v — the DRIVER side of "nothing is ever transmitted on a closed link": a link driver object and its
   device handle (UsbDriver.cfusb over CfUsb; RadioDriver._radio).  close() makes two device calls (switch the CRTP mode
   back, dispose the device); either may raise (cable pulled, vendor transfer fails); close() swallows the exception.
   Variant ClearAlways = the code: the handle is dropped on EVERY path of close().  Variant ClearOnSuccess = the seeded
   change C10-i (handle dropped only when both device calls succeeded), kept for the refutation.  Definitions + proofs. *)
From CF Require Import Common.Bytes.
Open Scope Z_scope.

Inductive closev := ClearAlways | ClearOnSuccess.
Inductive cfault := NoFault | ModeSwitchRaises | DisposeRaises.   (* where the device layer raises inside close() *)

Record dstate := mkD {
  handle : option Z;         (* the device handle (None = closed); the number tells the connections apart *)
  nconn : Z;                 (* connections made so far *)
  written : list (Z * Z)     (* ghost: (connection, packet) pairs written to the device, newest first *)
}.

Definition dinit : dstate := mkD None 0 [].

Inductive dop :=
| DConnect                  (* connect(uri) *)
| DSend (p : Z)             (* send_packet(pk) *)
| DRecv                     (* receive_packet(0) *)
| DClose (f : cfault).      (* close() *)

(* result codes: 0 ok / nothing, 1 written to the device, 2 exception "Link already open!" *)
Definition dstep (v : closev) (s : dstate) (o : dop) : dstate * Z :=
  match o with
  | DConnect =>
      match handle s with
      | None => (mkD (Some (nconn s)) (nconn s + 1) (written s), 0)
      | Some _ => (s, 2)
      end
  | DSend p =>
      match handle s with
      | None => (s, 0)                                        (* if self.cfusb is None: return *)
      | Some c => (mkD (handle s) (nconn s) ((c, p) :: written s), 1)
      end
  | DRecv => (s, 0)
  | DClose f =>
      match v, f with
      | ClearOnSuccess, ModeSwitchRaises | ClearOnSuccess, DisposeRaises => (s, 0)   (* exception swallowed, handle kept *)
      | _, _ => (mkD None (nconn s) (written s), 0)
      end
  end.

Fixpoint drun (v : closev) (s : dstate) (ops : list dop) : dstate * list Z :=
  match ops with
  | [] => (s, [])
  | o :: ops' => let (s1, r1) := dstep v s o in let (s2, r2) := drun v s1 ops' in (s2, r1 :: r2)
  end.

Definition dobs (r : dstate * list Z) : list Z := snd r ++ [Z.of_nat (length (written (fst r)))].

(* closed is reached by close() on every path, whatever the device layer does *)
Theorem close_always_closes s f : handle (fst (dstep ClearAlways s (DClose f))) = None.
Proof. destruct f; reflexivity. Qed.

Definition no_connect (ops : list dop) : Prop := Forall (fun o => o <> DConnect) ops.

(* after close() returned, no later send_packet / receive_packet / close on that object writes anything to the device,
   for every placement of the faults, until the object is connected again *)
Theorem closed_driver_writes_nothing : forall ops s, handle s = None -> no_connect ops ->
  written (fst (drun ClearAlways s ops)) = written s /\ handle (fst (drun ClearAlways s ops)) = None /\
  Forall (fun r => r = 0) (snd (drun ClearAlways s ops)).
Proof.
  induction ops as [|o ops IH]; intros s H N; cbn [drun]; [cbn; auto|].
  inversion N as [|? ? No N']; subst.
  assert (handle (fst (dstep ClearAlways s o)) = None /\ written (fst (dstep ClearAlways s o)) = written s /\
          snd (dstep ClearAlways s o) = 0) as (H1 & W1 & R1).
  { destruct o as [|p| |f].
    - congruence.
    - cbn [dstep]. rewrite H. cbn. auto.
    - cbn. auto.
    - destruct f; cbn; auto. }
  destruct (dstep ClearAlways s o) as [s1 r1]. cbn [fst snd] in *.
  destruct (IH s1 H1 N') as (W & Hh & F). destruct (drun ClearAlways s1 ops) as [s2 r2]. cbn [fst snd] in *.
  split; [congruence|]. split; [exact Hh|]. constructor; [exact R1 | exact F].
Qed.

(* ... and the object can be connected again *)
Theorem closed_driver_can_reconnect s f :
  let s1 := fst (dstep ClearAlways s (DClose f)) in
  snd (dstep ClearAlways s1 DConnect) = 0 /\ handle (fst (dstep ClearAlways s1 DConnect)) = Some (nconn s).
Proof. destruct f; cbn; auto. Qed.

(* refutation of "handle cleared only on the success path": the mode switch raises inside close(); a packet sent to
   the closed driver is written to the device and the object cannot be connected again *)
Example clear_on_success_refuted :
  dobs (drun ClearOnSuccess dinit [DConnect; DSend 1; DClose ModeSwitchRaises; DSend 2; DConnect]) = [0; 1; 0; 1; 2; 2] /\
  dobs (drun ClearAlways dinit [DConnect; DSend 1; DClose ModeSwitchRaises; DSend 2; DConnect]) = [0; 1; 0; 0; 0; 1].
Proof. vm_compute. auto. Qed.

(* ================================================================================================
   The out queue of a driver object (RadioDriver): send_packet puts the packet into the queue the object currently
   refers to — also when the driver is closed; the comm thread of the CURRENT connection takes packets from the queue it
   was created with and transmits them.  Variant FreshQueues = the code: connect() creates new queues (a packet put after
   close() sits in the abandoned queue for ever).  Variant KeptQueues = the seeded change C10-m: connect() keeps the queue
   object, close() drains it — a packet put after the drain is transmitted by the next connection. *)
Inductive queuev := FreshQueues | KeptQueues.

Record qstate := mkQ {
  q_open : bool;
  q_sess : Z;                          (* number of the current / last connection, from 1 *)
  q_queue : list (Z * option Z);       (* queue the object refers to: (packet, session it was sent in while open) *)
  q_frames : list (Z * Z * option Z)   (* ghost: transmitted (session, packet, tag), newest first *)
}.

Definition qinit : qstate := mkQ false 0 [] [].

Inductive qop := QConnect | QSend (p : Z) | QClose | QPump.

Definition qstep (v : queuev) (s : qstate) (o : qop) : qstate :=
  match o with
  | QConnect =>
      if q_open s then s                                       (* "Link already open!" *)
      else mkQ true (q_sess s + 1) (match v with FreshQueues => [] | KeptQueues => q_queue s end) (q_frames s)
  | QSend p =>
      mkQ (q_open s) (q_sess s) (q_queue s ++ [(p, if q_open s then Some (q_sess s) else None)]) (q_frames s)
  | QClose =>
      if q_open s then mkQ false (q_sess s) [] (q_frames s)    (* stop the thread, drain the queue *)
      else s
  | QPump =>                                                   (* the comm thread transmits what is queued *)
      if q_open s
      then mkQ true (q_sess s) [] (rev (map (fun e => (q_sess s, fst e, snd e)) (q_queue s)) ++ q_frames s)
      else s
  end.

Fixpoint qrun (v : queuev) (s : qstate) (ops : list qop) : qstate :=
  match ops with
  | [] => s
  | o :: ops' => qrun v (qstep v s o) ops'
  end.

Definition qobs (s : qstate) : list Z := concat (map (fun f => [fst (fst f); snd (fst f)]) (rev (q_frames s))).

(* every frame transmitted in session n carries a packet that was handed to send_packet during session n while the
   driver was open *)
Definition frames_ok (s : qstate) : Prop := Forall (fun f => snd f = Some (fst (fst f))) (q_frames s).
Definition queue_ok (s : qstate) : Prop :=
  q_open s = true -> Forall (fun e => snd e = Some (q_sess s)) (q_queue s).

Lemma qstep_inv s o : frames_ok s -> queue_ok s -> frames_ok (qstep FreshQueues s o) /\ queue_ok (qstep FreshQueues s o).
Proof.
  intros F Q. destruct o as [|p| |]; cbn [qstep].
  - destruct (q_open s) eqn:O; [auto|]. split; [exact F|]. intros _. constructor.
  - split; [exact F|]. unfold queue_ok. cbn [q_open q_sess q_queue]. intros O. apply Forall_app. split; [apply Q; exact O|].
    rewrite O. repeat constructor.
  - destruct (q_open s) eqn:O; [|auto]. split; [exact F|]. unfold queue_ok. cbn. discriminate.
  - destruct (q_open s) eqn:O; [|auto]. split.
    + unfold frames_ok. cbn [q_frames]. apply Forall_app. split; [|exact F].
      apply Forall_rev. apply Forall_forall. intros f I. apply in_map_iff in I as (e & <- & Ie). cbn [fst snd].
      specialize (Q O). rewrite Forall_forall in Q. exact (Q e Ie).
    + unfold queue_ok. cbn. intros _. constructor.
Qed.

Theorem session_frames_are_session_sends : forall ops s, frames_ok s -> queue_ok s ->
  frames_ok (qrun FreshQueues s ops).
Proof.
  induction ops as [|o ops IH]; intros s F Q; cbn [qrun]; [exact F|].
  destruct (qstep_inv s o F Q) as [F1 Q1]. apply IH; assumption.
Qed.

Corollary session_frames_from_init ops : frames_ok (qrun FreshQueues qinit ops).
Proof. apply session_frames_are_session_sends; [constructor | unfold queue_ok; cbn; discriminate]. Qed.

(* refutation for the kept queue: a packet handed to the closed driver after the drain is transmitted in the next session *)
Example kept_queue_refuted :
  let ops := [QConnect; QSend 1; QPump; QClose; QSend 2; QConnect; QPump] in
  q_frames (qrun KeptQueues qinit ops) = [(2, 2, None); (1, 1, Some 1)] /\ ~ frames_ok (qrun KeptQueues qinit ops) /\
  q_frames (qrun FreshQueues qinit ops) = [(1, 1, Some 1)].
Proof.
  cbv zeta. split; [vm_compute; reflexivity|]. split; [|vm_compute; reflexivity].
  intros F. vm_compute in F. inversion F as [|? ? H _]. discriminate.
Qed.
