(* C10/Property_drivers.v — the part of property C10 that depends on generated code: how the anchored link
   drivers set `needs_resending` (Gen_Drivers.v is regenerated from cflib/crtp/{crtpdriver,usbdriver,radiodriver}.py
   on every run; when the translator fails closed this file is reported broken and Property.v is still checked). *)
From CF Require Import Common.Bytes C10.Model C10.Proofs C10.Gen_Drivers C10.Proofs_d.
Open Scope Z_scope.

(* The base driver and a fresh radio driver ask for resending; after a start-up of the radio thread the flag
   is True when the safelink handshake failed and False when it was confirmed, WHATEVER the flag was before
   (prev); the USB driver does not ask for resending. *)
Theorem C10_driver_flags :
  drv_default_nr = true /\ drv_radio_initial_nr = true /\
  (forall prev, drv_radio_nr_after prev false = true) /\ (forall prev, drv_radio_nr_after prev true = false) /\
  reliable_ev (Open drv_usb_nr) /\ (forall prev, reliable_ev (SetNR (drv_radio_nr_after prev true))).
Proof. exact driver_flags. Qed.
Print Assumptions C10_driver_flags.

(* One RadioDriver object through any history of start-ups (connect, pause/restart, close/connect) with handshake
   outcomes outs: the flag the retry logic reads in a session follows that session's handshake only. *)
Theorem C10_radio_flag_follows_last_handshake : forall outs o, radio_flag_after (outs ++ [o]) = negb o.
Proof. exact radio_flag_follows_last_handshake. Qed.
Print Assumptions C10_radio_flag_follows_last_handshake.

(* USB links, and radio links in a session whose handshake was confirmed, never get a pattern or a timer *)
Theorem C10_usb_and_safelink_no_retry : forall evs,
  Forall (fun e => match e with
                   | Open n => n = drv_usb_nr
                   | SetNR b => exists outs, b = radio_flag_after (outs ++ [true])
                   | _ => True end) evs ->
  no_retry_state (fst (run Fixed init evs)).
Proof. exact usb_and_safelink_no_retry. Qed.
Print Assumptions C10_usb_and_safelink_no_retry.
