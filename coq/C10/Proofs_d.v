(* C10/Proofs_d.v — facts about the generated driver flags (Gen_Drivers.v, rewritten from cflib/crtp on every run). *)
From CF Require Import Common.Bytes C10.Model C10.Proofs C10.Gen_Drivers.
Open Scope Z_scope.

Lemma driver_flags :
  drv_default_nr = true /\ drv_radio_initial_nr = true /\ drv_radio_nr_after false = true /\
  reliable_ev (Open drv_usb_nr) /\ reliable_ev (SetNR (drv_radio_nr_after true)).
Proof. cbv. auto. Qed.

Lemma usb_and_safelink_no_retry : forall evs,
  Forall (fun e => match e with Open n => n = drv_usb_nr | SetNR b => b = drv_radio_nr_after true | _ => True end) evs ->
  no_retry_state (fst (run Fixed init evs)).
Proof.
  intros evs H. apply reliable_link_no_retry.
  - cbv. split; [reflexivity|]. split; [reflexivity|]. intros X. congruence.
  - eapply Forall_impl; [|exact H]. destruct driver_flags as (_ & _ & _ & U & R).
    intros [ | |n| | |b| | | ]; cbn; auto; intros ->; assumption.
Qed.
