(* C10/Proofs_d.v — facts about the generated driver flags (Gen_Drivers.v, rewritten from cflib/crtp on every run). *)
From CF Require Import Common.Bytes C10.Model C10.Proofs C10.Gen_Drivers.
Open Scope Z_scope.

Lemma driver_flags :
  drv_default_nr = true /\ drv_radio_initial_nr = true /\
  (forall prev, drv_radio_nr_after prev false = true) /\ (forall prev, drv_radio_nr_after prev true = false) /\
  reliable_ev (Open drv_usb_nr) /\ (forall prev, reliable_ev (SetNR (drv_radio_nr_after prev true))).
Proof. repeat split; try (intros [|]); reflexivity. Qed.

(* needs_resending of ONE RadioDriver object after a history of start-ups (connect, pause/restart, close/connect):
   outs = handshake outcomes, oldest first *)
Definition radio_flag_after (outs : list bool) : bool :=
  fold_left drv_radio_nr_after outs drv_radio_initial_nr.

(* the flag of a session follows THAT session's handshake, whatever happened in earlier sessions *)
Lemma radio_flag_follows_last_handshake : forall outs o, radio_flag_after (outs ++ [o]) = negb o.
Proof.
  intros outs o. unfold radio_flag_after. rewrite fold_left_app. cbn [fold_left].
  destruct driver_flags as (_ & _ & F & T & _). destruct o; [apply T | apply F].
Qed.

Lemma usb_and_safelink_no_retry : forall evs,
  Forall (fun e => match e with
                   | Open n => n = drv_usb_nr
                   | SetNR b => exists outs, b = radio_flag_after (outs ++ [true])
                   | _ => True end) evs ->
  no_retry_state (fst (run Fixed init evs)).
Proof.
  intros evs H. apply reliable_link_no_retry.
  - cbv. split; [reflexivity|]. split; [reflexivity|]. intros X. congruence.
  - eapply Forall_impl; [|exact H]. destruct driver_flags as (_ & _ & _ & _ & U & _).
    intros e He. destruct e; cbn [reliable_ev]; auto; try (subst; exact U).
    destruct He as (outs & He). subst. apply radio_flag_follows_last_handshake.
Qed.
