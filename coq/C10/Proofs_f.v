(* C10/Proofs_f.v — a request superseded by a later request with the same pattern; uniqueness of the longest match. *)
From CF Require Import Common.Bytes C10.Model C10.Proofs C10.Proofs_b.
From Coq Require Import ZifyBool.
Open Scope Z_scope.

(* equal-length prefixes of the same data are equal: the longest pending prefix is unique, there are no ties *)
Lemma prefix_same_length p q d : is_prefix p d = true -> is_prefix q d = true -> length p = length q -> p = q.
Proof.
  intros Hp Hq L. apply is_prefix_spec in Hp as (r1 & E1). apply is_prefix_spec in Hq as (r2 & E2).
  rewrite E1 in E2. clear E1. revert q L E2. induction p as [|x p IH]; intros [|y q] L E2; cbn in *; try lia; [reflexivity|].
  injection E2 as -> E2. f_equal. apply IH; [lia | exact E2].
Qed.

Theorem longest_match_is_unique s hdr data p i :
  let d := hdr_attr hdr :: data in
  let best := longest_match d (pats s) [] in
  In (p, i) (pats s) -> (exists rest, d = p ++ rest) -> length p = length best -> best <> [] -> p = best.
Proof.
  intros d best I P L N. destruct (recv_longest_only Fixed s hdr data) as (_ & B & _). fold d best in B.
  destruct (B N) as (_ & Pb). eapply prefix_same_length; [apply is_prefix_spec; exact P | apply is_prefix_spec; exact Pb | exact L].
Qed.

(* what a state looks like after start_timer *)
Lemma start_timer_entries s rid pk pat tmo orig p j t :
  (forall q i, lookup q (pats s) = Some i -> (i < length (timers s))%nat) ->
  lookup p (pats (start_timer Fixed s rid pk pat tmo orig)) = Some j ->
  nth_error (timers (start_timer Fixed s rid pk pat tmo orig)) j = Some t ->
  (p = pat /\ j = length (timers s) /\ t_rid t = rid) \/
  (p <> pat /\ lookup p (pats s) = Some j /\ exists t0, nth_error (timers s) j = Some t0 /\ t_rid t = t_rid t0).
Proof.
  intros Bound Lk E. unfold start_timer in Lk, E. cbn [pats timers] in Lk, E.
  set (ts1 := match lookup pat (pats s) with Some old => cancel_t old (timers s) | None => timers s end) in *.
  assert (length ts1 = length (timers s)) as Len.
  { unfold ts1. destruct (lookup pat (pats s)); [apply upd_nth_length | reflexivity]. }
  rewrite lookup_set_key in Lk. destruct (zlist_eqb pat p) eqn:Q.
  - apply zlist_eqb_spec in Q. subst p. injection Lk as <-. left.
    rewrite nth_error_app2, Nat.sub_diag in E by lia. cbn in E. injection E as <-. auto.
  - right. assert (p <> pat) as N by (intros ->; rewrite zlist_eqb_refl in Q; discriminate).
    split; [exact N|]. split; [exact Lk|]. specialize (Bound p j Lk).
    rewrite nth_error_app1 in E by lia. unfold ts1 in E.
    destruct (lookup pat (pats s)); [apply cancel_t_rid in E; exact E | exists t; auto].
Qed.

(* Sending a request whose pattern is already pending: the NEW request is the pending one (armed timer of its own
   timeout, see send_starts_timer); the superseded request is not pending any more and its timer is not armed — so
   (no_tx_unless_pending) it is never transmitted again, and an answer matching the pattern stops the new one. *)
Theorem newest_request_supersedes used s rid hdr data x exp tmo sess i t :
  Inv s -> Uniq used s -> ~ In rid used ->
  link s = Some sess -> nr s = true -> (length data <= 30)%nat ->
  let pat := hdr_attr hdr :: x :: exp in
  lookup pat (pats s) = Some i -> nth_error (timers s) i = Some t ->
  let s' := fst (step Fixed s (Send rid hdr data (x :: exp) tmo)) in
  pending s' rid /\ ~ pending s' (t_rid t) /\
  nth_error (timers s') i = Some (cancel1 t) /\ t_status (cancel1 t) <> Armed.
Proof.
  intros I U Fr L N Sz pat Lk E s'.
  destruct (send_starts_timer s rid hdr data exp x tmo sess L N Sz) as (_ & Lk' & E'). fold pat s' in Lk', E'.
  assert (s' = start_timer Fixed s rid (hdr_attr hdr :: data) pat tmo sess) as Es.
  { unfold s'. cbn [step]. assert ((30 <? length data)%nat = false) as -> by (apply Nat.ltb_ge; exact Sz).
    rewrite L, N. reflexivity. }
  split; [exists pat, (length (timers s)); eexists; split; [exact Lk'|]; split; [exact E' | reflexivity]|].
  split; [|split; [|apply cancel1_not_armed]].
  - intros (p & j & t' & Lp & Et & R). rewrite Es in Lp, Et.
    destruct (start_timer_entries s _ _ _ _ _ p j t' (inv_bound s I) Lp Et) as [(-> & _ & R')|(Np & Lp0 & t0 & E0 & R0)].
    + apply Fr. rewrite <- R', R. eapply (u_used used s U). exact E.
    + apply Np. eapply (u_inj used s U p j t0 pat i t); eauto. congruence.
  - rewrite Es. unfold start_timer. cbn [timers]. rewrite Lk.
    assert (i < length (timers s))%nat as Lt by (apply nth_error_Some; congruence).
    rewrite nth_error_app1 by (unfold cancel_t; rewrite upd_nth_length; exact Lt).
    unfold cancel_t. apply upd_nth_same. exact E.
Qed.
