(* C10/Proofs.v — invariants of the retry machinery (variant Fixed). *)
From CF Require Import Common.Bytes C10.Model.
From Coq Require Import ZifyBool.
Open Scope Z_scope.

(* ------------------------------------------------------------------ lists of timers *)
Lemma upd_nth_length i f : forall l, length (upd_nth i f l) = length l.
Proof.
  revert i. induction i as [|i IH]; intros [|t l]; cbn [upd_nth length]; try reflexivity.
  rewrite IH. reflexivity.
Qed.

Lemma upd_nth_same i f : forall l t, nth_error l i = Some t -> nth_error (upd_nth i f l) i = Some (f t).
Proof.
  induction i as [|i IH]; intros [|x l] t H; cbn in H; try discriminate; cbn [upd_nth nth_error].
  - injection H as ->. reflexivity.
  - apply IH. exact H.
Qed.

Lemma upd_nth_other i f : forall l j, j <> i -> nth_error (upd_nth i f l) j = nth_error l j.
Proof.
  induction i as [|i IH]; intros [|x l] j N; cbn [upd_nth]; try reflexivity.
  - destruct j; [congruence | reflexivity].
  - destruct j; [reflexivity|]. cbn [nth_error]. apply IH. congruence.
Qed.

Lemma upd_nth_inv i f l j t' : nth_error (upd_nth i f l) j = Some t' ->
  exists t, nth_error l j = Some t /\ ((j <> i /\ t' = t) \/ (j = i /\ t' = f t)).
Proof.
  intros H. destruct (Nat.eq_dec j i) as [->|N].
  - destruct (nth_error l i) as [t|] eqn:E.
    + rewrite (upd_nth_same i f l t E) in H. injection H as <-. exists t. auto.
    + assert (length l <= i)%nat as L by (apply nth_error_None; exact E).
      assert (nth_error (upd_nth i f l) i = None) as X by (apply nth_error_None; rewrite upd_nth_length; exact L).
      congruence.
  - rewrite upd_nth_other in H by exact N. exists t'. auto.
Qed.

Lemma cancel1_fields t : t_rid (cancel1 t) = t_rid t /\ t_pk (cancel1 t) = t_pk t /\ t_pat (cancel1 t) = t_pat t /\
  t_tmo (cancel1 t) = t_tmo t /\ t_deadline (cancel1 t) = t_deadline t /\ t_orig (cancel1 t) = t_orig t.
Proof. unfold cancel1. destruct (t_status t); repeat split; reflexivity. Qed.

Lemma cancel1_status t : (t_status t = Armed /\ t_status (cancel1 t) = Cancelled) \/
                         (t_status t <> Armed /\ cancel1 t = t).
Proof. unfold cancel1. destruct (t_status t) eqn:E; [left; auto | right | right | right]; split; congruence. Qed.

Lemma cancel1_not_armed t : t_status (cancel1 t) <> Armed.
Proof. destruct (cancel1_status t) as [[_ H]|[H E]]; [congruence | rewrite E; exact H]. Qed.

Lemma cancel_all_length ps : forall l, length (cancel_all ps l) = length l.
Proof.
  induction ps as [|[p i] ps IH]; intros l; cbn [cancel_all]; [reflexivity|].
  rewrite IH. apply upd_nth_length.
Qed.

(* a timer that is armed after cancel_all was armed before, unchanged, and not among the cancelled *)
Lemma cancel_all_armed ps : forall l j t', nth_error (cancel_all ps l) j = Some t' -> t_status t' = Armed ->
  nth_error l j = Some t' /\ forall p, ~ In (p, j) ps.
Proof.
  induction ps as [|[p i] ps IH]; intros l j t' H A; cbn [cancel_all] in H.
  - split; [exact H | intros p []].
  - destruct (IH _ _ _ H A) as [H1 H2]. unfold cancel_t in H1.
    apply upd_nth_inv in H1 as (t & E & [[N ->]|[-> ->]]).
    + split; [exact E|]. intros q [I|I]; [injection I as _ ->; congruence | exact (H2 q I)].
    + exfalso. exact (cancel1_not_armed t A).
Qed.

(* ------------------------------------------------------------------ the dictionary *)
Lemma lookup_In p : forall l v, lookup p l = Some v -> In (p, v) l.
Proof.
  induction l as [|[q w] l IH]; intros v H; cbn [lookup] in H; [discriminate|].
  destruct (zlist_eqb q p) eqn:E.
  - apply zlist_eqb_spec in E. injection H as ->. subst. left. reflexivity.
  - right. apply IH. exact H.
Qed.

Lemma lookup_None_keys p : forall l, lookup p l = None -> ~ In p (map fst l).
Proof.
  induction l as [|[q w] l IH]; intros H; cbn [lookup map fst] in *; [tauto|].
  destruct (zlist_eqb q p) eqn:E; [discriminate|].
  intros [I|I]; [subst; rewrite (proj2 (zlist_eqb_spec p p) eq_refl) in E; discriminate | exact (IH H I)].
Qed.

Lemma zlist_eqb_refl p : zlist_eqb p p = true.
Proof. apply zlist_eqb_spec. reflexivity. Qed.

Lemma zlist_eqb_neq p q : p <> q -> zlist_eqb p q = false.
Proof. intros N. destruct (zlist_eqb p q) eqn:E; [apply zlist_eqb_spec in E; contradiction | reflexivity]. Qed.

Lemma lookup_set_key p v : forall l q, lookup q (set_key p v l) = if zlist_eqb p q then Some v else lookup q l.
Proof.
  induction l as [|[k w] l IH]; intros q; cbn [set_key lookup].
  - reflexivity.
  - destruct (zlist_eqb k p) eqn:E.
    + apply zlist_eqb_spec in E. subst k. cbn [lookup]. destruct (zlist_eqb p q); reflexivity.
    + cbn [lookup]. destruct (zlist_eqb k q) eqn:F.
      * apply zlist_eqb_spec in F. subst k. destruct (zlist_eqb p q) eqn:G; [|reflexivity].
        apply zlist_eqb_spec in G. subst. rewrite zlist_eqb_refl in E. discriminate.
      * apply IH.
Qed.

Lemma set_key_keys p v : forall l, NoDup (map fst l) -> NoDup (map fst (set_key p v l)).
Proof.
  induction l as [|[k w] l IH]; intros ND; cbn [set_key map fst].
  - constructor; [intros [] | constructor].
  - cbn [map fst] in ND. inversion ND as [|? ? Hk ND']; subst.
    destruct (zlist_eqb k p) eqn:E; cbn [map fst].
    + constructor; assumption.
    + constructor; [|apply IH; exact ND'].
      intros I. apply in_map_iff in I as ([k' w'] & Ek & I). cbn [fst] in Ek. subst k'.
      assert (lookup k (set_key p v l) <> None) as X.
      { intros N. apply lookup_None_keys in N. apply N. apply in_map_iff. exists (k, w'). auto. }
      rewrite lookup_set_key in X. destruct (zlist_eqb p k) eqn:F.
      * apply zlist_eqb_spec in F. subst. rewrite zlist_eqb_refl in E. discriminate.
      * apply X. destruct (lookup k l) eqn:G; [|reflexivity]. apply lookup_In in G.
        exfalso. apply Hk. apply in_map_iff. exists (k, n). auto.
Qed.

Lemma lookup_remove_key p : forall l q, NoDup (map fst l) ->
  lookup q (remove_key p l) = if zlist_eqb p q then None else lookup q l.
Proof.
  induction l as [|[k w] l IH]; intros q ND; cbn [remove_key lookup].
  - destruct (zlist_eqb p q); reflexivity.
  - cbn [map fst] in ND. inversion ND as [|? ? Hk ND']; subst.
    destruct (zlist_eqb k p) eqn:E.
    + apply zlist_eqb_spec in E. subst k. destruct (zlist_eqb p q) eqn:F; [|reflexivity].
      apply zlist_eqb_spec in F. subst q. destruct (lookup p l) eqn:G; [|reflexivity].
      apply lookup_In in G. exfalso. apply Hk. apply in_map_iff. exists (p, n). auto.
    + cbn [lookup]. destruct (zlist_eqb k q) eqn:F.
      * apply zlist_eqb_spec in F. subst k. rewrite zlist_eqb_neq; [reflexivity|].
        intros ->. rewrite zlist_eqb_refl in E. discriminate.
      * apply IH. exact ND'.
Qed.

Lemma remove_key_incl p : forall l x, In x (remove_key p l) -> In x l.
Proof.
  induction l as [|[k w] l IH]; intros x I; cbn [remove_key] in I; [exact I|].
  destruct (zlist_eqb k p); [right; exact I|]. destruct I as [I|I]; [left; exact I | right; apply IH; exact I].
Qed.

Lemma remove_key_keys p : forall l, NoDup (map fst l) -> NoDup (map fst (remove_key p l)).
Proof.
  induction l as [|[k w] l IH]; intros ND; cbn [remove_key map fst]; [constructor|].
  cbn [map fst] in ND. inversion ND as [|? ? Hk ND']; subst.
  destruct (zlist_eqb k p); [exact ND'|]. cbn [map fst]. constructor; [|apply IH; exact ND'].
  intros I. apply Hk. apply in_map_iff in I as (x & E & I). apply in_map_iff. exists x. split; [exact E|].
  eapply remove_key_incl. exact I.
Qed.

(* ------------------------------------------------------------------ the invariant *)
Definition live (st : tstatus) : Prop := st = Armed \/ st = Committed.

Record Inv (s : state) : Prop := mkInv {
  inv_keys : NoDup (map fst (pats s));
  (* a pending pattern has a live timer for exactly this pattern, on an open link, of the session the
     request was sent in *)
  inv_pats : forall p i, lookup p (pats s) = Some i ->
             exists t sess, nth_error (timers s) i = Some t /\ t_pat t = p /\ live (t_status t) /\
                            link s = Some sess /\ t_orig t = sess;
  (* every armed timer is the pending one of its pattern (no orphans) *)
  inv_armed : forall i t, nth_error (timers s) i = Some t -> t_status t = Armed ->
              lookup (t_pat t) (pats s) = Some i
}.

Lemma inv_init : Inv init.
Proof.
  split; cbn.
  - constructor.
  - intros p i H. discriminate.
  - intros [|i] t H; discriminate.
Qed.

(* start_timer re-establishes the invariant from a state in which only the entry of `pat` may be stale *)
Lemma start_timer_inv s rid pk pat tmo sess :
  NoDup (map fst (pats s)) ->
  (forall p i, p <> pat -> lookup p (pats s) = Some i ->
     exists t sess', nth_error (timers s) i = Some t /\ t_pat t = p /\ live (t_status t) /\
                     link s = Some sess' /\ t_orig t = sess') ->
  (forall i t, nth_error (timers s) i = Some t -> t_status t = Armed -> lookup (t_pat t) (pats s) = Some i) ->
  link s = Some sess ->
  (forall old, lookup pat (pats s) = Some old -> exists t, nth_error (timers s) old = Some t /\ t_pat t = pat) ->
  Inv (start_timer Fixed s rid pk pat tmo sess).
Proof.
  intros K P A L O. unfold start_timer.
  set (ts1 := match lookup pat (pats s) with Some old => cancel_t old (timers s) | None => timers s end).
  assert (length ts1 = length (timers s)) as Len.
  { unfold ts1. destruct (lookup pat (pats s)); [apply upd_nth_length | reflexivity]. }
  (* a timer of ts1: same fields as before; armed only if it was armed and is not the replaced one *)
  assert (forall j t', nth_error ts1 j = Some t' ->
            exists t, nth_error (timers s) j = Some t /\ t_pat t' = t_pat t /\ t_orig t' = t_orig t /\
                      (t_status t' = Armed -> t' = t /\ lookup pat (pats s) <> Some j) /\
                      (lookup pat (pats s) <> Some j -> t' = t)) as T1.
  { intros j t' H. unfold ts1 in H. destruct (lookup pat (pats s)) as [old|] eqn:E.
    - unfold cancel_t in H. apply upd_nth_inv in H as (t & Et & [[N ->]|[-> ->]]).
      + exists t. split; [exact Et|]. split; [reflexivity|]. split; [reflexivity|]. split.
        * intros _. split; [reflexivity | congruence].
        * intros _. reflexivity.
      + exists t. destruct (cancel1_fields t) as (_ & _ & F3 & _ & _ & F6).
        split; [exact Et|]. split; [exact F3|]. split; [exact F6|]. split.
        * intros X. exfalso. exact (cancel1_not_armed t X).
        * intros X. congruence.
    - exists t'. split; [exact H|]. split; [reflexivity|]. split; [reflexivity|]. split.
      + intros _. split; [reflexivity | congruence].
      + intros _. reflexivity. }
  split; cbn [pats timers link].
  - apply set_key_keys. exact K.
  - intros p i H. rewrite lookup_set_key in H. destruct (zlist_eqb pat p) eqn:E.
    + apply zlist_eqb_spec in E. subst p. injection H as <-.
      eexists. exists sess. split; [rewrite nth_error_app2 by lia; rewrite Nat.sub_diag; reflexivity|].
      cbn. repeat split; try reflexivity. left. reflexivity. exact L.
    + assert (p <> pat) as N by (intros ->; rewrite zlist_eqb_refl in E; discriminate).
      destruct (P p i N H) as (t & sess' & Et & Ep & Lv & Ll & Eo).
      assert (lookup pat (pats s) <> Some i) as Ni.
      { intros X. destruct (O i X) as (t0 & E0 & P0). congruence. }
      exists t, sess'. split; [|auto].
      rewrite nth_error_app1 by (rewrite Len; apply nth_error_Some; congruence).
      destruct (nth_error ts1 i) as [t'|] eqn:E1.
      * destruct (T1 i t' E1) as (t0 & E0 & _ & _ & _ & Same). rewrite (Same Ni). congruence.
      * apply nth_error_None in E1. assert (i < length (timers s))%nat by (apply nth_error_Some; congruence). lia.
  - intros i t H A'. destruct (Nat.lt_ge_cases i (length ts1)) as [Lt|Ge].
    + rewrite nth_error_app1 in H by exact Lt. destruct (T1 i t H) as (t0 & E0 & Ep & _ & Arm & _).
      destruct (Arm A') as [-> Ni]. rewrite lookup_set_key.
      pose proof (A i t0 E0 A') as Lk.
      destruct (zlist_eqb pat (t_pat t0)) eqn:E; [|exact Lk].
      apply zlist_eqb_spec in E. rewrite <- E in Lk. contradiction.
    + rewrite nth_error_app2 in H by exact Ge. destruct (i - length ts1)%nat as [|k] eqn:D.
      * cbn in H. injection H as <-. cbn [t_pat]. rewrite lookup_set_key, zlist_eqb_refl. f_equal. lia.
      * cbn in H. destruct k; discriminate.
Qed.

Lemma inv_no_link s : Inv s -> link s = None -> forall p, lookup p (pats s) = None.
Proof.
  intros I L p. destruct (lookup p (pats s)) eqn:E; [|reflexivity].
  destruct (inv_pats s I p n E) as (t & sess & _ & _ & _ & X & _). congruence.
Qed.

(* two patterns never share a timer *)
Lemma inv_distinct s p q i : Inv s -> lookup p (pats s) = Some i -> lookup q (pats s) = Some i -> p = q.
Proof.
  intros I Hp Hq. destruct (inv_pats s I p i Hp) as (t & _ & Et & Ep & _).
  destruct (inv_pats s I q i Hq) as (t' & _ & Et' & Eq & _). congruence.
Qed.

Theorem inv_step s e : Inv s -> Inv (fst (step Fixed s e)).
Proof.
  intros I. destruct e as [rid hdr data exp tmo|hdr data|n| | |b|dt|tid|tid]; cbn [step].
  - (* Send *)
    destruct (30 <? length data)%nat; [exact I|].
    destruct (link s) as [sess|] eqn:L; [|exact I].
    destruct exp as [|x exp]; [exact I|]. destruct (nr s); [|exact I]. cbn [fst].
    apply start_timer_inv.
    + exact (inv_keys s I).
    + intros p i _ H. exact (inv_pats s I p i H).
    + exact (inv_armed s I).
    + exact L.
    + intros old H. destruct (inv_pats s I _ old H) as (t & _ & Et & Ep & _). eauto.
  - (* Recv *)
    destruct (link s) as [sess|] eqn:L; [|exact I].
    destruct (longest_match (hdr_attr hdr :: data) (pats s) []) as [|b best]; [exact I|].
    remember (b :: best) as bp eqn:Hbp. clear Hbp. destruct (lookup bp (pats s)) as [i|] eqn:E; [|exact I]. cbn [fst].
    split; cbn [pats timers link set_pt].
    + apply remove_key_keys. exact (inv_keys s I).
    + intros p j H. rewrite lookup_remove_key in H by exact (inv_keys s I).
      destruct (zlist_eqb bp p) eqn:Q; [discriminate|].
      destruct (inv_pats s I p j H) as (t & sess' & Et & Ep & Lv & Ll & Eo).
      assert (j <> i) as N.
      { intros ->. pose proof (inv_distinct s _ _ _ I H E). subst. rewrite zlist_eqb_refl in Q. discriminate. }
      exists t, sess'. unfold cancel_t. rewrite upd_nth_other by exact N. auto.
    + intros j t H A. unfold cancel_t in H. apply upd_nth_inv in H as (t0 & E0 & [[N ->]|[-> ->]]).
      * pose proof (inv_armed s I j t0 E0 A) as Lk. rewrite lookup_remove_key by exact (inv_keys s I).
        destruct (zlist_eqb bp (t_pat t0)) eqn:Q; [|exact Lk].
        apply zlist_eqb_spec in Q. rewrite <- Q in Lk. congruence.
      * exfalso. exact (cancel1_not_armed t0 A).
  - (* Open *)
    destruct (link s) eqn:L; [exact I|]. cbn [fst]. split; cbn [pats timers link set_link].
    + exact (inv_keys s I).
    + intros p i H. rewrite (inv_no_link s I L p) in H. discriminate.
    + exact (inv_armed s I).
  - (* Close *)
    cbn [fst forget_answers]. split; cbn [pats timers link set_pt set_link].
    + constructor.
    + intros p i H. discriminate.
    + intros i t H A. destruct (cancel_all_armed _ _ _ _ H A) as [H0 Nin].
      pose proof (inv_armed s I i t H0 A) as Lk. apply lookup_In in Lk. exfalso. exact (Nin _ Lk).
  - (* LinkErr *)
    destruct (link s) eqn:L; [|exact I]. cbn [fst forget_answers]. split; cbn [pats timers link set_pt set_link].
    + constructor.
    + intros p i H. discriminate.
    + intros i t H A. destruct (cancel_all_armed _ _ _ _ H A) as [H0 Nin].
      pose proof (inv_armed s I i t H0 A) as Lk. apply lookup_In in Lk. exfalso. exact (Nin _ Lk).
  - (* SetNR *)
    destruct (link s) eqn:L; [|exact I]. cbn [fst]. split; cbn [pats timers link set_link].
    + exact (inv_keys s I).
    + intros p i H. destruct (inv_pats s I p i H) as (t & sess & X). exists t, sess. rewrite L in X. exact X.
    + exact (inv_armed s I).
  - (* Adv *)
    cbn [fst]. split; cbn [pats timers link]; [exact (inv_keys s I) | exact (inv_pats s I) | exact (inv_armed s I)].
  - (* Expire *)
    destruct (nth_error (timers s) (Z.to_nat tid)) as [t|] eqn:E; [|exact I].
    destruct (t_status t) eqn:S; try exact I.
    destruct ((0 <=? tid) && (t_deadline t <=? now s)); [|exact I]. cbn [fst].
    split; cbn [pats timers link set_pt].
    + exact (inv_keys s I).
    + intros p i H. destruct (inv_pats s I p i H) as (t0 & sess & Et & Ep & Lv & Ll & Eo).
      destruct (Nat.eq_dec i (Z.to_nat tid)) as [->|N].
      * rewrite (upd_nth_same _ _ _ _ E). exists (with_status t Committed), sess.
        assert (t0 = t) by congruence. subst t0. cbn. repeat split; auto. right. reflexivity.
      * rewrite upd_nth_other by exact N. exists t0, sess. auto.
    + intros i t0 H A. apply upd_nth_inv in H as (t1 & E1 & [[N ->]|[-> ->]]).
      * exact (inv_armed s I i t1 E1 A).
      * cbn in A. discriminate.
  - (* RunT *)
    destruct (nth_error (timers s) (Z.to_nat tid)) as [t|] eqn:E; [|exact I].
    destruct (t_status t) eqn:S; try exact I.
    destruct (0 <=? tid); [|exact I]. cbn [link set_pt pats].
    set (i := Z.to_nat tid) in *.
    set (s1 := set_pt s (pats s) (upd_nth i (fun t0 => with_status t0 Done) (timers s))).
    (* facts about s1 *)
    assert (forall j t1, nth_error (timers s1) j = Some t1 -> t_status t1 = Armed ->
                         nth_error (timers s) j = Some t1) as Arm1.
    { intros j t1 H A. cbn [s1 timers set_pt] in H. apply upd_nth_inv in H as (t2 & E2 & [[N ->]|[-> ->]]).
      - exact E2.
      - cbn in A. discriminate. }
    assert (forall p j, j <> i -> lookup p (pats s) = Some j ->
              exists t0 sess', nth_error (timers s1) j = Some t0 /\ t_pat t0 = p /\ live (t_status t0) /\
                               link s = Some sess' /\ t_orig t0 = sess') as Pat1.
    { intros p j N H. destruct (inv_pats s I p j H) as (t0 & sess & X). exists t0, sess.
      cbn [s1 timers set_pt]. rewrite upd_nth_other by exact N. exact X. }
    assert (Inv s1 \/ lookup (t_pat t) (pats s) = Some i) as Alt.
    { destruct (lookup (t_pat t) (pats s)) as [c|] eqn:Lk.
      - destruct (Nat.eq_dec c i) as [->|N]; [right; reflexivity|]. left. split; cbn [s1 pats link set_pt].
        + exact (inv_keys s I).
        + intros p j H. apply Pat1; [|exact H]. intros ->.
          destruct (inv_pats s I p i H) as (t0 & _ & Et & Ep & _). assert (t0 = t) by congruence. subst. congruence.
        + intros j t1 H A. pose proof (Arm1 j t1 H A) as H0. exact (inv_armed s I j t1 H0 A).
      - left. split; cbn [s1 pats link set_pt].
        + exact (inv_keys s I).
        + intros p j H. apply Pat1; [|exact H]. intros ->.
          destruct (inv_pats s I p i H) as (t0 & _ & Et & Ep & _). assert (t0 = t) by congruence. subst. congruence.
        + intros j t1 H A. pose proof (Arm1 j t1 H A) as H0. exact (inv_armed s I j t1 H0 A). }
    destruct (link s) as [sess|] eqn:L.
    + destruct (lookup (t_pat t) (pats s)) as [c|] eqn:Lk.
      * destruct (c =? i)%nat eqn:Q.
        -- apply Nat.eqb_eq in Q. subst c. cbn [fst].
           destruct (inv_pats s I _ i Lk) as (t0 & sess0 & Et0 & Ep0 & Lv0 & Ll0 & Eo0).
           assert (t_orig t = sess) as Eo by congruence.
           rewrite Eo. apply start_timer_inv; cbn [s1 pats link set_pt].
           ++ exact (inv_keys s I).
           ++ intros p j N H. assert (j <> i) as Nj.
              { intros ->. pose proof (inv_distinct s _ _ _ I H Lk). congruence. }
              destruct (Pat1 p j Nj H) as (t1 & sess' & X). exists t1, sess'. rewrite ?L. exact X.
           ++ intros j t1 H A. pose proof (Arm1 j t1 H A) as H0. exact (inv_armed s I j t1 H0 A).
           ++ exact L.
           ++ intros old H. assert (old = i) by congruence. subst old.
              exists (with_status t Done). split; [cbn [s1 timers set_pt]; apply (upd_nth_same i (fun t0 => with_status t0 Done)); exact E | reflexivity].
        -- cbn [fst]. destruct Alt as [X|X]; [exact X|]. apply Nat.eqb_neq in Q. congruence.
      * cbn [fst]. destruct Alt as [X|X]; [exact X | discriminate].
    + cbn [fst]. destruct Alt as [X|X]; [exact X|].
      rewrite (inv_no_link s I L) in X. discriminate.
Qed.

Theorem inv_run : forall evs s, Inv s -> Inv (fst (run Fixed s evs)).
Proof.
  induction evs as [|e evs IH]; intros s I; cbn [run]; [exact I|].
  pose proof (inv_step s e I) as I1. destruct (step Fixed s e) as [s1 o1]. cbn [fst] in I1.
  specialize (IH s1 I1). destruct (run Fixed s1 evs) as [s2 o2]. exact IH.
Qed.

(* ------------------------------------------------------------------ transmissions *)
Definition is_tx (o : output) : Prop := match o with OTx _ _ _ _ => True | ORaise _ _ => False end.

(* nothing is handed to a link when there is none — for both variants of the code *)
Theorem closed_link_silent v s e : link s = None -> Forall (fun o => ~ is_tx o) (snd (step v s e)).
Proof.
  intros L. destruct e as [rid hdr data exp tmo|hdr data|n| | |b|dt|tid|tid]; cbn [step]; rewrite ?L; cbn [snd].
  - destruct (30 <? length data)%nat; cbn [snd]; repeat constructor. intros [].
  - constructor.
  - constructor.
  - constructor.
  - constructor.
  - constructor.
  - constructor.
  - destruct (nth_error (timers s) (Z.to_nat tid)) as [t|]; [|constructor].
    destruct (t_status t); try constructor. destruct ((0 <=? tid) && (t_deadline t <=? now s)); constructor.
  - destruct (nth_error (timers s) (Z.to_nat tid)) as [t|]; [|constructor].
    destruct (t_status t); try constructor. destruct (0 <=? tid); [|constructor].
    cbn [link set_pt]. rewrite L. constructor.
Qed.

(* every transmission goes to the open link, and that link belongs to the session in which the
   request was sent *)
Theorem step_tx_session s e sess r orig t : Inv s -> In (OTx sess r orig t) (snd (step Fixed s e)) ->
  link s = Some sess /\ orig = sess /\ t = now s.
Proof.
  intros I H. destruct e as [rid hdr data exp tmo|hdr data|n| | |b|dt|tid|tid]; cbn [step] in H.
  - destruct (30 <? length data)%nat; cbn [snd] in H; [destruct H as [H|[]]; discriminate|].
    destruct (link s) as [se|] eqn:L; [|destruct H].
    assert (In (OTx sess r orig t) [OTx se rid se (now s)]) as X.
    { destruct exp; [exact H|]. destruct (nr s); exact H. }
    destruct X as [X|[]]. injection X as X1 X2 X3 X4. subst. auto.
  - destruct (link s); [|destruct H]. destruct (longest_match _ _ _); [destruct H|].
    destruct (lookup _ _); destruct H.
  - destruct (link s); destruct H.
  - destruct H.
  - destruct (link s); destruct H.
  - destruct (link s); destruct H.
  - destruct H.
  - destruct (nth_error (timers s) (Z.to_nat tid)) as [t0|]; [|destruct H].
    destruct (t_status t0); try destruct H. destruct ((0 <=? tid) && (t_deadline t0 <=? now s)); destruct H.
  - destruct (nth_error (timers s) (Z.to_nat tid)) as [t0|] eqn:E; [|destruct H].
    destruct (t_status t0); try destruct H. destruct (0 <=? tid); [|destruct H].
    cbn [link set_pt pats] in H. destruct (link s) as [se|] eqn:L; [|destruct H].
    destruct (lookup (t_pat t0) (pats s)) as [c|] eqn:Lk; [|destruct H].
    destruct (c =? Z.to_nat tid)%nat eqn:Q; [|destruct H]. apply Nat.eqb_eq in Q. subst c.
    destruct H as [H|[]]. injection H as X1 X2 X3 X4.
    destruct (inv_pats s I _ _ Lk) as (t1 & s1 & E1 & _ & _ & L1 & O1).
    assert (t1 = t0) by congruence. subst t1. split; [congruence|]. split; [congruence | congruence].
Qed.

Theorem run_tx_session : forall evs s, Inv s ->
  Forall (fun o => match o with OTx sess _ orig _ => orig = sess | _ => True end) (snd (run Fixed s evs)).
Proof.
  induction evs as [|e evs IH]; intros s I; cbn [run]; [constructor|].
  pose proof (inv_step s e I) as I1. pose proof (fun sess r orig t => step_tx_session s e sess r orig t I) as T.
  destruct (step Fixed s e) as [s1 o1]. cbn [fst snd] in *.
  specialize (IH s1 I1). destruct (run Fixed s1 evs) as [s2 o2]. cbn [snd] in *.
  apply Forall_app. split; [|exact IH]. apply Forall_forall. intros [sess r orig t|r t] Ho; [|exact Logic.I].
  destruct (T sess r orig t Ho) as (_ & X & _). exact X.
Qed.

(* ------------------------------------------------------------------ pending requests *)
(* request r is pending: some pattern's timer carries it *)
Definition pending (s : state) (r : Z) : Prop :=
  exists p i t, lookup p (pats s) = Some i /\ nth_error (timers s) i = Some t /\ t_rid t = r.

Definition is_send_of (r : Z) (e : event) : Prop :=
  match e with Send rid _ _ _ _ => rid = r | _ => False end.

Lemma step_tx_pending s e sess r orig t : In (OTx sess r orig t) (snd (step Fixed s e)) ->
  is_send_of r e \/ pending s r.
Proof.
  intros H. destruct e as [rid hdr data exp tmo|hdr data|n| | |b|dt|tid|tid]; cbn [step] in H.
  - left. destruct (30 <? length data)%nat; cbn [snd] in H; [destruct H as [H|[]]; discriminate|].
    destruct (link s) as [se|]; [|destruct H].
    assert (In (OTx sess r orig t) [OTx se rid se (now s)]) as X.
    { destruct exp; [exact H|]. destruct (nr s); exact H. }
    destruct X as [X|[]]. injection X as _ X2 _ _. exact X2.
  - destruct (link s); [|destruct H]. destruct (longest_match _ _ _); [destruct H|].
    destruct (lookup _ _); destruct H.
  - destruct (link s); destruct H.
  - destruct H.
  - destruct (link s); destruct H.
  - destruct (link s); destruct H.
  - destruct H.
  - destruct (nth_error (timers s) (Z.to_nat tid)) as [t0|]; [|destruct H].
    destruct (t_status t0); try destruct H. destruct ((0 <=? tid) && (t_deadline t0 <=? now s)); destruct H.
  - right. destruct (nth_error (timers s) (Z.to_nat tid)) as [t0|] eqn:E; [|destruct H].
    destruct (t_status t0); try destruct H. destruct (0 <=? tid); [|destruct H].
    cbn [link set_pt pats] in H. destruct (link s) as [se|]; [|destruct H].
    destruct (lookup (t_pat t0) (pats s)) as [c|] eqn:Lk; [|destruct H].
    destruct (c =? Z.to_nat tid)%nat eqn:Q; [|destruct H]. apply Nat.eqb_eq in Q. subst c.
    destruct H as [H|[]]. injection H as _ X2 _ _. exists (t_pat t0), (Z.to_nat tid), t0. auto.
Qed.

(* status changes keep the request a timer carries *)
Lemma upd_status_rid i st l j t' : nth_error (upd_nth i (fun t => with_status t st) l) j = Some t' ->
  exists t, nth_error l j = Some t /\ t_rid t' = t_rid t.
Proof. intros H. apply upd_nth_inv in H as (t & E & [[_ ->]|[_ ->]]); exists t; auto. Qed.

Lemma cancel_t_rid i l j t' : nth_error (cancel_t i l) j = Some t' ->
  exists t, nth_error l j = Some t /\ t_rid t' = t_rid t.
Proof.
  intros H. apply upd_nth_inv in H as (t & E & [[_ ->]|[_ ->]]); exists t; split; auto.
  apply (cancel1_fields t).
Qed.

Lemma start_timer_pending s rid pk pat tmo orig r :
  (forall p i, lookup p (pats s) = Some i -> (i < length (timers s))%nat) ->
  pending (start_timer Fixed s rid pk pat tmo orig) r -> r = rid \/ pending s r.
Proof.
  intros Bound (p & i & t & Lk & E & R). unfold start_timer in Lk, E. cbn [pats timers] in Lk, E.
  set (ts1 := match lookup pat (pats s) with Some old => cancel_t old (timers s) | None => timers s end) in *.
  assert (length ts1 = length (timers s)) as Len.
  { unfold ts1. destruct (lookup pat (pats s)); [apply upd_nth_length | reflexivity]. }
  rewrite lookup_set_key in Lk. destruct (zlist_eqb pat p) eqn:Q.
  - injection Lk as <-. rewrite nth_error_app2, Nat.sub_diag in E by lia. cbn in E. injection E as <-. left. auto.
  - right. assert (i < length ts1)%nat as Lt.
    { destruct (Nat.lt_ge_cases i (length ts1)) as [X|X]; [exact X|]. exfalso.
      specialize (Bound p i Lk). lia. }
    rewrite nth_error_app1 in E by exact Lt.
    assert (exists t0, nth_error (timers s) i = Some t0 /\ t_rid t = t_rid t0) as (t0 & E0 & R0).
    { unfold ts1 in E. destruct (lookup pat (pats s)); [apply cancel_t_rid in E; exact E | exists t; auto]. }
    exists p, i, t0. split; [exact Lk|]. split; [exact E0 | congruence].
Qed.

Lemma inv_bound s : Inv s -> forall p i, lookup p (pats s) = Some i -> (i < length (timers s))%nat.
Proof.
  intros I p i H. destruct (inv_pats s I p i H) as (t & _ & E & _). apply nth_error_Some. congruence.
Qed.

(* a request becomes pending only by being sent *)
Lemma pending_step s e r : Inv s -> pending (fst (step Fixed s e)) r -> is_send_of r e \/ pending s r.
Proof.
  intros I H. destruct e as [rid hdr data exp tmo|hdr data|n| | |b|dt|tid|tid]; cbn [step] in H.
  - destruct (30 <? length data)%nat; [right; exact H|].
    destruct (link s) as [se|]; [|right; exact H].
    destruct exp as [|x exp]; [right; exact H|]. destruct (nr s); [|right; exact H].
    cbn [fst] in H. apply start_timer_pending in H; [|exact (inv_bound s I)].
    destruct H as [->|H]; [left; reflexivity | right; exact H].
  - right. destruct (link s); [|exact H]. destruct (longest_match _ _ _) as [|b0 best]; [exact H|].
    remember (b0 :: best) as bp eqn:Hbp. clear Hbp.
    destruct (lookup bp (pats s)) as [i|] eqn:E; [|exact H]. cbn [fst] in H.
    destruct H as (p & j & t & Lk & Et & R). cbn [pats timers set_pt] in Lk, Et.
    rewrite lookup_remove_key in Lk by exact (inv_keys s I). destruct (zlist_eqb bp p); [discriminate|].
    apply cancel_t_rid in Et as (t0 & E0 & R0). exists p, j, t0. split; [exact Lk|]. split; [exact E0 | congruence].
  - right. destruct (link s); [exact H|]. exact H.
  - right. cbn [fst forget_answers] in H. destruct H as (p & j & t & Lk & _). cbn in Lk. discriminate.
  - right. destruct (link s); [|exact H]. cbn [fst forget_answers] in H.
    destruct H as (p & j & t & Lk & _). cbn in Lk. discriminate.
  - right. destruct (link s); exact H.
  - right. exact H.
  - right. destruct (nth_error (timers s) (Z.to_nat tid)) as [t0|]; [|exact H].
    destruct (t_status t0); try exact H. destruct ((0 <=? tid) && (t_deadline t0 <=? now s)); [|exact H].
    cbn [fst] in H. destruct H as (p & j & t & Lk & Et & R). cbn [pats timers set_pt] in Lk, Et.
    apply upd_status_rid in Et as (t1 & E1 & R1). exists p, j, t1. split; [exact Lk|]. split; [exact E1 | congruence].
  - right. destruct (nth_error (timers s) (Z.to_nat tid)) as [t0|] eqn:E; [|exact H].
    destruct (t_status t0); try exact H. destruct (0 <=? tid); [|exact H].
    cbn [link set_pt pats] in H.
    set (i := Z.to_nat tid) in *.
    set (s1 := set_pt s (pats s) (upd_nth i (fun t1 => with_status t1 Done) (timers s))) in *.
    assert (forall r', pending s1 r' -> pending s r') as P1.
    { intros r' (p & j & t & Lk & Et & R). cbn [s1 pats timers set_pt] in Lk, Et.
      apply upd_status_rid in Et as (t1 & E1 & R1). exists p, j, t1. split; [exact Lk|]. split; [exact E1 | congruence]. }
    destruct (link s) as [se|]; [|apply P1; exact H].
    destruct (lookup (t_pat t0) (pats s)) as [c|] eqn:Lk; [|apply P1; exact H].
    destruct (c =? i)%nat eqn:Q; [|apply P1; exact H]. apply Nat.eqb_eq in Q. subst c.
    cbn [fst] in H. apply start_timer_pending in H.
    + destruct H as [->|H]; [|apply P1; exact H]. exists (t_pat t0), i, t0. auto.
    + intros p j X. cbn [s1 pats timers set_pt] in *. rewrite upd_nth_length. exact (inv_bound s I p j X).
Qed.

Definition tx_of (r : Z) (o : output) : Prop := match o with OTx _ rid _ _ => rid = r | ORaise _ _ => False end.

(* a request that is not pending is never transmitted again unless it is sent again *)
Theorem no_tx_unless_pending : forall evs s r, Inv s -> ~ pending s r ->
  Forall (fun e => ~ is_send_of r e) evs -> Forall (fun o => ~ tx_of r o) (snd (run Fixed s evs)).
Proof.
  induction evs as [|e evs IH]; intros s r I NP NS; cbn [run]; [constructor|].
  inversion NS as [|? ? Ne NS']; subst.
  pose proof (inv_step s e I) as I1. pose proof (fun sess orig t => step_tx_pending s e sess r orig t) as T.
  pose proof (pending_step s e r I) as PS.
  destruct (step Fixed s e) as [s1 o1]. cbn [fst snd] in *.
  assert (~ pending s1 r) as NP1 by (intros X; destruct (PS X); contradiction).
  specialize (IH s1 r I1 NP1 NS'). destruct (run Fixed s1 evs) as [s2 o2]. cbn [snd] in *.
  apply Forall_app. split; [|exact IH]. apply Forall_forall. intros [sess rid orig t|rid t] Ho X; cbn in X; [|exact X].
  subst rid. destruct (T sess orig t Ho); contradiction.
Qed.

(* after close_link / a link error nothing is pending *)
Lemma close_nothing_pending s r : ~ pending (fst (step Fixed s Close)) r.
Proof. intros (p & i & t & Lk & _). cbn in Lk. discriminate. Qed.

Lemma linkerr_nothing_pending s r : link s <> None -> ~ pending (fst (step Fixed s LinkErr)) r.
Proof. intros L (p & i & t & Lk & _). cbn [step] in Lk. destruct (link s); [cbn in Lk; discriminate | congruence]. Qed.

(* ------------------------------------------------------------------ answers: longest prefix only *)
Lemma is_prefix_spec p d : is_prefix p d = true <-> exists rest, d = p ++ rest.
Proof.
  unfold is_prefix. rewrite andb_true_iff, zlist_eqb_spec. split.
  - intros [L E]. exists (skipn (length p) d). rewrite E at 1. symmetry. apply firstn_skipn.
  - intros [rest ->]. split.
    + apply Nat.leb_le. rewrite app_length. lia.
    + rewrite firstn_app, Nat.sub_diag, firstn_all. cbn [firstn]. rewrite app_nil_r. reflexivity.
Qed.

Lemma longest_match_spec d : forall ps best0,
  let best := longest_match d ps best0 in
  (best = best0 \/ (exists i, In (best, i) ps) /\ is_prefix best d = true) /\
  (length best0 <= length best)%nat /\
  (forall p i, In (p, i) ps -> is_prefix p d = true -> (length p <= length best)%nat).
Proof.
  induction ps as [|[q j] ps IH]; intros best0; cbn [longest_match].
  - split; [left; reflexivity|]. split; [lia | intros p i []].
  - destruct (is_prefix q d && (length best0 <=? length q)%nat) eqn:C.
    + apply andb_true_iff in C as [Pq Lq]. apply Nat.leb_le in Lq.
      destruct (IH q) as (A & B & M). split; [|split].
      * right. destruct A as [A|[[i A] A']].
        -- rewrite A. split; [exists j; left; reflexivity | exact Pq].
        -- split; [exists i; right; exact A | exact A'].
      * cbv zeta in B. lia.
      * intros p i [X|X] Pp; [injection X as -> ->; exact B | exact (M p i X Pp)].
    + destruct (IH best0) as (A & B & M). split; [|split].
      * destruct A as [A|[[i A] A']]; [left; exact A | right; split; [exists i; right; exact A | exact A']].
      * exact B.
      * intros p i [X|X] Pp; [|exact (M p i X Pp)]. injection X as -> ->. rewrite Pp in C. cbn [andb] in C.
        apply Nat.leb_gt in C. cbv zeta in B. lia.
Qed.

Theorem recv_longest_only v s hdr data :
  let d := hdr_attr hdr :: data in
  let best := longest_match d (pats s) [] in
  snd (step v s (Recv hdr data)) = [] /\
  (* the chosen pattern is a pending one, a prefix of header+data, and no pending prefix is longer *)
  (best <> [] -> (exists i, In (best, i) (pats s)) /\ (exists rest, d = best ++ rest)) /\
  (forall p i, In (p, i) (pats s) -> (exists rest, d = p ++ rest) -> (length p <= length best)%nat) /\
  (* effect: that pattern is forgotten and its timer cancelled; every other pattern and timer is untouched *)
  (link s <> None -> forall i, lookup best (pats s) = Some i -> best <> [] ->
     fst (step v s (Recv hdr data)) = set_pt s (remove_key best (pats s)) (cancel_t i (timers s))) /\
  (best = [] \/ link s = None -> fst (step v s (Recv hdr data)) = s).
Proof.
  intros d best. destruct (longest_match_spec d (pats s) []) as (A & _ & M). fold best in A, M.
  split; [|split; [|split; [|split]]].
  - cbn [step]. destruct (link s); [|reflexivity]. fold d. fold best. destruct best; [reflexivity|].
    destruct (lookup _ _); reflexivity.
  - intros N. destruct A as [A|[A A']]; [contradiction|]. split; [exact A | apply is_prefix_spec; exact A'].
  - intros p i I P. apply (M p i I). apply is_prefix_spec. exact P.
  - intros L i Lk N. cbn [step]. destruct (link s); [|congruence]. fold d. fold best.
    destruct best as [|b0 b1]; [congruence|]. rewrite Lk. reflexivity.
  - intros [E|L]; cbn [step].
    + destruct (link s); [|reflexivity]. fold d. fold best. rewrite E. reflexivity.
    + rewrite L. reflexivity.
Qed.

(* ------------------------------------------------------------------ retry while pending *)
Theorem send_starts_timer s rid hdr data exp x tmo sess :
  link s = Some sess -> nr s = true -> (length data <= 30)%nat ->
  let pat := hdr_attr hdr :: x :: exp in
  let s' := fst (step Fixed s (Send rid hdr data (x :: exp) tmo)) in
  snd (step Fixed s (Send rid hdr data (x :: exp) tmo)) = [OTx sess rid sess (now s)] /\
  lookup pat (pats s') = Some (length (timers s)) /\
  nth_error (timers s') (length (timers s)) =
    Some (mkTimer rid (hdr_attr hdr :: data) pat tmo (now s + tmo) Armed sess).
Proof.
  intros L N Sz pat s'. unfold s'. cbn [step].
  assert ((30 <? length data)%nat = false) as -> by (apply Nat.ltb_ge; exact Sz).
  rewrite L, N. cbn [fst snd]. split; [reflexivity|]. unfold start_timer. cbn [pats timers]. fold pat.
  set (ts1 := match lookup pat (pats s) with Some old => cancel_t old (timers s) | None => timers s end).
  assert (length ts1 = length (timers s)) as Len.
  { unfold ts1. destruct (lookup pat (pats s)); [apply upd_nth_length | reflexivity]. }
  rewrite lookup_set_key, zlist_eqb_refl, Len. split; [reflexivity|].
  rewrite nth_error_app2 by lia. rewrite Len, Nat.sub_diag. reflexivity.
Qed.

Theorem pending_is_retried s p i : Inv s -> lookup p (pats s) = Some i ->
  exists t sess, nth_error (timers s) i = Some t /\ t_pat t = p /\ link s = Some sess /\ t_orig t = sess /\
    (* the timer is waiting or has woken up *)
    (t_status t = Armed \/ t_status t = Committed) /\
    (* once due, nothing prevents it from waking up, and the pattern stays pending *)
    (t_status t = Armed -> t_deadline t <= now s ->
       let s' := fst (step Fixed s (Expire (Z.of_nat i))) in
       nth_error (timers s') i = Some (with_status t Committed) /\ pats s' = pats s /\ link s' = link s) /\
    (* when it runs, the request is transmitted on the open link and a timer with the same interval is started *)
    (t_status t = Committed ->
       let s' := fst (step Fixed s (RunT (Z.of_nat i))) in
       snd (step Fixed s (RunT (Z.of_nat i))) = [OTx sess (t_rid t) sess (now s)] /\
       lookup p (pats s') = Some (length (timers s)) /\
       nth_error (timers s') (length (timers s)) =
         Some (mkTimer (t_rid t) (t_pk t) p (t_tmo t) (now s + t_tmo t) Armed sess)).
Proof.
  intros I Lk. destruct (inv_pats s I p i Lk) as (t & sess & E & Ep & Lv & L & Eo).
  exists t, sess. split; [exact E|]. split; [exact Ep|]. split; [exact L|]. split; [exact Eo|]. split; [exact Lv|].
  split.
  - intros A D s'. unfold s'. cbn [step]. rewrite Nat2Z.id, E, A.
    assert ((0 <=? Z.of_nat i) && (t_deadline t <=? now s) = true) as -> by lia.
    cbn [fst timers pats link set_pt]. split; [|split; reflexivity].
    apply (upd_nth_same i (fun t0 => with_status t0 Committed)). exact E.
  - intros C s'. unfold s'. cbn [step]. rewrite Nat2Z.id, E, C.
    assert ((0 <=? Z.of_nat i) = true) as -> by lia.
    cbn [link set_pt pats]. rewrite L, Ep, Lk, Nat.eqb_refl. cbn [fst snd]. rewrite Eo.
    split; [reflexivity|]. unfold start_timer. cbn [pats timers set_pt]. rewrite Lk.
    rewrite lookup_set_key, zlist_eqb_refl. unfold cancel_t. rewrite !upd_nth_length. split; [reflexivity|].
    rewrite nth_error_app2 by (rewrite !upd_nth_length; lia). rewrite !upd_nth_length, Nat.sub_diag. reflexivity.
Qed.

(* ------------------------------------------------------------------ links that guarantee delivery *)
Definition reliable_ev (e : event) : Prop :=
  match e with Open n => n = false | SetNR b => b = false | _ => True end.

Definition no_retry_state (s : state) : Prop :=
  pats s = [] /\ timers s = [] /\ (link s <> None -> nr s = false).

Lemma reliable_step s e : no_retry_state s -> reliable_ev e ->
  no_retry_state (fst (step Fixed s e)) /\
  (forall o, In o (snd (step Fixed s e)) -> is_tx o -> exists r, is_send_of r e /\ snd (step Fixed s e) = [o] /\ tx_of r o) /\
  (length (snd (step Fixed s e)) <= 1)%nat.
Proof.
  intros S R. rewrite <- and_assoc. split; [|
    destruct e as [rid hdr data exp tmo|hdr data|n| | |b|dt|tid|tid]; cbn [step];
    repeat match goal with |- context [match ?x with _ => _ end] => destruct x end; cbn; lia].
  pose proof S as (P & T & N).
  destruct e as [rid hdr data exp tmo|hdr data|n| | |b|dt|tid|tid]; cbn [step].
  - destruct (30 <? length data)%nat; cbn [fst snd].
    + split; [exact S|]. intros o [<-|[]] [].
    + destruct (link s) as [se|] eqn:L; cbn [fst snd].
      * assert (nr s = false) as Nr by (apply N; congruence). rewrite Nr.
        assert ((match exp with [] => (s, [OTx se rid se (now s)]) | _ :: _ => (s, [OTx se rid se (now s)]) end)
                = (s, [OTx se rid se (now s)])) as -> by (destruct exp; reflexivity).
        cbn [fst snd]. split; [exact S|].
        intros o [<-|[]] _. exists rid. cbn. auto.
      * split; [exact S|]. intros o [].
  - destruct (link s); cbn [fst snd]; [|split; [exact S | intros o []]].
    rewrite P. cbn [longest_match fst snd]. split; [exact S | intros o []].
  - destruct (link s) eqn:L; cbn [fst snd]; (split; [|intros o []]); [exact S|].
    split; [exact P|]. split; [exact T|]. intros _. exact R.
  - cbn [fst snd forget_answers]. split; [|intros o []]. unfold no_retry_state.
    cbn [pats timers link nr set_pt set_link]. rewrite P, T.
    split; [reflexivity|]. split; [reflexivity|]. congruence.
  - destruct (link s) eqn:L; cbn [fst snd forget_answers]; (split; [|intros o []]); [|exact S].
    unfold no_retry_state. cbn [pats timers link nr set_pt set_link]. rewrite P, T.
    split; [reflexivity|]. split; [reflexivity|]. congruence.
  - destruct (link s) eqn:L; cbn [fst snd]; (split; [|intros o []]); [|exact S].
    split; [exact P|]. split; [exact T|]. intros _. exact R.
  - cbn [fst snd]. split; [|intros o []]. split; [exact P|]. split; [exact T|]. exact N.
  - rewrite T. destruct (Z.to_nat tid); cbn [nth_error fst snd]; (split; [exact S | intros o []]).
  - rewrite T. destruct (Z.to_nat tid); cbn [nth_error fst snd]; (split; [exact S | intros o []]).
Qed.

Theorem reliable_link_no_retry : forall evs s, no_retry_state s -> Forall reliable_ev evs ->
  no_retry_state (fst (run Fixed s evs)) /\
  (* every transmission is the single one made by a Send event: as many transmissions as sends on an open link *)
  (length (filter (fun o => match o with OTx _ _ _ _ => true | _ => false end) (snd (run Fixed s evs))) <=
   length (filter (fun e => match e with Send _ _ _ _ _ => true | _ => false end) evs))%nat.
Proof.
  induction evs as [|e evs IH]; intros s S R; cbn [run].
  - split; [exact S | cbn; lia].
  - inversion R as [|? ? Re R']; subst. destruct (reliable_step s e S Re) as (S1 & O1 & O1len).
    destruct (step Fixed s e) as [s1 o1]. cbn [fst snd] in *.
    destruct (IH s1 S1 R') as [S2 C]. destruct (run Fixed s1 evs) as [s2 o2]. cbn [fst snd] in *.
    split; [exact S2|]. rewrite filter_app, app_length. cbn [filter].
    assert (length (filter (fun o => match o with OTx _ _ _ _ => true | _ => false end) o1) <=
            (if match e with Send _ _ _ _ _ => true | _ => false end then 1 else 0))%nat as B.
    { destruct o1 as [|o [|o' o1']]; [cbn; lia | | cbn [length] in O1len; lia].
      destruct o as [sess r orig t|r t]; [|cbn; lia].
      destruct (O1 (OTx sess r orig t) (or_introl eq_refl) Logic.I) as (r' & Se & _).
      destruct e; cbn in Se; try contradiction. cbn. lia. }
    destruct (match e with Send _ _ _ _ _ => true | _ => false end); cbn [length]; lia.
Qed.
