(* C10/Examples.v — concrete runs: the defects F10 of the code before the fix (variant Legacy), the
   same event lists on the fixed code, and non-trivial reachable states for the theorems. *)
From CF Require Import Common.Bytes C10.Model C10.Proofs.
Open Scope Z_scope.

Definition txs (r : state * list output) : list (Z * Z * Z * Z) :=
  concat (map (fun o => match o with OTx a b c d => [(a, b, c, d)] | _ => [] end) (snd r)).

(* F10a: request 0 of session 0 is transmitted on the link of session 1 (close_link forgets the
   pattern but leaves the timer running; the retry transmits although the pattern is gone) *)
Definition ev_cross : list event :=
  [Open true; Send 0 144 [1; 2] [1] 200; Close; Open true; Adv 200; Expire 0; RunT 0].
Example legacy_cross_session : txs (run Legacy init ev_cross) = [(0, 0, 0, 0); (1, 0, 0, 200)].
Proof. vm_compute. reflexivity. Qed.
Example fixed_no_cross_session : txs (run Fixed init ev_cross) = [(0, 0, 0, 0)].
Proof. vm_compute. reflexivity. Qed.

(* F10b: the same pattern sent again while pending orphans the first timer; after the answer the
   orphan still transmits request 0 *)
Definition ev_orphan : list event :=
  [Open true; Send 0 144 [1; 2] [1] 200; Adv 50; Send 1 144 [1; 3] [1] 200; Adv 100; Recv 144 [1; 7];
   Adv 1000; Expire 0; RunT 0; Expire 1; RunT 1].
Example legacy_retransmits_after_answer :
  txs (run Legacy init ev_orphan) = [(0, 0, 0, 0); (0, 1, 0, 50); (0, 0, 0, 1150)].
Proof. vm_compute. reflexivity. Qed.
Example fixed_silent_after_answer : txs (run Fixed init ev_orphan) = [(0, 0, 0, 0); (0, 1, 0, 50)].
Proof. vm_compute. reflexivity. Qed.

(* F10c: a timer that has woken up and then loses the race against the answer (it waits for the send
   lock) still transmits in the old code *)
Definition ev_race : list event :=
  [Open true; Send 0 144 [1; 2] [1] 200; Adv 200; Expire 0; Recv 144 [1; 7]; RunT 0].
Example legacy_late_timer_transmits : txs (run Legacy init ev_race) = [(0, 0, 0, 0); (0, 0, 0, 200)].
Proof. vm_compute. reflexivity. Qed.
Example fixed_late_timer_silent : txs (run Fixed init ev_race) = [(0, 0, 0, 0)].
Proof. vm_compute. reflexivity. Qed.

(* F10d: a request sent with timeout 1000 ms is retried after 1000 ms and then every 200 ms *)
Definition ev_tmo : list event :=
  [Open true; Send 0 144 [1; 2] [1] 1000; Adv 1000; Expire 0; RunT 0; Adv 200; Expire 1; RunT 1].
Example legacy_retry_interval_is_default : txs (run Legacy init ev_tmo) = [(0, 0, 0, 0); (0, 0, 0, 1000); (0, 0, 0, 1200)].
Proof. vm_compute. reflexivity. Qed.
Example fixed_retry_interval_is_timeout : txs (run Fixed init ev_tmo) = [(0, 0, 0, 0); (0, 0, 0, 1000)].
Proof. vm_compute. reflexivity. Qed.

(* ---- non-vacuity: a reachable state with two pending patterns sharing a prefix, one armed and one
   woken-up timer; the answer (156,1,2,9) stops only the longer pattern *)
Definition ev_two : list event :=
  [Open true; Send 0 144 [5] [1] 100; Send 1 144 [6] [1; 2] 200; Adv 100; Expire 0].
Definition s_two : state := fst (run Fixed init ev_two).
Example s_two_pending : pats s_two = [([156; 1], 0%nat); ([156; 1; 2], 1%nat)] /\
  map t_status (timers s_two) = [Committed; Armed] /\ link s_two = Some 0.
Proof. vm_compute. auto. Qed.
Example s_two_inv : Inv s_two.
Proof. apply inv_run. exact inv_init. Qed.
Example s_two_answer : pats (fst (step Fixed s_two (Recv 144 [1; 2; 9]))) = [([156; 1], 0%nat)] /\
  map t_status (timers (fst (step Fixed s_two (Recv 144 [1; 2; 9])))) = [Committed; Cancelled].
Proof. vm_compute. auto. Qed.
Example s_two_retry : snd (step Fixed s_two (RunT 0)) = [OTx 0 0 0 100] /\
  map t_status (timers (fst (step Fixed s_two (RunT 0)))) = [Done; Armed; Armed].
Proof. vm_compute. auto. Qed.

(* ---- order of the answer check and the dispatch to handlers (seeded/C10-e): the reply (144,1,9) to request 0
   arrives and its handler sends request 1 with the same pattern.  Right order (the code): check, then handler —
   request 1 keeps its timer and is retried.  Wrong order: the reply to request 0 cancels the timer of request 1. *)
Definition ev_handler_right : list event :=
  [Open true; Send 0 144 [5] [1] 100; Adv 30; Recv 144 [1; 9]; Send 1 144 [6] [1] 100; Adv 100; Expire 1; RunT 1].
Definition ev_handler_wrong : list event :=
  [Open true; Send 0 144 [5] [1] 100; Adv 30; Send 1 144 [6] [1] 100; Recv 144 [1; 9]; Adv 100; Expire 1; RunT 1].
Example handler_request_is_retried : txs (run Fixed init ev_handler_right) = [(0, 0, 0, 0); (0, 1, 0, 30); (0, 1, 0, 130)].
Proof. vm_compute. reflexivity. Qed.
Example late_answer_check_cancels_follow_up : txs (run Fixed init ev_handler_wrong) = [(0, 0, 0, 0); (0, 1, 0, 30)] /\
  pats (fst (run Fixed init ev_handler_wrong)) = [].
Proof. vm_compute. auto. Qed.
