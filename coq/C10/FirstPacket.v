(* C10/FirstPacket.v — the packet_received callbacks and the first packet of a session.
   Crazyflie.__init__ registers _check_for_initial_packet_cb immediately before _check_for_answers; the former removes
   itself from the list while it is being called for the first packet of a session; open_link re-adds it (at the end, or
   not at all when it is still registered).  Caller.call iterates over a COPY of the list (variant CopyIter = the code):
   every callback registered when the packet arrives is called, in particular the answer check, for every packet incl. the
   first of a session.  Variant LiveIter = the seeded change C10-n (iteration over the live list): refuted. *)
From CF Require Import Common.Bytes.
Open Scope Z_scope.

Inductive pcb :=
| CbInitial          (* _check_for_initial_packet_cb: link_established, then removes itself *)
| CbCheck            (* _check_for_answers *)
| CbOther (k : Z).   (* any other listener (does not touch the list) *)

Definition pcb_eqb (a b : pcb) : bool :=
  match a, b with
  | CbInitial, CbInitial | CbCheck, CbCheck => true
  | CbOther x, CbOther y => x =? y
  | _, _ => false
  end.

Fixpoint remove_first (c : pcb) (l : list pcb) : list pcb :=
  match l with
  | [] => []
  | x :: l' => if pcb_eqb x c then l' else x :: remove_first c l'
  end.

(* what calling one callback does to the list *)
Definition effect (c : pcb) (l : list pcb) : list pcb :=
  match c with CbInitial => remove_first CbInitial l | _ => l end.

(* Caller.call over a copy: returns (callbacks called in order, list afterwards) *)
Fixpoint call_copy (snap : list pcb) (l : list pcb) : list pcb * list pcb :=
  match snap with
  | [] => ([], l)
  | c :: rest => let (called, l') := call_copy rest (effect c l) in (c :: called, l')
  end.

(* Caller.call over the live list: index advances by one per call and reads the current list *)
Fixpoint call_live (fuel : nat) (idx : nat) (l : list pcb) : list pcb * list pcb :=
  match fuel with
  | O => ([], l)
  | S f => match nth_error l idx with
           | None => ([], l)
           | Some c => let (called, l') := call_live f (S idx) (effect c l) in (c :: called, l')
           end
  end.

Inductive iterv := CopyIter | LiveIter.
Definition dispatch_all (v : iterv) (l : list pcb) : list pcb * list pcb :=
  match v with CopyIter => call_copy l l | LiveIter => call_live (S (length l)) 0 l end.

(* packet_received.add_callback: no duplicates (open_link re-adds the initial-packet callback) *)
Definition add_cb (c : pcb) (l : list pcb) : list pcb := if existsb (pcb_eqb c) l then l else l ++ [c].

(* every callback registered when the packet arrives is called, once, in order — whatever removes itself meanwhile *)
Theorem copy_calls_all : forall snap l, fst (call_copy snap l) = snap.
Proof.
  induction snap as [|c rest IH]; intros l; cbn [call_copy]; [reflexivity|].
  specialize (IH (effect c l)). destruct (call_copy rest (effect c l)) as [called l']. cbn [fst] in *. congruence.
Qed.

Theorem answer_check_sees_every_packet l : In CbCheck l -> In CbCheck (fst (dispatch_all CopyIter l)).
Proof. intros H. cbn [dispatch_all]. rewrite copy_calls_all. exact H. Qed.

(* the lists that occur: a new Crazyflie object ([initial; check] + listeners), after the first packet (initial removed),
   after open_link re-added it: in each the answer check is called for the packet *)
Definition new_object (others : list pcb) : list pcb := CbInitial :: CbCheck :: others.

Theorem first_packet_of_first_session (listeners : list pcb) (others : list Z) :
  In CbCheck (fst (dispatch_all CopyIter (new_object listeners))) /\
  ~ In CbInitial (snd (dispatch_all CopyIter (new_object (map CbOther others)))).
Proof.
  split; [apply answer_check_sees_every_packet; right; left; reflexivity|].
  assert (forall snap l, (forall c, In c snap -> c <> CbInitial) -> snd (call_copy snap l) = l) as Keep.
  { induction snap as [|c rest IH]; intros l H; cbn [call_copy]; [reflexivity|].
    assert (effect c l = l) as E by (destruct c; [exfalso; apply (H CbInitial); [left|]; reflexivity | reflexivity | reflexivity]).
    rewrite E. specialize (IH l (fun c' I => H c' (or_intror I))). destruct (call_copy rest l) as [called l']. exact IH. }
  assert (snd (dispatch_all CopyIter (new_object (map CbOther others))) = CbCheck :: map CbOther others) as ->.
  { unfold dispatch_all, new_object.
    assert (forall c rest l, snd (call_copy (c :: rest) l) = snd (call_copy rest (effect c l))) as Cons
      by (intros c rest l; cbn [call_copy]; destruct (call_copy rest (effect c l)); reflexivity).
    rewrite Cons. cbn [effect remove_first pcb_eqb]. apply Keep.
    intros c [<-|I]; [discriminate|]. apply in_map_iff in I as (k & <- & _). discriminate. }
  intros X. apply in_inv in X. destruct X as [X|X]; [discriminate|]. apply in_map_iff in X as (k & X & _). discriminate.
Qed.

(* refutation for live iteration: on a new object the first packet is not seen by the answer check *)
Example live_iteration_skips_answer_check :
  fst (dispatch_all LiveIter (new_object [CbOther 1])) = [CbInitial; CbOther 1] /\
  fst (dispatch_all CopyIter (new_object [CbOther 1])) = [CbInitial; CbCheck; CbOther 1] /\
  (* a later session of the same object (initial re-added at the end) hides the defect *)
  fst (dispatch_all LiveIter (add_cb CbInitial [CbCheck; CbOther 1])) = [CbCheck; CbOther 1; CbInitial].
Proof. vm_compute. auto. Qed.
