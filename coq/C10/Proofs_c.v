(* C10/Proofs_c.v — timers that are not the pending timer of their pattern ("stale": replaced, answered,
   forgotten by close_link/link error) cannot be observed: whatever their status (left armed, woken up,
   cancelled, done), every continuation transmits exactly the same.  This is why it is immaterial for the
   property whether the code cancels them, and why the correspondence step compares the status of
   pending timers only. *)
From CF Require Import Common.Bytes C10.Model C10.Proofs.
From Coq Require Import ZifyBool.
Open Scope Z_scope.

(* ---- a stale timer runs silently (any state, no invariant needed) *)
Theorem stale_timer_silent s tid t :
  nth_error (timers s) (Z.to_nat tid) = Some t ->
  lookup (t_pat t) (pats s) <> Some (Z.to_nat tid) ->
  let r := step Fixed s (RunT tid) in
  snd r = [] /\ pats (fst r) = pats s /\ link (fst r) = link s /\ nr (fst r) = nr s /\ now (fst r) = now s /\
  length (timers (fst r)) = length (timers s) /\
  (forall j, j <> Z.to_nat tid -> nth_error (timers (fst r)) j = nth_error (timers s) j).
Proof.
  intros E N. cbn [step]. rewrite E.
  assert (forall x : state * list output, x = (s, []) ->
            snd x = [] /\ pats (fst x) = pats s /\ link (fst x) = link s /\ nr (fst x) = nr s /\ now (fst x) = now s /\
            length (timers (fst x)) = length (timers s) /\
            (forall j, j <> Z.to_nat tid -> nth_error (timers (fst x)) j = nth_error (timers s) j)) as Same.
  { intros x ->. cbn. repeat split; reflexivity. }
  destruct (t_status t); try (apply Same; reflexivity).
  destruct (0 <=? tid); [|apply Same; reflexivity].
  cbn [link set_pt pats].
  assert (forall x : state * list output,
            x = (set_pt s (pats s) (upd_nth (Z.to_nat tid) (fun t0 => with_status t0 Done) (timers s)), []) ->
            snd x = [] /\ pats (fst x) = pats s /\ link (fst x) = link s /\ nr (fst x) = nr s /\ now (fst x) = now s /\
            length (timers (fst x)) = length (timers s) /\
            (forall j, j <> Z.to_nat tid -> nth_error (timers (fst x)) j = nth_error (timers s) j)) as Done1.
  { intros x ->. cbn [fst snd set_pt pats link nr now timers]. repeat split; try reflexivity.
    - apply upd_nth_length.
    - intros j Nj. apply upd_nth_other. exact Nj. }
  destruct (link s); [|apply Done1; reflexivity].
  destruct (lookup (t_pat t) (pats s)) as [c|] eqn:Lk; [|apply Done1; reflexivity].
  destruct (c =? Z.to_nat tid)%nat eqn:Q; [|apply Done1; reflexivity].
  apply Nat.eqb_eq in Q. subst c. contradiction.
Qed.

(* ---- states that differ only in the status of stale timers *)
Definition sbs (t t' : timer) : Prop := with_status t Armed = with_status t' Armed.

Lemma sbs_refl t : sbs t t. Proof. reflexivity. Qed.
Lemma sbs_sym t t' : sbs t t' -> sbs t' t. Proof. unfold sbs. congruence. Qed.
Lemma sbs_trans a b c : sbs a b -> sbs b c -> sbs a c. Proof. unfold sbs. congruence. Qed.
Lemma sbs_with_status t st : sbs t (with_status t st). Proof. reflexivity. Qed.
Lemma sbs_cancel1 t : sbs t (cancel1 t).
Proof. unfold cancel1. destruct (t_status t); reflexivity. Qed.
Lemma sbs_pat t t' : sbs t t' -> t_pat t' = t_pat t.
Proof. unfold sbs, with_status. intros H. injection H. congruence. Qed.

Record sim (s s' : state) : Prop := mkSim {
  sim_link : link s' = link s;
  sim_nr : nr s' = nr s;
  sim_nsess : nsess s' = nsess s;
  sim_pats : pats s' = pats s;
  sim_now : now s' = now s;
  sim_len : length (timers s') = length (timers s);
  sim_t : forall i t t', nth_error (timers s) i = Some t -> nth_error (timers s') i = Some t' ->
          t' = t \/ (sbs t t' /\ lookup (t_pat t) (pats s) <> Some i)
}.

Lemma sim_refl s : sim s s.
Proof. split; try reflexivity. intros i t t' H H'. left. congruence. Qed.

Lemma nth_both {A} (l l' : list A) i x : length l' = length l -> nth_error l i = Some x -> exists y, nth_error l' i = Some y.
Proof.
  intros Len H. destruct (nth_error l' i) eqn:E; [eauto|]. apply nth_error_None in E.
  assert (i < length l)%nat by (apply nth_error_Some; congruence). lia.
Qed.

(* the timer of a pending pattern is the same on both sides *)
Lemma sim_pending s s' p i : Inv s -> sim s s' -> lookup p (pats s) = Some i ->
  nth_error (timers s') i = nth_error (timers s) i.
Proof.
  intros I S Lk. destruct (inv_pats s I p i Lk) as (t & _ & E & Ep & _).
  destruct (nth_both _ (timers s') i t (sim_len s s' S) E) as (t' & E').
  destruct (sim_t s s' S i t t' E E') as [->|[_ N]]; [congruence|]. rewrite Ep in N. contradiction.
Qed.

(* pointwise description of upd_nth *)
Lemma upd_nth_nth i f l j : nth_error (upd_nth i f l) j =
  if Nat.eqb j i then option_map f (nth_error l j) else nth_error l j.
Proof.
  destruct (Nat.eqb j i) eqn:Q.
  - apply Nat.eqb_eq in Q. subst j. destruct (nth_error l i) eqn:E.
    + cbn. apply upd_nth_same. exact E.
    + cbn. apply nth_error_None. rewrite upd_nth_length. apply nth_error_None. exact E.
  - apply Nat.eqb_neq in Q. apply upd_nth_other. exact Q.
Qed.

Lemma upd_nth_id i : forall l, upd_nth i (fun t => t) l = l.
Proof. induction i as [|i IH]; intros [|x l]; cbn [upd_nth]; try reflexivity. f_equal. apply IH. Qed.

Lemma set_pt_id s : set_pt s (pats s) (timers s) = s.
Proof. destruct s. reflexivity. Qed.

Lemma cancel_all_sbs ps : forall l j u, nth_error (cancel_all ps l) j = Some u ->
  exists t, nth_error l j = Some t /\ sbs t u.
Proof.
  induction ps as [|[p i] ps IH]; intros l j u H; cbn [cancel_all] in H.
  - exists u. split; [exact H | apply sbs_refl].
  - apply IH in H as (t1 & E1 & S1). unfold cancel_t in E1. apply upd_nth_inv in E1 as (t & E & [[_ ->]|[_ ->]]).
    + exists t. auto.
    + exists t. split; [exact E|]. eapply sbs_trans; [apply sbs_cancel1 | exact S1].
Qed.

(* cancel_all acts the same on timers that are equal *)
Lemma cancel_all_eq ps : forall l l' j, nth_error l' j = nth_error l j ->
  length l' = length l -> nth_error (cancel_all ps l') j = nth_error (cancel_all ps l) j.
Proof.
  induction ps as [|[p i] ps IH]; intros l l' j H Len; cbn [cancel_all]; [exact H|].
  apply IH; [|unfold cancel_t; rewrite !upd_nth_length; exact Len].
  unfold cancel_t. rewrite !upd_nth_nth. destruct (Nat.eqb j i); [rewrite H; reflexivity | exact H].
Qed.

Lemma sim_start_timer s s' rid pk pat tmo orig :
  sim s s' -> NoDup (map fst (pats s)) ->
  (forall p i, lookup p (pats s) = Some i -> (i < length (timers s))%nat) ->
  (forall old, lookup pat (pats s) = Some old -> nth_error (timers s') old = nth_error (timers s) old) ->
  sim (start_timer Fixed s rid pk pat tmo orig) (start_timer Fixed s' rid pk pat tmo orig).
Proof.
  intros S K Bound Old. unfold start_timer. rewrite (sim_pats s s' S), (sim_now s s' S).
  set (ts1 := match lookup pat (pats s) with Some old => cancel_t old (timers s) | None => timers s end).
  set (ts1' := match lookup pat (pats s) with Some old => cancel_t old (timers s') | None => timers s' end).
  assert (length ts1 = length (timers s)) as Len1.
  { unfold ts1. destruct (lookup pat (pats s)); [apply upd_nth_length | reflexivity]. }
  assert (length ts1' = length (timers s)) as Len1'.
  { unfold ts1'. destruct (lookup pat (pats s)); [unfold cancel_t; rewrite upd_nth_length|]; apply (sim_len s s' S). }
  split; cbn [link nr nsess pats now timers].
  - apply (sim_link s s' S).
  - apply (sim_nr s s' S).
  - apply (sim_nsess s s' S).
  - rewrite Len1, Len1'. reflexivity.
  - reflexivity.
  - rewrite !app_length, Len1, Len1'. reflexivity.
  - rewrite Len1. intros j u u' H H'.
    destruct (Nat.lt_ge_cases j (length (timers s))) as [Lt|Ge].
    + rewrite nth_error_app1 in H by lia. rewrite nth_error_app1 in H' by lia.
      assert (lookup (t_pat u) (set_key pat (length (timers s)) (pats s)) <> Some j \/ True) as _ by (right; exact Logic.I).
      unfold ts1 in H. unfold ts1' in H'. destruct (lookup pat (pats s)) as [old|] eqn:Lk.
      * unfold cancel_t in H, H'. rewrite upd_nth_nth in H, H'. destruct (Nat.eqb j old) eqn:Q.
        -- apply Nat.eqb_eq in Q. subst j. rewrite (Old old eq_refl) in H'. left. congruence.
        -- destruct (sim_t s s' S j u u' H H') as [->|[Sb N]]; [left; reflexivity|]. right. split; [exact Sb|].
           rewrite lookup_set_key. destruct (zlist_eqb pat (t_pat u)); [intros X; injection X as X; lia | exact N].
      * destruct (sim_t s s' S j u u' H H') as [->|[Sb N]]; [left; reflexivity|]. right. split; [exact Sb|].
        rewrite lookup_set_key. destruct (zlist_eqb pat (t_pat u)); [intros X; injection X as X; lia | exact N].
    + rewrite nth_error_app2 in H by lia. rewrite nth_error_app2 in H' by lia.
      rewrite Len1 in H. rewrite Len1' in H'. left. congruence.
Qed.

Ltac fld S := first [reflexivity | assumption | apply (sim_link _ _ S) | apply (sim_nr _ _ S) | apply (sim_nsess _ _ S) |
                      apply (sim_pats _ _ S) | apply (sim_now _ _ S) | congruence].

Theorem sim_step s s' e : Inv s -> sim s s' ->
  snd (step Fixed s' e) = snd (step Fixed s e) /\ sim (fst (step Fixed s e)) (fst (step Fixed s' e)).
Proof.
  intros I S. pose proof (sim_link s s' S) as EL. pose proof (sim_nr s s' S) as EN.
  pose proof (sim_nsess s s' S) as ES. pose proof (sim_pats s s' S) as EP. pose proof (sim_now s s' S) as EW.
  destruct e as [rid hdr data exp tmo|hdr data|n| | |b|dt|tid|tid]; cbn [step]; rewrite ?EL, ?EN, ?ES, ?EP, ?EW.
  - (* Send *)
    destruct (30 <? length data)%nat; [split; [reflexivity | exact S]|].
    destruct (link s) as [se|]; [|split; [reflexivity | exact S]].
    destruct exp as [|x exp]; [split; [reflexivity | exact S]|].
    destruct (nr s); [|split; [reflexivity | exact S]]. cbn [fst snd]. split; [reflexivity|].
    apply sim_start_timer; [exact S | exact (inv_keys s I) | exact (inv_bound s I)|].
    intros old H. eapply sim_pending; eauto.
  - (* Recv *)
    destruct (link s); [|split; [reflexivity | exact S]].
    destruct (longest_match (hdr_attr hdr :: data) (pats s) []) as [|b0 best]; [split; [reflexivity | exact S]|].
    remember (b0 :: best) as bp eqn:Hbp. clear Hbp.
    destruct (lookup bp (pats s)) as [i|] eqn:Lk; [|split; [reflexivity | exact S]]. cbn [fst snd]. split; [reflexivity|].
    apply mkSim; cbn [link nr nsess pats now timers set_pt]; [fld S | fld S | fld S | fld S | fld S | |].
    + unfold cancel_t. rewrite !upd_nth_length. apply (sim_len s s' S).
    + intros j u u' H H'. unfold cancel_t in H, H'. rewrite upd_nth_nth in H, H'.
      destruct (Nat.eqb j i) eqn:Q.
      * apply Nat.eqb_eq in Q. subst j. rewrite (sim_pending s s' bp i I S Lk) in H'. left. congruence.
      * destruct (sim_t s s' S j u u' H H') as [->|[Sb N]]; [left; reflexivity|]. right. split; [exact Sb|].
        rewrite lookup_remove_key by exact (inv_keys s I). destruct (zlist_eqb bp (t_pat u)); [discriminate | exact N].
  - (* Open *)
    destruct (link s); [split; [reflexivity | exact S]|]. cbn [fst snd]. split; [reflexivity|].
    apply mkSim; cbn [link nr nsess pats now timers set_link]; [fld S | fld S | fld S | fld S | fld S | |].
    + apply (sim_len s s' S).
    + apply (sim_t s s' S).
  - (* Close *)
    cbn [fst snd forget_answers]. split; [reflexivity|].
    apply mkSim; cbn [link nr nsess pats now timers set_link set_pt]; [fld S | fld S | fld S | fld S | fld S | |].
    + rewrite !cancel_all_length. apply (sim_len s s' S).
    + rewrite EP. intros j u u' H H'. apply cancel_all_sbs in H as (t & E & Sb). apply cancel_all_sbs in H' as (t' & E' & Sb').
      destruct (sim_t s s' S j t t' E E') as [->|[Sb0 _]].
      * (* equal before: equal after *)
        right. split; [eapply sbs_trans; [apply sbs_sym; exact Sb | exact Sb'] | cbn; discriminate].
      * right. split; [|cbn; discriminate]. eapply sbs_trans; [apply sbs_sym; exact Sb|]. eapply sbs_trans; [exact Sb0 | exact Sb'].
  - (* LinkErr *)
    destruct (link s); [|split; [reflexivity | exact S]]. cbn [fst snd forget_answers]. split; [reflexivity|].
    apply mkSim; cbn [link nr nsess pats now timers set_link set_pt]; [fld S | fld S | fld S | fld S | fld S | |].
    + rewrite !cancel_all_length. apply (sim_len s s' S).
    + rewrite EP. intros j u u' H H'. apply cancel_all_sbs in H as (t & E & Sb). apply cancel_all_sbs in H' as (t' & E' & Sb').
      destruct (sim_t s s' S j t t' E E') as [->|[Sb0 _]].
      * right. split; [eapply sbs_trans; [apply sbs_sym; exact Sb | exact Sb'] | cbn; discriminate].
      * right. split; [|cbn; discriminate]. eapply sbs_trans; [apply sbs_sym; exact Sb|]. eapply sbs_trans; [exact Sb0 | exact Sb'].
  - (* SetNR *)
    destruct (link s) eqn:L; [|split; [reflexivity | exact S]]. cbn [fst snd]. split; [reflexivity|].
    apply mkSim; cbn [link nr nsess pats now timers set_link]; [fld S | fld S | fld S | fld S | fld S | |].
    + apply (sim_len s s' S).
    + apply (sim_t s s' S).
  - (* Adv *)
    cbn [fst snd]. split; [reflexivity|].
    apply mkSim; cbn [link nr nsess pats now timers]; [fld S | fld S | fld S | fld S | fld S | |].
    + apply (sim_len s s' S).
    + apply (sim_t s s' S).
  - (* Expire *)
    set (i := Z.to_nat tid).
    assert (forall (x x' : state * list output), x = (s, []) -> x' = (s', []) -> snd x' = snd x /\ sim (fst x) (fst x')) as Same
      by (intros x x' -> ->; split; [reflexivity | exact S]).
    assert (forall f f' : timer -> timer, (forall t, sbs t (f t)) -> (forall t, sbs t (f' t)) ->
              ((forall t, f' t = f t) \/
               (forall t, nth_error (timers s) i = Some t -> lookup (t_pat t) (pats s) <> Some i)) ->
              sim (set_pt s (pats s) (upd_nth i f (timers s))) (set_pt s' (pats s) (upd_nth i f' (timers s')))) as Upd.
    { intros f f' Hf Hf' Alt. apply mkSim; cbn [link nr nsess pats now timers set_pt]; [fld S | fld S | fld S | fld S | fld S | |].
      - rewrite !upd_nth_length. apply (sim_len s s' S).
      - intros j u u' H H'. rewrite upd_nth_nth in H, H'. destruct (Nat.eqb j i) eqn:Q.
        + apply Nat.eqb_eq in Q. subst j. destruct (nth_error (timers s) i) as [t|] eqn:E; [|discriminate].
          destruct (nth_error (timers s') i) as [t'|] eqn:E'; [|discriminate]. cbn in H, H'. injection H as <-. injection H' as <-.
          assert (sbs (f t) (f' t') /\ (lookup (t_pat t) (pats s) <> Some i -> lookup (t_pat (f t)) (pats s) <> Some i)) as [Sb2 N2].
          { split.
            - eapply sbs_trans; [apply sbs_sym; apply Hf|]. eapply sbs_trans; [|apply Hf'].
              destruct (sim_t s s' S i t t' E E') as [->|[Sb _]]; [apply sbs_refl | exact Sb].
            - rewrite (sbs_pat _ _ (Hf t)). auto. }
          destruct Alt as [Eq|St].
          * destruct (sim_t s s' S i t t' E E') as [->|[Sb N]]; [left; apply Eq | right; auto].
          * right. split; [exact Sb2 | apply N2; apply St; reflexivity].
        + exact (sim_t s s' S j u u' H H'). }
    destruct (nth_error (timers s) i) as [t|] eqn:E.
    + destruct (nth_both _ (timers s') i t (sim_len s s' S) E) as (t' & E'). rewrite E'.
      destruct (sim_t s s' S i t t' E E') as [->|[Sb N]].
      * destruct (t_status t); try (apply Same; reflexivity).
        destruct ((0 <=? tid) && (t_deadline t <=? now s)); [|apply Same; reflexivity].
        cbn [fst snd]. split; [reflexivity|]. apply Upd; [intros; apply sbs_with_status | intros; apply sbs_with_status | left; reflexivity].
      * (* stale timer: each side moves on its own, nothing is emitted *)
        assert (t_deadline t' = t_deadline t) as Ed by (unfold sbs, with_status in Sb; injection Sb; congruence).
        rewrite Ed.
        assert (forall st st' : bool,
                  snd (if st' then (set_pt s' (pats s) (upd_nth i (fun t0 => with_status t0 Committed) (timers s')), @nil output) else (s', [])) =
                  snd (if st then (set_pt s (pats s) (upd_nth i (fun t0 => with_status t0 Committed) (timers s)), @nil output) else (s, [])) /\
                  sim (fst (if st then (set_pt s (pats s) (upd_nth i (fun t0 => with_status t0 Committed) (timers s)), @nil output) else (s, [])))
                      (fst (if st' then (set_pt s' (pats s) (upd_nth i (fun t0 => with_status t0 Committed) (timers s')), @nil output) else (s', [])))) as Four.
        { assert (set_pt s (pats s) (upd_nth i (fun t0 => t0) (timers s)) = s) as Id
            by (rewrite upd_nth_id; apply set_pt_id).
          assert (set_pt s' (pats s) (upd_nth i (fun t0 => t0) (timers s')) = s') as Id'
            by (rewrite upd_nth_id, <- EP; apply set_pt_id).
          assert (forall t0, nth_error (timers s) i = Some t0 -> lookup (t_pat t0) (pats s) <> Some i) as St
            by (intros t0 E0; assert (t0 = t) by congruence; subst; exact N).
          intros [|] [|]; cbn [fst snd]; (split; [reflexivity|]).
          - apply Upd; [intros; apply sbs_with_status | intros; apply sbs_with_status | right; intros t0 E0; apply St; congruence].
          - rewrite <- Id'. apply Upd; [intros; apply sbs_with_status | intros; apply sbs_refl | right; intros t0 E0; apply St; congruence].
          - rewrite <- Id at 1. apply Upd; [intros; apply sbs_refl | intros; apply sbs_with_status | right; intros t0 E0; apply St; congruence].
          - exact S. }
        destruct (t_status t), (t_status t'); try (apply Same; reflexivity);
          try (apply (Four true true)); try (apply (Four false false));
          destruct ((0 <=? tid) && (t_deadline t <=? now s));
          try (apply (Four true true)); try (apply (Four false false));
          try (apply (Four true false)); try (apply (Four false true)).
    + assert (nth_error (timers s') i = None) as -> by (apply nth_error_None; rewrite (sim_len s s' S); apply nth_error_None; exact E).
      apply Same; reflexivity.
  - (* RunT *)
    set (i := Z.to_nat tid).
    assert (forall (x x' : state * list output), x = (s, []) -> x' = (s', []) -> snd x' = snd x /\ sim (fst x) (fst x')) as Same
      by (intros x x' -> ->; split; [reflexivity | exact S]).
    assert (forall f f' : timer -> timer, (forall t, sbs t (f t)) -> (forall t, sbs t (f' t)) ->
              ((forall t, f' t = f t) \/
               (forall t, nth_error (timers s) i = Some t -> lookup (t_pat t) (pats s) <> Some i)) ->
              sim (set_pt s (pats s) (upd_nth i f (timers s))) (set_pt s' (pats s) (upd_nth i f' (timers s')))) as Upd.
    { intros f f' Hf Hf' Alt. apply mkSim; cbn [link nr nsess pats now timers set_pt]; [fld S | fld S | fld S | fld S | fld S | |].
      - rewrite !upd_nth_length. apply (sim_len s s' S).
      - intros j u u' H H'. rewrite upd_nth_nth in H, H'. destruct (Nat.eqb j i) eqn:Q.
        + apply Nat.eqb_eq in Q. subst j. destruct (nth_error (timers s) i) as [t|] eqn:E; [|discriminate].
          destruct (nth_error (timers s') i) as [t'|] eqn:E'; [|discriminate]. cbn in H, H'. injection H as <-. injection H' as <-.
          assert (sbs (f t) (f' t') /\ (lookup (t_pat t) (pats s) <> Some i -> lookup (t_pat (f t)) (pats s) <> Some i)) as [Sb2 N2].
          { split.
            - eapply sbs_trans; [apply sbs_sym; apply Hf|]. eapply sbs_trans; [|apply Hf'].
              destruct (sim_t s s' S i t t' E E') as [->|[Sb _]]; [apply sbs_refl | exact Sb].
            - rewrite (sbs_pat _ _ (Hf t)). auto. }
          destruct Alt as [Eq|St].
          * destruct (sim_t s s' S i t t' E E') as [->|[Sb N]]; [left; apply Eq | right; auto].
          * right. split; [exact Sb2 | apply N2; apply St; reflexivity].
        + exact (sim_t s s' S j u u' H H'). }
    set (s1 := set_pt s (pats s) (upd_nth i (fun t0 => with_status t0 Done) (timers s))).
    set (s1' := set_pt s' (pats s) (upd_nth i (fun t0 => with_status t0 Done) (timers s'))).
    destruct (nth_error (timers s) i) as [t|] eqn:E.
    + destruct (nth_both _ (timers s') i t (sim_len s s' S) E) as (t' & E'). rewrite E'.
      destruct (sim_t s s' S i t t' E E') as [->|[Sb N]].
      * (* the same timer on both sides *)
        assert (sim s1 s1') as S1 by (apply Upd; [intros; apply sbs_with_status | intros; apply sbs_with_status | left; reflexivity]).
        destruct (t_status t); try (apply Same; reflexivity).
        destruct (0 <=? tid); [|apply Same; reflexivity].
        change (link s1') with (link s'). change (link s1) with (link s). change (pats s1') with (pats s). change (pats s1) with (pats s). rewrite EL.
        destruct (link s) as [se|]; [|split; [reflexivity | exact S1]].
        destruct (lookup (t_pat t) (pats s)) as [c|] eqn:Lk; [|split; [reflexivity | exact S1]].
        destruct (c =? i)%nat eqn:Q; [|split; [reflexivity | exact S1]].
        apply Nat.eqb_eq in Q. subst c. cbn [fst snd]. rewrite ?EW. split; [reflexivity|].
        apply sim_start_timer; [exact S1 | exact (inv_keys s I) | |].
        -- intros p j X. cbn [s1 pats timers set_pt] in *. rewrite upd_nth_length. exact (inv_bound s I p j X).
        -- intros old X. cbn [s1 s1' pats timers set_pt] in *. assert (old = i) by congruence. subst old.
           rewrite (upd_nth_same i _ _ _ E), (upd_nth_same i _ _ _ E'). reflexivity.
      * (* a stale timer: nothing is transmitted on either side *)
        assert (forall st st' : bool,
                  snd (if st' then (s1', @nil output) else (s', [])) = snd (if st then (s1, @nil output) else (s, [])) /\
                  sim (fst (if st then (s1, @nil output) else (s, []))) (fst (if st' then (s1', @nil output) else (s', [])))) as Four.
        { assert (set_pt s (pats s) (upd_nth i (fun t0 => t0) (timers s)) = s) as Id
            by (rewrite upd_nth_id; apply set_pt_id).
          assert (set_pt s' (pats s) (upd_nth i (fun t0 => t0) (timers s')) = s') as Id'
            by (rewrite upd_nth_id, <- EP; apply set_pt_id).
          assert (forall t0, nth_error (timers s) i = Some t0 -> lookup (t_pat t0) (pats s) <> Some i) as St
            by (intros t0 E0; assert (t0 = t) by congruence; subst; exact N).
          intros [|] [|]; cbn [fst snd]; (split; [reflexivity|]).
          - apply Upd; [intros; apply sbs_with_status | intros; apply sbs_with_status | right; intros t0 E0; apply St; congruence].
          - rewrite <- Id'. apply Upd; [intros; apply sbs_with_status | intros; apply sbs_refl | right; intros t0 E0; apply St; congruence].
          - rewrite <- Id at 1. apply Upd; [intros; apply sbs_refl | intros; apply sbs_with_status | right; intros t0 E0; apply St; congruence].
          - exact S. }
        rewrite (sbs_pat _ _ Sb). change (link s1') with (link s'). change (link s1) with (link s). change (pats s1') with (pats s). change (pats s1) with (pats s). rewrite EL.
        destruct (lookup (t_pat t) (pats s)) as [c|] eqn:Lk.
        -- destruct (c =? i)%nat eqn:Q; [apply Nat.eqb_eq in Q; subst c; contradiction|].
           destruct (t_status t), (t_status t'), (0 <=? tid), (link s);
             first [apply (Four true true) | apply (Four false false) | apply (Four true false) | apply (Four false true)].
        -- destruct (t_status t), (t_status t'), (0 <=? tid), (link s);
             first [apply (Four true true) | apply (Four false false) | apply (Four true false) | apply (Four false true)].
    + assert (nth_error (timers s') i = None) as -> by (apply nth_error_None; rewrite (sim_len s s' S); apply nth_error_None; exact E).
      apply Same; reflexivity.
Qed.

Theorem sim_run : forall evs s s', Inv s -> sim s s' ->
  snd (run Fixed s' evs) = snd (run Fixed s evs) /\ sim (fst (run Fixed s evs)) (fst (run Fixed s' evs)).
Proof.
  induction evs as [|e evs IH]; intros s s' I S; cbn [run]; [split; [reflexivity | exact S]|].
  destruct (sim_step s s' e I S) as [O1 S1]. pose proof (inv_step s e I) as I1.
  destruct (step Fixed s e) as [s1 o1]. destruct (step Fixed s' e) as [s1' o1']. cbn [fst snd] in *.
  destruct (IH s1 s1' I1 S1) as [O2 S2].
  destruct (run Fixed s1 evs) as [s2 o2]. destruct (run Fixed s1' evs) as [s2' o2']. cbn [fst snd] in *.
  split; [congruence | exact S2].
Qed.
