(* C10/Lock.v — the send lock (`Crazyflie._send_lock`) as a resource, with a BLOCKING driver send.
   send_packet is split where other threads can run: a call waits for the lock (`Wait`), acquires it and does the
   timer bookkeeping of Model.step, and — if there is something to transmit — sits inside `link.send_packet`
   holding the lock (`Hold`) until the driver returns or raises; `packet_sent` callbacks run before the release and
   may raise too.  Callers are user threads (`AUser`) and retry timers (`ATimer`, the function of a timer that has
   woken up).  Everything that does not take the lock in the code (_check_for_answers, close_link, open_link,
   _link_error_cb, time, timer wake-ups) is a base event that can happen at any moment, also while the lock is held.
   Variant WithFinally = the code with fix F10b (release in a finally clause); NoFinally = the code before
   (an exception of the driver or of a packet_sent callback leaves the lock locked).  Definitions + proofs. *)
From CF Require Import Common.Bytes C10.Model C10.Proofs.
From Coq Require Import ZifyBool.
Open Scope Z_scope.

Inductive lockv := WithFinally | NoFinally | ArmLate.
(* ArmLate = the seeded change C10-g: the timer bookkeeping is done AFTER link.send_packet returned (for refutation only) *)
Inductive act := AUser (rid hdr : Z) (data exp : list Z) (tmo : Z) | ATimer (tid : Z).
Inductive outcome := Ok | DriverRaises | SentCbRaises.
Inductive status := Wait | Hold | Fin.

Record lstate := mkL {
  base : state;
  holder : option nat;                          (* which call holds the lock *)
  calls : list (act * status * list output);    (* every call of send_packet so far; outputs still inside the driver *)
  trace : list event                            (* ghost: the base events executed so far, oldest first *)
}.

Definition linit : lstate := mkL init None [] [].

Inductive levent :=
| LStart (a : act)                  (* a thread calls send_packet / a woken-up timer calls its function *)
| LAcquire (i : nat)                (* call i gets the lock *)
| LFinish (i : nat) (o : outcome)   (* the driver's send_packet (and the packet_sent callbacks) of call i end *)
| LBase (e : event).                (* anything that does not need the lock *)

Definition act_event (a : act) : event :=
  match a with AUser rid hdr data exp tmo => Send rid hdr data exp tmo | ATimer tid => RunT tid end.

Definition oversized (a : act) : bool :=
  match a with AUser _ _ data _ _ => (30 <? length data)%nat | ATimer _ => false end.

Definition has_tx (outs : list output) : bool :=
  existsb (fun o => match o with OTx _ _ _ _ => true | _ => false end) outs.

(* a retry timer calls its function once, after it woke up: starting a timer that has not woken up, has already run, or
   whose call is already waiting for the lock is not a call *)
Definition startable (s_base : state) (cs : list (act * status * list output)) (a : act) : bool :=
  match a with
  | AUser _ _ _ _ _ => true
  | ATimer tid =>
      match nth_error (timers s_base) (Z.to_nat tid) with
      | Some t => (0 <=? tid) && (match t_status t with Committed => true | _ => false end) &&
                  negb (existsb (fun c => match c with
                                          | (ATimer t', Wait, _) => t' =? tid
                                          | _ => false
                                          end) cs)
      | None => false
      end
  end.

Fixpoint set_nth {A} (i : nat) (x : A) (l : list A) : list A :=
  match l, i with
  | [], _ => []
  | _ :: l', O => x :: l'
  | y :: l', S i' => y :: set_nth i' x l'
  end.

(* result: new state and what becomes visible (transmissions reaching the link, exceptions) *)
Definition lstep (lv : lockv) (s : lstate) (e : levent) : lstate * list output :=
  match e with
  | LStart a =>
      if oversized a
      then (* raises before the lock is touched *)
           let (b', outs) := step Fixed (base s) (act_event a) in
           (mkL b' (holder s) (calls s ++ [(a, Fin, [])]) (trace s ++ [act_event a]), outs)
      else if startable (base s) (calls s) a
           then (mkL (base s) (holder s) (calls s ++ [(a, Wait, [])]) (trace s), [])
           else (s, [])
  | LAcquire i =>
      match holder s, nth_error (calls s) i with
      | None, Some (a, Wait, _) =>
          let (b', outs) := step Fixed (base s) (act_event a) in
          if has_tx outs
          then match lv with
               | ArmLate => (mkL (base s) (Some i) (set_nth i (a, Hold, outs) (calls s)) (trace s), [])
               | _ => (* ARM, THEN HAND TO THE DRIVER: the pattern and its timer exist while the driver call is in progress *)
                      (mkL b' (Some i) (set_nth i (a, Hold, outs) (calls s)) (trace s ++ [act_event a]), [])
               end
          else (* no link / nothing to resend: released at once, on the early-return path too *)
               (mkL b' None (set_nth i (a, Fin, []) (calls s)) (trace s ++ [act_event a]), outs)
      | _, _ => (s, [])
      end
  | LFinish i o =>
      match holder s, nth_error (calls s) i with
      | Some j, Some (a, Hold, outs) =>
          if (j =? i)%nat then
            let released := match lv, o with
                            | NoFinally, DriverRaises | NoFinally, SentCbRaises => Some i   (* the exception skips the release *)
                            | _, _ => None
                            end in
            match lv, o with
            | ArmLate, Ok | ArmLate, SentCbRaises =>
                (* the bookkeeping only now, on whatever the state has become meanwhile *)
                let (b', outs') := step Fixed (base s) (act_event a) in
                (mkL b' released (set_nth i (a, Fin, []) (calls s)) (trace s ++ [act_event a]), outs')
            | _, _ =>
                (mkL (base s) released (set_nth i (a, Fin, []) (calls s)) (trace s),
                 match o with DriverRaises => [] | _ => outs end)
            end
          else (s, [])
      | _, _ => (s, [])
      end
  | LBase ev =>
      match ev with
      | Send _ _ _ _ _ | RunT _ => (s, [])          (* these go through LStart/LAcquire *)
      | _ => let (b', outs) := step Fixed (base s) ev in (mkL b' (holder s) (calls s) (trace s ++ [ev]), outs)
      end
  end.

Fixpoint lrun (lv : lockv) (s : lstate) (evs : list levent) : lstate * list output :=
  match evs with
  | [] => (s, [])
  | e :: evs' => let (s1, o1) := lstep lv s e in let (s2, o2) := lrun lv s1 evs' in (s2, o1 ++ o2)
  end.

(* ------------------------------------------------------------------ invariant *)
Definition status_of (c : act * status * list output) : status := snd (fst c).

Record LInv (s : lstate) : Prop := mkLInv {
  (* the lock is held exactly by the one call that is inside the driver *)
  li_holder : forall i, holder s = Some i <-> exists a outs, nth_error (calls s) i = Some (a, Hold, outs);
  (* the model state is the base model run on the serialisation of what was executed *)
  li_base : base s = fst (run Fixed init (trace s))
}.

Lemma set_nth_same {A} i (x : A) : forall l, (i < length l)%nat -> nth_error (set_nth i x l) i = Some x.
Proof. induction i as [|i IH]; intros [|y l] H; cbn in *; try lia; [reflexivity | apply IH; lia]. Qed.

Lemma set_nth_other {A} i (x : A) : forall l j, j <> i -> nth_error (set_nth i x l) j = nth_error l j.
Proof.
  induction i as [|i IH]; intros [|y l] j N; cbn [set_nth]; try reflexivity.
  - destruct j; [congruence | reflexivity].
  - destruct j; [reflexivity|]. cbn [nth_error]. apply IH. congruence.
Qed.

Lemma run_snoc v evs e s : fst (run v s (evs ++ [e])) = fst (step v (fst (run v s evs)) e).
Proof.
  revert s. induction evs as [|x evs IH]; intros s; cbn [app run].
  - cbn [fst]. destruct (step v s e) as [s1 o1]. reflexivity.
  - destruct (step v s x) as [s1 o1]. specialize (IH s1).
    destruct (run v s1 (evs ++ [e])) as [s2 o2]. destruct (run v s1 evs) as [s3 o3]. cbn [fst] in *. exact IH.
Qed.

Lemma linv_init : LInv linit.
Proof.
  split; cbn.
  - intros i. split; [discriminate|]. intros (a & outs & H). destruct i; discriminate.
  - reflexivity.
Qed.

Theorem linv_step s e : LInv s -> LInv (fst (lstep WithFinally s e)).
Proof.
  intros [H B]. assert (LInv s) as I0 by (split; assumption). destruct e as [a|i|i o|ev]; cbn [lstep].
  - (* LStart *)
    destruct (oversized a).
    + destruct (step Fixed (base s) (act_event a)) as [b' outs] eqn:E. cbn [fst]. split; cbn [holder calls base trace].
      * intros i. rewrite H. split; intros (a0 & o0 & X); exists a0, o0.
        -- rewrite nth_error_app1; [exact X | apply nth_error_Some; congruence].
        -- destruct (Nat.lt_ge_cases i (length (calls s))) as [Lt|Ge]; [rewrite nth_error_app1 in X by exact Lt; exact X|].
           rewrite nth_error_app2 in X by exact Ge. destruct (i - length (calls s))%nat as [|k]; cbn in X; [discriminate|destruct k; discriminate].
      * rewrite run_snoc, <- B, E. reflexivity.
    + destruct (startable (base s) (calls s) a); [|exact I0].
      cbn [fst]. split; cbn [holder calls base trace]; [|exact B].
      intros i. rewrite H. split; intros (a0 & o0 & X); exists a0, o0.
      * rewrite nth_error_app1; [exact X | apply nth_error_Some; congruence].
      * destruct (Nat.lt_ge_cases i (length (calls s))) as [Lt|Ge]; [rewrite nth_error_app1 in X by exact Lt; exact X|].
        rewrite nth_error_app2 in X by exact Ge. destruct (i - length (calls s))%nat as [|k]; cbn in X; [discriminate|destruct k; discriminate].
  - (* LAcquire *)
    destruct (holder s) as [j|] eqn:Hd; [exact I0|].
    destruct (nth_error (calls s) i) as [[[a st] po]|] eqn:E; [|exact I0].
    destruct st; try exact I0.
    assert (i < length (calls s))%nat as Lt by (apply nth_error_Some; congruence).
    destruct (step Fixed (base s) (act_event a)) as [b' outs] eqn:St.
    destruct (has_tx outs); cbn [fst]; split; cbn [holder calls base trace];
      try (rewrite run_snoc, <- B, St; reflexivity).
    + intros k. split.
      * intros X. injection X as <-. exists a, outs. apply set_nth_same. exact Lt.
      * intros (a0 & o0 & X). destruct (Nat.eq_dec k i) as [->|N]; [reflexivity|].
        rewrite set_nth_other in X by exact N. exfalso.
        assert (@None nat = Some k) as Y by (apply H; eauto). discriminate.
    + intros k. split; [discriminate|]. intros (a0 & o0 & X). destruct (Nat.eq_dec k i) as [->|N].
      * rewrite set_nth_same in X by exact Lt. discriminate.
      * rewrite set_nth_other in X by exact N. assert (@None nat = Some k) as Y by (apply H; eauto). discriminate.
  - (* LFinish *)
    destruct (holder s) as [j|] eqn:Hd; [|exact I0].
    destruct (nth_error (calls s) i) as [[[a st] po]|] eqn:E; [|exact I0].
    destruct st; try exact I0.
    destruct (j =? i)%nat eqn:Q; [|exact I0]. apply Nat.eqb_eq in Q. subst j.
    assert (i < length (calls s))%nat as Lt by (apply nth_error_Some; congruence).
    cbn [fst]. split; cbn [holder calls base trace]; [|exact B].
    intros k. split; [discriminate|]. intros (a0 & o0 & X). destruct (Nat.eq_dec k i) as [->|N].
    + rewrite set_nth_same in X by exact Lt. discriminate.
    + rewrite set_nth_other in X by exact N. assert (Some i = Some k) as Y by (apply H; eauto). congruence.
  - (* LBase *)
    destruct ev; try exact I0;
      (destruct (step Fixed (base s) _) as [b' outs] eqn:St; cbn [fst]; split; cbn [holder calls base trace];
       [exact H | rewrite run_snoc, <- B, St; reflexivity]).
Qed.

Theorem linv_run : forall evs s, LInv s -> LInv (fst (lrun WithFinally s evs)).
Proof.
  induction evs as [|e evs IH]; intros s I; cbn [lrun]; [exact I|].
  pose proof (linv_step s e I) as I1. destruct (lstep WithFinally s e) as [s1 o1]. cbn [fst] in I1.
  specialize (IH s1 I1). destruct (lrun WithFinally s1 evs) as [s2 o2]. exact IH.
Qed.

(* ------------------------------------------------------------------ released on every path *)
(* Whoever holds the lock is inside the driver; whatever way that ends (return, driver exception, exception of a
   packet_sent callback) frees the lock.  Acquiring without anything to transmit (no link, nothing to resend — the early
   return of the resend path) frees it in the same step. *)
Theorem lock_released_on_every_path s i : LInv s -> holder s = Some i ->
  forall o, holder (fst (lstep WithFinally s (LFinish i o))) = None.
Proof.
  intros I Hd o. destruct (proj1 (li_holder s I i) Hd) as (a & outs & E).
  cbn [lstep]. rewrite Hd, E, Nat.eqb_refl. reflexivity.
Qed.

Theorem acquire_holds_only_while_in_driver s i :
  let s' := fst (lstep WithFinally s (LAcquire i)) in
  holder s' = holder s \/ holder s' = None \/
  (holder s' = Some i /\ exists a outs, nth_error (calls s') i = Some (a, Hold, outs) /\ has_tx outs = true).
Proof.
  cbn [lstep]. destruct (holder s) as [j|] eqn:Hd; [left; cbn [fst]; congruence|].
  destruct (nth_error (calls s) i) as [[[a st] po]|] eqn:E; [|left; cbn [fst]; congruence].
  destruct st; try (left; cbn [fst]; congruence).
  assert (i < length (calls s))%nat as Lt by (apply nth_error_Some; congruence).
  destruct (step Fixed (base s) (act_event a)) as [b' outs]. destruct (has_tx outs) eqn:T; cbn [fst holder calls].
  - right. right. split; [reflexivity|]. exists a, outs. split; [apply set_nth_same; exact Lt | exact T].
  - right. left. reflexivity.
Qed.

(* no deadlock on the lock itself: when it is free every waiting call can take it; when it is held its holder can finish *)
Theorem lock_progress s : LInv s ->
  match holder s with
  | None => forall i a po, nth_error (calls s) i = Some (a, Wait, po) ->
            status_of (nth i (calls (fst (lstep WithFinally s (LAcquire i)))) (a, Wait, [])) <> Wait
  | Some i => exists a outs, nth_error (calls s) i = Some (a, Hold, outs)
  end.
Proof.
  intros I. destruct (holder s) as [j|] eqn:Hd.
  - apply (li_holder s I j). exact Hd.
  - intros i a po E. assert (i < length (calls s))%nat as Lt by (apply nth_error_Some; congruence).
    cbn [lstep]. rewrite Hd, E. destruct (step Fixed (base s) (act_event a)) as [b' outs].
    destruct (has_tx outs); cbn [fst calls]; rewrite (nth_error_nth _ _ _ (set_nth_same i _ _ Lt)); cbn; discriminate.
Qed.

(* the base model state is always the plain model run on the serialisation (each call at the moment it got the lock):
   every theorem of Property.v about `run Fixed init` applies to the concurrent system *)
Theorem lock_serialisation evs : base (fst (lrun WithFinally linit evs)) = fst (run Fixed init (trace (fst (lrun WithFinally linit evs)))).
Proof. apply li_base. apply linv_run. exact linv_init. Qed.

(* ------------------------------------------------------------------ the code before the fix leaks the lock *)
Definition leak_events : list levent :=
  [LBase (Open true); LStart (AUser 0 144 [1] [7] 100); LAcquire 0; LFinish 0 DriverRaises;
   LBase (Adv 100); LBase (Expire 0); LStart (ATimer 0); LAcquire 1].

Example nofinally_leaks_the_lock :
  let s := fst (lrun NoFinally linit leak_events) in
  holder s = Some 0%nat /\ map status_of (calls s) = [Fin; Wait].
Proof. vm_compute. auto. Qed.

Example withfinally_releases :
  let s := fst (lrun WithFinally linit leak_events) in
  holder s = Some 1%nat /\ map status_of (calls s) = [Fin; Hold].
Proof. vm_compute. auto. Qed.

(* ------------------------------------------------------------------ arm, THEN hand to the driver *)
(* When a call with an expected reply gets the lock on an open link that needs resending, the pattern and its armed
   timer exist from that moment on — i.e. during the whole (possibly blocking) driver call. *)
Theorem acquire_arms_before_driver s i rid hdr data x exp tmo po sess :
  holder s = None -> nth_error (calls s) i = Some (AUser rid hdr data (x :: exp) tmo, Wait, po) ->
  link (base s) = Some sess -> nr (base s) = true -> (length data <= 30)%nat ->
  let pat := hdr_attr hdr :: x :: exp in
  let s1 := fst (lstep WithFinally s (LAcquire i)) in
  holder s1 = Some i /\
  lookup pat (pats (base s1)) = Some (length (timers (base s))) /\
  nth_error (timers (base s1)) (length (timers (base s))) =
    Some (mkTimer rid (hdr_attr hdr :: data) pat tmo (now (base s) + tmo) Armed sess).
Proof.
  intros Hd E L N Sz pat s1. unfold s1. cbn [lstep]. rewrite Hd, E. cbn [act_event].
  destruct (send_starts_timer (base s) rid hdr data exp x tmo sess L N Sz) as (O & Lk & Et).
  destruct (step Fixed (base s) (Send rid hdr data (x :: exp) tmo)) as [b' outs]. cbn [fst snd] in *.
  rewrite O. cbn [has_tx existsb orb fst holder base]. auto.
Qed.

(* Everything that does not need the lock acts on that state while the driver call is in progress: it is an ordinary
   step of the plain model (so C10_longest_prefix_only, C10_close_forgets_everything, ... apply to it) and does not touch
   the lock or the calls. *)
Theorem base_event_during_driver_call lv s ev :
  match ev with Send _ _ _ _ _ | RunT _ => False | _ => True end ->
  let s' := fst (lstep lv s (LBase ev)) in
  base s' = fst (step Fixed (base s) ev) /\ holder s' = holder s /\ calls s' = calls s /\
  snd (lstep lv s (LBase ev)) = snd (step Fixed (base s) ev).
Proof.
  intros H. destruct ev; try contradiction; cbn [lstep];
    destruct (step Fixed (base s) _) as [b' outs]; cbn [fst snd base holder calls]; auto.
Qed.

(* a reply that arrives while the sender is still inside the driver call cancels the request: it is not pending when the
   driver call returns (hence never retransmitted, C10_no_retry_after_answer) *)
Theorem reply_during_driver_call_cancels lv s hdr data best i t :
  Inv (base s) -> link (base s) <> None ->
  best = longest_match (hdr_attr hdr :: data) (pats (base s)) [] -> best <> [] ->
  lookup best (pats (base s)) = Some i -> nth_error (timers (base s)) i = Some t ->
  let s' := fst (lstep lv s (LBase (Recv hdr data))) in
  lookup best (pats (base s')) = None /\ nth_error (timers (base s')) i = Some (cancel1 t) /\ holder s' = holder s.
Proof.
  intros I L -> N Lk E s'. destruct (base_event_during_driver_call lv s (Recv hdr data) Logic.I) as (B & H & _).
  fold s' in B, H. rewrite B. destruct (recv_longest_only Fixed (base s) hdr data) as (_ & _ & _ & Eff & _).
  rewrite (Eff L i Lk N). cbn [pats timers set_pt]. split; [|split; [|exact H]].
  - rewrite lookup_remove_key by exact (inv_keys _ I). rewrite zlist_eqb_refl. reflexivity.
  - unfold cancel_t. apply upd_nth_same. exact E.
Qed.

(* a link error (or close_link) during the driver call leaves no timer behind: nothing pending, no armed timer *)
Theorem link_error_during_driver_call_leaves_no_timer lv s :
  Inv (base s) -> link (base s) <> None ->
  let s' := fst (lstep lv s (LBase LinkErr)) in
  pats (base s') = [] /\ link (base s') = None /\
  (forall j t, nth_error (timers (base s')) j = Some t -> t_status t <> Armed) /\ holder s' = holder s.
Proof.
  intros I L s'. destruct (base_event_during_driver_call lv s LinkErr Logic.I) as (B & H & _). fold s' in B, H.
  pose proof (inv_step (base s) LinkErr I) as I'. rewrite <- B in I'.
  assert (pats (base s') = [] /\ link (base s') = None) as [P Ln].
  { rewrite B. cbn [step]. destruct (link (base s)); [cbn; auto | congruence]. }
  split; [exact P|]. split; [exact Ln|]. split; [|exact H].
  intros j t E A. pose proof (inv_armed _ I' j t E A) as X. rewrite P in X. discriminate.
Qed.

(* ---- refutation of arming AFTER the driver call (seeded C10-g), on the same event lists *)
Definition ev_reply_in_driver : list levent :=
  [LBase (Open true); LStart (AUser 0 144 [0] [7] 100); LAcquire 0; LBase (Recv 144 [7; 1]); LFinish 0 Ok;
   LBase (Adv 100); LBase (Expire 0); LStart (ATimer 0); LAcquire 1; LFinish 1 Ok].
Definition ev_linkerr_in_driver : list levent :=
  [LBase (Open true); LStart (AUser 0 144 [0] [7] 100); LAcquire 0; LBase LinkErr; LFinish 0 Ok; LBase (Open true);
   LBase (Adv 100); LBase (Expire 0); LStart (ATimer 0); LAcquire 1; LFinish 1 Ok].
Definition txl (r : lstate * list output) : list (Z * Z * Z) :=
  concat (map (fun o => match o with OTx a b _ d => [(a, b, d)] | _ => [] end) (snd r)).

Example arm_first_answer_in_driver_stops_request : txl (lrun WithFinally linit ev_reply_in_driver) = [(0, 0, 0)].
Proof. vm_compute. reflexivity. Qed.
Example arm_late_answered_request_is_retransmitted : txl (lrun ArmLate linit ev_reply_in_driver) = [(0, 0, 0); (0, 0, 100)].
Proof. vm_compute. reflexivity. Qed.
Example arm_first_link_error_in_driver_no_cross_session : txl (lrun WithFinally linit ev_linkerr_in_driver) = [(0, 0, 0)].
Proof. vm_compute. reflexivity. Qed.

(* ------------------------------------------------------------------ observable for the correspondence step *)
Definition status_code_l (st : status) : Z := match st with Wait => 0 | Hold => 1 | Fin => 2 end.

Definition lobs (r : lstate * list output) : list Z :=
  let (s, outs) := r in
  Z.of_nat (length outs) ::
  concat (map (fun o => match o with OTx sess rid _ t => [sess; rid; t] | ORaise rid t => [-1; rid; t] end) outs) ++
  [match holder s with Some i => Z.of_nat i | None => -1 end; Z.of_nat (length (calls s))] ++
  map (fun c => status_code_l (status_of c)) (calls s) ++
  concat (map (fun t => [status_code (t_status t); t_deadline t]) (timers (base s))).
