(* C10/Model.v — executable model of the request/retry machinery of cflib/crazyflie/__init__.py:
     Crazyflie.send_packet, _no_answer_do_retry, _check_for_answers, open_link, close_link,
     _link_error_cb  and threading.Timer as these functions use it.

   One step function for two variants of the code:
     Fixed  = the tree with fix F10 (the replaced timer is cancelled; a retry transmits only if its own
              timer is still the pending one for its pattern; retries keep the request's timeout;
              close_link and _link_error_cb cancel the timers)
     Legacy = the tree before the fix (kept so that the defects can be stated, Examples.v).

   Granularity: an event is one call executed without interleaving.  A threading.Timer is two events:
   `Expire` (the timer thread wakes up at or after its deadline and passes the "cancelled?" test) and
   `RunT` (it executes its function, i.e. send_packet(resend=True) under the send lock); cancel() has
   no effect between the two — that window exists in the real code (the timer thread can wait for
   _send_lock).  Time is an integer (milliseconds) advanced by `Adv`; nothing forces a timer to expire
   at its deadline (any delay is allowed), so event lists cover all timings and all losses (a lost
   request or reply is simply a `Recv` that does not happen).  Definitions only. *)
From CF Require Export Common.Bytes.
Open Scope Z_scope.

Inductive variant := Legacy | Fixed.
Inductive tstatus := Armed | Cancelled | Committed | Done.

Record timer := mkTimer {
  t_rid : Z;            (* ghost: which request (Send event) this timer retries *)
  t_pk : list Z;        (* the packet to resend: header :: data *)
  t_pat : list Z;       (* the expected-answer pattern: header :: leading bytes *)
  t_tmo : Z;            (* interval this timer was started with *)
  t_deadline : Z;
  t_status : tstatus;
  t_orig : Z            (* ghost: session in which the request was first sent *)
}.

Record state := mkState {
  link : option Z;                    (* None, or the session number of the open link *)
  nr : bool;                          (* link.needs_resending *)
  nsess : Z;                          (* sessions opened so far *)
  pats : list (list Z * nat);         (* _answer_patterns: pattern -> timer (index into timers), insertion order *)
  timers : list timer;                (* every Timer ever created, in creation order *)
  now : Z
}.

Definition init : state := mkState None true 0 [] [] 0.

Inductive event :=
| Send (rid hdr : Z) (data exp : list Z) (tmo : Z)   (* send_packet(CRTPPacket(hdr,data), expected_reply=exp, timeout=tmo) *)
| Recv (hdr : Z) (data : list Z)                     (* a packet arrives: _check_for_answers *)
| Open (n : bool)                                    (* open_link, the new link has needs_resending = n *)
| Close                                              (* close_link *)
| LinkErr                                            (* _link_error_cb *)
| SetNR (b : bool)                                   (* the driver changes needs_resending *)
| Adv (dt : Z)
| Expire (tid : Z)
| RunT (tid : Z).

Inductive output :=
| OTx (sess rid orig t : Z)     (* request rid handed to the link of session sess at time t; orig = ghost t_orig *)
| ORaise (rid t : Z).           (* send_packet raised (packet too large) *)

(* ---- dictionary with insertion order *)
Fixpoint lookup (p : list Z) (l : list (list Z * nat)) : option nat :=
  match l with
  | [] => None
  | (q, v) :: l' => if zlist_eqb q p then Some v else lookup p l'
  end.

Fixpoint set_key (p : list Z) (v : nat) (l : list (list Z * nat)) : list (list Z * nat) :=
  match l with
  | [] => [(p, v)]
  | (q, w) :: l' => if zlist_eqb q p then (q, v) :: l' else (q, w) :: set_key p v l'
  end.

Fixpoint remove_key (p : list Z) (l : list (list Z * nat)) : list (list Z * nat) :=
  match l with
  | [] => []
  | (q, w) :: l' => if zlist_eqb q p then l' else (q, w) :: remove_key p l'
  end.

(* ---- timers *)
Definition with_status (t : timer) (st : tstatus) : timer :=
  mkTimer (t_rid t) (t_pk t) (t_pat t) (t_tmo t) (t_deadline t) st (t_orig t).

Fixpoint upd_nth (i : nat) (f : timer -> timer) (l : list timer) : list timer :=
  match l, i with
  | [], _ => []
  | t :: l', O => f t :: l'
  | t :: l', S i' => t :: upd_nth i' f l'
  end.

(* Timer.cancel(): only a timer that has not expired yet is stopped *)
Definition cancel1 (t : timer) : timer :=
  match t_status t with Armed => with_status t Cancelled | _ => t end.
Definition cancel_t (i : nat) (l : list timer) : list timer := upd_nth i cancel1 l.

Fixpoint cancel_all (ps : list (list Z * nat)) (l : list timer) : list timer :=
  match ps with
  | [] => l
  | (_, i) :: ps' => cancel_all ps' (cancel_t i l)
  end.

(* new Timer(tmo, retry pk pat); _answer_patterns[pat] = it; start() *)
Definition start_timer (v : variant) (s : state) (rid : Z) (pk pat : list Z) (tmo orig : Z) : state :=
  let ts1 := match v, lookup pat (pats s) with
             | Fixed, Some old => cancel_t old (timers s)
             | _, _ => timers s
             end in
  mkState (link s) (nr s) (nsess s) (set_key pat (length ts1) (pats s))
          (ts1 ++ [mkTimer rid pk pat tmo (now s + tmo) Armed orig]) (now s).

(* ---- _check_for_answers: longest pattern that is a prefix of (header,)+data; `>=` keeps the later of equals *)
Definition is_prefix (p d : list Z) : bool :=
  (length p <=? length d)%nat && zlist_eqb p (firstn (length p) d).

Fixpoint longest_match (d : list Z) (ps : list (list Z * nat)) (best : list Z) : list Z :=
  match ps with
  | [] => best
  | (p, _) :: ps' =>
      if is_prefix p d && (length best <=? length p)%nat then longest_match d ps' p
      else longest_match d ps' best
  end.

Definition set_link (s : state) (l : option Z) (n : bool) (k : Z) : state :=
  mkState l n k (pats s) (timers s) (now s).
Definition set_pt (s : state) (ps : list (list Z * nat)) (ts : list timer) : state :=
  mkState (link s) (nr s) (nsess s) ps ts (now s).

Definition forget_answers (v : variant) (s : state) : state :=
  match v with
  | Fixed => set_pt s [] (cancel_all (pats s) (timers s))      (* _cancel_answer_timers *)
  | Legacy => set_pt s [] (timers s)                           (* self._answer_patterns = {} *)
  end.

Definition hdr_attr (hdr : Z) : Z := Z.lor hdr 12.   (* CRTPPacket.__init__: self.header = header | 0x3 << 2 *)

Definition step (v : variant) (s : state) (e : event) : state * list output :=
  match e with
  | Send rid hdr data exp tmo =>
      if (30 <? length data)%nat then (s, [ORaise rid (now s)])
      else match link s with
           | None => (s, [])
           | Some sess =>
               let pk := hdr_attr hdr :: data in
               match exp with
               | _ :: _ =>
                   if nr s then (start_timer v s rid pk (hdr_attr hdr :: exp) tmo sess, [OTx sess rid sess (now s)])
                   else (s, [OTx sess rid sess (now s)])
               | [] => (s, [OTx sess rid sess (now s)])
               end
           end
  | Recv hdr data =>
      match link s with
      | None => (s, [])
      | Some _ =>
          match longest_match (hdr_attr hdr :: data) (pats s) [] with
          | [] => (s, [])
          | best =>
              match lookup best (pats s) with
              | Some i => (set_pt s (remove_key best (pats s)) (cancel_t i (timers s)), [])
              | None => (s, [])
              end
          end
      end
  | Open n =>
      match link s with
      | None => (set_link s (Some (nsess s)) n (nsess s + 1), [])
      | Some _ => (s, [])
      end
  | Close => (forget_answers v (set_link s None (nr s) (nsess s)), [])
  | LinkErr =>
      match link s with
      | None => (s, [])
      | Some _ => match v with
                  | Fixed => (forget_answers v (set_link s None (nr s) (nsess s)), [])
                  | Legacy => (set_link s None (nr s) (nsess s), [])
                  end
      end
  | SetNR b => match link s with None => (s, []) | Some _ => (set_link s (link s) b (nsess s), []) end
  | Adv dt => (mkState (link s) (nr s) (nsess s) (pats s) (timers s) (now s + dt), [])
  | Expire tid =>
      let i := Z.to_nat tid in
      match nth_error (timers s) i with
      | Some t =>
          match t_status t with
          | Armed => if (0 <=? tid) && (t_deadline t <=? now s)
                     then (set_pt s (pats s) (upd_nth i (fun t => with_status t Committed) (timers s)), [])
                     else (s, [])
          | _ => (s, [])
          end
      | None => (s, [])
      end
  | RunT tid =>
      let i := Z.to_nat tid in
      match nth_error (timers s) i with
      | Some t =>
          match t_status t with
          | Committed =>
              if 0 <=? tid then
                let s1 := set_pt s (pats s) (upd_nth i (fun t => with_status t Done) (timers s)) in
                (* send_packet(pk, expected_reply=pattern, resend=True, ...) *)
                match link s1 with
                | None => (s1, [])
                | Some sess =>
                    match v with
                    | Fixed =>
                        match lookup (t_pat t) (pats s1) with
                        | Some cur =>
                            if (cur =? i)%nat
                            then (start_timer v s1 (t_rid t) (t_pk t) (t_pat t) (t_tmo t) (t_orig t),
                                  [OTx sess (t_rid t) (t_orig t) (now s)])
                            else (s1, [])
                        | None => (s1, [])
                        end
                    | Legacy =>
                        match lookup (t_pat t) (pats s1) with
                        | Some _ => (start_timer v s1 (t_rid t) (t_pk t) (t_pat t) 200 (t_orig t),
                                     [OTx sess (t_rid t) (t_orig t) (now s)])
                        | None => (s1, [OTx sess (t_rid t) (t_orig t) (now s)])
                        end
                    end
                end
              else (s, [])
          | _ => (s, [])
          end
      | None => (s, [])
      end
  end.

Fixpoint run (v : variant) (s : state) (evs : list event) : state * list output :=
  match evs with
  | [] => (s, [])
  | e :: evs' =>
      let (s1, o1) := step v s e in
      let (s2, o2) := run v s1 evs' in
      (s2, o1 ++ o2)
  end.

(* ---- observable for the correspondence step *)
Definition status_code (st : tstatus) : Z :=
  match st with Armed => 0 | Cancelled => 1 | Committed => 2 | Done => 3 end.

Definition obs_of (r : state * list output) : list Z :=
  let (s, outs) := r in
  Z.of_nat (length outs) ::
  concat (map (fun o => match o with OTx sess rid _ t => [sess; rid; t] | ORaise rid t => [-1; rid; t] end) outs) ++
  concat (map (fun t => [status_code (t_status t); t_deadline t]) (timers s)).

(* for each timer: 1 if it is the pending timer of its pattern, else 0 (stale timers cannot be observed,
   Proofs_c.sim_run; the correspondence step compares the status of pending timers only) *)
Fixpoint pending_flags (ps : list (list Z * nat)) (ts : list timer) (i : nat) : list Z :=
  match ts with
  | [] => []
  | t :: ts' => (match lookup (t_pat t) ps with
                 | Some j => if (j =? i)%nat then 1 else 0
                 | None => 0
                 end) :: pending_flags ps ts' (S i)
  end.

Definition obs_pending (r : state * list output) : list Z := pending_flags (pats (fst r)) (timers (fst r)) 0.
