(* C10/CloseSteps.v — close_link() as a multi-step transition with another thread acting between the steps:
     1. send the zero setpoint   2. link.close()   3. self.link = None   4. _cancel_answer_timers()   5. disconnected callbacks
   Steps 1, 2, 5 do not change the retry state; step 3 is `drop_link`, step 4 `forget_answers`; Model.step's Close is
   4 after 3.  Another thread (a user, or the dispatcher thread whose port callback answers a reply with the next request)
   can send requests / process arrivals between any two steps: `others` below.  Variant CancelFirst = the seeded change
   C10-j (step 4 before step 1), kept for the refutation. *)
From CF Require Import Common.Bytes C10.Model C10.Proofs.
From Coq Require Import ZifyBool.
Open Scope Z_scope.

Definition drop_link (s : state) : state := set_link s None (nr s) (nsess s).         (* self.link = None *)
Definition cancel_step (s : state) : state := forget_answers Fixed s.                 (* _cancel_answer_timers() *)

(* what other threads do: sends and arrivals *)
Definition sender_event (e : event) : Prop :=
  match e with Send _ _ _ _ _ | Recv _ _ => True | _ => False end.

(* the code: ... others ... link := None ... others ... cancel ... others ...
   (before the link is dropped the driver may be open or already closed: the retry state does not depend on it) *)
Definition close_steps (s : state) (before mid after : list event) : state :=
  let s1 := fst (run Fixed s before) in
  let s2 := fst (run Fixed (drop_link s1) mid) in
  fst (run Fixed (cancel_step s2) after).

(* the seeded order: cancel first *)
Definition close_steps_cancel_first (s : state) (before mid after : list event) : state :=
  let s1 := fst (run Fixed (cancel_step s) before) in
  let s2 := fst (run Fixed (drop_link s1) mid) in
  fst (run Fixed s2 after).

Lemma close_is_cancel_after_drop s : fst (step Fixed s Close) = cancel_step (drop_link s).
Proof. reflexivity. Qed.

(* without a link a sender changes nothing *)
Lemma sender_no_link s e : link s = None -> sender_event e -> fst (step Fixed s e) = s.
Proof.
  intros L H. destruct e; try contradiction; cbn [step]; rewrite L; [|reflexivity].
  destruct (30 <? length data)%nat; reflexivity.
Qed.

Lemma senders_no_link : forall evs s, link s = None -> Forall sender_event evs -> fst (run Fixed s evs) = s.
Proof.
  induction evs as [|e evs IH]; intros s L F; cbn [run]; [reflexivity|].
  inversion F as [|? ? He F']; subst. pose proof (sender_no_link s e L He) as E.
  destruct (step Fixed s e) as [s1 o1]. cbn [fst] in E. subst s1.
  specialize (IH s L F'). destruct (run Fixed s evs) as [s2 o2]. exact IH.
Qed.

(* For EVERY interleaving of senders with the steps of close_link (whatever they send or receive before the link is
   dropped, between the drop and the cancel, and afterwards): when close_link is over nothing is pending, no timer is armed,
   there is no link — no timer outlives the close. *)
Theorem no_timer_outlives_close s before mid after :
  Inv s -> Forall sender_event mid -> Forall sender_event after ->
  let s' := close_steps s before mid after in
  pats s' = [] /\ link s' = None /\ (forall j t, nth_error (timers s') j = Some t -> t_status t <> Armed) /\ Inv s'.
Proof.
  intros I Fm Fa s'. unfold s', close_steps.
  pose proof (inv_run before s I) as I1. set (s1 := fst (run Fixed s before)) in *.
  rewrite (senders_no_link mid (drop_link s1)) by (reflexivity || exact Fm).
  rewrite <- close_is_cancel_after_drop.
  pose proof (inv_step s1 Close I1) as I2. set (s2 := fst (step Fixed s1 Close)) in *.
  assert (pats s2 = [] /\ link s2 = None) as [P L] by (unfold s2; cbn; auto).
  rewrite (senders_no_link after s2 L Fa).
  split; [exact P|]. split; [exact L|]. split; [|exact I2].
  intros j t E A. pose proof (inv_armed s2 I2 j t E A) as X. rewrite P in X. discriminate.
Qed.

(* hence nothing of the closed session is ever transmitted again, in whatever follows (a reopened link included) *)
Theorem nothing_of_closed_session_later s before mid after evs r :
  Inv s -> Forall sender_event mid -> Forall sender_event after ->
  Forall (fun e => ~ is_send_of r e) evs ->
  Forall (fun o => ~ tx_of r o) (snd (run Fixed (close_steps s before mid after) evs)).
Proof.
  intros I Fm Fa Ns. destruct (no_timer_outlives_close s before mid after I Fm Fa) as (P & _ & _ & I').
  apply no_tx_unless_pending; [exact I' | | exact Ns].
  intros (p & i & t & Lk & _). rewrite P in Lk. discriminate.
Qed.

(* ---- refutation of cancel-first: a request sent by another thread while close_link is running (after the early
   cancel, before the link is dropped) keeps its timer; on the reopened link it is retransmitted, session 0 -> session 1 *)
Definition s_open : state := fst (run Fixed init [Open true]).
Definition mid_close_send : list event := [Send 1 144 [1] [7] 100].
Definition reopen_and_wait : list event := [Open true; Adv 100; Expire 0; RunT 0].

Example cancel_first_timer_outlives_close :
  pats (close_steps_cancel_first s_open mid_close_send [] []) = [([156; 7], 0%nat)] /\
  snd (run Fixed (close_steps_cancel_first s_open mid_close_send [] []) reopen_and_wait) = [OTx 1 1 0 100].
Proof. vm_compute. auto. Qed.

Example cancel_last_nothing_outlives_close :
  pats (close_steps s_open mid_close_send [] []) = [] /\
  snd (run Fixed (close_steps s_open mid_close_send [] []) reopen_and_wait) = [].
Proof. vm_compute. auto. Qed.

(* ================================================================================================
   A FAILED open_link: get_link_driver() returned a connected driver, then the connection set-up raised (the driver's
   first send_packet fails).  The code closes the driver and sets self.link = None on this exit (and has no link on the
   "no driver found" exit): in the model, a session that is opened and lost at once.  Variant: keeping self.link pointing
   at the closed driver (seeded change C10-q) is refuted. *)
Definition failed_open (s : state) (n : bool) : state := fst (step Fixed (fst (step Fixed s (Open n))) LinkErr).
Definition failed_open_keeps_link (s : state) (n : bool) : state := fst (step Fixed s (Open n)).

(* after a failed open there is no link, nothing is pending, no timer is armed; whatever is sent or received afterwards
   changes nothing and transmits nothing (requests are dropped, no timer is armed) until a later open_link succeeds *)
Theorem failed_open_leaves_no_link s n evs :
  Inv s -> link s = None -> Forall sender_event evs ->
  let s' := failed_open s n in
  link s' = None /\ pats s' = [] /\ (forall j t, nth_error (timers s') j = Some t -> t_status t <> Armed) /\
  fst (run Fixed s' evs) = s' /\ Forall (fun o => ~ is_tx o) (snd (run Fixed s' evs)).
Proof.
  intros I L F s'. unfold s', failed_open.
  pose proof (inv_step s (Open n) I) as I1. set (s1 := fst (step Fixed s (Open n))) in *.
  assert (link s1 <> None) as L1 by (unfold s1; cbn [step]; rewrite L; cbn; discriminate).
  pose proof (inv_step s1 LinkErr I1) as I2. set (s2 := fst (step Fixed s1 LinkErr)) in *.
  assert (pats s2 = [] /\ link s2 = None) as [P Ln].
  { unfold s2. cbn [step]. destruct (link s1); [cbn; auto | congruence]. }
  split; [exact Ln|]. split; [exact P|]. split.
  - intros j t E A. pose proof (inv_armed s2 I2 j t E A) as X. rewrite P in X. discriminate.
  - split; [apply senders_no_link; assumption|].
    clear -Ln F. revert F. generalize s2 Ln. induction evs as [|e evs IH]; intros s0 L0 F; cbn [run]; [constructor|].
    inversion F as [|? ? He F']; subst. pose proof (sender_no_link s0 e L0 He) as E.
    pose proof (closed_link_silent Fixed s0 e L0) as Q.
    destruct (step Fixed s0 e) as [s1' o1]. cbn [fst snd] in *. subst s1'.
    specialize (IH s0 L0 F'). destruct (run Fixed s0 evs) as [s2' o2]. cbn [snd] in *.
    apply Forall_app. split; assumption.
Qed.

(* refutation of keeping the link: a request sent after the failed open is handed to the (closed) driver and gets a timer;
   after the next successful open_link it is retransmitted on the new link *)
Example failed_open_keeping_link_refuted :
  let s := failed_open_keeps_link init true in
  snd (run Fixed s [Send 1 145 [1] [7] 100]) = [OTx 0 1 0 0] /\
  pats (fst (run Fixed s [Send 1 145 [1] [7] 100])) = [([157; 7], 0%nat)] /\
  snd (run Fixed (failed_open init true) [Send 1 145 [1] [7] 100]) = [].
Proof. vm_compute. auto. Qed.
