(* C10/Proofs_b.v — request ids: with distinct ids on the Send events, an answered request is not
   pending any more (so, by no_tx_unless_pending, never transmitted again). *)
From CF Require Import Common.Bytes C10.Model C10.Proofs.
From Coq Require Import ZifyBool Permutation.
Open Scope Z_scope.

Definition rids_of (evs : list event) : list Z :=
  concat (map (fun e => match e with Send r _ _ _ _ => [r] | _ => [] end) evs).

Record Uniq (used : list Z) (s : state) : Prop := mkUniq {
  u_used : forall i t, nth_error (timers s) i = Some t -> In (t_rid t) used;
  (* two pending patterns never carry the same request *)
  u_inj : forall p i t p' i' t', lookup p (pats s) = Some i -> nth_error (timers s) i = Some t ->
          lookup p' (pats s) = Some i' -> nth_error (timers s) i' = Some t' -> t_rid t = t_rid t' -> p = p'
}.

Lemma uniq_init : Uniq [] init.
Proof. split; [intros [|i] t H; discriminate | intros p i t p' i' t' H; discriminate]. Qed.

Lemma uniq_weaken used used' s : incl used used' -> Uniq used s -> Uniq used' s.
Proof. intros H [A B]. split; [intros i t E; apply H; eapply A; exact E | exact B]. Qed.

(* timers whose status alone changed *)
Definition same_rids (l l' : list timer) : Prop :=
  length l' = length l /\ forall j t', nth_error l' j = Some t' -> exists t, nth_error l j = Some t /\ t_rid t' = t_rid t.

Lemma same_rids_upd i st l : same_rids l (upd_nth i (fun t => with_status t st) l).
Proof. split; [apply upd_nth_length | intros j t' H; eapply upd_status_rid; exact H]. Qed.

Lemma same_rids_cancel i l : same_rids l (cancel_t i l).
Proof. split; [apply upd_nth_length | intros j t' H; eapply cancel_t_rid; exact H]. Qed.

Lemma same_rids_refl l : same_rids l l.
Proof. split; [reflexivity | intros j t' H; exists t'; auto]. Qed.

Lemma same_rids_trans a b c : same_rids a b -> same_rids b c -> same_rids a c.
Proof.
  intros [L1 H1] [L2 H2]. split; [congruence|]. intros j t' H.
  destruct (H2 j t' H) as (t1 & E1 & R1). destruct (H1 j t1 E1) as (t0 & E0 & R0). exists t0. split; [exact E0 | congruence].
Qed.

Lemma same_rids_cancel_all ps : forall l, same_rids l (cancel_all ps l).
Proof.
  induction ps as [|[p i] ps IH]; intros l; cbn [cancel_all]; [apply same_rids_refl|].
  eapply same_rids_trans; [apply same_rids_cancel | apply IH].
Qed.

(* Uniq survives any change that keeps the requests of the timers and only removes/keeps entries *)
Lemma uniq_sub used s ps ts :
  Uniq used s -> same_rids (timers s) ts ->
  (forall p i, lookup p ps = Some i -> lookup p (pats s) = Some i) ->
  Uniq used (mkState (link s) (nr s) (nsess s) ps ts (now s)).
Proof.
  intros [A B] [Len SR] Sub. split; cbn [timers pats].
  - intros i t H. destruct (SR i t H) as (t0 & E0 & R0). rewrite R0. eapply A. exact E0.
  - intros p i t p' i' t' L1 E1 L2 E2 R.
    destruct (SR i t E1) as (t0 & E0 & R0). destruct (SR i' t' E2) as (t0' & E0' & R0').
    eapply (B p i t0 p' i' t0'); eauto. congruence.
Qed.

Lemma uniq_start_timer used s rid pk pat tmo orig :
  Uniq used s ->
  (forall p i, lookup p (pats s) = Some i -> (i < length (timers s))%nat) ->
  (* the request is new, or it is the one the pattern's current timer carries *)
  (~ In rid used \/ exists i t, lookup pat (pats s) = Some i /\ nth_error (timers s) i = Some t /\ t_rid t = rid) ->
  Uniq (rid :: used) (start_timer Fixed s rid pk pat tmo orig).
Proof.
  intros [A B] Bound Fresh. unfold start_timer.
  set (ts1 := match lookup pat (pats s) with Some old => cancel_t old (timers s) | None => timers s end).
  assert (same_rids (timers s) ts1) as [Len SR].
  { unfold ts1. destruct (lookup pat (pats s)); [apply same_rids_cancel | apply same_rids_refl]. }
  assert (forall j t', nth_error (ts1 ++ [mkTimer rid pk pat tmo (now s + tmo) Armed orig]) j = Some t' ->
            (j = length ts1 /\ t_rid t' = rid) \/
            (j < length ts1 /\ exists t, nth_error (timers s) j = Some t /\ t_rid t' = t_rid t))%nat as Sp.
  { intros j t' H. destruct (Nat.lt_ge_cases j (length ts1)) as [Lt|Ge].
    - right. split; [exact Lt|]. rewrite nth_error_app1 in H by exact Lt. exact (SR j t' H).
    - left. rewrite nth_error_app2 in H by exact Ge. destruct (j - length ts1)%nat as [|k] eqn:D.
      + cbn in H. injection H as <-. split; [lia | reflexivity].
      + cbn in H. destruct k; discriminate. }
  split; cbn [timers pats].
  - intros j t' H. destruct (Sp j t' H) as [[_ ->]|[_ (t & E & ->)]]; [left; reflexivity | right; eapply A; exact E].
  - intros p i t p' i' t' L1 E1 L2 E2 R. rewrite lookup_set_key in L1, L2.
    destruct (zlist_eqb pat p) eqn:Q1, (zlist_eqb pat p') eqn:Q2.
    + apply zlist_eqb_spec in Q1, Q2. congruence.
    + (* p = pat (new timer), p' an old entry with the same request *)
      apply zlist_eqb_spec in Q1. subst p. injection L1 as <-.
      destruct (Sp _ _ E1) as [[_ R1]|[Lt _]]; [|lia].
      destruct (Sp _ _ E2) as [[Ei _]|[_ (t0' & E0' & R0')]]; [specialize (Bound p' i' L2); lia|].
      destruct Fresh as [Nu|(i0 & t0 & L0 & E0 & R0)].
      * exfalso. apply Nu. rewrite <- R1, R, R0'. eapply A. exact E0'.
      * eapply (B pat i0 t0 p' i' t0'); eauto. congruence.
    + apply zlist_eqb_spec in Q2. subst p'. injection L2 as <-.
      destruct (Sp _ _ E2) as [[_ R2]|[Lt _]]; [|lia].
      destruct (Sp _ _ E1) as [[Ei _]|[_ (t0 & E0 & R0)]]; [specialize (Bound p i L1); lia|].
      destruct Fresh as [Nu|(i0 & t1 & L0 & E1' & R1)].
      * exfalso. apply Nu. rewrite <- R2, <- R, R0. eapply A. exact E0.
      * symmetry. eapply (B pat i0 t1 p i t0); eauto. congruence.
    + destruct (Sp _ _ E1) as [[Ei _]|[_ (t0 & E0 & R0)]]; [specialize (Bound p i L1); lia|].
      destruct (Sp _ _ E2) as [[Ei _]|[_ (t0' & E0' & R0')]]; [specialize (Bound p' i' L2); lia|].
      eapply (B p i t0 p' i' t0'); eauto. congruence.
Qed.

Lemma uniq_step used s e : Inv s -> Uniq used s -> (forall r, is_send_of r e -> ~ In r used) ->
  Uniq (rids_of [e] ++ used) (fst (step Fixed s e)).
Proof.
  intros I U Fr.
  assert (forall ps ts, same_rids (timers s) ts -> (forall p i, lookup p ps = Some i -> lookup p (pats s) = Some i) ->
            forall l n k, Uniq used (mkState l n k ps ts (now s))) as Sub.
  { intros ps ts SR Su l n k. destruct (uniq_sub used s ps ts U SR Su) as [A B]. split; [exact A | exact B]. }
  destruct e as [rid hdr data exp tmo|hdr data|n| | |b|dt|tid|tid]; cbn [step rids_of map concat app].
  - destruct (30 <? length data)%nat; [eapply uniq_weaken; [|exact U]; intros x; right; exact H|].
    destruct (link s) as [se|]; [|eapply uniq_weaken; [|exact U]; intros x H; right; exact H].
    destruct exp as [|x exp]; [eapply uniq_weaken; [|exact U]; intros y H; right; exact H|].
    destruct (nr s); [|eapply uniq_weaken; [|exact U]; intros y H; right; exact H]. cbn [fst].
    apply uniq_start_timer; [exact U | exact (inv_bound s I) | left; apply Fr; reflexivity].
  - destruct (link s); [|exact U]. destruct (longest_match _ _ _) as [|b0 best]; [exact U|].
    remember (b0 :: best) as bp eqn:Hbp. clear Hbp.
    destruct (lookup bp (pats s)) as [i|]; [|exact U]. cbn [fst]. apply Sub; [apply same_rids_cancel|].
    intros p j H. rewrite lookup_remove_key in H by exact (inv_keys s I). destruct (zlist_eqb bp p); [discriminate | exact H].
  - destruct (link s); [exact U|]. cbn [fst]. apply Sub; [apply same_rids_refl | auto].
  - cbn [fst forget_answers]. apply Sub; [apply same_rids_cancel_all | intros p i H; discriminate].
  - destruct (link s); [|exact U]. cbn [fst forget_answers]. apply Sub; [apply same_rids_cancel_all | intros p i H; discriminate].
  - destruct (link s); [|exact U]. cbn [fst]. apply Sub; [apply same_rids_refl | auto].
  - cbn [fst]. destruct (uniq_sub used s (pats s) (timers s) U (same_rids_refl _) (fun p i H => H)) as [A B].
    split; [exact A | exact B].
  - destruct (nth_error (timers s) (Z.to_nat tid)) as [t0|]; [|exact U].
    destruct (t_status t0); try exact U. destruct ((0 <=? tid) && (t_deadline t0 <=? now s)); [|exact U].
    cbn [fst]. apply Sub; [apply same_rids_upd | auto].
  - destruct (nth_error (timers s) (Z.to_nat tid)) as [t0|] eqn:E; [|exact U].
    destruct (t_status t0); try exact U. destruct (0 <=? tid); [|exact U].
    cbn [link set_pt pats]. set (i := Z.to_nat tid) in *.
    assert (Uniq used (set_pt s (pats s) (upd_nth i (fun t1 => with_status t1 Done) (timers s)))) as U1.
    { apply Sub; [apply same_rids_upd | auto]. }
    destruct (link s) as [se|]; [|exact U1].
    destruct (lookup (t_pat t0) (pats s)) as [c|] eqn:Lk; [|exact U1].
    destruct (c =? i)%nat eqn:Q; [|exact U1]. apply Nat.eqb_eq in Q. subst c. cbn [fst].
    eapply uniq_weaken; [|apply uniq_start_timer; [exact U1 | | right]].
    + intros x [<-|H]; [|exact H]. eapply (u_used used s U). exact E.
    + intros p j X. cbn [pats timers set_pt] in *. rewrite upd_nth_length. exact (inv_bound s I p j X).
    + exists i, (with_status t0 Done). cbn [pats timers set_pt]. split; [exact Lk|].
      split; [apply (upd_nth_same i (fun t1 => with_status t1 Done)); exact E | reflexivity].
Qed.

Theorem uniq_run : forall evs used s, Inv s -> Uniq used s -> NoDup (rids_of evs ++ used) ->
  Uniq (rev (rids_of evs) ++ used) (fst (run Fixed s evs)).
Proof.
  induction evs as [|e evs IH]; intros used s I U ND; cbn [run]; [exact U|].
  assert (rids_of (e :: evs) = rids_of [e] ++ rids_of evs) as Sp.
  { unfold rids_of. cbn [map concat]. rewrite app_nil_r. reflexivity. }
  rewrite Sp in ND |- *.
  assert (forall r, is_send_of r e -> ~ In r used) as Fr.
  { intros r Se Iu. destruct e; cbn in Se; try contradiction. subst. cbn [rids_of map concat app] in ND.
    inversion ND as [|? ? Hn _]; subst. apply Hn. apply in_or_app. right. exact Iu. }
  pose proof (inv_step s e I) as I1. pose proof (uniq_step used s e I U Fr) as U1.
  destruct (step Fixed s e) as [s1 o1]. cbn [fst] in *.
  assert (NoDup (rids_of evs ++ rids_of [e] ++ used)) as ND1.
  { rewrite <- app_assoc in ND. destruct e; cbn [rids_of map concat app] in ND |- *; try exact ND.
    eapply Permutation_NoDup; [apply Permutation_middle | exact ND]. }
  specialize (IH (rids_of [e] ++ used) s1 I1 U1 ND1). destruct (run Fixed s1 evs) as [s2 o2]. cbn [fst] in *.
  eapply uniq_weaken; [|exact IH]. intros x H. rewrite rev_app_distr, <- app_assoc.
  apply in_app_or in H as [H|H]; apply in_or_app; [left; exact H | right].
  apply in_app_or in H as [H|H]; apply in_or_app; [left; apply -> in_rev; exact H | right; exact H].
Qed.

(* the answered request is no longer pending *)
Theorem answered_not_pending used s hdr data i t :
  Inv s -> Uniq used s -> link s <> None ->
  let best := longest_match (hdr_attr hdr :: data) (pats s) [] in
  best <> [] -> lookup best (pats s) = Some i -> nth_error (timers s) i = Some t ->
  ~ pending (fst (step Fixed s (Recv hdr data))) (t_rid t).
Proof.
  intros I U L best N Lk E (p & j & t' & Lp & Et & R).
  destruct (recv_longest_only Fixed s hdr data) as (_ & _ & _ & Eff & _). fold best in Eff.
  rewrite (Eff L i Lk N) in Lp, Et. cbn [pats timers set_pt] in Lp, Et.
  rewrite lookup_remove_key in Lp by exact (inv_keys s I).
  destruct (zlist_eqb best p) eqn:Q; [discriminate|].
  apply cancel_t_rid in Et as (t0 & E0 & R0).
  assert (p = best) as X by (eapply (u_inj used s U p j t0 best i t); eauto; congruence).
  subst p. rewrite zlist_eqb_refl in Q. discriminate.
Qed.

Lemma rids_of_app a b : rids_of (a ++ b) = rids_of a ++ rids_of b.
Proof. unfold rids_of. rewrite map_app, concat_app. reflexivity. Qed.

Lemma not_sent_in r evs : ~ In r (rids_of evs) -> Forall (fun e => ~ is_send_of r e) evs.
Proof.
  induction evs as [|e evs IH]; intros H; constructor.
  - intros S. apply H. destruct e; cbn in S; try contradiction. subst. left. reflexivity.
  - apply IH. intros X. apply H. change (e :: evs) with ([e] ++ evs). rewrite rids_of_app. apply in_or_app. right. exact X.
Qed.

(* Closed form of "not retransmitted after the answer": distinct request ids; after any history evs1,
   when a packet arrives whose longest pending prefix is the pattern of request r, then r is not
   transmitted during any continuation evs2. *)
Theorem answered_never_retransmitted evs1 hdr data evs2 i t :
  NoDup (rids_of (evs1 ++ Recv hdr data :: evs2)) ->
  let s := fst (run Fixed init evs1) in
  let best := longest_match (hdr_attr hdr :: data) (pats s) [] in
  link s <> None -> best <> [] -> lookup best (pats s) = Some i -> nth_error (timers s) i = Some t ->
  Forall (fun o => ~ tx_of (t_rid t) o) (snd (run Fixed (fst (step Fixed s (Recv hdr data))) evs2)).
Proof.
  intros ND s best L N Lk E.
  assert (Inv s) as I by (apply inv_run; exact inv_init).
  rewrite rids_of_app in ND. change (Recv hdr data :: evs2) with ([Recv hdr data] ++ evs2) in ND.
  rewrite rids_of_app in ND. cbn [rids_of map concat app] in ND.
  assert (Uniq (rev (rids_of evs1) ++ []) s) as U.
  { apply uniq_run; [exact inv_init | exact uniq_init|]. rewrite app_nil_r. clear -ND. revert ND. generalize (rids_of evs1) (rids_of evs2). intros a b ND.
    induction a as [|x a IH]; [constructor|]. cbn [app] in ND. apply NoDup_cons_iff in ND as [Hx ND].
    constructor; [intros X; apply Hx; apply in_or_app; left; exact X | exact (IH ND)]. }
  apply no_tx_unless_pending.
  - apply inv_step. exact I.
  - eapply answered_not_pending; eauto.
  - apply not_sent_in. intros X. pose proof (u_used _ s U i t E) as Y. rewrite app_nil_r in Y. apply in_rev in Y.
    revert ND X Y. generalize (rids_of evs1) (rids_of evs2) (t_rid t). clear. intros a b r ND X Y.
    induction a as [|x a IH]; [destruct Y|]. cbn [app] in ND. apply NoDup_cons_iff in ND as [Hx ND].
    destruct Y as [->|Y]; [apply Hx; apply in_or_app; right; exact X | exact (IH ND Y)].
Qed.
