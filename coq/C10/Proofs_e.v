(* C10/Proofs_e.v — requests issued while a received packet is being handled.
   _IncomingPacketHandler.run first calls the packet_received callbacks (among them _check_for_answers) and only
   then dispatches the packet to the port/header callbacks.  A callback that handles packet p and sends requests
   therefore acts AFTER the answer check for p: as an event list, `handle_packet hdr data follow`.  Consequence:
   a request sent while p is handled is never cancelled by p itself — p can only answer what was sent before it
   arrived. *)
From CF Require Import Common.Bytes C10.Model C10.Proofs.
From Coq Require Import ZifyBool.
Open Scope Z_scope.

(* the dispatch order of run(): the answer check for the packet, then whatever its handlers send *)
Definition handle_packet (hdr : Z) (data : list Z) (follow : list event) : list event := Recv hdr data :: follow.

Definition send_pat (e : event) : option (list Z) :=
  match e with Send _ hdr _ exp _ => Some (hdr_attr hdr :: exp) | _ => None end.

(* sends with a pattern other than pat *)
Definition other_sends (pat : list Z) (evs : list event) : Prop :=
  Forall (fun e => exists p, send_pat e = Some p /\ p <> pat) evs.

Lemma recv_fields v s hdr data :
  let s' := fst (step v s (Recv hdr data)) in
  link s' = link s /\ nr s' = nr s /\ now s' = now s /\ length (timers s') = length (timers s).
Proof.
  cbn [step]. destruct (link s) eqn:L; cbn [fst]; [|auto].
  destruct (longest_match (hdr_attr hdr :: data) (pats s) []); cbn [fst]; [auto|].
  destruct (lookup _ _); cbn [fst link nr now timers set_pt]; [|auto].
  rewrite L. unfold cancel_t. rewrite upd_nth_length. auto.
Qed.

(* a send with another pattern leaves a pending pattern and its timer alone *)
Lemma send_other_keeps s e p i t pat' : Inv s -> lookup p (pats s) = Some i -> nth_error (timers s) i = Some t ->
  send_pat e = Some pat' -> pat' <> p ->
  lookup p (pats (fst (step Fixed s e))) = Some i /\ nth_error (timers (fst (step Fixed s e))) i = Some t.
Proof.
  intros I Lk E Sp N. destruct e as [rid hdr data exp tmo| | | | | | | | ]; try discriminate.
  cbn [send_pat] in Sp. injection Sp as <-. cbn [step].
  destruct (30 <? length data)%nat; [auto|]. destruct (link s) as [se|]; [|auto].
  destruct exp as [|x exp]; [auto|]. destruct (nr s); [|auto]. cbn [fst]. unfold start_timer. cbn [pats timers].
  set (pat' := hdr_attr hdr :: x :: exp) in *.
  assert (i < length (timers s))%nat as Lt by (apply nth_error_Some; congruence).
  split.
  - rewrite lookup_set_key, zlist_eqb_neq by exact N. exact Lk.
  - destruct (lookup pat' (pats s)) as [old|] eqn:Lo.
    + assert (old <> i) as Ni by (intros ->; apply N; eapply (inv_distinct s); eauto).
      rewrite nth_error_app1 by (unfold cancel_t; rewrite upd_nth_length; exact Lt).
      unfold cancel_t. rewrite upd_nth_other by congruence. exact E.
    + rewrite nth_error_app1 by exact Lt. exact E.
Qed.

Lemma other_sends_keep : forall post s p i t, Inv s -> lookup p (pats s) = Some i -> nth_error (timers s) i = Some t ->
  other_sends p post ->
  lookup p (pats (fst (run Fixed s post))) = Some i /\ nth_error (timers (fst (run Fixed s post))) i = Some t.
Proof.
  induction post as [|e post IH]; intros s p i t I Lk E O; cbn [run]; [auto|].
  inversion O as [|? ? (pat' & Sp & N) O']; subst.
  destruct (send_other_keeps s e p i t pat' I Lk E Sp N) as [Lk1 E1]. pose proof (inv_step s e I) as I1.
  destruct (step Fixed s e) as [s1 o1]. cbn [fst] in *.
  specialize (IH s1 p i t I1 Lk1 E1 O'). destruct (run Fixed s1 post) as [s2 o2]. exact IH.
Qed.

(* The request a handler sends while packet (hdr,data) is dispatched — whatever that packet is, also when it matches
   the new request's own pattern, as when polling the same resource from its completion callback — is pending with an
   armed timer of its own timeout after the packet has been handled, unless the same handler sends the same pattern
   again afterwards (then the later request is the pending one). *)
Theorem handler_request_survives s hdr data rid h d x exp tmo sess post :
  Inv s -> link s = Some sess -> nr s = true -> (length d <= 30)%nat ->
  let pat := hdr_attr h :: x :: exp in
  other_sends pat post ->
  let s' := fst (run Fixed s (handle_packet hdr data (Send rid h d (x :: exp) tmo :: post))) in
  lookup pat (pats s') = Some (length (timers s)) /\
  nth_error (timers s') (length (timers s)) = Some (mkTimer rid (hdr_attr h :: d) pat tmo (now s + tmo) Armed sess).
Proof.
  intros I L N Sz pat O s'. unfold s', handle_packet. cbn [run].
  pose proof (inv_step s (Recv hdr data) I) as I1. destruct (recv_fields Fixed s hdr data) as (L1 & N1 & W1 & Len1).
  destruct (step Fixed s (Recv hdr data)) as [s1 o1]. cbn [fst] in *.
  assert (link s1 = Some sess) as L1' by congruence. assert (nr s1 = true) as N1' by congruence.
  destruct (send_starts_timer s1 rid h d exp x tmo sess L1' N1' Sz) as (_ & Lk2 & E2).
  pose proof (inv_step s1 (Send rid h d (x :: exp) tmo) I1) as I2.
  destruct (step Fixed s1 (Send rid h d (x :: exp) tmo)) as [s2 o2]. cbn [fst] in *.
  fold pat in Lk2, E2. rewrite Len1, W1 in *.
  destruct (other_sends_keep post s2 pat _ _ I2 Lk2 E2 O) as [Lk3 E3].
  destruct (run Fixed s2 post) as [s3 o3]. cbn [fst] in *. auto.
Qed.
