(* C10/Header.v — the header of a received packet.  The link drivers build received packets with the raw header byte:
   CRTPPacket(raw, payload); the constructor normalises it, `self.header = raw | 0x3 << 2` (Model.hdr_attr), so the
   header the answer check compares depends on port and channel only, whatever the two reserved bits were on the wire
   (the firmware sends them cleared, the library's own packets — set_header/_update_header — have them set).
   Variant: keeping the raw byte (seeded change C10-o) is refuted. *)
From CF Require Import Common.Bytes C10.Model.
Open Scope Z_scope.

Definition raws : list Z := map Z.of_nat (seq 0 256).

Lemma in_raws h : 0 <= h < 256 -> In h raws.
Proof. intros H. unfold raws. rewrite <- (Z2Nat.id h) by lia. apply in_map, in_seq. lia. Qed.

(* header of a packet the library builds for port p, channel c (CRTPPacket._update_header) = Bytes.crtp_header *)
Lemma normalised_all :
  forallb (fun raw => (hdr_attr raw =? crtp_header (crtp_port raw) (crtp_chan raw)) &&
                      (hdr_attr raw =? Z.lor raw 12) && (0 <=? hdr_attr raw) && (hdr_attr raw <? 256)) raws = true.
Proof. vm_compute. reflexivity. Qed.

(* for all 256 raw header bytes: the constructor's header is the header the library itself would build for the same
   port and channel *)
Theorem received_header_normalised raw : 0 <= raw < 256 ->
  hdr_attr raw = crtp_header (crtp_port raw) (crtp_chan raw) /\ hdr_attr raw = Z.lor raw 12.
Proof.
  intros H. pose proof normalised_all as A. rewrite forallb_forall in A. specialize (A raw (in_raws raw H)).
  cbv beta in A. apply andb_true_iff in A as [A _]. apply andb_true_iff in A as [A _].
  apply andb_true_iff in A as [A1 A2]. apply Z.eqb_eq in A1. apply Z.eqb_eq in A2. auto.
Qed.

(* hence matching is on port and channel only: two raw bytes with the same port and channel give the same header, so a
   reply with the port/channel of the request and the expected leading bytes has the request's pattern as a prefix *)
Theorem same_port_channel_same_header raw raw' : 0 <= raw < 256 -> 0 <= raw' < 256 ->
  crtp_port raw = crtp_port raw' -> crtp_chan raw = crtp_chan raw' -> hdr_attr raw = hdr_attr raw'.
Proof.
  intros H H' P C. rewrite (proj1 (received_header_normalised raw H)), (proj1 (received_header_normalised raw' H')), P, C.
  reflexivity.
Qed.

Theorem reply_matches_whatever_reserved_bits raw raw' exp rest : 0 <= raw < 256 -> 0 <= raw' < 256 ->
  crtp_port raw = crtp_port raw' -> crtp_chan raw = crtp_chan raw' ->
  is_prefix (hdr_attr raw :: exp) (hdr_attr raw' :: exp ++ rest) = true.
Proof.
  intros H H' P C. rewrite (same_port_channel_same_header raw raw' H H' P C). unfold is_prefix.
  apply andb_true_iff. split.
  - apply Nat.leb_le. cbn [length]. rewrite app_length. lia.
  - apply zlist_eqb_spec. cbn [length firstn]. f_equal. rewrite firstn_app, Nat.sub_diag, firstn_all. cbn [firstn].
    symmetry. apply app_nil_r.
Qed.

(* refutation of keeping the raw byte: the firmware's reply 0x91 (port 9, channel 1, reserved bits cleared) to a request
   sent with header 0x9D does not have the pattern as a prefix *)
Definition raw_kept (raw : Z) : Z := raw.
Example raw_header_kept_refuted :
  crtp_port 145 = crtp_port 157 /\ crtp_chan 145 = crtp_chan 157 /\
  is_prefix (hdr_attr 157 :: [7]) (raw_kept 145 :: [7; 1]) = false /\
  is_prefix (hdr_attr 157 :: [7]) (hdr_attr 145 :: [7; 1]) = true.
Proof. vm_compute. auto. Qed.
