(* C10/Property.v — property C10 (unanswered requests are retried until answered, and only then),
   theorems only.  Model: C10/Model.v, variant Fixed (the code with fix F10).  `run Fixed init evs`
   executes an ARBITRARY list of events: sends (any pattern, timeout), arrivals, open/close/link
   error, needs_resending changes, time steps, timer wake-ups (`Expire`) and timer runs (`RunT`) in any
   order — a lost request or reply is an arrival that does not happen, a delayed reply is an arrival
   later in the list, a timer may run long after it woke up (also after it was cancelled meanwhile).
   `Inv` (Proofs.v) holds in every reachable state (C10_invariant).  Examples.v (imported so that it is
   re-checked) replays the defects of the code before the fix on variant Legacy. *)
From CF Require Import Common.Bytes C10.Model C10.Proofs C10.Proofs_b C10.Proofs_c C10.Proofs_e C10.Proofs_f C10.Lock C10.DriverClose C10.CloseSteps C10.FirstPacket C10.Header C10.Examples.
Open Scope Z_scope.

(* Every reachable state: patterns are distinct keys; each pending pattern has a live (armed or
   woken-up) timer for exactly that pattern on an open link of the session the request was sent in;
   every armed timer is the pending one of its pattern (no orphan timers). *)
Theorem C10_invariant : forall evs, Inv (fst (run Fixed init evs)).
Proof. intros evs. apply inv_run. exact inv_init. Qed.
Print Assumptions C10_invariant.

(* Sending a request with an expected reply on an open link that needs resending transmits it and
   starts a timer with the request's timeout for header+expected bytes. *)
Theorem C10_send_starts_retry_timer : forall s rid hdr data exp x tmo sess,
  link s = Some sess -> nr s = true -> (length data <= 30)%nat ->
  let pat := hdr_attr hdr :: x :: exp in
  let s' := fst (step Fixed s (Send rid hdr data (x :: exp) tmo)) in
  snd (step Fixed s (Send rid hdr data (x :: exp) tmo)) = [OTx sess rid sess (now s)] /\
  lookup pat (pats s') = Some (length (timers s)) /\
  nth_error (timers s') (length (timers s)) =
    Some (mkTimer rid (hdr_attr hdr :: data) pat tmo (now s + tmo) Armed sess).
Proof. exact send_starts_timer. Qed.
Print Assumptions C10_send_starts_retry_timer.

(* Retried while pending: in any reachable state a pending pattern has its timer (so the link is open);
   when due it can wake up and the pattern stays pending; when it runs, the request is transmitted on
   the open link and a new timer with the SAME interval (the request's timeout) is armed for it. *)
Theorem C10_retry_while_pending : forall s p i, Inv s -> lookup p (pats s) = Some i ->
  exists t sess, nth_error (timers s) i = Some t /\ t_pat t = p /\ link s = Some sess /\ t_orig t = sess /\
    (t_status t = Armed \/ t_status t = Committed) /\
    (t_status t = Armed -> t_deadline t <= now s ->
       let s' := fst (step Fixed s (Expire (Z.of_nat i))) in
       nth_error (timers s') i = Some (with_status t Committed) /\ pats s' = pats s /\ link s' = link s) /\
    (t_status t = Committed ->
       let s' := fst (step Fixed s (RunT (Z.of_nat i))) in
       snd (step Fixed s (RunT (Z.of_nat i))) = [OTx sess (t_rid t) sess (now s)] /\
       lookup p (pats s') = Some (length (timers s)) /\
       nth_error (timers s') (length (timers s)) =
         Some (mkTimer (t_rid t) (t_pk t) p (t_tmo t) (now s + t_tmo t) Armed sess)).
Proof. exact pending_is_retried. Qed.
Print Assumptions C10_retry_while_pending.

(* Not retried after that: a request that is not pending (its pattern was answered, or superseded by a
   later request with the same pattern, or its link was closed or failed) is never transmitted again,
   whatever happens afterwards (stale timers running late, new sessions, ...), unless sent again. *)
Theorem C10_no_retry_after_answer : forall evs s r, Inv s -> ~ pending s r ->
  Forall (fun e => ~ is_send_of r e) evs -> Forall (fun o => ~ tx_of r o) (snd (run Fixed s evs)).
Proof. exact no_tx_unless_pending. Qed.
Print Assumptions C10_no_retry_after_answer.

(* ... in closed form (request ids on the Send events distinct): after ANY history evs1, when a packet
   arrives and the longest pending pattern that is a prefix of header+data belongs to request r, then
   r is not transmitted during ANY continuation evs2 (timers that already woke up, re-sent patterns,
   close/reopen, ...). *)
Theorem C10_answered_never_retransmitted : forall evs1 hdr data evs2 i t,
  NoDup (rids_of (evs1 ++ Recv hdr data :: evs2)) ->
  let s := fst (run Fixed init evs1) in
  let best := longest_match (hdr_attr hdr :: data) (pats s) [] in
  link s <> None -> best <> [] -> lookup best (pats s) = Some i -> nth_error (timers s) i = Some t ->
  Forall (fun o => ~ tx_of (t_rid t) o) (snd (run Fixed (fst (step Fixed s (Recv hdr data))) evs2)).
Proof. exact answered_never_retransmitted. Qed.
Print Assumptions C10_answered_never_retransmitted.

(* An arriving packet removes exactly the longest pending pattern that is a prefix of header+data and
   cancels that pattern's timer; no other pattern or timer changes; nothing is transmitted. *)
Theorem C10_longest_prefix_only : forall v s hdr data,
  let d := hdr_attr hdr :: data in
  let best := longest_match d (pats s) [] in
  snd (step v s (Recv hdr data)) = [] /\
  (best <> [] -> (exists i, In (best, i) (pats s)) /\ (exists rest, d = best ++ rest)) /\
  (forall p i, In (p, i) (pats s) -> (exists rest, d = p ++ rest) -> (length p <= length best)%nat) /\
  (link s <> None -> forall i, lookup best (pats s) = Some i -> best <> [] ->
     fst (step v s (Recv hdr data)) = set_pt s (remove_key best (pats s)) (cancel_t i (timers s))) /\
  (best = [] \/ link s = None -> fst (step v s (Recv hdr data)) = s).
Proof. exact recv_longest_only. Qed.
Print Assumptions C10_longest_prefix_only.

(* Links that guarantee delivery: as long as every link opened has needs_resending = False (and the
   driver does not switch it on), no pattern is ever recorded, no timer is ever created, and there are
   at most as many transmissions as send calls. *)
Theorem C10_reliable_link_no_retry : forall evs s, no_retry_state s -> Forall reliable_ev evs ->
  no_retry_state (fst (run Fixed s evs)) /\
  (length (filter (fun o => match o with OTx _ _ _ _ => true | _ => false end) (snd (run Fixed s evs))) <=
   length (filter (fun e => match e with Send _ _ _ _ _ => true | _ => false end) evs))%nat.
Proof. exact reliable_link_no_retry. Qed.
Print Assumptions C10_reliable_link_no_retry.

(* Nothing is transmitted while there is no open link (either variant of the code), and in reachable
   states every transmission goes to the currently open link. *)
Theorem C10_closed_link_silent : forall v s e, link s = None -> Forall (fun o => ~ is_tx o) (snd (step v s e)).
Proof. exact closed_link_silent. Qed.
Print Assumptions C10_closed_link_silent.

(* No request crosses sessions: every transmission is made on the link of the session in which the
   request was originally sent (orig is copied from the Send into every timer that retries it). *)
Theorem C10_no_cross_session : forall evs,
  Forall (fun o => match o with OTx sess _ orig _ => orig = sess | _ => True end) (snd (run Fixed init evs)).
Proof. intros evs. apply run_tx_session. exact inv_init. Qed.
Print Assumptions C10_no_cross_session.

Theorem C10_transmission_on_open_link_of_own_session : forall s e sess r orig t, Inv s ->
  In (OTx sess r orig t) (snd (step Fixed s e)) -> link s = Some sess /\ orig = sess /\ t = now s.
Proof. exact step_tx_session. Qed.
Print Assumptions C10_transmission_on_open_link_of_own_session.

(* Closing the link or a link error leaves nothing pending (hence, by C10_no_retry_after_answer,
   nothing sent before is ever transmitted again, in this or any later session). *)
Theorem C10_close_forgets_everything : forall s r,
  ~ pending (fst (step Fixed s Close)) r /\ (link s <> None -> ~ pending (fst (step Fixed s LinkErr)) r).
Proof. intros s r. split; [apply close_nothing_pending | apply linkerr_nothing_pending]. Qed.
Print Assumptions C10_close_forgets_everything.

(* ---- leftover timers are harmless ---- *)
(* A timer that is not the pending timer of its pattern (replaced by a newer request, its pattern
   answered, forgotten by close_link / a link error) transmits nothing when it runs, in ANY state, and
   changes nothing but its own status — the identity test in send_packet(resend=True). *)
Theorem C10_stale_timer_fires_silently : forall s tid t,
  nth_error (timers s) (Z.to_nat tid) = Some t ->
  lookup (t_pat t) (pats s) <> Some (Z.to_nat tid) ->
  let r := step Fixed s (RunT tid) in
  snd r = [] /\ pats (fst r) = pats s /\ link (fst r) = link s /\ nr (fst r) = nr s /\ now (fst r) = now s /\
  length (timers (fst r)) = length (timers s) /\
  (forall j, j <> Z.to_nat tid -> nth_error (timers (fst r)) j = nth_error (timers s) j).
Proof. exact stale_timer_silent. Qed.
Print Assumptions C10_stale_timer_fires_silently.

(* Whether such timers are cancelled, left armed, have woken up or are done cannot be observed: two
   states that differ only in the status of timers that are not pending (`sim`) transmit exactly the same
   in every continuation.  Hence not cancelling a replaced/answered/forgotten timer does not affect any
   clause of the property (the correspondence step therefore compares the status of pending timers only). *)
Theorem C10_leftover_timers_unobservable : forall evs s s', Inv s -> sim s s' ->
  snd (run Fixed s' evs) = snd (run Fixed s evs) /\ sim (fst (run Fixed s evs)) (fst (run Fixed s' evs)).
Proof. exact sim_run. Qed.
Print Assumptions C10_leftover_timers_unobservable.


(* ---- requests sent from inside packet handlers ---- *)
(* run() checks a received packet against the pending patterns BEFORE it hands the packet to the port/header
   callbacks: handling packet p = `handle_packet hdr data follow` = [Recv p; what the handlers send].  In ANY reachable
   state, for ANY packet — also one that matches the new request's own pattern (a handler polling the same resource
   again) — the request a handler sends while p is dispatched is pending afterwards with an armed timer of its own
   timeout: p never cancels a request that was sent after p arrived (it can only answer earlier requests). *)
Theorem C10_request_sent_while_handling_packet_not_cancelled_by_it :
  forall s hdr data rid h d x exp tmo sess post,
  Inv s -> link s = Some sess -> nr s = true -> (length d <= 30)%nat ->
  let pat := hdr_attr h :: x :: exp in
  other_sends pat post ->
  let s' := fst (run Fixed s (handle_packet hdr data (Send rid h d (x :: exp) tmo :: post))) in
  lookup pat (pats s') = Some (length (timers s)) /\
  nth_error (timers s') (length (timers s)) = Some (mkTimer rid (hdr_attr h :: d) pat tmo (now s + tmo) Armed sess).
Proof. exact handler_request_survives. Qed.
Print Assumptions C10_request_sent_while_handling_packet_not_cancelled_by_it.

(* ---- a request superseded by a later request with the same pattern; ties ---- *)
(* One timer per pattern: when a request is sent whose pattern is already pending, the NEW request becomes the pending
   one (with an armed timer of its own timeout: C10_send_starts_retry_timer), the superseded request is not pending any
   more and its timer is no longer armed; by C10_no_retry_after_answer it is never transmitted again (also when its timer
   had already woken up: C10_stale_timer_fires_silently), and an answer matching the pattern stops the new request. *)
Theorem C10_newest_request_supersedes : forall used s rid hdr data x exp tmo sess i t,
  Inv s -> Uniq used s -> ~ In rid used ->
  link s = Some sess -> nr s = true -> (length data <= 30)%nat ->
  let pat := hdr_attr hdr :: x :: exp in
  lookup pat (pats s) = Some i -> nth_error (timers s) i = Some t ->
  let s' := fst (step Fixed s (Send rid hdr data (x :: exp) tmo)) in
  pending s' rid /\ ~ pending s' (t_rid t) /\
  nth_error (timers s') i = Some (cancel1 t) /\ t_status (cancel1 t) <> Armed.
Proof. exact newest_request_supersedes. Qed.
Print Assumptions C10_newest_request_supersedes.

(* No ties: a pending pattern that is a prefix of header+data and as long as the chosen one IS the chosen one — an
   arriving packet cancels exactly one timer, the one registered under the unique longest matching pattern. *)
Theorem C10_longest_match_is_unique : forall s hdr data p i,
  let d := hdr_attr hdr :: data in
  let best := longest_match d (pats s) [] in
  In (p, i) (pats s) -> (exists rest, d = p ++ rest) -> length p = length best -> best <> [] -> p = best.
Proof. exact longest_match_is_unique. Qed.
Print Assumptions C10_longest_match_is_unique.

(* ---- the send lock with a blocking / failing driver (C10/Lock.v, variant WithFinally = code with fix F10b) ---- *)
(* Every reachable state of the concurrent system (any interleaving of calls of send_packet by users and woken-up retry
   timers, lock hand-overs, driver returns/exceptions, exceptions of packet_sent callbacks, and lock-free events): the lock
   is held exactly by the one call that is inside the driver, and the model state is the plain model of Property.v run on
   the serialisation of the calls in the order they got the lock — so every theorem above applies. *)
Theorem C10_send_lock_invariant : forall evs, LInv (fst (lrun WithFinally linit evs)).
Proof. intros evs. apply linv_run. exact linv_init. Qed.
Print Assumptions C10_send_lock_invariant.

(* Released on every path: however the driver call of the holder ends (return, driver exception, exception of a
   packet_sent callback) the lock is free afterwards; a call that gets the lock and has nothing to transmit (no link,
   resend of an answered/replaced/forgotten request: the early return) frees it in the same step. *)
Theorem C10_send_lock_released_on_every_path : forall s i, LInv s -> holder s = Some i ->
  forall o, holder (fst (lstep WithFinally s (LFinish i o))) = None.
Proof. exact lock_released_on_every_path. Qed.
Print Assumptions C10_send_lock_released_on_every_path.

Theorem C10_send_lock_held_only_inside_driver : forall s i,
  let s' := fst (lstep WithFinally s (LAcquire i)) in
  holder s' = holder s \/ holder s' = None \/
  (holder s' = Some i /\ exists a outs, nth_error (calls s') i = Some (a, Hold, outs) /\ has_tx outs = true).
Proof. exact acquire_holds_only_while_in_driver. Qed.
Print Assumptions C10_send_lock_held_only_inside_driver.

(* No deadlock on the lock: free -> any waiting call can take it; held -> its holder is inside the driver and can finish. *)
Theorem C10_send_lock_progress : forall s, LInv s ->
  match holder s with
  | None => forall i a po, nth_error (calls s) i = Some (a, Wait, po) ->
            status_of (nth i (calls (fst (lstep WithFinally s (LAcquire i)))) (a, Wait, [])) <> Wait
  | Some i => exists a outs, nth_error (calls s) i = Some (a, Hold, outs)
  end.
Proof. exact lock_progress. Qed.
Print Assumptions C10_send_lock_progress.

(* ---- arm, THEN hand to the driver: events during the (blocking) driver call ---- *)
(* The pattern and its armed timer exist from the moment the call gets the lock, i.e. during the whole driver call. *)
Theorem C10_timer_armed_before_driver_call : forall s i rid hdr data x exp tmo po sess,
  holder s = None -> nth_error (calls s) i = Some (AUser rid hdr data (x :: exp) tmo, Wait, po) ->
  link (base s) = Some sess -> nr (base s) = true -> (length data <= 30)%nat ->
  let pat := hdr_attr hdr :: x :: exp in
  let s1 := fst (lstep WithFinally s (LAcquire i)) in
  holder s1 = Some i /\
  lookup pat (pats (base s1)) = Some (length (timers (base s))) /\
  nth_error (timers (base s1)) (length (timers (base s))) =
    Some (mkTimer rid (hdr_attr hdr :: data) pat tmo (now (base s) + tmo) Armed sess).
Proof. exact acquire_arms_before_driver. Qed.
Print Assumptions C10_timer_armed_before_driver_call.

(* Whatever does not need the lock (arrivals, link error, close, open, time, timer wake-ups) is, while a sender sits in
   the driver, an ordinary step of the plain model on that state; the lock and the calls are untouched. *)
Theorem C10_events_during_driver_call_are_model_steps : forall lv s ev,
  match ev with Send _ _ _ _ _ | RunT _ => False | _ => True end ->
  let s' := fst (lstep lv s (LBase ev)) in
  base s' = fst (step Fixed (base s) ev) /\ holder s' = holder s /\ calls s' = calls s /\
  snd (lstep lv s (LBase ev)) = snd (step Fixed (base s) ev).
Proof. exact base_event_during_driver_call. Qed.
Print Assumptions C10_events_during_driver_call_are_model_steps.

(* A reply arriving DURING the driver call cancels the request (its pattern is forgotten, its timer cancelled) although
   send_packet has not returned yet: the answered request is never retransmitted. *)
Theorem C10_reply_during_driver_call_cancels : forall lv s hdr data best i t,
  Inv (base s) -> link (base s) <> None ->
  best = longest_match (hdr_attr hdr :: data) (pats (base s)) [] -> best <> [] ->
  lookup best (pats (base s)) = Some i -> nth_error (timers (base s)) i = Some t ->
  let s' := fst (lstep lv s (LBase (Recv hdr data))) in
  lookup best (pats (base s')) = None /\ nth_error (timers (base s')) i = Some (cancel1 t) /\ holder s' = holder s.
Proof. exact reply_during_driver_call_cancels. Qed.
Print Assumptions C10_reply_during_driver_call_cancels.

(* A link error reported DURING the driver call leaves no timer behind: nothing pending, no armed timer — nothing of this
   session can fire in the next one. *)
Theorem C10_link_error_during_driver_call_leaves_no_timer : forall lv s,
  Inv (base s) -> link (base s) <> None ->
  let s' := fst (lstep lv s (LBase LinkErr)) in
  pats (base s') = [] /\ link (base s') = None /\
  (forall j t, nth_error (timers (base s')) j = Some t -> t_status t <> Armed) /\ holder s' = holder s.
Proof. exact link_error_during_driver_call_leaves_no_timer. Qed.
Print Assumptions C10_link_error_during_driver_call_leaves_no_timer.

(* ---- the driver side of "nothing is ever transmitted on a closed link" (C10/DriverClose.v) ---- *)
(* close() of a driver object makes device calls that may raise (it swallows the exception): the object is closed on
   EVERY path, for every placement of the fault. *)
Theorem C10_driver_close_always_closes : forall s f, handle (fst (dstep ClearAlways s (DClose f))) = None.
Proof. exact close_always_closes. Qed.
Print Assumptions C10_driver_close_always_closes.

(* After close() returned, no send_packet / receive_packet / close on that object writes anything to the device, for all
   later histories and fault placements, until the object is connected again ... *)
Theorem C10_closed_driver_writes_nothing : forall ops s, handle s = None -> no_connect ops ->
  written (fst (drun ClearAlways s ops)) = written s /\ handle (fst (drun ClearAlways s ops)) = None /\
  Forall (fun r => r = 0) (snd (drun ClearAlways s ops)).
Proof. exact closed_driver_writes_nothing. Qed.
Print Assumptions C10_closed_driver_writes_nothing.

(* ... and it can be connected again. *)
Theorem C10_closed_driver_can_reconnect : forall s f,
  let s1 := fst (dstep ClearAlways s (DClose f)) in
  snd (dstep ClearAlways s1 DConnect) = 0 /\ handle (fst (dstep ClearAlways s1 DConnect)) = Some (nconn s).
Proof. exact closed_driver_can_reconnect. Qed.
Print Assumptions C10_closed_driver_can_reconnect.

(* ---- close_link() as steps, with another thread acting between them (C10/CloseSteps.v) ---- *)
(* close_link = ... self.link = None (drop_link) ... _cancel_answer_timers() (cancel_step) ...: the cancel comes AFTER the
   link is gone.  For EVERY interleaving of senders (requests sent, arrivals handled by other threads) with these steps —
   before the link is dropped (driver still open or already closed), between drop and cancel, after the cancel — nothing is
   pending, no timer is armed and there is no link when close_link is over: no timer outlives the close ... *)
Theorem C10_no_timer_outlives_close : forall s before mid after,
  Inv s -> Forall sender_event mid -> Forall sender_event after ->
  let s' := close_steps s before mid after in
  pats s' = [] /\ link s' = None /\ (forall j t, nth_error (timers s') j = Some t -> t_status t <> Armed) /\ Inv s'.
Proof. exact no_timer_outlives_close. Qed.
Print Assumptions C10_no_timer_outlives_close.

(* ... hence no request of the closed session is transmitted in anything that follows (an immediately reopened link
   included), unless it is sent again. *)
Theorem C10_nothing_of_closed_session_later : forall s before mid after evs r,
  Inv s -> Forall sender_event mid -> Forall sender_event after ->
  Forall (fun e => ~ is_send_of r e) evs ->
  Forall (fun o => ~ tx_of r o) (snd (run Fixed (close_steps s before mid after) evs)).
Proof. exact nothing_of_closed_session_later. Qed.
Print Assumptions C10_nothing_of_closed_session_later.

(* ---- the out queue of a driver object across close / reconnect (C10/DriverClose.v, variant FreshQueues = the code) ---- *)
(* For every history of connect / send_packet / close / comm-thread activity on ONE driver object — sends to the closed
   object and before the first connect included —: every frame transmitted in session n carries a packet that was handed to
   send_packet during session n while the driver was open.  (A packet put after close() sits in the abandoned queue.) *)
Theorem C10_session_frames_are_session_sends : forall ops, frames_ok (qrun FreshQueues qinit ops).
Proof. exact session_frames_from_init. Qed.
Print Assumptions C10_session_frames_are_session_sends.

Theorem C10_session_frames_invariant : forall ops s, frames_ok s -> queue_ok s -> frames_ok (qrun FreshQueues s ops).
Proof. exact session_frames_are_session_sends. Qed.
Print Assumptions C10_session_frames_invariant.

(* keeping the queue object over a reconnect (seeded C10-m) is refuted: connect, send 1, close, send 2, connect -> packet 2,
   handed to the closed driver, is transmitted in session 2 *)
Theorem C10_kept_queue_refuted :
  let ops := [QConnect; QSend 1; QPump; QClose; QSend 2; QConnect; QPump] in
  q_frames (qrun KeptQueues qinit ops) = [(2, 2, None); (1, 1, Some 1)] /\ ~ frames_ok (qrun KeptQueues qinit ops) /\
  q_frames (qrun FreshQueues qinit ops) = [(1, 1, Some 1)].
Proof. exact kept_queue_refuted. Qed.
Print Assumptions C10_kept_queue_refuted.

(* ---- the packet_received callbacks and the FIRST packet of a session (C10/FirstPacket.v, CopyIter = the code) ---- *)
(* Caller.call goes over a copy: every callback registered when the packet arrives is called, once, in order, whatever
   removes itself meanwhile — so the answer check sees EVERY received packet, the first of a session included ... *)
Theorem C10_answer_check_sees_every_packet : forall l, In CbCheck l -> In CbCheck (fst (dispatch_all CopyIter l)).
Proof. exact answer_check_sees_every_packet. Qed.
Print Assumptions C10_answer_check_sees_every_packet.

(* ... in particular on a NEW Crazyflie object, whose list is [initial-packet callback; answer check; listeners]: the first
   packet is seen by the answer check and the initial-packet callback has removed itself afterwards. *)
Theorem C10_first_packet_of_first_session : forall (listeners : list pcb) (others : list Z),
  In CbCheck (fst (dispatch_all CopyIter (new_object listeners))) /\
  ~ In CbInitial (snd (dispatch_all CopyIter (new_object (map CbOther others)))).
Proof. exact first_packet_of_first_session. Qed.
Print Assumptions C10_first_packet_of_first_session.

(* iterating the live list (seeded C10-n) is refuted: on a new object the first packet skips the answer check; a later
   session of the same object (callback re-added at the end) hides it *)
Theorem C10_live_iteration_refuted :
  fst (dispatch_all LiveIter (new_object [CbOther 1])) = [CbInitial; CbOther 1] /\
  fst (dispatch_all CopyIter (new_object [CbOther 1])) = [CbInitial; CbCheck; CbOther 1] /\
  fst (dispatch_all LiveIter (add_cb CbInitial [CbCheck; CbOther 1])) = [CbCheck; CbOther 1; CbInitial].
Proof. exact live_iteration_skips_answer_check. Qed.
Print Assumptions C10_live_iteration_refuted.

(* ---- the header of a received packet (C10/Header.v) ---- *)
(* Drivers build received packets as CRTPPacket(raw, payload); the constructor normalises the header (raw | 0x0C): for all
   256 raw bytes it is the header the library builds for the same port and channel ... *)
Theorem C10_received_header_normalised : forall raw, 0 <= raw < 256 ->
  hdr_attr raw = crtp_header (crtp_port raw) (crtp_chan raw) /\ hdr_attr raw = Z.lor raw 12.
Proof. exact received_header_normalised. Qed.
Print Assumptions C10_received_header_normalised.

(* ... so the answer check matches on port, channel and leading bytes only: a reply with the request's port/channel and the
   expected leading bytes has the request's pattern as a prefix whatever the two reserved bits were on the wire. *)
Theorem C10_reply_matches_whatever_reserved_bits : forall raw raw' exp rest, 0 <= raw < 256 -> 0 <= raw' < 256 ->
  crtp_port raw = crtp_port raw' -> crtp_chan raw = crtp_chan raw' ->
  is_prefix (hdr_attr raw :: exp) (hdr_attr raw' :: exp ++ rest) = true.
Proof. exact reply_matches_whatever_reserved_bits. Qed.
Print Assumptions C10_reply_matches_whatever_reserved_bits.

(* keeping the raw byte in the constructor (seeded C10-o) is refuted: reply 0x91 vs request header 0x9D *)
Theorem C10_raw_header_kept_refuted :
  crtp_port 145 = crtp_port 157 /\ crtp_chan 145 = crtp_chan 157 /\
  is_prefix (hdr_attr 157 :: [7]) (raw_kept 145 :: [7; 1]) = false /\
  is_prefix (hdr_attr 157 :: [7]) (hdr_attr 145 :: [7; 1]) = true.
Proof. exact raw_header_kept_refuted. Qed.
Print Assumptions C10_raw_header_kept_refuted.

(* ---- a FAILED open_link (C10/CloseSteps.v: failed_open) ---- *)
(* The driver connected, the connection set-up raised: the code closes the driver and sets self.link = None.  Afterwards
   there is no link, nothing pending, no armed timer; every later send or arrival changes nothing and transmits nothing
   (requests with an expected reply are dropped, no timer is armed) until a later open_link succeeds. *)
Theorem C10_failed_open_leaves_no_link : forall s n evs,
  Inv s -> link s = None -> Forall sender_event evs ->
  let s' := failed_open s n in
  link s' = None /\ pats s' = [] /\ (forall j t, nth_error (timers s') j = Some t -> t_status t <> Armed) /\
  fst (run Fixed s' evs) = s' /\ Forall (fun o => ~ is_tx o) (snd (run Fixed s' evs)).
Proof. exact failed_open_leaves_no_link. Qed.
Print Assumptions C10_failed_open_leaves_no_link.

(* keeping self.link on the failure exit (seeded C10-q) is refuted: the next request is handed to the closed driver and
   gets a retry timer *)
Theorem C10_failed_open_keeping_link_refuted :
  let s := failed_open_keeps_link init true in
  snd (run Fixed s [Send 1 145 [1] [7] 100]) = [OTx 0 1 0 0] /\
  pats (fst (run Fixed s [Send 1 145 [1] [7] 100])) = [([157; 7], 0%nat)] /\
  snd (run Fixed (failed_open init true) [Send 1 145 [1] [7] 100]) = [].
Proof. exact failed_open_keeping_link_refuted. Qed.
Print Assumptions C10_failed_open_keeping_link_refuted.
