(* C07/Proofs_x.v — table operations from another thread interleaved with the steps of a dispatch. *)
From CF Require Import Common.Bytes C07.Model C07.Proofs.
Open Scope Z_scope.

Lemma run_ext_filter P : forall sc s, script_ok P sc -> filter P (cbs (run_ext s sc)) = filter P (cbs s).
Proof.
  induction sc as [|o sc IH]; intros s H; cbn [run_ext]; [reflexivity|].
  inversion H as [|? ? Ho Hsc]; subst. rewrite IH by exact Hsc. apply run_op_filter. exact Ho.
Qed.

Lemma call_ports_x_spec beh ext n : forall snap k s log,
  snd (call_ports_x beh ext n k snap s log) = port_entries n snap ++ log.
Proof.
  unfold port_entries. induction snap as [|r snap IH]; intros k s log; cbn [call_ports_x map rev]; [reflexivity|].
  destruct (run_script s (beh (EPort r n :: log) (r_cb r))) as [s' raised]. rewrite IH.
  rewrite <- app_assoc. reflexivity.
Qed.

Lemma call_all_x_alive beh ext n : forall snap k s log s1 log1,
  call_all_x beh ext n k snap s log = (s1, log1, true) -> log1 = all_entries n snap ++ log.
Proof.
  unfold all_entries. induction snap as [|c snap IH]; intros k s log s1 log1 H; cbn [call_all_x map rev] in *.
  - injection H as _ <-. reflexivity.
  - destruct (run_script s (beh (EAll c n :: log) c)) as [s' raised]. destruct raised; [discriminate|].
    apply IH in H. rewrite H, <- app_assoc. reflexivity.
Qed.

Lemma call_all_x_filter P beh ext n : forall snap k s log,
  (forall pre c, Forall (pk_is n) pre -> In c snap -> script_ok P (beh (pre ++ log) c)) ->
  (forall j, script_ok P (ext (PAfterAll n j))) ->
  filter P (cbs (fst (fst (call_all_x beh ext n k snap s log)))) = filter P (cbs s).
Proof.
  induction snap as [|c snap IH]; intros k s log H E; cbn [call_all_x]; [reflexivity|].
  pose proof (run_script_filter P (beh (EAll c n :: log) c) s) as F.
  destruct (run_script s (beh (EAll c n :: log) c)) as [s' raised]. cbn [fst] in F.
  assert (script_ok P (beh (EAll c n :: log) c)) as Hc.
  { apply (H [EAll c n] c); [repeat constructor | left; reflexivity]. }
  destruct raised; cbn [fst]; [exact (F Hc)|].
  rewrite IH; [rewrite run_ext_filter by apply E; exact (F Hc) | | exact E].
  intros pre c' Fp I. replace (pre ++ EAll c n :: log) with ((pre ++ [EAll c n]) ++ log)
    by (rewrite <- app_assoc; reflexivity).
  apply H; [|right; exact I]. apply Forall_app. split; [exact Fp | repeat constructor].
Qed.

(* what the snapshot semantics guarantees, exactly: the port callbacks called for packet n are the matching
   registrations of the table AT THE INSTANT the list is built, once each, in table order — whatever this or any other
   thread does to the table afterwards *)
Theorem dispatch_x_snapshot beh ext n h s log s' log' :
  dispatch_x beh ext n h s log = (s', log', true) ->
  exists s1 log1,
    snap_state beh ext n s log = (s1, log1, true) /\
    log1 = all_entries n (alls (run_ext s (ext (PStart n)))) ++ log /\
    log' = port_entries n (filter (matches h) (cbs s1)) ++ log1.
Proof.
  intros D. unfold dispatch_x in D. destruct (snap_state beh ext n s log) as [[s1 log1] alive] eqn:E.
  destruct alive; [|discriminate]. exists s1, log1. split; [reflexivity|].
  pose proof (call_ports_x_spec beh ext n (filter (matches h) (cbs s1)) 1%nat (run_ext s1 (ext (PSnap n))) log1) as S.
  destruct (call_ports_x beh ext n 1 (filter (matches h) (cbs s1)) (run_ext s1 (ext (PSnap n))) log1) as [s2 log2].
  cbn [snd] in S. injection D as _ <-. split; [|exact S].
  unfold snap_state in E. eapply call_all_x_alive. exact E.
Qed.

(* nobody (no packet_received callback, no other thread) adds or removes a registration of class P between the start
   of the dispatch and the instant the matching registrations are collected *)
Definition quiet_until_snapshot (P : reg -> bool) (beh : behaviour) (ext : ext_sched) (n : Z) (s : st) (log : list entry) : Prop :=
  script_ok P (ext (PStart n)) /\ script_ok P (ext (PAllSnap n)) /\ (forall j, script_ok P (ext (PAfterAll n j))) /\
  (forall pre c, Forall (pk_is n) pre -> script_ok P (beh (pre ++ log) c)).

Theorem dispatch_x_deliveries P beh ext n h s log s' log' :
  quiet_until_snapshot P beh ext n s log ->
  dispatch_x beh ext n h s log = (s', log', true) ->
  exists ports,
    log' = port_entries n ports ++ all_entries n (alls (run_ext s (ext (PStart n)))) ++ log /\
    Forall (fun r => matches h r = true) ports /\
    filter P ports = filter P (filter (matches h) (cbs s)).
Proof.
  intros (Q0 & Q1 & Q2 & Q3) D. destruct (dispatch_x_snapshot _ _ _ _ _ _ _ _ D) as (s1 & log1 & E & L1 & L').
  exists (filter (matches h) (cbs s1)). subst log1. split; [exact L'|]. split.
  - apply Forall_forall. intros r I. apply filter_In in I. tauto.
  - unfold snap_state in E.
    pose proof (call_all_x_filter P beh ext n (alls (run_ext s (ext (PStart n)))) 1%nat
                  (run_ext (run_ext s (ext (PStart n))) (ext (PAllSnap n))) log (fun pre c F _ => Q3 pre c F) Q2) as F.
    rewrite E in F. cbn [fst] in F. rewrite !run_ext_filter in F by assumption.
    rewrite filter_filter_comm, F, filter_filter_comm. reflexivity.
Qed.

Theorem dispatch_x_exactly_once beh ext n h s log s' log' r :
  quiet_until_snapshot (fun x => reg_eqb x r) beh ext n s log ->
  dispatch_x beh ext n h s log = (s', log', true) ->
  exists ports,
    log' = port_entries n ports ++ all_entries n (alls (run_ext s (ext (PStart n)))) ++ log /\
    count_occ reg_eq_dec ports r = if matches h r then count_occ reg_eq_dec (cbs s) r else 0%nat.
Proof.
  intros Q D. destruct (dispatch_x_deliveries _ beh ext n h s log s' log' Q D) as (ports & L & M & F).
  exists ports. split; [exact L|]. rewrite !count_occ_filter, F, filter_filter_comm.
  destruct (matches h r) eqn:E.
  - f_equal. apply filter_all_true. intros x I. apply filter_In in I as [_ Q']. apply reg_eqb_spec in Q'. subst. exact E.
  - rewrite filter_all_false; [reflexivity|].
    intros x I. apply filter_In in I as [_ Q']. apply reg_eqb_spec in Q'. subst. exact E.
Qed.

(* a registration added or removed at any time during the dispatch: never more often than it is in the table at the
   snapshot instant — at most once when the table has no duplicates then *)
Theorem dispatch_x_at_most_once beh ext n h s log s' log' r :
  dispatch_x beh ext n h s log = (s', log', true) ->
  exists s1 log1, snap_state beh ext n s log = (s1, log1, true) /\
    log' = port_entries n (filter (matches h) (cbs s1)) ++ log1 /\
    (count_occ reg_eq_dec (filter (matches h) (cbs s1)) r <= count_occ reg_eq_dec (cbs s1) r)%nat /\
    (NoDup (cbs s1) -> count_occ reg_eq_dec (filter (matches h) (cbs s1)) r <= 1)%nat.
Proof.
  intros D. destruct (dispatch_x_snapshot _ _ _ _ _ _ _ _ D) as (s1 & log1 & E & _ & L').
  exists s1, log1. split; [exact E|]. split; [exact L'|].
  assert (forall l, count_occ reg_eq_dec (filter (matches h) l) r <= count_occ reg_eq_dec l r)%nat as Le.
  { induction l as [|x l IH]; cbn [filter count_occ]; [lia|].
    destruct (matches h x); cbn [count_occ]; destruct (reg_eq_dec x r); lia. }
  split; [apply Le|]. intros ND. specialize (Le (cbs s1)).
  assert (count_occ reg_eq_dec (cbs s1) r <= 1)%nat; [|lia].
  destruct (in_dec reg_eq_dec r (cbs s1)) as [I|N].
  - rewrite (proj1 (NoDup_count_occ' reg_eq_dec (cbs s1)) ND r I). lia.
  - rewrite (proj1 (count_occ_not_In reg_eq_dec (cbs s1) r) N). lia.
Qed.

(* without another thread the interleaved dispatcher is the dispatcher of Model.v *)
Lemma call_all_x_none beh n : forall snap k s log, call_all_x beh (fun _ => []) n k snap s log = call_all beh n snap s log.
Proof.
  induction snap as [|c snap IH]; intros k s log; cbn [call_all_x call_all run_ext]; [reflexivity|].
  destruct (run_script s (beh (EAll c n :: log) c)) as [s' raised]. destruct raised; [reflexivity | apply IH].
Qed.

Lemma call_ports_x_none beh n : forall snap k s log, call_ports_x beh (fun _ => []) n k snap s log = call_ports beh n snap s log.
Proof.
  induction snap as [|r snap IH]; intros k s log; cbn [call_ports_x call_ports run_ext]; [reflexivity|].
  destruct (run_script s (beh (EPort r n :: log) (r_cb r))) as [s' raised]. apply IH.
Qed.

Theorem dispatch_x_none beh n h s log : dispatch_x beh (fun _ => []) n h s log = dispatch beh n h s log.
Proof.
  unfold dispatch_x, snap_state, dispatch. cbn [run_ext]. rewrite call_all_x_none.
  destruct (call_all beh n (alls s) s log) as [[s1 log1] alive]. destruct alive; [|reflexivity].
  rewrite call_ports_x_none. reflexivity.
Qed.

(* ------------------------------------------------------------------ the stream of reads, with failing reads *)
(* deliveries = deliveries of the packets handed out before the first failing read: every packet that was received from
   the link is dispatched exactly as by `run` (so exactly once to each matching registration), none twice, and nothing
   after the failing read; the loop is alive afterwards iff no read failed and no packet_received callback raised *)
Theorem run_stream_prefix beh : forall rs n s log,
  let '(s1, log1, alive1) := run beh n (handed_out rs) s log in
  run_stream beh n rs s log = (s1, log1, alive1 && negb (read_fails rs)).
Proof.
  induction rs as [|r rs IH]; intros n s log; cbn [run_stream handed_out read_fails run]; [reflexivity|].
  destruct r as [h| |].
  - cbn [run]. destruct (dispatch beh n h s log) as [[s' log'] alive]. destruct alive; [apply IH | reflexivity].
  - apply IH.
  - reflexivity.
Qed.

Corollary run_stream_no_fault beh rs n s log : read_fails rs = false ->
  run_stream beh n rs s log = run beh n (handed_out rs) s log.
Proof.
  intros F. pose proof (run_stream_prefix beh rs n s log) as H.
  destruct (run beh n (handed_out rs) s log) as [[s1 log1] a]. rewrite H, F, andb_true_r. reflexivity.
Qed.

(* ------------------------------------------------------------------ the answer check under concurrent insertions *)
(* for EVERY schedule of insertions/removals by other threads between the loop steps, the scan over the snapshot visits
   exactly the keys present when it started and ends normally: no exception reaches Caller.call / run(), the packet goes
   on to the port callbacks (dispatch continues as in the theorems above) *)
Theorem snapshot_scan_never_raises : forall snap other k d,
  let '(vis, _, ok) := scan_snapshot snap other k d in vis = snap /\ ok = true.
Proof.
  induction snap as [|p rest IH]; intros other k d; cbn [scan_snapshot]; [auto|].
  specialize (IH other (S k) (kapply d (other k))).
  destruct (scan_snapshot rest other (S k) (kapply d (other k))) as [[vis d'] ok]. destruct IH as [-> ->]. auto.
Qed.

Corollary answer_scan_ok d other : let '(vis, _, ok) := answer_scan d other in vis = d /\ ok = true.
Proof. apply snapshot_scan_never_raises. Qed.
