(* C07/Examples.v — concrete instances: the hypotheses of the theorems are satisfiable on non-trivial
   states, the defect F07 of the loop before the fix, and the duplicate-registration quirk. *)
From CF Require Import Common.Bytes C07.Model C07.Proofs.
Open Scope Z_scope.

Definition ra := port_reg 2 1.
Definition rb := port_reg 2 2.
Definition rc := port_reg 2 3.
Definition rd := mkReg 2 255 1 3 4.          (* port 2, channel 1 only *)

(* callback 1 removes itself on its first invocation (what param.py's one-shot closures and
   TocFetcher do); callback 2 raises; the all-packet callback 9 registers rd *)
Definition tbl : list (Z * list script) :=
  [(1, [[RemH ra]]); (2, [[Raise]; [AddH ra; Raise; RemH rc]]); (9, [[AddH rd]])].
Definition s0 : st := mkSt [ra; rb; rc] [9].

(* header 0x2D: port 2, channel 1, link bits set *)
Example ex_dispatch :
  dispatch (table_beh tbl) 0 45 s0 [] =
  (mkSt [rb; rc; rd] [9], [EPort rd 0; EPort rc 0; EPort rb 0; EPort ra 0; EAll 9 0], true).
Proof. vm_compute. reflexivity. Qed.

(* ra, rb, rc are untouched by the all-packet callback: hypothesis of C07_exactly_once_per_registration *)
Example ex_untouched : untouched_by_all (table_beh tbl) 0 s0 [] rb.
Proof.
  intros pre c F [<-|[]]. unfold table_beh. cbn [lookup_scripts tbl Z.eqb Pos.eqb].
  destruct (count_cb 9 (pre ++ []) - 1)%nat as [|[|k]]; cbn [nth]; repeat constructor.
Qed.

Example ex_run_three_packets :
  obs_of (run (table_beh tbl) 0 [45; 32; 48] s0 []) =
  [1;  9; 0; 1; 0; 2; 0; 3; 0; 4; 0;   9; 1; 2; 1; 3; 1;   9; 2].
Proof. vm_compute. reflexivity. Qed.

(* an exception leaving a packet_received callback ends the loop (not isolated by the code) *)
Example ex_all_cb_raises_kills :
  obs_of (run (table_beh [(9, [[]; [RemAll 7]])]) 0 [45; 45; 45] s0 []) = [0; 9; 0; 1; 0; 2; 0; 3; 0; 9; 1].
Proof. vm_compute. reflexivity. Qed.

(* ---- F07: the loop of the tree before the fix skips rb when ra removes itself *)
Example legacy_loop_skips_next_registration :
  option_map snd (call_ports_live 10 (table_beh tbl) 0 45 0 (mkSt [ra; rb; rc] []) []) =
    Some [EPort rc 0; EPort ra 0] /\
  snd (call_ports (table_beh tbl) 0 (filter (matches 45) [ra; rb; rc]) (mkSt [ra; rb; rc] []) []) =
    [EPort rc 0; EPort rb 0; EPort ra 0].
Proof. vm_compute. split; reflexivity. Qed.

(* the old loop does not even terminate when a callback registers a matching callback on every call *)
Example legacy_loop_can_diverge :
  call_ports_live 200 (fun _ _ => [AddH ra]) 0 45 0 (mkSt [ra] []) [] = None.
Proof. vm_compute. reflexivity. Qed.

(* ---- duplicates (outside the property's quantifier): the live loop in remove_header_callback
   leaves one of three equal registrations behind *)
Example remove_with_duplicates :
  remove_header_callback ra [ra; ra; ra] = [ra] /\ remove_header_callback ra [ra; rb; ra] = [rb].
Proof. vm_compute. split; reflexivity. Qed.

(* ---- payload independence and its refutation for a payload-dependent filter (seeded C07-f) *)
Definition r_linkctrl := port_reg 15 7.
Example null_packet_reaches_linkctrl_callback :
  dispatch_pk (fun _ _ => []) 0 (243, []) (mkSt [r_linkctrl] []) [] = (mkSt [r_linkctrl] [], [EPort r_linkctrl 0], true) /\
  dispatch_pk (fun _ _ => []) 0 (243, [1]) (mkSt [r_linkctrl] []) [] = (mkSt [r_linkctrl] [], [EPort r_linkctrl 0], true).
Proof. vm_compute. auto. Qed.

(* the filter drops the empty-payload packets 0xF3/0xF7/0xFB/0xFF for a matching registration and lets the same
   header with a payload through: it is not a function of (port, channel) *)
Example payload_dependent_filter_refuted :
  matches 243 r_linkctrl = true /\
  dispatch_nullskip (fun _ _ => []) 0 (243, []) (mkSt [r_linkctrl] []) [] = (mkSt [r_linkctrl] [], [], true) /\
  dispatch_nullskip (fun _ _ => []) 0 (243, [1]) (mkSt [r_linkctrl] []) [] = (mkSt [r_linkctrl] [], [EPort r_linkctrl 0], true) /\
  map (fun h => snd (fst (dispatch_nullskip (fun _ _ => []) 0 (h, []) (mkSt [mkReg 0 0 0 0 9] []) []))) [243; 247; 251; 255; 240] =
    [[]; []; []; []; [EPort (mkReg 0 0 0 0 9) 0]].
Proof. vm_compute. auto. Qed.

(* ---- failing reads: the code ends the loop; swallowing the exception with a stale packet variable (seeded C07-k)
   dispatches the previous packet once more per failing read *)
Definition reads_fault : list read := [RPacket 44; RRaise; RRaise; RPacket 44].
Example read_fault_ends_loop_after_exactly_once :
  obs_of (run_stream (fun _ _ => []) 0 reads_fault (mkSt [ra] []) []) = [0; 1; 0].
Proof. vm_compute. reflexivity. Qed.
Example stale_packet_dispatched_again :
  obs_of (run_stream_stale (fun _ _ => []) 0 None reads_fault (mkSt [ra] []) []) = [1; 1; 0; 1; 0; 1; 0; 1; 1].
Proof. vm_compute. reflexivity. Qed.

(* ---- the answer check with another thread inserting a pattern during the loop (seeded C07-o) *)
Definition other_ins : nat -> list kop := fun k => match k with O => [KIns 9] | _ => [] end.
Example snapshot_scan_survives_insertion : answer_scan [7] other_ins = ([7], [7; 9], true).
Proof. vm_compute. reflexivity. Qed.
Example live_scan_raises_on_insertion : answer_scan_live [7; 8] other_ins = ([7], [7; 8; 9], false).
Proof. vm_compute. reflexivity. Qed.
