(* C07/Property.v — property C07 (received packets reach exactly the matching callbacks, once, in
   order), theorems only.  Model: C07/Model.v (dispatcher with fix F07).  `behaviour` = what the
   callbacks do: ANY function from the invocation log to scripts of registry operations/exceptions,
   so every theorem holds for all callbacks that add/remove callbacks (themselves included) or raise
   at any point.  Examples.v (imported so that it is re-checked) has concrete non-trivial instances,
   the pre-fix loop's failure, and the duplicate-registration quirk. *)
From CF Require Import Common.Bytes C07.Model C07.Proofs C07.Proofs_x C07.Examples.
From Coq Require Import Sorting.Sorted.
Open Scope Z_scope.

(* Matching, for all 256 header bytes and every registration: the test the dispatcher applies is the
   masked comparison of the header's port nibble and channel bits (the two link bits 2-3 play no
   role); a port registration (add_port_callback) matches exactly the headers of its port. *)
Theorem C07_match_exact : forall h r, 0 <= h < 256 ->
  (matches h r = true <->
   r_port r = Z.land (h / 16) (r_pmask r) /\ r_chan r = Z.land (h mod 4) (r_cmask r)) /\
  (forall p c, matches h (port_reg p c) = true <-> h / 16 = p).
Proof. intros h r H. split; [exact (match_exact h r H) | intros p c; exact (match_port_reg h p c H)]. Qed.
Print Assumptions C07_match_exact.

(* One dispatch that is not ended by an exception of a packet_received callback: the log grows by
   the packet_received callbacks registered at the start (in order, once each) followed by the port
   callbacks `ports`; every one of them matches the header (no other is called); and for every class
   P of registrations that the packet_received callbacks do not add/remove during this dispatch, the
   P-members called are exactly the matching P-members of the table at the start of the dispatch,
   same multiplicity, same (registration) order — whatever the port callbacks do to the table while
   the packet is dispatched (remove themselves, remove later or earlier ones, add new ones, raise). *)
Theorem C07_exactly_once_under_mutation : forall (P : reg -> bool) beh n h s log s' log',
  (forall pre c, Forall (pk_is n) pre -> In c (alls s) -> script_ok P (beh (pre ++ log) c)) ->
  dispatch beh n h s log = (s', log', true) ->
  exists ports,
    log' = port_entries n ports ++ all_entries n (alls s) ++ log /\
    Forall (fun r => matches h r = true) ports /\
    filter P ports = filter P (filter (matches h) (cbs s)).
Proof. exact dispatch_deliveries. Qed.
Print Assumptions C07_exactly_once_under_mutation.

(* Per registration r: called as many times as it is in the table at the start of the dispatch (once,
   for distinct registrations) if it matches, never if it does not match or is absent — in particular
   a registration added by a port callback during the dispatch is not called for this packet. *)
Theorem C07_exactly_once_per_registration : forall beh n h s log s' log' r,
  untouched_by_all beh n s log r ->
  dispatch beh n h s log = (s', log', true) ->
  exists ports,
    log' = port_entries n ports ++ all_entries n (alls s) ++ log /\
    count_occ reg_eq_dec ports r = if matches h r then count_occ reg_eq_dec (cbs s) r else 0%nat.
Proof. exact dispatch_exactly_once. Qed.
Print Assumptions C07_exactly_once_per_registration.

(* Exceptions of port callbacks: letting any selection of port-callback invocations raise changes
   nothing — same table, same deliveries for this and all later packets, same liveness. *)
Theorem C07_exception_isolated : forall sel beh hs n s log,
  run (with_raises sel beh) n hs s log = run beh n hs s log.
Proof. exact run_with_raises. Qed.
Print Assumptions C07_exception_isolated.

(* ... at whatever position of the callback the exception is raised (what follows is not executed) *)
Theorem C07_raise_position : forall a b s, run_script s (a ++ Raise :: b) = run_script s (a ++ [Raise]).
Proof. exact run_script_raise_cut. Qed.
Print Assumptions C07_raise_position.

(* The loop ends only because a packet_received (all-packet) callback let an exception escape
   (its script contains a raise or a remove_callback of an absent callback). *)
Theorem C07_loop_ends_only_by_all_packet_callback : forall beh n h s log s' log',
  dispatch beh n h s log = (s', log', false) ->
  exists c pre s0 o, In c (alls s) /\ Forall (pk_is n) pre /\
    In o (beh (EAll c n :: pre ++ log) c) /\ raising_op o /\
    snd (run_script s0 (beh (EAll c n :: pre ++ log) c)) = true.
Proof. exact dispatch_dead_cause. Qed.
Print Assumptions C07_loop_ends_only_by_all_packet_callback.

(* Removing a registration t: every other registration keeps its multiplicity and the relative order
   is unchanged; for distinct registrations t is gone (so, by the theorems above, no further
   deliveries through t) and the table stays duplicate-free. *)
Theorem C07_remove_is_local : forall t l,
  (forall r, r <> t -> count_occ reg_eq_dec (remove_header_callback t l) r = count_occ reg_eq_dec l r) /\
  filter (neq_reg t) (remove_header_callback t l) = filter (neq_reg t) l /\
  (NoDup l -> remove_header_callback t l = filter (neq_reg t) l /\ ~ In t (remove_header_callback t l) /\
              NoDup (remove_header_callback t l)).
Proof. exact remove_local. Qed.
Print Assumptions C07_remove_is_local.

Theorem C07_remove_all_packet_cb_is_local : forall c l, mem_z c l = true ->
  (forall c', c' <> c -> count_occ Z.eq_dec (remove_first_z c l) c' = count_occ Z.eq_dec l c') /\
  (NoDup l -> ~ In c (remove_first_z c l)).
Proof. exact remove_all_local. Qed.
Print Assumptions C07_remove_all_packet_cb_is_local.

(* Arrival order: in the log (newest first) packet numbers never increase towards the past, i.e.
   every callback sees the packets in the order received; nothing outside the received range. *)
Theorem C07_arrival_order : forall beh hs n s log s' log' alive,
  run beh n hs s log = (s', log', alive) ->
  exists new, log' = new ++ log /\ StronglySorted newer_or_same new /\
              Forall (fun e => n <= e_pk e < n + Z.of_nat (length hs)) new.
Proof. exact run_arrival_order. Qed.
Print Assumptions C07_arrival_order.

(* Later packets are processed: as long as the loop is alive, each further packet is dispatched from
   the state the earlier ones left, with the next packet number. *)
Theorem C07_later_packets_processed : forall beh hs1 hs2 n s log,
  run beh n (hs1 ++ hs2) s log =
  let '(s1, log1, alive) := run beh n hs1 s log in
  if alive then run beh (n + Z.of_nat (length hs1)) hs2 s1 log1 else (s1, log1, false).
Proof. exact run_app. Qed.
Print Assumptions C07_later_packets_processed.

(* ---- Caller (cflib/utils/callbacks.py), used for packet_received *)
(* add_callback never creates a duplicate: a registered callback is left alone, a new one is appended *)
Theorem C07_caller_add_without_duplicates : forall s c,
  let s' := fst (run_op s (AddAll c)) in
  snd (run_op s (AddAll c)) = false /\ cbs s' = cbs s /\ In c (alls s') /\
  (In c (alls s) -> alls s' = alls s) /\ (~ In c (alls s) -> alls s' = alls s ++ [c]) /\
  (NoDup (alls s) -> NoDup (alls s')).
Proof. exact caller_add. Qed.
Print Assumptions C07_caller_add_without_duplicates.

(* remove_callback raises (ValueError, nothing changed) exactly when the callback is absent *)
Theorem C07_caller_remove : forall s c,
  (snd (run_op s (RemAll c)) = true <-> ~ In c (alls s)) /\
  (~ In c (alls s) -> fst (run_op s (RemAll c)) = s) /\
  (In c (alls s) -> cbs (fst (run_op s (RemAll c))) = cbs s /\
                    alls (fst (run_op s (RemAll c))) = remove_first_z c (alls s)).
Proof. exact caller_remove. Qed.
Print Assumptions C07_caller_remove.

(* call iterates over a copy: the callbacks present when the call starts are invoked once each, in order,
   whatever they do to the Caller meanwhile (remove themselves — as _check_for_initial_packet_cb does —,
   remove or add others); only an escaping exception cuts the call short *)
Theorem C07_caller_call_over_copy : forall beh n snap s log s1 log1 alive,
  call_all beh n snap s log = (s1, log1, alive) ->
  (alive = true -> log1 = all_entries n snap ++ log) /\
  (alive = false -> exists k, (k < length snap)%nat /\ log1 = all_entries n (firstn (S k) snap) ++ log).
Proof. exact caller_call_over_copy. Qed.
Print Assumptions C07_caller_call_over_copy.

(* ---- dispatch is a function of the header's (port, channel) only: payloads *)
(* A received packet is (header byte, payload).  Dispatch does not look at the payload: same result for every payload,
   the empty one included (a link's keep-alive 0xFF/0xF3 with no data is dispatched like any other packet). *)
Theorem C07_dispatch_independent_of_payload : forall beh n h p p' s log,
  dispatch_pk beh n (h, p) s log = dispatch_pk beh n (h, p') s log.
Proof. exact dispatch_payload_independent. Qed.
Print Assumptions C07_dispatch_independent_of_payload.

Theorem C07_run_independent_of_payloads : forall beh n pks pks' s log,
  map fst pks = map fst pks' -> run_pk beh n pks s log = run_pk beh n pks' s log.
Proof. exact run_payload_independent. Qed.
Print Assumptions C07_run_independent_of_payloads.

(* For every one of the 256 header bytes and EVERY payload: a registration (not added/removed by the all-packet
   callbacks during this dispatch) is called exactly as often as it is registered — once, for distinct registrations —
   if its masked port and channel equal the header's fields, and never otherwise. *)
Theorem C07_every_header_every_payload_exactly_once : forall beh n h payload s log s' log' r,
  0 <= h < 256 ->
  untouched_by_all beh n s log r ->
  dispatch_pk beh n (h, payload) s log = (s', log', true) ->
  exists ports,
    log' = port_entries n ports ++ all_entries n (alls s) ++ log /\
    count_occ reg_eq_dec ports r =
      if (r_port r =? Z.land (h / 16) (r_pmask r)) && (r_chan r =? Z.land (h mod 4) (r_cmask r))
      then count_occ reg_eq_dec (cbs s) r else 0%nat.
Proof. exact every_header_every_payload. Qed.
Print Assumptions C07_every_header_every_payload_exactly_once.

(* All 256 headers (complete sweep in the kernel) against the registration kinds of the API: the port callback of the
   header's port, the exact header callback with default masks, the wildcard, the channel-only and the port-only
   masks match; the port callback of another port and the exact callback of another channel do not. *)
Theorem C07_registration_kinds_all_headers : forall h c, 0 <= h < 256 -> kinds_match h c = true.
Proof. exact kinds_match_header. Qed.
Print Assumptions C07_registration_kinds_all_headers.

(* ---- table operations from ANOTHER THREAD during a dispatch (Model.v: dispatch_x, hand-over points) ---- *)
(* Exactly what the snapshot semantics guarantees, for every behaviour of the callbacks and every schedule `ext` of
   operations by other threads at the hand-over points: the port callbacks called for packet n are the matching
   registrations of the table at the instant the list is built (`snap_state`), once each, in table order. *)
Theorem C07_other_thread_snapshot_semantics : forall beh ext n h s log s' log',
  dispatch_x beh ext n h s log = (s', log', true) ->
  exists s1 log1,
    snap_state beh ext n s log = (s1, log1, true) /\
    log1 = all_entries n (alls (run_ext s (ext (PStart n)))) ++ log /\
    log' = port_entries n (filter (matches h) (cbs s1)) ++ log1.
Proof. exact dispatch_x_snapshot. Qed.
Print Assumptions C07_other_thread_snapshot_semantics.

(* A registration that nobody adds or removes until the matching registrations are collected — in particular one that
   is present (or absent) during the WHOLE dispatch — is called as often as it is registered (once) if it matches and
   never otherwise; what any thread does to it AFTER that instant (remove it, add it) does not change this packet's
   deliveries: a registration removed then is still called once, one added then is not called. *)
Theorem C07_other_thread_exactly_once : forall beh ext n h s log s' log' r,
  quiet_until_snapshot (fun x => reg_eqb x r) beh ext n s log ->
  dispatch_x beh ext n h s log = (s', log', true) ->
  exists ports,
    log' = port_entries n ports ++ all_entries n (alls (run_ext s (ext (PStart n)))) ++ log /\
    count_occ reg_eq_dec ports r = if matches h r then count_occ reg_eq_dec (cbs s) r else 0%nat.
Proof. exact dispatch_x_exactly_once. Qed.
Print Assumptions C07_other_thread_exactly_once.

Theorem C07_other_thread_order_and_no_other : forall P beh ext n h s log s' log',
  quiet_until_snapshot P beh ext n s log ->
  dispatch_x beh ext n h s log = (s', log', true) ->
  exists ports,
    log' = port_entries n ports ++ all_entries n (alls (run_ext s (ext (PStart n)))) ++ log /\
    Forall (fun r => matches h r = true) ports /\
    filter P ports = filter P (filter (matches h) (cbs s)).
Proof. exact dispatch_x_deliveries. Qed.
Print Assumptions C07_other_thread_order_and_no_other.

(* A registration added or removed at ANY time during the dispatch is called at most as often as it is in the table at
   the snapshot instant: at most once for distinct registrations. *)
Theorem C07_other_thread_at_most_once : forall beh ext n h s log s' log' r,
  dispatch_x beh ext n h s log = (s', log', true) ->
  exists s1 log1, snap_state beh ext n s log = (s1, log1, true) /\
    log' = port_entries n (filter (matches h) (cbs s1)) ++ log1 /\
    (count_occ reg_eq_dec (filter (matches h) (cbs s1)) r <= count_occ reg_eq_dec (cbs s1) r)%nat /\
    (NoDup (cbs s1) -> count_occ reg_eq_dec (filter (matches h) (cbs s1)) r <= 1)%nat.
Proof. exact dispatch_x_at_most_once. Qed.
Print Assumptions C07_other_thread_at_most_once.

(* conservative: with no other thread, dispatch_x is dispatch (so all theorems above remain about the same code) *)
Theorem C07_no_other_thread : forall beh n h s log, dispatch_x beh (fun _ => []) n h s log = dispatch beh n h s log.
Proof. exact dispatch_x_none. Qed.
Print Assumptions C07_no_other_thread.

(* ---- the stream of reads from the link, with timeouts and FAILING reads (Model.run_stream) ---- *)
(* link.receive_packet returns a packet, None, or raises.  For every stream: the deliveries are exactly those of `run` on
   the packets handed out before the first failing read — each received packet is dispatched once (all theorems above
   apply to it), no packet twice, nothing after the failure; an exception of the read ends the loop (alive = false), it is
   not a property of port callbacks and not covered by the text (observation). *)
Theorem C07_read_stream_exactly_once : forall beh rs n s log,
  let '(s1, log1, alive1) := run beh n (handed_out rs) s log in
  run_stream beh n rs s log = (s1, log1, alive1 && negb (read_fails rs)).
Proof. exact run_stream_prefix. Qed.
Print Assumptions C07_read_stream_exactly_once.

Theorem C07_read_stream_without_faults : forall beh rs n s log, read_fails rs = false ->
  run_stream beh n rs s log = run beh n (handed_out rs) s log.
Proof. exact run_stream_no_fault. Qed.
Print Assumptions C07_read_stream_without_faults.

(* ---- the library's own packet_received listener (_check_for_answers) under concurrent insertions ---- *)
(* The answer check scans a SNAPSHOT of the pending patterns: for every schedule of insertions (send_packet with an
   expected reply from another thread) and removals between the loop steps it visits exactly the patterns present at the
   start and ends normally — no exception escapes into Caller.call / run(), so the dispatch of this packet and of all later
   packets goes on exactly as stated above.  (Live iteration is refuted: Examples.live_scan_raises_on_insertion.) *)
Theorem C07_answer_check_snapshot_never_raises : forall snap other k d,
  let '(vis, _, ok) := scan_snapshot snap other k d in vis = snap /\ ok = true.
Proof. exact snapshot_scan_never_raises. Qed.
Print Assumptions C07_answer_check_snapshot_never_raises.

Theorem C07_live_answer_scan_refuted :
  answer_scan_live [7; 8] other_ins = ([7], [7; 8; 9], false) /\ answer_scan [7; 8] other_ins = ([7; 8], [7; 8; 9], true).
Proof. split; vm_compute; reflexivity. Qed.
Print Assumptions C07_live_answer_scan_refuted.
