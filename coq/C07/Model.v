(* C07/Model.v — executable model of the incoming-packet dispatcher
     cflib/crazyflie/__init__.py : _IncomingPacketHandler (add/remove_header_callback, run)
     cflib/utils/callbacks.py    : Caller (add_callback, remove_callback, call)
   as of the tree that contains fix F07 (run() iterates over a snapshot of the matching
   registrations).  The loop of the tree before the fix (generator over the live list) is kept as
   `call_ports_live` so that the defect can be stated (Examples.v).

   Callbacks are environment: a callback is an integer id; what it does when invoked is given by a
   `behaviour`, an arbitrary function of everything observable so far (the invocation log, newest
   first, including the invocation itself) to a script of registry operations, possibly ending in
   an exception.  Definitions only; proofs are in Proofs.v. *)
From CF Require Export Common.Bytes.
Open Scope Z_scope.

(* one entry of _IncomingPacketHandler.cb : _CallbackContainer(port, port_mask, channel, channel_mask, callback) *)
Record reg := mkReg { r_port : Z; r_pmask : Z; r_chan : Z; r_cmask : Z; r_cb : Z }.

Definition reg_eqb (a b : reg) : bool :=
  (r_port a =? r_port b) && (r_pmask a =? r_pmask b) && (r_chan a =? r_chan b) &&
  (r_cmask a =? r_cmask b) && (r_cb a =? r_cb b).

(* add_port_callback(port, cb) = add_header_callback(cb, port, 0, 0xff, 0x0) *)
Definition port_reg (p c : Z) : reg := mkReg p 255 0 0 c.

(* cb.port == (pk.port & cb.port_mask) and cb.channel == (pk.channel & cb.channel_mask);
   pk.port / pk.channel as CRTPPacket.__init__ extracts them from the received header byte *)
Definition matches (h : Z) (r : reg) : bool :=
  (r_port r =? Z.land (crtp_port h) (r_pmask r)) && (r_chan r =? Z.land (crtp_chan h) (r_cmask r)).

(* ---- Python list primitives used by the code *)
Fixpoint remove_first_reg (t : reg) (l : list reg) : list reg :=      (* list.remove, element known present *)
  match l with
  | [] => []
  | x :: l' => if reg_eqb x t then l' else x :: remove_first_reg t l'
  end.

Fixpoint remove_first_z (c : Z) (l : list Z) : list Z :=
  match l with
  | [] => []
  | x :: l' => if x =? c then l' else x :: remove_first_z c l'
  end.

Definition mem_z (c : Z) (l : list Z) : bool := existsb (Z.eqb c) l.

(* remove_header_callback:   for port_callback in self.cb:
                                 if <all five fields equal>: self.cb.remove(port_callback)
   — a for loop over the LIVE list that is being shrunk: index idx advances by one per iteration
   and reads the current list.  Fuel = number of iterations still allowed; S (length l) suffices
   (Proofs.rem_loop_fuel). *)
Fixpoint rem_loop (fuel : nat) (t : reg) (l : list reg) (idx : nat) : list reg :=
  match fuel with
  | O => l
  | S f =>
      match nth_error l idx with
      | None => l
      | Some x => if reg_eqb x t then rem_loop f t (remove_first_reg t l) (S idx)
                  else rem_loop f t l (S idx)
      end
  end.

Definition remove_header_callback (t : reg) (l : list reg) : list reg := rem_loop (S (length l)) t l 0.

(* ---- registry operations a callback (or anybody) can perform *)
Inductive op :=
| AddH (r : reg)      (* add_header_callback / add_port_callback : append, duplicates allowed *)
| RemH (r : reg)      (* remove_header_callback / remove_port_callback *)
| AddAll (c : Z)      (* packet_received.add_callback : no duplicates *)
| RemAll (c : Z)      (* packet_received.remove_callback : ValueError when absent *)
| Raise.              (* the callback raises *)

Record st := mkSt { cbs : list reg; alls : list Z }.

(* result: new state, and whether an exception propagates out of the operation *)
Definition run_op (s : st) (o : op) : st * bool :=
  match o with
  | AddH r => (mkSt (cbs s ++ [r]) (alls s), false)
  | RemH r => (mkSt (remove_header_callback r (cbs s)) (alls s), false)
  | AddAll c => (mkSt (cbs s) (if mem_z c (alls s) then alls s else alls s ++ [c]), false)
  | RemAll c => if mem_z c (alls s) then (mkSt (cbs s) (remove_first_z c (alls s)), false) else (s, true)
  | Raise => (s, true)
  end.

Definition script := list op.

Fixpoint run_script (s : st) (sc : script) : st * bool :=
  match sc with
  | [] => (s, false)
  | o :: sc' => let (s', raised) := run_op s o in
                if raised then (s', true) else run_script s' sc'
  end.

(* ---- invocation log (newest first) *)
Inductive entry :=
| EAll (c : Z) (n : Z)        (* packet_received callback c invoked with packet number n *)
| EPort (r : reg) (n : Z).    (* port/header registration r invoked with packet number n *)

Definition e_cb (e : entry) : Z := match e with EAll c _ => c | EPort r _ => r_cb r end.
Definition e_pk (e : entry) : Z := match e with EAll _ n => n | EPort _ n => n end.

Definition behaviour := list entry -> Z -> script.

(* Caller.call: iterate over a copy of the list; an exception is NOT caught (it leaves run()) *)
Fixpoint call_all (beh : behaviour) (n : Z) (snap : list Z) (s : st) (log : list entry)
  : st * list entry * bool :=
  match snap with
  | [] => (s, log, true)
  | c :: rest =>
      let log' := EAll c n :: log in
      let (s', raised) := run_script s (beh log' c) in
      if raised then (s', log', false) else call_all beh n rest s' log'
  end.

(* the port loop after F07: iterate over the list of matching registrations built beforehand;
   each call is wrapped in try/except Exception *)
Fixpoint call_ports (beh : behaviour) (n : Z) (snap : list reg) (s : st) (log : list entry)
  : st * list entry :=
  match snap with
  | [] => (s, log)
  | r :: rest =>
      let log' := EPort r n :: log in
      let (s', _) := run_script s (beh log' (r_cb r)) in
      call_ports beh n rest s' log'
  end.

(* one iteration of run() for a received packet with header byte h, numbered n *)
Definition dispatch (beh : behaviour) (n h : Z) (s : st) (log : list entry) : st * list entry * bool :=
  let '(s1, log1, alive) := call_all beh n (alls s) s log in
  if alive then
    let (s2, log2) := call_ports beh n (filter (matches h) (cbs s1)) s1 log1 in (s2, log2, true)
  else (s1, log1, false).

(* run(): packets in arrival order, numbered from n; stops when an exception leaves the loop *)
Fixpoint run (beh : behaviour) (n : Z) (hs : list Z) (s : st) (log : list entry) : st * list entry * bool :=
  match hs with
  | [] => (s, log, true)
  | h :: rest =>
      let '(s', log', alive) := dispatch beh n h s log in
      if alive then run beh (n + 1) rest s' log' else (s', log', false)
  end.

(* ---- the loop before F07: `for cb in (cb for cb in self.cb if match)` — a generator over the
   live list: the list iterator's index advances by one per element examined, reads the current
   list, and the filter is evaluated lazily.  Can diverge (a callback that registers a matching
   callback on every call), hence fuel; None = fuel exhausted. *)
Fixpoint call_ports_live (fuel : nat) (beh : behaviour) (n h : Z) (idx : nat) (s : st) (log : list entry)
  : option (st * list entry) :=
  match fuel with
  | O => None
  | S f =>
      match nth_error (cbs s) idx with
      | None => Some (s, log)
      | Some r =>
          if matches h r then
            let log' := EPort r n :: log in
            let (s', _) := run_script s (beh log' (r_cb r)) in
            call_ports_live f beh n h (S idx) s' log'
          else call_ports_live f beh n h (S idx) s log
      end
  end.

(* ---- behaviours given by a table (used by the correspondence step and the examples):
   the k-th invocation of callback c runs the k-th script listed for c, then nothing *)
Definition count_cb (c : Z) (log : list entry) : nat := length (filter (fun e => e_cb e =? c) log).

Fixpoint lookup_scripts (c : Z) (tbl : list (Z * list script)) : list script :=
  match tbl with
  | [] => []
  | (c', ss) :: tbl' => if c' =? c then ss else lookup_scripts c tbl'
  end.

Definition table_beh (tbl : list (Z * list script)) : behaviour :=
  fun log c => nth (count_cb c log - 1) (lookup_scripts c tbl) [].

(* observable of a run for the correspondence step: alive flag, then (callback, packet) pairs in
   invocation order *)
Definition obs_of (res : st * list entry * bool) : list Z :=
  let '(_, log, alive) := res in
  (if alive then 1 else 0) :: concat (map (fun e => [e_cb e; e_pk e]) (rev log)).

(* ================================================================================================
   Table operations from ANOTHER THREAD while the dispatcher is inside a dispatch.
   Granularity: the other thread(s) can act at the hand-over points of a dispatch — between two
   dispatches, right after Caller.call copied its list, after each packet_received callback, right after
   the list of matching registrations was built, after each port callback — and perform any operations
   there (an exception of such an operation stays in that thread).  `ext` says what is done where. *)
Inductive point :=
| PStart (n : Z)                    (* before packet n is fetched *)
| PAllSnap (n : Z)                  (* Caller.call took its copy, no packet_received callback called yet *)
| PAfterAll (n : Z) (k : nat)       (* after the k-th packet_received callback (k = 1, 2, ...) *)
| PSnap (n : Z)                     (* the matching registrations are collected, no port callback called yet *)
| PAfterPort (n : Z) (k : nat).     (* after the k-th port callback *)

Definition ext_sched := point -> script.

Fixpoint run_ext (s : st) (sc : script) : st :=
  match sc with
  | [] => s
  | o :: sc' => run_ext (fst (run_op s o)) sc'
  end.

Fixpoint call_all_x (beh : behaviour) (ext : ext_sched) (n : Z) (k : nat) (snap : list Z) (s : st) (log : list entry)
  : st * list entry * bool :=
  match snap with
  | [] => (s, log, true)
  | c :: rest =>
      let log' := EAll c n :: log in
      let (s', raised) := run_script s (beh log' c) in
      if raised then (s', log', false)
      else call_all_x beh ext n (S k) rest (run_ext s' (ext (PAfterAll n k))) log'
  end.

Fixpoint call_ports_x (beh : behaviour) (ext : ext_sched) (n : Z) (k : nat) (snap : list reg) (s : st) (log : list entry)
  : st * list entry :=
  match snap with
  | [] => (s, log)
  | r :: rest =>
      let log' := EPort r n :: log in
      let (s', _) := run_script s (beh log' (r_cb r)) in
      call_ports_x beh ext n (S k) rest (run_ext s' (ext (PAfterPort n k))) log'
  end.

(* the table as it stands at the instant the matching registrations are collected *)
Definition snap_state (beh : behaviour) (ext : ext_sched) (n : Z) (s : st) (log : list entry) : st * list entry * bool :=
  let s0 := run_ext s (ext (PStart n)) in
  call_all_x beh ext n 1 (alls s0) (run_ext s0 (ext (PAllSnap n))) log.

Definition dispatch_x (beh : behaviour) (ext : ext_sched) (n h : Z) (s : st) (log : list entry) : st * list entry * bool :=
  let '(s1, log1, alive) := snap_state beh ext n s log in
  if alive then
    let (s2, log2) := call_ports_x beh ext n 1 (filter (matches h) (cbs s1)) (run_ext s1 (ext (PSnap n))) log1 in
    (s2, log2, true)
  else (s1, log1, false).

Fixpoint run_x (beh : behaviour) (ext : ext_sched) (n : Z) (hs : list Z) (s : st) (log : list entry)
  : st * list entry * bool :=
  match hs with
  | [] => (s, log, true)
  | h :: rest =>
      let '(s', log', alive) := dispatch_x beh ext n h s log in
      if alive then run_x beh ext (n + 1) rest s' log' else (s', log', false)
  end.

(* schedules given by a table, for the correspondence step: (kind, n, k) -> script *)
Definition point_code (p : point) : Z * Z * Z :=
  match p with
  | PStart n => (0, n, 0) | PAllSnap n => (1, n, 0) | PAfterAll n k => (2, n, Z.of_nat k)
  | PSnap n => (3, n, 0) | PAfterPort n k => (4, n, Z.of_nat k)
  end.

Fixpoint lookup_ext (c : Z * Z * Z) (tbl : list (Z * Z * Z * script)) : script :=
  match tbl with
  | [] => []
  | (a, b, d, sc) :: tbl' =>
      let '(x, y, z) := c in
      if (a =? x) && (b =? y) && (d =? z) then sc else lookup_ext c tbl'
  end.

Definition table_ext (tbl : list (Z * Z * Z * script)) : ext_sched := fun p => lookup_ext (point_code p) tbl.

(* ================================================================================================
   The loop reading from the link.  Each call of link.receive_packet(1) returns a packet, returns None
   (timeout) or RAISES (a failing driver read).  run(): None -> next iteration; an exception of
   receive_packet is not caught: it leaves run() (the thread ends, nothing more is read). *)
Inductive read := RPacket (h : Z) | RNone | RRaise.

Fixpoint run_stream (beh : behaviour) (n : Z) (rs : list read) (s : st) (log : list entry) : st * list entry * bool :=
  match rs with
  | [] => (s, log, true)
  | RNone :: rest => run_stream beh n rest s log
  | RRaise :: _ => (s, log, false)
  | RPacket h :: rest =>
      let '(s', log', alive) := dispatch beh n h s log in
      if alive then run_stream beh (n + 1) rest s' log' else (s', log', false)
  end.

(* the headers of the packets the link handed out before its first failing read *)
Fixpoint handed_out (rs : list read) : list Z :=
  match rs with
  | [] => []
  | RNone :: rest => handed_out rest
  | RRaise :: _ => []
  | RPacket h :: rest => h :: handed_out rest
  end.

Fixpoint read_fails (rs : list read) : bool :=
  match rs with
  | [] => false
  | RRaise :: _ => true
  | _ :: rest => read_fails rest
  end.

(* the seeded change C07-k: the exception is swallowed and the loop falls through with the PREVIOUS packet still in
   the local variable, which is dispatched again (a raise before any packet still ends the thread) *)
Fixpoint run_stream_stale (beh : behaviour) (n : Z) (prev : option Z) (rs : list read) (s : st) (log : list entry)
  : st * list entry * bool :=
  match rs with
  | [] => (s, log, true)
  | RNone :: rest => run_stream_stale beh n None rest s log        (* pk = None: nothing stale any more *)
  | RRaise :: rest =>
      match prev with
      | None => (s, log, false)                                    (* UnboundLocalError / pk is None: `continue` *)
      | Some h =>
          let '(s', log', alive) := dispatch beh (n - 1) h s log in
          if alive then run_stream_stale beh n prev rest s' log' else (s', log', false)
      end
  | RPacket h :: rest =>
      let '(s', log', alive) := dispatch beh n h s log in
      if alive then run_stream_stale beh (n + 1) (Some h) rest s' log' else (s', log', false)
  end.

(* ================================================================================================
   The library's own packet_received listener _check_for_answers scans the pending answer patterns (a dict) while
   OTHER THREADS insert patterns (send_packet with an expected reply) or remove them between the steps of the loop.
   The code iterates a SNAPSHOT of the keys (`list(d.keys())`, one atomic call).  A live dict iteration raises
   RuntimeError as soon as the size of the dict differs from the size when the iteration started (CPython); that
   exception would escape Caller.call and run(): the dispatcher is dead, the packet reaches no port callback. *)
Inductive kop := KIns (p : Z) | KDel (p : Z).

Fixpoint kapply (d : list Z) (ops : list kop) : list Z :=
  match ops with
  | [] => d
  | KIns p :: r => kapply (if existsb (Z.eqb p) d then d else d ++ [p]) r
  | KDel p :: r => kapply (filter (fun x => negb (x =? p)) d) r
  end.

(* result: (keys visited, dict afterwards, finished without exception); `other k` = what other threads do after the
   k-th loop step *)
Fixpoint scan_snapshot (snap : list Z) (other : nat -> list kop) (k : nat) (d : list Z) : list Z * list Z * bool :=
  match snap with
  | [] => ([], d, true)
  | p :: rest =>
      let '(vis, d', ok) := scan_snapshot rest other (S k) (kapply d (other k)) in (p :: vis, d', ok)
  end.

Fixpoint scan_live (fuel : nat) (size0 : nat) (idx : nat) (other : nat -> list kop) (k : nat) (d : list Z)
  : list Z * list Z * bool :=
  match fuel with
  | O => ([], d, true)
  | S f =>
      if negb (length d =? size0)%nat then ([], d, false)            (* dictionary changed size during iteration *)
      else match nth_error d idx with
           | None => ([], d, true)
           | Some p => let '(vis, d', ok) := scan_live f size0 (S idx) other (S k) (kapply d (other k)) in (p :: vis, d', ok)
           end
  end.

Definition answer_scan (d : list Z) (other : nat -> list kop) : list Z * list Z * bool :=
  scan_snapshot d other 0 d.
Definition answer_scan_live (d : list Z) (other : nat -> list kop) : list Z * list Z * bool :=
  scan_live (S (length d)) (length d) 0 other 0 d.
