(* C07/Proofs.v — proofs about the dispatcher model. *)
From CF Require Import Common.Bytes C07.Model.
From Coq Require Import ZifyBool Sorting.Sorted.
Open Scope Z_scope.

(* ------------------------------------------------------------------ equality on registrations *)
Lemma reg_eqb_spec a b : reg_eqb a b = true <-> a = b.
Proof.
  destruct a as [a1 a2 a3 a4 a5], b as [b1 b2 b3 b4 b5]; unfold reg_eqb; cbn [r_port r_pmask r_chan r_cmask r_cb].
  split.
  - intros H. repeat (apply andb_true_iff in H; destruct H as [H ?]).
    apply Z.eqb_eq in H. repeat match goal with X : (_ =? _) = true |- _ => apply Z.eqb_eq in X end.
    subst. reflexivity.
  - intros H. injection H as -> -> -> -> ->. rewrite !Z.eqb_refl. reflexivity.
Qed.

Lemma reg_eqb_refl a : reg_eqb a a = true.
Proof. apply reg_eqb_spec. reflexivity. Qed.

Lemma reg_eqb_neq a b : reg_eqb a b = false <-> a <> b.
Proof.
  split.
  - intros H E. apply reg_eqb_spec in E. congruence.
  - intros H. destruct (reg_eqb a b) eqn:E; [apply reg_eqb_spec in E; contradiction | reflexivity].
Qed.

Definition reg_eq_dec (a b : reg) : {a = b} + {a <> b}.
Proof. decide equality; apply Z.eq_dec. Defined.

Definition entry_eq_dec (a b : entry) : {a = b} + {a <> b}.
Proof. decide equality; try apply Z.eq_dec; apply reg_eq_dec. Defined.

(* ------------------------------------------------------------------ header matching *)
Definition hdrs : list Z := map Z.of_nat (seq 0 256).

Lemma in_hdrs h : 0 <= h < 256 -> In h hdrs.
Proof.
  intros H. unfold hdrs. rewrite <- (Z2Nat.id h) by lia.
  apply in_map, in_seq. lia.
Qed.

Lemma hdr_fields_all :
  forallb (fun h => (crtp_port h =? h / 16) && (crtp_chan h =? h mod 4) &&
                    (Z.land (crtp_port h) 255 =? h / 16) && (Z.land (crtp_chan h) 0 =? 0)) hdrs = true.
Proof. vm_compute. reflexivity. Qed.

Lemma hdr_fields h : 0 <= h < 256 ->
  crtp_port h = h / 16 /\ crtp_chan h = h mod 4 /\ Z.land (crtp_port h) 255 = h / 16 /\ Z.land (crtp_chan h) 0 = 0.
Proof.
  intros H. pose proof hdr_fields_all as A. rewrite forallb_forall in A.
  specialize (A h (in_hdrs h H)). cbv beta in A.
  repeat (apply andb_true_iff in A; destruct A as [A ?]).
  repeat match goal with X : (_ =? _) = true |- _ => apply Z.eqb_eq in X end.
  auto.
Qed.

Lemma match_exact h r : 0 <= h < 256 ->
  (matches h r = true <->
   r_port r = Z.land (h / 16) (r_pmask r) /\ r_chan r = Z.land (h mod 4) (r_cmask r)).
Proof.
  intros H. destruct (hdr_fields h H) as (P & C & _ & _). unfold matches. rewrite P, C.
  rewrite andb_true_iff, !Z.eqb_eq. reflexivity.
Qed.

Lemma match_port_reg h p c : 0 <= h < 256 -> (matches h (port_reg p c) = true <-> h / 16 = p).
Proof.
  intros H. destruct (hdr_fields h H) as (_ & _ & P & C). unfold matches, port_reg.
  cbn [r_port r_pmask r_chan r_cmask]. rewrite P, C. rewrite andb_true_iff, !Z.eqb_eq. intuition congruence.
Qed.

(* ------------------------------------------------------------------ list facts *)
Lemma remove_first_reg_notin t l : ~ In t l -> remove_first_reg t l = l.
Proof.
  induction l as [|x l IH]; intros H; cbn [remove_first_reg]; [reflexivity|].
  destruct (reg_eqb x t) eqn:E.
  - apply reg_eqb_spec in E. subst. exfalso. apply H. left. reflexivity.
  - f_equal. apply IH. intros I. apply H. right. exact I.
Qed.

Lemma remove_first_reg_filter (P : reg -> bool) t l : P t = false ->
  filter P (remove_first_reg t l) = filter P l.
Proof.
  intros Pt. induction l as [|x l IH]; cbn [remove_first_reg filter]; [reflexivity|].
  destruct (reg_eqb x t) eqn:E.
  - apply reg_eqb_spec in E. subst. rewrite Pt. reflexivity.
  - cbn [filter]. rewrite IH. reflexivity.
Qed.

Lemma remove_first_reg_length t l : (length (remove_first_reg t l) <= length l)%nat.
Proof.
  induction l as [|x l IH]; cbn [remove_first_reg length]; [lia|].
  destruct (reg_eqb x t); cbn [length]; lia.
Qed.

Definition neq_reg (t x : reg) : bool := negb (reg_eqb x t).

Lemma filter_neq_notin t l : ~ In t l -> filter (neq_reg t) l = l.
Proof.
  induction l as [|x l IH]; intros H; cbn [filter]; [reflexivity|].
  unfold neq_reg at 1. destruct (reg_eqb x t) eqn:E.
  - apply reg_eqb_spec in E. subst. exfalso. apply H. left. reflexivity.
  - cbn [negb]. f_equal. apply IH. intros I. apply H. right. exact I.
Qed.

Lemma filter_neq_not_in t l : ~ In t (filter (neq_reg t) l).
Proof.
  intros H. apply filter_In in H as [_ H]. unfold neq_reg in H. rewrite reg_eqb_refl in H. discriminate.
Qed.

Lemma remove_first_reg_nodup t l : NoDup l -> remove_first_reg t l = filter (neq_reg t) l.
Proof.
  induction l as [|x l IH]; intros ND; cbn [remove_first_reg filter]; [reflexivity|].
  inversion ND as [|? ? Hx ND']; subst. unfold neq_reg at 1. destruct (reg_eqb x t) eqn:E; cbn [negb].
  - apply reg_eqb_spec in E. subst. symmetry. apply filter_neq_notin. exact Hx.
  - f_equal. apply IH. exact ND'.
Qed.

Lemma firstn_S_nth_error {A} : forall (l : list A) idx r, nth_error l idx = Some r ->
  firstn (S idx) l = firstn idx l ++ [r].
Proof.
  induction l as [|x l IH]; intros [|idx] r H; cbn in H; try discriminate.
  - injection H as ->. reflexivity.
  - cbn [firstn app]. f_equal. rewrite <- IH by exact H. reflexivity.
Qed.

(* ------------------------------------------------------------------ remove_header_callback *)
(* more fuel than needed changes nothing *)
Lemma rem_loop_fuel t : forall f1 f2 l idx,
  (length l <= idx + f1)%nat -> (length l <= idx + f2)%nat -> rem_loop f1 t l idx = rem_loop f2 t l idx.
Proof.
  induction f1 as [|f1 IH]; intros f2 l idx H1 H2.
  - cbn [rem_loop]. destruct f2 as [|f2]; [reflexivity|]. cbn [rem_loop].
    destruct (nth_error l idx) eqn:E; [|reflexivity].
    assert (nth_error l idx <> None) as N by congruence. apply nth_error_Some in N. lia.
  - destruct f2 as [|f2].
    + cbn [rem_loop]. destruct (nth_error l idx) eqn:E; [|reflexivity].
      assert (nth_error l idx <> None) as N by congruence. apply nth_error_Some in N. lia.
    + cbn [rem_loop]. destruct (nth_error l idx) eqn:E; [|reflexivity].
      destruct (reg_eqb r t).
      * pose proof (remove_first_reg_length t l). apply IH; lia.
      * apply IH; lia.
Qed.

Lemma rem_loop_filter (P : reg -> bool) t : P t = false -> forall f l idx,
  filter P (rem_loop f t l idx) = filter P l.
Proof.
  intros Pt. induction f as [|f IH]; intros l idx; cbn [rem_loop]; [reflexivity|].
  destruct (nth_error l idx); [|reflexivity].
  destruct (reg_eqb r t).
  - rewrite IH. apply remove_first_reg_filter. exact Pt.
  - apply IH.
Qed.

Lemma rem_loop_notin t : forall f l idx, ~ In t l -> rem_loop f t l idx = l.
Proof.
  induction f as [|f IH]; intros l idx H; cbn [rem_loop]; [reflexivity|].
  destruct (nth_error l idx) eqn:E; [|reflexivity].
  destruct (reg_eqb r t) eqn:Q.
  - apply reg_eqb_spec in Q. subst. exfalso. apply H. eapply nth_error_In. exact E.
  - apply IH. exact H.
Qed.

Lemma rem_loop_nodup t : forall f l idx, NoDup l -> (length l <= idx + f)%nat ->
  ~ In t (firstn idx l) -> rem_loop f t l idx = filter (neq_reg t) l.
Proof.
  induction f as [|f IH]; intros l idx ND F H.
  - cbn [rem_loop]. rewrite firstn_all2 in H by lia. symmetry. apply filter_neq_notin. exact H.
  - cbn [rem_loop]. destruct (nth_error l idx) eqn:E.
    + destruct (reg_eqb r t) eqn:Q.
      * rewrite remove_first_reg_nodup by exact ND. apply rem_loop_notin. apply filter_neq_not_in.
      * apply IH; [exact ND | lia |].
        assert (idx < length l)%nat as L by (apply nth_error_Some; congruence).
        rewrite (firstn_S_nth_error l idx r E). intros I. apply in_app_or in I as [I|I]; [exact (H I)|].
        destruct I as [I|[]]. subst. rewrite reg_eqb_refl in Q. discriminate.
    + apply nth_error_None in E. rewrite firstn_all2 in H by lia. symmetry. apply filter_neq_notin. exact H.
Qed.

(* ------------------------------------------------------------------ scripts *)
(* operations on port registrations outside the class P *)
Definition op_ok (P : reg -> bool) (o : op) : Prop :=
  match o with AddH r | RemH r => P r = false | _ => True end.
Definition script_ok (P : reg -> bool) (sc : script) : Prop := Forall (op_ok P) sc.

Lemma run_op_filter P s o : op_ok P o -> filter P (cbs (fst (run_op s o))) = filter P (cbs s).
Proof.
  destruct o as [r|r|c|c|]; cbn [op_ok run_op]; intros H.
  - cbn [fst cbs]. rewrite filter_app. cbn [filter]. rewrite H. apply app_nil_r.
  - cbn [fst cbs]. unfold remove_header_callback. apply rem_loop_filter. exact H.
  - reflexivity.
  - destruct (mem_z c (alls s)); reflexivity.
  - reflexivity.
Qed.

Lemma run_script_filter P : forall sc s, script_ok P sc ->
  filter P (cbs (fst (run_script s sc))) = filter P (cbs s).
Proof.
  induction sc as [|o sc IH]; intros s H; cbn [run_script]; [reflexivity|].
  inversion H as [|? ? Ho Hsc]; subst.
  pose proof (run_op_filter P s o Ho) as E. destruct (run_op s o) as [s' raised]. cbn [fst] in E.
  destruct raised; cbn [fst]; [exact E|]. rewrite IH by exact Hsc. exact E.
Qed.

Lemma run_script_app_raise : forall sc s, fst (run_script s (sc ++ [Raise])) = fst (run_script s sc).
Proof.
  induction sc as [|o sc IH]; intros s; cbn [app run_script]; [reflexivity|].
  destruct (run_op s o) as [s' raised]. destruct raised; [reflexivity|]. apply IH.
Qed.

(* an exception in the middle of a script: what follows is not executed *)
Lemma run_script_raise_cut : forall a b s, run_script s (a ++ Raise :: b) = run_script s (a ++ [Raise]).
Proof.
  induction a as [|o a IH]; intros b s; cbn [app run_script]; [reflexivity|].
  destruct (run_op s o) as [s' raised]. destruct raised; [reflexivity|]. apply IH.
Qed.

Definition raising_op (o : op) : Prop := o = Raise \/ exists c, o = RemAll c.

Lemma run_script_raised : forall sc s, snd (run_script s sc) = true -> exists o, In o sc /\ raising_op o.
Proof.
  induction sc as [|o sc IH]; intros s H; cbn [run_script] in H; [discriminate|].
  destruct (run_op s o) as [s' raised] eqn:E. destruct raised.
  - exists o. split; [left; reflexivity|].
    destruct o as [r|r|c|c|]; cbn [run_op] in E; try (injection E as _ E; discriminate).
    + right. exists c. reflexivity.
    + left. reflexivity.
  - destruct (IH s' H) as (o' & I & R). exists o'. split; [right; exact I | exact R].
Qed.

(* ------------------------------------------------------------------ the two phases of a dispatch *)
Definition all_entries (n : Z) (l : list Z) : list entry := rev (map (fun c => EAll c n) l).
Definition port_entries (n : Z) (l : list reg) : list entry := rev (map (fun r => EPort r n) l).
Definition pk_is (n : Z) (e : entry) : Prop := e_pk e = n.

Lemma call_ports_spec beh n : forall snap s log,
  snd (call_ports beh n snap s log) = port_entries n snap ++ log.
Proof.
  unfold port_entries. induction snap as [|r snap IH]; intros s log; cbn [call_ports map rev]; [reflexivity|].
  destruct (run_script s (beh (EPort r n :: log) (r_cb r))) as [s' raised]. rewrite IH.
  rewrite <- app_assoc. reflexivity.
Qed.

Lemma call_all_alive beh n : forall snap s log s1 log1,
  call_all beh n snap s log = (s1, log1, true) -> log1 = all_entries n snap ++ log.
Proof.
  unfold all_entries. induction snap as [|c snap IH]; intros s log s1 log1 H; cbn [call_all map rev] in *.
  - injection H as _ <-. reflexivity.
  - destruct (run_script s (beh (EAll c n :: log) c)) as [s' raised]. destruct raised; [discriminate|].
    apply IH in H. rewrite H, <- app_assoc. reflexivity.
Qed.

Lemma call_all_prefix beh n : forall snap s log s1 log1 alive,
  call_all beh n snap s log = (s1, log1, alive) -> exists pre, log1 = pre ++ log /\ Forall (pk_is n) pre.
Proof.
  induction snap as [|c snap IH]; intros s log s1 log1 alive H; cbn [call_all] in H.
  - injection H as _ <- _. exists []. split; [reflexivity | constructor].
  - destruct (run_script s (beh (EAll c n :: log) c)) as [s' raised]. destruct raised.
    + injection H as _ <- _. exists [EAll c n]. split; [reflexivity|]. repeat constructor.
    + apply IH in H as (pre & -> & F). exists (pre ++ [EAll c n]). split.
      * rewrite <- app_assoc. reflexivity.
      * apply Forall_app. split; [exact F|]. repeat constructor.
Qed.

Lemma call_all_filter P beh n : forall snap s log,
  (forall pre c, Forall (pk_is n) pre -> In c snap -> script_ok P (beh (pre ++ log) c)) ->
  filter P (cbs (fst (fst (call_all beh n snap s log)))) = filter P (cbs s).
Proof.
  induction snap as [|c snap IH]; intros s log H; cbn [call_all]; [reflexivity|].
  pose proof (run_script_filter P (beh (EAll c n :: log) c) s) as E.
  destruct (run_script s (beh (EAll c n :: log) c)) as [s' raised]. cbn [fst] in E.
  assert (script_ok P (beh (EAll c n :: log) c)) as Hc.
  { apply (H [EAll c n] c); [repeat constructor | left; reflexivity]. }
  destruct raised; cbn [fst]; [exact (E Hc)|].
  rewrite IH; [exact (E Hc)|].
  intros pre c' F I. replace (pre ++ EAll c n :: log) with ((pre ++ [EAll c n]) ++ log)
    by (rewrite <- app_assoc; reflexivity).
  apply H; [|right; exact I]. apply Forall_app. split; [exact F | repeat constructor].
Qed.

(* the dispatcher dies only when an exception leaves a packet_received callback *)
Lemma call_all_dead beh n : forall snap s log s1 log1,
  call_all beh n snap s log = (s1, log1, false) ->
  exists c pre s0, In c snap /\ Forall (pk_is n) pre /\ snd (run_script s0 (beh (EAll c n :: pre ++ log) c)) = true.
Proof.
  induction snap as [|c snap IH]; intros s log s1 log1 H; cbn [call_all] in H; [discriminate|].
  destruct (run_script s (beh (EAll c n :: log) c)) as [s' raised] eqn:E. destruct raised.
  - exists c, [], s. split; [left; reflexivity|]. split; [constructor|]. cbn [app]. rewrite E. reflexivity.
  - apply IH in H as (c' & pre & s0 & I & F & R). exists c', (pre ++ [EAll c n]), s0.
    split; [right; exact I|]. split; [apply Forall_app; split; [exact F | repeat constructor]|].
    rewrite <- app_assoc. exact R.
Qed.

(* ------------------------------------------------------------------ one dispatch *)
Lemma filter_filter_comm {A} (P Q : A -> bool) l : filter P (filter Q l) = filter Q (filter P l).
Proof.
  induction l as [|x l IH]; cbn [filter]; [reflexivity|].
  destruct (Q x) eqn:EQ, (P x) eqn:EP; cbn [filter]; rewrite ?EQ, ?EP, IH; reflexivity.
Qed.

Theorem dispatch_deliveries (P : reg -> bool) beh n h s log s' log' :
  (forall pre c, Forall (pk_is n) pre -> In c (alls s) -> script_ok P (beh (pre ++ log) c)) ->
  dispatch beh n h s log = (s', log', true) ->
  exists ports,
    log' = port_entries n ports ++ all_entries n (alls s) ++ log /\
    Forall (fun r => matches h r = true) ports /\
    filter P ports = filter P (filter (matches h) (cbs s)).
Proof.
  intros H D. unfold dispatch in D.
  pose proof (call_all_filter P beh n (alls s) s log H) as F.
  destruct (call_all beh n (alls s) s log) as [[s1 log1] alive] eqn:E. cbn [fst] in F.
  destruct alive; [|discriminate].
  apply call_all_alive in E. subst log1.
  pose proof (call_ports_spec beh n (filter (matches h) (cbs s1)) s1 (all_entries n (alls s) ++ log)) as S.
  destruct (call_ports beh n (filter (matches h) (cbs s1)) s1 (all_entries n (alls s) ++ log)) as [s2 log2].
  cbn [snd] in S. injection D as _ <-.
  exists (filter (matches h) (cbs s1)). split; [exact S|]. split.
  - apply Forall_forall. intros r I. apply filter_In in I. tauto.
  - rewrite filter_filter_comm, F, filter_filter_comm. reflexivity.
Qed.

Lemma filter_all_true {A} (Q : A -> bool) l : (forall x, In x l -> Q x = true) -> filter Q l = l.
Proof.
  induction l as [|x l IH]; intros H; cbn [filter]; [reflexivity|].
  rewrite (H x) by (left; reflexivity). f_equal. apply IH. intros y I. apply H. right. exact I.
Qed.

Lemma filter_all_false {A} (Q : A -> bool) l : (forall x, In x l -> Q x = false) -> filter Q l = [].
Proof.
  induction l as [|x l IH]; intros H; cbn [filter]; [reflexivity|].
  rewrite (H x) by (left; reflexivity). apply IH. intros y I. apply H. right. exact I.
Qed.

Lemma count_occ_filter (r : reg) l :
  count_occ reg_eq_dec l r = length (filter (fun x => reg_eqb x r) l).
Proof.
  induction l as [|x l IH]; cbn [count_occ filter]; [reflexivity|].
  destruct (reg_eq_dec x r) as [->|N].
  - rewrite reg_eqb_refl. cbn [length]. rewrite IH. reflexivity.
  - apply reg_eqb_neq in N. rewrite N. exact IH.
Qed.

(* nobody adds or removes r while packet n is being dispatched, before the port phase *)
Definition untouched_by_all (beh : behaviour) (n : Z) (s : st) (log : list entry) (r : reg) : Prop :=
  forall pre c, Forall (pk_is n) pre -> In c (alls s) -> script_ok (fun x => reg_eqb x r) (beh (pre ++ log) c).

Theorem dispatch_exactly_once beh n h s log s' log' r :
  untouched_by_all beh n s log r ->
  dispatch beh n h s log = (s', log', true) ->
  exists ports,
    log' = port_entries n ports ++ all_entries n (alls s) ++ log /\
    count_occ reg_eq_dec ports r = if matches h r then count_occ reg_eq_dec (cbs s) r else 0%nat.
Proof.
  intros U D. destruct (dispatch_deliveries _ beh n h s log s' log' U D) as (ports & L & M & F).
  exists ports. split; [exact L|]. rewrite !count_occ_filter, F, filter_filter_comm.
  destruct (matches h r) eqn:E.
  - f_equal. apply filter_all_true. intros x I. apply filter_In in I as [_ Q]. apply reg_eqb_spec in Q. subst. exact E.
  - rewrite filter_all_false; [reflexivity|].
    intros x I. apply filter_In in I as [_ Q]. apply reg_eqb_spec in Q. subst. exact E.
Qed.

Theorem dispatch_dead_cause beh n h s log s' log' :
  dispatch beh n h s log = (s', log', false) ->
  exists c pre s0 o, In c (alls s) /\ Forall (pk_is n) pre /\
    In o (beh (EAll c n :: pre ++ log) c) /\ raising_op o /\
    snd (run_script s0 (beh (EAll c n :: pre ++ log) c)) = true.
Proof.
  intros D. unfold dispatch in D.
  destruct (call_all beh n (alls s) s log) as [[s1 log1] alive] eqn:E. destruct alive.
  - destruct (call_ports beh n (filter (matches h) (cbs s1)) s1 log1). discriminate.
  - apply call_all_dead in E as (c & pre & s0 & I & F & R).
    destruct (run_script_raised _ _ R) as (o & Io & Ro). exists c, pre, s0, o. auto.
Qed.

(* ------------------------------------------------------------------ raising port callbacks *)
(* make any selection of port-callback invocations raise at the end of their script *)
Definition with_raises (sel : list entry -> Z -> bool) (beh : behaviour) : behaviour :=
  fun lg c => match lg with
              | EPort _ _ :: _ => if sel lg c then beh lg c ++ [Raise] else beh lg c
              | _ => beh lg c
              end.

Lemma call_ports_with_raises sel beh n : forall snap s log,
  call_ports (with_raises sel beh) n snap s log = call_ports beh n snap s log.
Proof.
  induction snap as [|r snap IH]; intros s log; cbn [call_ports]; [reflexivity|].
  cbn [with_raises]. destruct (sel (EPort r n :: log) (r_cb r)).
  - pose proof (run_script_app_raise (beh (EPort r n :: log) (r_cb r)) s) as E.
    destruct (run_script s (beh (EPort r n :: log) (r_cb r) ++ [Raise])) as [s1 r1].
    destruct (run_script s (beh (EPort r n :: log) (r_cb r))) as [s2 r2]. cbn [fst] in E. subst. apply IH.
  - destruct (run_script s (beh (EPort r n :: log) (r_cb r))) as [s2 r2]. apply IH.
Qed.

Lemma call_all_with_raises sel beh n : forall snap s log,
  call_all (with_raises sel beh) n snap s log = call_all beh n snap s log.
Proof.
  induction snap as [|c snap IH]; intros s log; cbn [call_all]; [reflexivity|].
  cbn [with_raises]. destruct (run_script s (beh (EAll c n :: log) c)) as [s' raised].
  destruct raised; [reflexivity | apply IH].
Qed.

Lemma dispatch_with_raises sel beh n h s log :
  dispatch (with_raises sel beh) n h s log = dispatch beh n h s log.
Proof.
  unfold dispatch. rewrite call_all_with_raises.
  destruct (call_all beh n (alls s) s log) as [[s1 log1] alive]. destruct alive; [|reflexivity].
  rewrite call_ports_with_raises. reflexivity.
Qed.

Theorem run_with_raises sel beh : forall hs n s log,
  run (with_raises sel beh) n hs s log = run beh n hs s log.
Proof.
  induction hs as [|h hs IH]; intros n s log; cbn [run]; [reflexivity|].
  rewrite dispatch_with_raises. destruct (dispatch beh n h s log) as [[s' log'] alive].
  destruct alive; [apply IH | reflexivity].
Qed.

(* ------------------------------------------------------------------ the loop over packets *)
Theorem run_app beh : forall hs1 hs2 n s log,
  run beh n (hs1 ++ hs2) s log =
  let '(s1, log1, alive) := run beh n hs1 s log in
  if alive then run beh (n + Z.of_nat (length hs1)) hs2 s1 log1 else (s1, log1, false).
Proof.
  induction hs1 as [|h hs1 IH]; intros hs2 n s log; cbn [app run length].
  - rewrite Z.add_0_r. reflexivity.
  - destruct (dispatch beh n h s log) as [[s' log'] alive]. destruct alive; [|reflexivity].
    rewrite IH. replace (n + 1 + Z.of_nat (length hs1)) with (n + Z.of_nat (S (length hs1))) by lia.
    reflexivity.
Qed.

Lemma dispatch_prefix beh n h s log s' log' alive :
  dispatch beh n h s log = (s', log', alive) -> exists new, log' = new ++ log /\ Forall (pk_is n) new.
Proof.
  intros D. unfold dispatch in D.
  destruct (call_all beh n (alls s) s log) as [[s1 log1] a] eqn:E.
  apply call_all_prefix in E as (pre & -> & F). destruct a.
  - pose proof (call_ports_spec beh n (filter (matches h) (cbs s1)) s1 (pre ++ log)) as S.
    destruct (call_ports beh n (filter (matches h) (cbs s1)) s1 (pre ++ log)) as [s2 log2]. cbn [snd] in S.
    injection D as _ <- _. subst log2. exists (port_entries n (filter (matches h) (cbs s1)) ++ pre).
    split; [rewrite <- app_assoc; reflexivity|]. apply Forall_app. split; [|exact F].
    unfold port_entries. apply Forall_rev. apply Forall_forall. intros e I. apply in_map_iff in I as (r & <- & _).
    reflexivity.
  - injection D as _ <- _. exists pre. auto.
Qed.

(* newest-first log: packet numbers never increase towards the past *)
Definition newer_or_same (a b : entry) : Prop := e_pk b <= e_pk a.

Lemma StronglySorted_app {A} (R : A -> A -> Prop) l1 l2 :
  StronglySorted R l1 -> StronglySorted R l2 -> (forall a b, In a l1 -> In b l2 -> R a b) ->
  StronglySorted R (l1 ++ l2).
Proof.
  induction l1 as [|x l1 IH]; intros S1 S2 H; cbn [app]; [exact S2|].
  inversion S1 as [|? ? S1' F]; subst. constructor.
  - apply IH; [exact S1' | exact S2 |]. intros a b Ia Ib. apply H; [right; exact Ia | exact Ib].
  - apply Forall_app. split; [exact F|]. apply Forall_forall. intros b Ib. apply H; [left; reflexivity | exact Ib].
Qed.

Lemma same_pk_sorted n l : Forall (pk_is n) l -> StronglySorted newer_or_same l.
Proof.
  induction l as [|x l IH]; intros F; [constructor|]. inversion F as [|? ? Hx F']; subst.
  constructor; [apply IH; exact F'|]. apply Forall_forall. intros b Ib.
  rewrite Forall_forall in F'. unfold newer_or_same. rewrite (F' b Ib), Hx. lia.
Qed.

Theorem run_arrival_order beh : forall hs n s log s' log' alive,
  run beh n hs s log = (s', log', alive) ->
  exists new, log' = new ++ log /\ StronglySorted newer_or_same new /\
              Forall (fun e => n <= e_pk e < n + Z.of_nat (length hs)) new.
Proof.
  induction hs as [|h hs IH]; intros n s log s' log' alive R; cbn [run] in R.
  - injection R as _ <- _. exists []. repeat split; constructor.
  - destruct (dispatch beh n h s log) as [[s1 log1] a] eqn:D.
    apply dispatch_prefix in D as (new1 & -> & F1). destruct a.
    + apply IH in R as (new2 & -> & S2 & F2). exists (new2 ++ new1). split; [rewrite app_assoc; reflexivity|].
      rewrite Forall_forall in F1, F2. split.
      * apply StronglySorted_app; [exact S2 | apply (same_pk_sorted n); apply Forall_forall; exact F1 |].
        intros a b Ia Ib. unfold newer_or_same. rewrite (F1 b Ib). specialize (F2 a Ia). lia.
      * apply Forall_app. split; apply Forall_forall; intros e I.
        -- specialize (F2 e I). cbn [length]. lia.
        -- rewrite (F1 e I). cbn [length]. lia.
    + injection R as _ <- _. exists new1. split; [reflexivity|]. split; [apply (same_pk_sorted n); exact F1|].
      apply Forall_forall. intros e I. rewrite Forall_forall in F1. rewrite (F1 e I). cbn [length]. lia.
Qed.

(* ------------------------------------------------------------------ removal is local *)
Theorem remove_local t l :
  (forall r, r <> t -> count_occ reg_eq_dec (remove_header_callback t l) r = count_occ reg_eq_dec l r) /\
  filter (neq_reg t) (remove_header_callback t l) = filter (neq_reg t) l /\
  (NoDup l -> remove_header_callback t l = filter (neq_reg t) l /\ ~ In t (remove_header_callback t l) /\
              NoDup (remove_header_callback t l)).
Proof.
  unfold remove_header_callback. split; [|split].
  - intros r N. rewrite !count_occ_filter. f_equal. apply rem_loop_filter. apply reg_eqb_neq. congruence.
  - apply rem_loop_filter. unfold neq_reg. rewrite reg_eqb_refl. reflexivity.
  - intros ND. assert (rem_loop (S (length l)) t l 0 = filter (neq_reg t) l) as E.
    { apply rem_loop_nodup; [exact ND | lia | cbn [firstn]; tauto]. }
    rewrite E. split; [reflexivity|]. split; [apply filter_neq_not_in | apply NoDup_filter; exact ND].
Qed.

Theorem remove_all_local c l :
  mem_z c l = true ->
  (forall c', c' <> c -> count_occ Z.eq_dec (remove_first_z c l) c' = count_occ Z.eq_dec l c') /\
  (NoDup l -> ~ In c (remove_first_z c l)).
Proof.
  intros _. split.
  - intros c' N. induction l as [|x l IH]; cbn [remove_first_z count_occ]; [reflexivity|].
    destruct (x =? c) eqn:E.
    + apply Z.eqb_eq in E. subst. destruct (Z.eq_dec c c'); [congruence | reflexivity].
    + cbn [count_occ]. destruct (Z.eq_dec x c'); rewrite IH; reflexivity.
  - induction l as [|x l IH]; intros ND; cbn [remove_first_z]; [tauto|].
    inversion ND as [|? ? Hx ND']; subst. destruct (x =? c) eqn:E.
    + apply Z.eqb_eq in E. subst. exact Hx.
    + intros [I|I]; [apply Z.eqb_neq in E; congruence | exact (IH ND' I)].
Qed.

(* ------------------------------------------------------------------ Caller (cflib/utils/callbacks.py) *)
Lemma mem_z_In c l : mem_z c l = true <-> In c l.
Proof.
  unfold mem_z. rewrite existsb_exists. split.
  - intros (x & I & E). apply Z.eqb_eq in E. subst. exact I.
  - intros I. exists c. split; [exact I | apply Z.eqb_refl].
Qed.

(* add_callback: never a duplicate; adding a registered callback changes nothing; a new one goes last *)
Theorem caller_add s c :
  let s' := fst (run_op s (AddAll c)) in
  snd (run_op s (AddAll c)) = false /\ cbs s' = cbs s /\ In c (alls s') /\
  (In c (alls s) -> alls s' = alls s) /\ (~ In c (alls s) -> alls s' = alls s ++ [c]) /\
  (NoDup (alls s) -> NoDup (alls s')).
Proof.
  cbn [run_op fst snd cbs alls]. destruct (mem_z c (alls s)) eqn:M.
  - apply mem_z_In in M. repeat split; auto. intros N. contradiction.
  - assert (~ In c (alls s)) as N by (intros I; apply mem_z_In in I; congruence).
    split; [reflexivity|]. split; [reflexivity|]. split; [apply in_or_app; right; left; reflexivity|].
    split; [intros I; contradiction|]. split; [reflexivity|].
    intros ND. clear M. induction (alls s) as [|x l IH]; cbn [app]; [repeat constructor; intros []|].
    inversion ND as [|? ? Hx ND']; subst. constructor.
    + intros I. apply in_app_or in I as [I|[<-|[]]]; [exact (Hx I) | apply N; left; reflexivity].
    + apply IH; [intros I; apply N; right; exact I | exact ND'].
Qed.

(* remove_callback: ValueError (state unchanged) exactly when absent; otherwise the first occurrence goes *)
Theorem caller_remove s c :
  (snd (run_op s (RemAll c)) = true <-> ~ In c (alls s)) /\
  (~ In c (alls s) -> fst (run_op s (RemAll c)) = s) /\
  (In c (alls s) -> cbs (fst (run_op s (RemAll c))) = cbs s /\
                    alls (fst (run_op s (RemAll c))) = remove_first_z c (alls s)).
Proof.
  cbn [run_op]. destruct (mem_z c (alls s)) eqn:M; cbn [fst snd cbs alls].
  - apply mem_z_In in M. split; [split; [discriminate | intros N; contradiction]|].
    split; [intros N; contradiction | auto].
  - assert (~ In c (alls s)) as N by (intros I; apply mem_z_In in I; congruence).
    split; [split; auto|]. split; [reflexivity | intros I; contradiction].
Qed.

(* call: the callbacks of the copy taken at the start are invoked, once each, in order, whatever they do to
   the Caller (add, remove themselves or others) during the call; an escaping exception stops the call *)
Theorem caller_call_over_copy beh n snap s log s1 log1 alive :
  call_all beh n snap s log = (s1, log1, alive) ->
  (alive = true -> log1 = all_entries n snap ++ log) /\
  (alive = false -> exists k, (k < length snap)%nat /\ log1 = all_entries n (firstn (S k) snap) ++ log).
Proof.
  intros H. split.
  - intros ->. eapply call_all_alive. exact H.
  - intros ->. revert s log s1 log1 H. unfold all_entries.
    induction snap as [|c snap IH]; intros s log s1 log1 H; cbn [call_all] in H; [discriminate|].
    destruct (run_script s (beh (EAll c n :: log) c)) as [s' raised]. destruct raised.
    + injection H as _ <-. exists 0%nat. cbn. split; [lia | reflexivity].
    + apply IH in H as (k & Lt & ->). exists (S k). split; [cbn [length]; lia|].
      cbn [firstn map rev]. cbn [firstn] in *. rewrite <- !app_assoc. reflexivity.
Qed.

(* ------------------------------------------------------------------ packets with payloads *)
(* a received packet = header byte and payload; the dispatcher looks at the header only *)
Definition packet := (Z * list Z)%type.

Definition dispatch_pk (beh : behaviour) (n : Z) (pk : packet) (s : st) (log : list entry) : st * list entry * bool :=
  dispatch beh n (fst pk) s log.

Definition run_pk (beh : behaviour) (n : Z) (pks : list packet) (s : st) (log : list entry) : st * list entry * bool :=
  run beh n (map fst pks) s log.

Lemma dispatch_payload_independent beh n h p p' s log :
  dispatch_pk beh n (h, p) s log = dispatch_pk beh n (h, p') s log.
Proof. reflexivity. Qed.

Lemma run_payload_independent beh n pks pks' s log :
  map fst pks = map fst pks' -> run_pk beh n pks s log = run_pk beh n pks' s log.
Proof. unfold run_pk. intros ->. reflexivity. Qed.

(* every header byte, every payload (the empty one included): each registration untouched by the all-packet
   callbacks is called as often as it is registered if it matches, never otherwise *)
Theorem every_header_every_payload beh n h payload s log s' log' r :
  0 <= h < 256 ->
  untouched_by_all beh n s log r ->
  dispatch_pk beh n (h, payload) s log = (s', log', true) ->
  exists ports,
    log' = port_entries n ports ++ all_entries n (alls s) ++ log /\
    count_occ reg_eq_dec ports r =
      if (r_port r =? Z.land (h / 16) (r_pmask r)) && (r_chan r =? Z.land (h mod 4) (r_cmask r))
      then count_occ reg_eq_dec (cbs s) r else 0%nat.
Proof.
  intros H U D. unfold dispatch_pk in D. cbn [fst] in D.
  destruct (dispatch_exactly_once beh n h s log s' log' r U D) as (ports & L & C).
  exists ports. split; [exact L|]. rewrite C. destruct (hdr_fields h H) as (P & Ch & _ & _).
  unfold matches. rewrite P, Ch. reflexivity.
Qed.

(* the registration kinds of the API against all 256 headers: the port callback of the header's port, the exact
   header callback (default masks), the wildcard, channel-only and port-only masks all match *)
Definition kinds_match (h c : Z) : bool :=
  matches h (port_reg (h / 16) c) && matches h (mkReg (h / 16) 255 (h mod 4) 255 c) &&
  matches h (mkReg 0 0 0 0 c) && matches h (mkReg 0 0 (h mod 4) 3 c) && matches h (mkReg (h / 16) 15 0 0 c) &&
  negb (matches h (port_reg ((h / 16 + 1) mod 16) c)) && negb (matches h (mkReg (h / 16) 255 ((h mod 4 + 1) mod 4) 255 c)).

Lemma kinds_match_all c : forallb (fun h => kinds_match h c) hdrs = true.
Proof. vm_compute. reflexivity. Qed.

Lemma kinds_match_header h c : 0 <= h < 256 -> kinds_match h c = true.
Proof. intros H. pose proof (kinds_match_all c) as A. rewrite forallb_forall in A. exact (A h (in_hdrs h H)). Qed.

(* ---- a payload-dependent filter (seeded change C07-f: "null packets carry nothing for the port callbacks"):
   skip the port phase when the header attribute is 0xFF and the payload is empty *)
Definition dispatch_nullskip (beh : behaviour) (n : Z) (pk : packet) (s : st) (log : list entry) : st * list entry * bool :=
  let '(s1, log1, alive) := call_all beh n (alls s) s log in
  if alive then
    if (Z.lor (fst pk) 12 =? 255) && (match snd pk with [] => true | _ => false end) then (s1, log1, true)
    else let (s2, log2) := call_ports beh n (filter (matches (fst pk)) (cbs s1)) s1 log1 in (s2, log2, true)
  else (s1, log1, false).
