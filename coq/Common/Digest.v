(* Common/Digest.v — a polynomial digest of integer lists, used only by the correspondence step to
   compare large model outputs with the implementation's without printing them (printing costs ~1 ms
   per numeral).  On a digest mismatch the harness re-evaluates the block and prints it in full.
   Nothing is proved about it: it is test plumbing, not part of any theorem. *)
From Coq Require Import ZArith List.
Import ListNotations.
Open Scope Z_scope.

Definition dg_p1 : Z := 2305843009213693951.           (* 2^61 - 1 *)
Definition dg_p2 : Z := 618970019642690137449562111.   (* 2^89 - 1 *)
Definition dg_b : Z := 1000003.

Definition digest1 (p : Z) (l : list Z) : Z :=
  fold_left (fun h v => (h * dg_b + (v mod p) + 1) mod p) l 7.

Definition digest (l : list Z) : Z * Z := (digest1 dg_p1 l, digest1 dg_p2 l).

(* nested lists: length-prefixed flattening *)
Definition flat (ll : list (list Z)) : list Z :=
  concat (map (fun l => Z.of_nat (length l) :: l) ll).
