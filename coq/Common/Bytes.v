(* Common/Bytes.v — bytes as Z in [0,256), little/big-endian integers, CRTP header.
   Shared by the byte-level models.  Stdlib only; closed under the global context. *)
From Coq Require Export ZArith List Bool Lia.
From Coq Require Import ZifyBool.
Export ListNotations.
Open Scope Z_scope.

Ltac Zify.zify_post_hook ::= Z.to_euclidean_division_equations.

Definition byte (z : Z) : Prop := 0 <= z < 256.
Definition byteb (z : Z) : bool := (0 <=? z) && (z <? 256).
Definition bytes (l : list Z) : Prop := Forall byte l.
Definition bytesb (l : list Z) : bool := forallb byteb l.

Lemma byteb_spec z : byteb z = true <-> byte z.
Proof. unfold byteb, byte. lia. Qed.

Lemma bytesb_spec l : bytesb l = true <-> bytes l.
Proof.
  unfold bytesb, bytes. rewrite forallb_forall, Forall_forall.
  split; intros H x Hx; apply byteb_spec, H, Hx.
Qed.

(* list equality on Z *)
Fixpoint zlist_eqb (a b : list Z) : bool :=
  match a, b with
  | [], [] => true
  | x :: a', y :: b' => (x =? y) && zlist_eqb a' b'
  | _, _ => false
  end.

Lemma zlist_eqb_spec a b : zlist_eqb a b = true <-> a = b.
Proof.
  revert b; induction a as [|x a IH]; intros [|y b]; simpl; split; intros H;
    try reflexivity; try discriminate.
  - apply andb_true_iff in H as [H1 H2]. apply Z.eqb_eq in H1. apply IH in H2. congruence.
  - injection H as -> ->. rewrite Z.eqb_refl. simpl. apply IH. reflexivity.
Qed.

(* ---- little-endian ---- *)
Fixpoint le_bytes (n : nat) (z : Z) : list Z :=
  match n with
  | O => []
  | S n' => (z mod 256) :: le_bytes n' (z / 256)
  end.

Fixpoint le_val (l : list Z) : Z :=
  match l with
  | [] => 0
  | b :: l' => b + 256 * le_val l'
  end.

Lemma le_bytes_length n z : length (le_bytes n z) = n.
Proof. revert z; induction n as [|n IH]; intros z; simpl; [reflexivity|]. now rewrite IH. Qed.

Lemma le_bytes_bytes n z : bytes (le_bytes n z).
Proof.
  revert z; induction n as [|n IH]; intros z; simpl; constructor.
  - unfold byte. lia.
  - apply IH.
Qed.

Lemma pow256_S n : 256 ^ Z.of_nat (S n) = 256 * 256 ^ Z.of_nat n.
Proof. rewrite Nat2Z.inj_succ, Z.pow_succ_r by lia. reflexivity. Qed.

Lemma pow256_pos n : 0 < 256 ^ Z.of_nat n.
Proof. apply Z.pow_pos_nonneg; lia. Qed.

Lemma le_val_le_bytes n z : le_val (le_bytes n z) = z mod 256 ^ Z.of_nat n.
Proof.
  revert z; induction n as [|n IH]; intros z.
  - simpl. now rewrite Z.mod_1_r.
  - cbn [le_bytes le_val]. rewrite IH, pow256_S.
    pose proof (pow256_pos n) as Hp.
    rewrite Z.rem_mul_r by lia. lia.
Qed.

Lemma le_val_le_bytes_id n z : 0 <= z < 256 ^ Z.of_nat n -> le_val (le_bytes n z) = z.
Proof. intros H. rewrite le_val_le_bytes. apply Z.mod_small; assumption. Qed.

Lemma le_val_range l : bytes l -> 0 <= le_val l < 256 ^ Z.of_nat (length l).
Proof.
  induction 1 as [|b l Hb _ IH].
  - simpl. lia.
  - cbn [le_val length]. rewrite pow256_S. unfold byte in Hb. lia.
Qed.

Lemma le_bytes_le_val l : bytes l -> le_bytes (length l) (le_val l) = l.
Proof.
  induction 1 as [|b l Hb Hl IH]; [reflexivity|].
  cbn [le_val length le_bytes]. unfold byte in Hb.
  f_equal.
  - lia.
  - replace ((b + 256 * le_val l) / 256) with (le_val l) by lia. exact IH.
Qed.

Lemma le_bytes_inj n a b :
  0 <= a < 256 ^ Z.of_nat n -> 0 <= b < 256 ^ Z.of_nat n ->
  le_bytes n a = le_bytes n b -> a = b.
Proof.
  intros Ha Hb E. rewrite <- (le_val_le_bytes_id n a Ha), <- (le_val_le_bytes_id n b Hb).
  now rewrite E.
Qed.

(* ---- big-endian ---- *)
Definition be_bytes (n : nat) (z : Z) : list Z := rev (le_bytes n z).
Definition be_val (l : list Z) : Z := le_val (rev l).

Lemma be_bytes_length n z : length (be_bytes n z) = n.
Proof. unfold be_bytes. now rewrite rev_length, le_bytes_length. Qed.

Lemma be_val_be_bytes_id n z : 0 <= z < 256 ^ Z.of_nat n -> be_val (be_bytes n z) = z.
Proof. intros H. unfold be_val, be_bytes. rewrite rev_involutive. now apply le_val_le_bytes_id. Qed.

(* ---- two's complement ---- *)
Definition to_unsigned (n : nat) (z : Z) : Z := z mod 256 ^ Z.of_nat n.
Definition to_signed (n : nat) (u : Z) : Z :=
  if u <? 256 ^ Z.of_nat n / 2 then u else u - 256 ^ Z.of_nat n.
Definition signed_range (n : nat) (z : Z) : Prop :=
  - (256 ^ Z.of_nat n / 2) <= z < 256 ^ Z.of_nat n / 2.
Definition unsigned_range (n : nat) (z : Z) : Prop := 0 <= z < 256 ^ Z.of_nat n.

Lemma pow256_even n : (0 < n)%nat -> 256 ^ Z.of_nat n = 2 * (256 ^ Z.of_nat n / 2).
Proof.
  destruct n as [|n]; [lia|]. intros _. rewrite pow256_S.
  pose proof (pow256_pos n). lia.
Qed.

Lemma to_signed_to_unsigned n z :
  (0 < n)%nat -> signed_range n z -> to_signed n (to_unsigned n z) = z.
Proof.
  intros Hn Hz. unfold to_signed, to_unsigned, signed_range in *.
  pose proof (pow256_even n Hn) as He. pose proof (pow256_pos n) as Hp.
  set (P := 256 ^ Z.of_nat n) in *. set (H := P / 2) in *.
  destruct (Z_lt_le_dec z 0) as [Hneg|Hpos].
  - assert (E : z mod P = z + P).
    { symmetry. apply (Z.mod_unique_pos _ _ (-1)); lia. }
    rewrite E. destruct (z + P <? H) eqn:C; lia.
  - rewrite Z.mod_small by lia. destruct (z <? H) eqn:C; lia.
Qed.

(* signed little-endian field *)
Definition le_signed (n : nat) (z : Z) : list Z := le_bytes n (to_unsigned n z).
Definition le_signed_val (l : list Z) : Z := to_signed (length l) (le_val l).

Lemma le_signed_roundtrip n z :
  (0 < n)%nat -> signed_range n z -> le_signed_val (le_signed n z) = z.
Proof.
  intros Hn Hz. unfold le_signed_val, le_signed.
  rewrite le_bytes_length, le_val_le_bytes_id.
  - now apply to_signed_to_unsigned.
  - unfold to_unsigned. apply Z.mod_pos_bound, pow256_pos.
Qed.

(* ---- slicing (Python semantics: clamps, never raises) ---- *)
Definition slice {A} (l : list A) (a b : nat) : list A := firstn (b - a) (skipn a l).

Lemma firstn_app_exact {A} (l1 l2 : list A) : firstn (length l1) (l1 ++ l2) = l1.
Proof. induction l1 as [|x l1 IH]; simpl; [reflexivity|now rewrite IH]. Qed.

Lemma skipn_app_exact {A} (l1 l2 : list A) : skipn (length l1) (l1 ++ l2) = l2.
Proof. induction l1 as [|x l1 IH]; simpl; [reflexivity|exact IH]. Qed.

(* ---- CRTP header byte (crtpstack.CRTPPacket) ---- *)
Definition crtp_header (port chan : Z) : Z :=
  Z.lor (Z.lor (Z.shiftl (Z.land port 15) 4) 12) (Z.land chan 3).
Definition crtp_port (h : Z) : Z := Z.shiftr (Z.land h 240) 4.
Definition crtp_chan (h : Z) : Z := Z.land h 3.
