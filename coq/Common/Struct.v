(* Common/Struct.v — the fragment of Python's struct module that cflib uses, little-endian ('<'),
   no padding.  Float fields are carried as bit patterns (F32: 32-bit, F64: 64-bit, F16: 16-bit):
   the byte-level models never interpret them; the harness computes the pattern of the caller's
   float with struct/numpy and hands it to the model as an integer.
   pack returns None exactly where CPython raises struct.error (integer out of range for the code,
   wrong number of arguments). *)
From CF Require Export Common.Bytes.
Open Scope Z_scope.

Inductive fld := U8 | I8 | U16 | I16 | U32 | I32 | U64 | I64 | F16 | F32 | F64 | Bool8.

Definition fld_size (f : fld) : nat :=
  match f with
  | U8 | I8 | Bool8 => 1 | U16 | I16 | F16 => 2 | U32 | I32 | F32 => 4 | U64 | I64 | F64 => 8
  end%nat.

Definition fld_signed (f : fld) : bool :=
  match f with I8 | I16 | I32 | I64 => true | _ => false end.

Definition fld_lo (f : fld) : Z :=
  if fld_signed f then - (256 ^ Z.of_nat (fld_size f) / 2) else 0.
Definition fld_hi (f : fld) : Z :=   (* exclusive *)
  match f with
  | Bool8 => 2
  | _ => if fld_signed f then 256 ^ Z.of_nat (fld_size f) / 2 else 256 ^ Z.of_nat (fld_size f)
  end.

Definition fld_ok (f : fld) (v : Z) : bool := (fld_lo f <=? v) && (v <? fld_hi f).

Definition pack1 (f : fld) (v : Z) : option (list Z) :=
  if fld_ok f v then Some (le_bytes (fld_size f) (to_unsigned (fld_size f) v)) else None.

Definition unpack1 (f : fld) (l : list Z) : Z :=
  if fld_signed f then to_signed (fld_size f) (le_val l) else le_val l.

Fixpoint pack (fs : list fld) (vs : list Z) : option (list Z) :=
  match fs, vs with
  | [], [] => Some []
  | f :: fs', v :: vs' =>
      match pack1 f v, pack fs' vs' with
      | Some a, Some b => Some (a ++ b)
      | _, _ => None
      end
  | _, _ => None
  end.

Definition fmt_size (fs : list fld) : nat := fold_right (fun f n => (fld_size f + n)%nat) O fs.

(* unpack requires the exact length, like struct.unpack *)
Fixpoint unpack_go (fs : list fld) (l : list Z) : list Z :=
  match fs with
  | [] => []
  | f :: fs' => unpack1 f (firstn (fld_size f) l) :: unpack_go fs' (skipn (fld_size f) l)
  end.

Definition unpack (fs : list fld) (l : list Z) : option (list Z) :=
  if Nat.eqb (length l) (fmt_size fs) then Some (unpack_go fs l) else None.

(* ---------------------------------------------------------------- facts *)

Lemma fld_size_pos f : (0 < fld_size f)%nat.
Proof. destruct f; simpl; lia. Qed.

Lemma pack1_length f v l : pack1 f v = Some l -> length l = fld_size f.
Proof.
  unfold pack1. destruct (fld_ok f v); [|discriminate]. intros [= <-]. apply le_bytes_length.
Qed.

Lemma pack1_bytes f v l : pack1 f v = Some l -> bytes l.
Proof.
  unfold pack1. destruct (fld_ok f v); [|discriminate]. intros [= <-]. apply le_bytes_bytes.
Qed.

Lemma pack1_None_iff f v : pack1 f v = None <-> ~ (fld_lo f <= v < fld_hi f).
Proof.
  unfold pack1, fld_ok. destruct ((fld_lo f <=? v) && (v <? fld_hi f)) eqn:E; split; intros H;
    try discriminate; try reflexivity; lia.
Qed.

Lemma unpack1_pack1 f v l : pack1 f v = Some l -> unpack1 f l = v.
Proof.
  unfold pack1, unpack1. destruct (fld_ok f v) eqn:E; [|discriminate]. intros [= <-].
  unfold fld_ok, fld_lo, fld_hi in E.
  pose proof (pow256_pos (fld_size f)) as Hp.
  destruct (fld_signed f) eqn:S.
  - rewrite le_val_le_bytes_id by (unfold to_unsigned; apply Z.mod_pos_bound; exact Hp).
    apply to_signed_to_unsigned; [apply fld_size_pos|].
    unfold signed_range. destruct f; simpl in S; try discriminate; lia.
  - unfold to_unsigned. rewrite le_val_le_bytes, Z.mod_mod by lia.
    apply Z.mod_small.
    destruct f; simpl in S; try discriminate; cbn in E |- *; lia.
Qed.

Lemma pack_length fs : forall vs l, pack fs vs = Some l -> length l = fmt_size fs.
Proof.
  induction fs as [|f fs IH]; intros [|v vs] l; simpl; try discriminate.
  - intros [= <-]. reflexivity.
  - destruct (pack1 f v) as [a|] eqn:E1; [|discriminate].
    destruct (pack fs vs) as [b|] eqn:E2; [|discriminate]. intros [= <-].
    rewrite app_length, (pack1_length _ _ _ E1), (IH _ _ E2). reflexivity.
Qed.

Lemma pack_bytes fs : forall vs l, pack fs vs = Some l -> bytes l.
Proof.
  induction fs as [|f fs IH]; intros [|v vs] l; simpl; try discriminate.
  - intros [= <-]. constructor.
  - destruct (pack1 f v) as [a|] eqn:E1; [|discriminate].
    destruct (pack fs vs) as [b|] eqn:E2; [|discriminate]. intros [= <-].
    apply Forall_app. split; [exact (pack1_bytes _ _ _ E1)|exact (IH _ _ E2)].
Qed.

Lemma unpack_go_pack fs : forall vs l, pack fs vs = Some l -> unpack_go fs l = vs.
Proof.
  induction fs as [|f fs IH]; intros [|v vs] l; simpl; try discriminate.
  - reflexivity.
  - destruct (pack1 f v) as [a|] eqn:E1; [|discriminate].
    destruct (pack fs vs) as [b|] eqn:E2; [|discriminate]. intros [= <-].
    rewrite <- (pack1_length _ _ _ E1), firstn_app_exact, skipn_app_exact.
    rewrite (unpack1_pack1 _ _ _ E1), (IH _ _ E2). reflexivity.
Qed.

Theorem unpack_pack fs vs l : pack fs vs = Some l -> unpack fs l = Some vs.
Proof.
  intros H. unfold unpack. rewrite (pack_length _ _ _ H), Nat.eqb_refl.
  now rewrite (unpack_go_pack _ _ _ H).
Qed.

(* pack fails iff the arity is wrong or some argument is outside its field's range *)
Theorem pack_Some_iff fs : forall vs,
  (exists l, pack fs vs = Some l) <->
  (length vs = length fs /\ Forall2 (fun f v => fld_lo f <= v < fld_hi f) fs vs).
Proof.
  induction fs as [|f fs IH]; intros [|v vs]; simpl.
  - split; [intros _; split; [reflexivity|constructor]|intros _; eexists; reflexivity].
  - split; [intros [l H]; discriminate|intros [H _]; discriminate].
  - split; [intros [l H]; discriminate|intros [H _]; discriminate].
  - split.
    + intros [l H]. destruct (pack1 f v) as [a|] eqn:E1; [|discriminate].
      destruct (pack fs vs) as [b|] eqn:E2; [|discriminate].
      destruct (proj1 (IH vs) (ex_intro _ b E2)) as [Hl HF].
      split; [congruence|]. constructor; [|exact HF].
      destruct (Z_lt_le_dec v (fld_lo f)) as [C|C].
      * assert (N : pack1 f v = None) by (apply pack1_None_iff; lia). congruence.
      * destruct (Z_lt_le_dec v (fld_hi f)) as [D|D]; [lia|].
        assert (N : pack1 f v = None) by (apply pack1_None_iff; lia). congruence.
    + intros [Hl HF]. inversion HF as [|? ? ? ? Hv HF']; subst.
      assert (Hl' : length vs = length fs) by (simpl in Hl; lia).
      destruct (proj2 (IH vs) (conj Hl' HF')) as [b Hb]. rewrite Hb.
      destruct (pack1 f v) as [a|] eqn:E1; [eexists; reflexivity|].
      apply pack1_None_iff in E1. contradiction.
Qed.
