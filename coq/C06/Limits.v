(* C06/Limits.v — every request packet stays within the protocol limits; the next request is served. *)
From CF Require Import Common.Bytes C06.Model C06.Proofs.
From Coq Require Import ZifyBool.
Open Scope Z_scope.

Definition pkt_ok (o : obs) : Prop :=
  match o with
  | OSend _ ChRead p => length p = 6%nat /\ bytes p /\ 0 <= nth 5 p 0 <= 20
  | OSend _ ChWrite p => (5 <= length p <= 30)%nat /\ bytes p
  | OSend _ ChOther _ => False
  | _ => True
  end.

Definition rec_ok (c : client) : Prop :=
  Forall (fun r => 0 <= r_id r < 256) (c_reads c) /\
  Forall (fun w => 0 <= w_id w < 256 /\ bytes (w_rest w)) (allw (c_writes c)).

Lemma bytes_app a b : bytes (a ++ b) <-> bytes a /\ bytes b.
Proof. unfold bytes. apply Forall_app. Qed.

Lemma bytes_firstn n l : bytes l -> bytes (firstn n l).
Proof. unfold bytes. intros H. apply Forall_forall. intros x Hx. rewrite Forall_forall in H. apply H. revert n Hx.
  induction l as [|b l IH]; intros [|n] Hx; cbn [firstn] in Hx; try contradiction.
  destruct Hx as [->|Hx]; [left; reflexivity|right; eapply IH; [|exact Hx]].
  intros y Hy. apply H. right. exact Hy. Qed.

Lemma bytes_skipn n l : bytes l -> bytes (skipn n l).
Proof. unfold bytes. revert l. induction n as [|n IH]; intros [|b l] H; cbn [skipn]; try exact H.
  inversion H; subst. apply IH. assumption. Qed.

Lemma read_pkt_ok r : 0 <= r_id r < 256 -> 0 <= r_left r -> pkt_ok (read_pkt r).
Proof.
  intros Hi Hl. unfold read_pkt, pkt_ok, RCHUNK.
  assert (L : length (le_bytes 4 (r_cur r)) = 4%nat) by apply le_bytes_length.
  split; [reflexivity|]. split.
  - constructor; [exact Hi|]. apply bytes_app. split; [apply le_bytes_bytes|].
    constructor; [unfold byte; lia|constructor].
  - change (r_id r :: le_bytes 4 (r_cur r) ++ [Z.min (r_left r) 20]) with ((r_id r :: le_bytes 4 (r_cur r)) ++ [Z.min (r_left r) 20]).
    rewrite app_nth2; cbn [length]; rewrite L; [cbn; lia|lia].
Qed.

Lemma w_start_ok w : 0 <= w_id w < 256 -> bytes (w_rest w) ->
  pkt_ok (snd (w_start w)) /\ 0 <= w_id (fst (w_start w)) < 256 /\ bytes (w_rest (fst (w_start w))).
Proof.
  intros Hi Hb. unfold w_start. cbn [fst snd w_id w_rest pkt_ok].
  assert (L : length (le_bytes 4 (w_cur w)) = 4%nat) by apply le_bytes_length.
  pose proof (firstn_le_length WCHUNK (w_rest w)) as Lf. unfold WCHUNK in *.
  repeat split; try lia.
  - cbn [length]. rewrite app_length, L. lia.
  - cbn [length]. rewrite app_length, L. lia.
  - constructor; [exact Hi|]. apply bytes_app. split; [apply le_bytes_bytes|apply bytes_firstn, Hb].
  - apply bytes_skipn, Hb.
Qed.

Definition Lim (c : client) (tr : list obs) : Prop := rec_ok c /\ Forall pkt_ok tr.

Lemma start_head_ok q : Forall (fun w => 0 <= w_id w < 256 /\ bytes (w_rest w)) q ->
  Forall (fun w => 0 <= w_id w < 256 /\ bytes (w_rest w)) (fst (start_head q)) /\ Forall pkt_ok (snd (start_head q)).
Proof.
  intros F. destruct q as [|w t]; cbn [start_head fst snd]; [split; constructor|].
  inversion F as [|? ? [Hi Hb] Ft]; subst. destruct (w_start_ok w Hi Hb) as (P & I' & B').
  destruct (w_start w) as [w' o]. cbn [fst snd] in *. split; constructor; try assumption; [split; assumption|constructor].
Qed.

Lemma fail_read_ok l : Forall pkt_ok (map fail_read l).
Proof. induction l; constructor; [exact I|assumption]. Qed.
Lemma fail_write_ok l : Forall pkt_ok (map fail_write l).
Proof. induction l; constructor; [exact I|assumption]. Qed.

Lemma lim_step fx c tr e : Lim c tr -> Lim (fst (step fx c e)) (tr ++ snd (step fx c e)).
Proof.
  intros [[HR HW] HT].
  assert (Same : forall os, Forall pkt_ok os -> Lim c (tr ++ os)).
  { intros os Hos. split; [split; assumption|apply Forall_app; split; assumption]. }
  unfold step. destruct (negb (wf_eventb e)) eqn:WF; [apply (Same [OOutOfDomain]); repeat constructor|].
  apply negb_false_iff, wf_eventb_spec in WF.
  destruct e as [i a n|i a d fl|ch d|].
  - destruct WF as (Hi & Ha & Hn & Han). unfold do_read.
    destruct (rd_get i (c_reads c)); [apply (Same [ORet false]); repeat constructor|].
    cbn [fst snd]. split; [split; cbn [c_reads c_writes]|].
    + apply Forall_app. split; [exact HR|constructor; [exact Hi|constructor]].
    + exact HW.
    + apply Forall_app. split; [exact HT|]. constructor; [apply read_pkt_ok; cbn [r_id r_left]; lia|repeat constructor].
  - destruct WF as (Hi & Ha & Han & Hd). unfold do_write.
    destruct (c_leaked c); [apply (Same [OHang]); repeat constructor|].
    set (w := mkW (c_next c) i a a d 0).
    assert (Hw : 0 <= w_id w < 256 /\ bytes (w_rest w)) by (split; assumption).
    assert (Sup : forall q, Forall pkt_ok (if fl then map (fun w => OSuperseded (w_uid w)) (skipn 1 q) else [])).
    { intros q. destruct fl; [|constructor]. induction (skipn 1 q); constructor; [exact I|assumption]. }
    destruct (wq_get i (c_writes c)) as [q|] eqn:G.
    + destruct (wq_get_split _ _ _ G) as (l1 & l2 & E1 & E2). rewrite E1 in HW.
      apply Forall_app in HW as [H1 HW]. apply Forall_app in HW as [Hq H2].
      assert (Hq1 : Forall (fun w => 0 <= w_id w < 256 /\ bytes (w_rest w)) (if fl then firstn 1 q else q)).
      { destruct fl; [|exact Hq]. apply Forall_forall. intros x Hx. rewrite Forall_forall in Hq. apply Hq.
        destruct q as [|y t]; cbn [firstn] in Hx; [contradiction|]. destruct Hx as [->|[]]. left. reflexivity. }
      destruct (if fl then firstn 1 q else q) as [|x q1].
      * destruct Hw as [Hwi Hwb]. destruct (w_start_ok w Hwi Hwb) as (P & I' & B').
        destruct (w_start w) as [w' o]. cbn [fst snd] in *. split; [split; cbn [c_reads c_writes]|].
        -- exact HR.
        -- rewrite E2. repeat (apply Forall_app; split); try assumption. constructor; [split; assumption|constructor].
        -- repeat (apply Forall_app; split); try assumption; [apply Sup|]. repeat constructor. exact P.
      * cbn [fst snd]. split; [split; cbn [c_reads c_writes]|].
        -- exact HR.
        -- rewrite E2. repeat (apply Forall_app; split); try assumption. constructor; [exact Hw|constructor].
        -- repeat (apply Forall_app; split); try assumption; [apply Sup|]. repeat constructor.
    + assert (E : (if fl then firstn 1 (@nil wreq) else []) = []) by (destruct fl; reflexivity). rewrite E.
      destruct Hw as [Hwi Hwb]. destruct (w_start_ok w Hwi Hwb) as (P & I' & B').
      destruct (w_start w) as [w' o]. cbn [fst snd] in *. split; [split; cbn [c_reads c_writes]|].
      * exact HR.
      * rewrite (wq_get_none_set _ _ _ G). apply Forall_app. split; [exact HW|]. constructor; [split; assumption|constructor].
      * repeat (apply Forall_app; split); try assumption; [apply Sup|]. repeat constructor. exact P.
  - destruct d as [|i p]; [apply (Same [ORaise]); repeat constructor|].
    destruct ch; [| |apply (Same []); constructor].
    + unfold do_read_reply. destruct (length p <? 5)%nat; [apply (Same [ORaise]); repeat constructor|].
      destruct (rd_get i (c_reads c)) as [r|] eqn:G; [|apply (Same []); constructor].
      destruct (rd_get_split _ _ _ G) as (l1 & l2 & E1 & Hi & Ed & Es).
      rewrite E1 in HR. apply Forall_app in HR as [H1 HR]. inversion HR as [|? ? Hr H2]; subst.
      destruct (nth 4 p 0 =? 0).
      * destruct (le_val (firstn 4 p) =? r_cur r); [|apply (Same []); constructor].
        match goal with |- context [if 0 <? ?x then _ else _] => destruct (0 <? x) eqn:L end.
        -- cbn [fst snd]. split; [split; cbn [c_reads c_writes set_reads]|].
           ++ rewrite Es by reflexivity. apply Forall_app. split; [exact H1|]. constructor; [exact Hr|exact H2].
           ++ exact HW.
           ++ apply Forall_app. split; [exact HT|]. constructor; [|constructor].
              cbn [r_left] in L. apply read_pkt_ok; cbn [r_id r_left]; lia.
        -- cbn [fst snd]. split; [split; cbn [c_reads c_writes set_reads]|].
           ++ rewrite Ed. apply Forall_app. split; assumption.
           ++ exact HW.
           ++ apply Forall_app. split; [exact HT|repeat constructor].
      * cbn [fst snd]. split; [split; cbn [c_reads c_writes set_reads]|].
        -- rewrite Ed. apply Forall_app. split; assumption.
        -- exact HW.
        -- apply Forall_app. split; [exact HT|repeat constructor].
    + unfold do_write_reply. destruct (length p <? 5)%nat; [apply (Same [ORaise]); repeat constructor|].
      destruct (wq_get i (c_writes c)) as [[|w q]|] eqn:G; [| |apply (Same []); constructor].
      { destruct fx; [apply (Same []); constructor|].
        destruct (c_leaked c); [apply (Same [OHang]); repeat constructor|].
        cbn [fst snd]. split; [split; assumption|apply Forall_app; split; [exact HT|repeat constructor]]. }
      destruct (c_leaked c); [apply (Same [OHang]); repeat constructor|].
      destruct (wq_get_split _ _ _ G) as (l1 & l2 & E1 & E2). rewrite E1 in HW.
      apply Forall_app in HW as [H1 HW]. apply Forall_app in HW as [Hq H2].
      inversion Hq as [|? ? [Hwi Hwb] Hq']; subst.
      destruct (start_head_ok q Hq') as [Sq So].
      destruct (nth 4 p 0 =? 0).
      * destruct (le_val (firstn 4 p) =? w_cur w); [|apply (Same []); constructor].
        destruct (w_rest w) eqn:R.
        -- destruct (start_head q) as [q' os]. cbn [fst snd] in *. split; [split; cbn [c_reads c_writes set_writes]|].
           ++ exact HR.
           ++ rewrite E2. repeat (apply Forall_app; split); assumption.
           ++ repeat (apply Forall_app; split); try assumption. repeat constructor.
        -- assert (Hb' : bytes (w_rest (w_advance w))) by (cbn [w_advance w_rest]; rewrite R; exact Hwb).
           assert (Hi' : 0 <= w_id (w_advance w) < 256) by exact Hwi.
           destruct (w_start_ok (w_advance w) Hi' Hb') as (P & I' & B').
           destruct (w_start (w_advance w)) as [w' o]. cbn [fst snd] in *.
           split; [split; cbn [c_reads c_writes set_writes]|].
           ++ exact HR.
           ++ rewrite E2. repeat (apply Forall_app; split); try assumption. constructor; [split; assumption|exact Hq'].
           ++ apply Forall_app; split; [exact HT|]. constructor; [exact P|constructor].
      * destruct (start_head q) as [q' os]. cbn [fst snd] in *. split; [split; cbn [c_reads c_writes set_writes]|].
        -- exact HR.
        -- rewrite E2. repeat (apply Forall_app; split); assumption.
        -- repeat (apply Forall_app; split); try assumption. repeat constructor.
  - unfold do_disc.
    pose proof (fail_read_ok (c_reads c)) as FR.
    destruct (c_leaked c); cbn [fst snd].
    + split; [split; cbn [c_reads c_writes]; [constructor|exact HW]|].
      repeat (apply Forall_app; split); try assumption. repeat constructor.
    + split; [split; cbn [c_reads c_writes]; constructor|].
      repeat (apply Forall_app; split); try assumption.
      apply fail_write_ok.
Qed.

Lemma lim_init : Lim c_init [].
Proof. split; [split; constructor|constructor]. Qed.

Lemma packets_within_limits fx evs : Forall pkt_ok (snd (run fx c_init evs)).
Proof. apply (run_inv fx Lim (lim_step fx) evs c_init [] lim_init). Qed.

(* ---- after any history the next request is served *)
Lemma next_read_served c i a n :
  wf_event (ERead i a n) -> rd_get i (c_reads c) = None ->
  snd (step true c (ERead i a n)) = [OSend (c_next c) ChRead (i :: le_bytes 4 a ++ [Z.min n 20]); ORet true].
Proof.
  intros WF G. apply wf_eventb_spec in WF. unfold step. rewrite WF. cbn [negb]. unfold do_read. rewrite G. reflexivity.
Qed.

Lemma next_write_served c i a d fl :
  wf_event (EWrite i a d fl) -> c_leaked c = false ->
  (wq_get i (c_writes c) = None \/ wq_get i (c_writes c) = Some []) ->
  snd (step true c (EWrite i a d fl)) = [OSend (c_next c) ChWrite (i :: le_bytes 4 a ++ firstn WCHUNK d); ORet true].
Proof.
  intros WF L G. apply wf_eventb_spec in WF. unfold step. rewrite WF. cbn [negb]. unfold do_write. rewrite L.
  destruct G as [-> | ->]; destruct fl; reflexivity.
Qed.

(* ---- the original code (fx = false): a second delivery of a final write acknowledgement leaves the
   lock held, and from then on write() and the disconnect callback block *)
Definition f06_history : list event :=
  [EWrite 2 0 [1; 2; 3] false; EPkt ChWrite [2; 0; 0; 0; 0; 0]; EPkt ChWrite [2; 0; 0; 0; 0; 0]].

Lemma original_code_wedges :
  let c := fst (run false c_init f06_history) in
  c_leaked c = true /\ snd (step false c (EWrite 2 0 [4] false)) = [OHang] /\ snd (step false c EDisc) = [OHang] /\
  c_leaked (fst (run true c_init f06_history)) = false.
Proof. vm_compute. repeat split; reflexivity. Qed.
