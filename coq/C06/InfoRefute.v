(* C06/InfoRefute.v — memory enumeration / refresh of the code as it is ([irun true false false]): what a disconnect
   leaves behind (nothing), the invariant behind finding F02i with the refutation of the code before it, observations
   outside the property text (a second refresh() while one is in progress; a 1-wire read the device refuses), and
   complete enumerations of devices with 1-wire memories computed in the model (non-vacuity). *)
From CF Require Import Common.Bytes C06.Model C06.InfoModel C06.Proofs.
From Coq Require Import ZifyBool.
Open Scope Z_scope.

(* ================================================================ the lock is never leaked by the composite *)
Lemma ow_new_data_leaked sc id o a d :
  c_leaked (snd sc) = false -> c_leaked (snd (fst (ow_new_data sc id o a d))) = false.
Proof.
  destruct sc as [s c]. cbn [snd]. intros L. unfold ow_new_data.
  assert (F : forall o', c_leaked (snd (fst (
      let o2 := mkOW false (ow_valid o') (ow_hdr o') (ow_elems o') in
      let s1 := set_mems s (set_ow id o2 (i_mems s)) in
      if ow_upd o' then let '(s2, os) := update_done s1 id in ((s2, c), os) else ((s1, c), [])))) = false).
  { intros o'. cbv zeta. destruct (ow_upd o'); [destruct (update_done _ id)|]; exact L. }
  destruct (a =? 0).
  - destruct (length d <? 8)%nat; [exact L|]. cbv zeta.
    destruct (_ && _).
    + destruct (length d <? 10)%nat; [exact L|].
      pose proof (step_leaked_fixed c (ERead id 8 (nth 9 d 0 + 3)) L) as H.
      destruct (step true c _) as [c' os]. exact H.
    + apply F.
  - destruct (a =? 8); [|exact L].
    destruct (rev d); [exact L|]. destruct (_ =? _); [|apply F].
    destruct (parse_elems _ _ _); [apply F|exact L].
Qed.

Lemma ow_dispatch_all_leaked os : forall sc,
  c_leaked (snd sc) = false -> c_leaked (snd (fst (ow_dispatch_all sc os))) = false.
Proof.
  induction os as [|x t IH]; intros sc L; cbn [ow_dispatch_all]; [exact L|].
  assert (H : c_leaked (snd (fst (ow_dispatch sc x))) = false).
  { unfold ow_dispatch. destruct x; try exact L.
    destruct (get_mem id (i_mems (fst sc))) as [m|]; [|exact L].
    destruct (m_ow m); [apply ow_new_data_leaked, L|exact L]. }
  destruct (ow_dispatch sc x) as [sc1 o1]. cbn [fst] in H. specialize (IH sc1 H).
  destruct (ow_dispatch_all sc1 t) as [sc2 o2]. exact IH.
Qed.

Lemma start_updates_leaked l : forall sc,
  c_leaked (snd sc) = false -> c_leaked (snd (fst (start_updates l sc))) = false.
Proof.
  induction l as [|m t IH]; intros sc L; cbn [start_updates]; [exact L|].
  destruct (m_ow m) as [o|]; [|apply IH, L]. destruct (ow_upd o); [apply IH, L|].
  destruct sc as [s c]. cbn [snd] in L.
  pose proof (step_leaked_fixed c (ERead (m_id m) 0 11) L) as H.
  destruct (step true c _) as [c' os]. cbn [fst] in H.
  specialize (IH (set_mems s (set_ow (m_id m) (mkOW true false (ow_hdr o) (ow_elems o)) (i_mems s)), c') H).
  destruct (start_updates t _) as [sc2 o2]. exact IH.
Qed.

Lemma istep_leaked f2i f6e f6g sc e :
  c_leaked (snd sc) = false -> c_leaked (snd (fst (istep f2i f6e f6g sc e))) = false.
Proof.
  intros L. destruct e as [fcb|data|e]; cbn [istep].
  - unfold do_refresh. destruct sc as [s c]. cbn [snd fst] in *. destruct f2i; exact L.
  - destruct (bytesb data); [|exact L]. unfold info_packet. destruct sc as [s c]. cbn [snd] in L.
    destruct data as [|cmd p]; [exact L|].
    destruct (cmd =? 1).
    { destruct p as [|n p']; [exact L|]. destruct (0 <? n); [destruct (i_getting s); exact L|].
      destruct (call_done _); exact L. }
    destruct (cmd =? 2); [|exact L].
    destruct (f6g && negb (i_getting s)); [exact L|].
    destruct (length p <? 5)%nat; [destruct (call_done _); exact L|].
    destruct (f6g && negb (nth 0 p 0 =? i_fetch s)); [exact L|].
    destruct (length p <? 14)%nat; [exact L|].
    cbv zeta. destruct (match get_mem _ _ with Some _ => _ | None => _ end) as [s1 o1].
    destruct (i_fetch s1 <=? i_nbr s1 - 1); [exact L|].
    destruct (has_ow (i_mems s1)).
    + pose proof (start_updates_leaked (i_mems s1) (s1, c) L) as H. destruct (start_updates _ _). exact H.
    + destruct (call_done s1). exact L.
  - assert (G : forall e', c_leaked (snd (fst (let '(c', os) := step true (snd sc) e' in ow_dispatch_all (fst sc, c') os))) = false).
    { intros e'. pose proof (step_leaked_fixed (snd sc) e' L) as H. destruct (step true (snd sc) e') as [c' os].
      apply ow_dispatch_all_leaked. exact H. }
    destruct e; try apply G.
    pose proof (step_leaked_fixed (snd sc) EDisc L) as H. destruct (step true (snd sc) EDisc). exact H.
Qed.

Lemma irun_leaked f2i f6e f6g evs : forall sc,
  c_leaked (snd sc) = false -> c_leaked (snd (fst (irun f2i f6e f6g sc evs))) = false.
Proof.
  induction evs as [|e t IH]; intros sc L; cbn [irun]; [exact L|].
  pose proof (istep_leaked f2i f6e f6g sc e L) as H. destruct (istep _ _ _ sc e) as [sc1 o1]. cbn [fst] in H.
  specialize (IH sc1 H). destruct (irun _ _ _ sc1 t). exact IH.
Qed.

Lemma irun_app f2i f6e f6g e1 e2 : forall sc,
  irun f2i f6e f6g sc (e1 ++ e2) =
  (fst (irun f2i f6e f6g (fst (irun f2i f6e f6g sc e1)) e2),
   snd (irun f2i f6e f6g sc e1) ++ snd (irun f2i f6e f6g (fst (irun f2i f6e f6g sc e1)) e2)).
Proof.
  induction e1 as [|e t IH]; intros sc; cbn [irun app].
  - cbn [fst snd app]. now destruct (irun _ _ _ sc e2).
  - destruct (istep _ _ _ sc e) as [sc1 o1]. rewrite IH. destruct (irun _ _ _ sc1 t) as [sc2 o2]. cbn [fst snd].
    now rewrite app_assoc.
Qed.

(* ================================================================ a disconnect leaves nothing behind *)
(* After a link drop at any point of any history the enumeration state is the initial one and the read / write layer
   has no record and a free lock: the state differs from a fresh start only by the ghost request counter. *)
Lemma disconnect_resets f2i f6e f6g evs :
  exists n, fst (irun f2i f6e f6g (info_init, c_init) (evs ++ [IEv EDisc])) = (info_init, mkC [] [] false n).
Proof.
  rewrite irun_app. cbn [fst snd irun istep].
  pose proof (irun_leaked f2i f6e f6g evs (info_init, c_init) eq_refl) as L.
  destruct (irun f2i f6e f6g (info_init, c_init) evs) as [[s c] tr]. cbn [fst snd] in *.
  unfold step. cbn [wf_eventb negb]. unfold do_disc. rewrite L. cbn [fst snd].
  exists (c_next c). reflexivity.
Qed.

(* So nothing of the earlier session (pending reads, _ow_mems_left_to_update, callbacks, elements) influences the next
   one: what happens after the link drop is what happens from the initial state (with another counter). *)
Lemma session_isolation f2i f6e f6g pre post :
  exists n, snd (irun f2i f6e f6g (info_init, c_init) (pre ++ IEv EDisc :: post)) =
            snd (irun f2i f6e f6g (info_init, c_init) (pre ++ [IEv EDisc]))
            ++ snd (irun f2i f6e f6g (info_init, mkC [] [] false n) post).
Proof.
  destruct (disconnect_resets f2i f6e f6g pre) as [n E]. exists n.
  change (pre ++ IEv EDisc :: post) with (pre ++ [IEv EDisc] ++ post). rewrite app_assoc, irun_app, E. reflexivity.
Qed.

(* the link drops while a refresh with a failure callback waits: exactly one IFailed, at the end of that step *)
Lemma disconnect_fails_refresh f2i f6e f6g sc :
  i_fcb (fst sc) = true -> c_leaked (snd sc) = false ->
  exists os, snd (istep f2i f6e f6g sc (IEv EDisc)) = lift os ++ [IFailed].
Proof.
  intros F L. cbn [istep]. destruct (step true (snd sc) EDisc) as [c' os]. rewrite F. cbn [snd]. exists os. reflexivity.
Qed.

(* ================================================================ F02i: no read record survives into a refresh *)
Lemma refresh_drops_every_read f6e f6g sc fcb :
  c_reads (snd (fst (istep true f6e f6g sc (IRefresh fcb)))) = [] /\
  i_mems (fst (fst (istep true f6e f6g sc (IRefresh fcb)))) = [] /\
  (f6e = true -> i_left (fst (fst (istep true f6e f6g sc (IRefresh fcb)))) = []).
Proof. destruct sc as [s c]. cbn. repeat split. intros ->. reflexivity. Qed.

(* ================================================================ devices for the concrete histories *)
Definition ow_header (start pins vid pid : Z) : list Z :=
  let h := start :: le_bytes 4 pins ++ [vid; pid] in h ++ [crc8 h].
Definition ow_elements (el : list (Z * list Z)) : list Z :=
  let e := concat (map (fun kv => fst kv :: zlen (snd kv) :: snd kv) el) in
  let d := 0 :: zlen e :: e in d ++ [crc8 d].
Definition flip_last (l : list Z) : list Z := removelast l ++ [Z.lxor (last l 0) 165].

Definition a8 : list Z := [1; 2; 3; 4; 5; 6; 7; 8].
Definition el1 : list (Z * list Z) := [(1, [98; 99; 76; 101; 100]); (2, [67])].          (* "bcLed", "C" *)
Definition dev3 : list devmem := [(0, 4096, [0; 0; 0; 0; 0; 0; 0; 0]); (1, 112, a8); (25, 65536, [0; 0; 0; 0; 0; 0; 0; 0])].
Definition blk3 : list (Z * Z * list Z) := [(1, 0, ow_header 235 12 188 7 ++ ow_elements el1)].
Definition sys3 : isys := mkIS info_init c_init (overlay blk3) dev3 [] O.
Definition zero_plan : nat -> Z := fun _ => 0.
Definition deliver (l : list nat) : list isevent := map ISDeliver l.
Definition count_done (tr : list iobs) : nat :=
  length (filter (fun o => match o with IDone | IFailed => true | _ => false end) tr).

(* in order: NBR, details 0 1 2, header read, elements read: one IDone, the 1-wire element valid with the device's fields *)
Example enumeration_dev3 :
  let r := isys_run true false false zero_plan sys3 (ISOp (IRefresh true) :: deliver (seq 0 6)) in
  count_done (snd r) = 1%nat /\ last (snd r) IRaise = IDone /\
  i_mems (is_st (fst r)) =
    [mkM 0 0 4096 [0; 0; 0; 0; 0; 0; 0; 0] None;
     mkM 1 1 112 a8 (Some (mkOW false true (Some (12, 188, 7)) el1));
     mkM 2 25 65536 [0; 0; 0; 0; 0; 0; 0; 0] None] /\
  c_reads (is_cl (fst r)) = [] /\ i_left (is_st (fst r)) = [].
Proof. vm_compute. repeat split; reflexivity. Qed.

(* F02i (commit ae515bf).  The link drops during the enumeration; a read of memory 1 is registered after the
   clean-up; the next session's refresh: with the repair the read is failed and the enumeration completes, without
   it the 1-wire element's header read is refused (read() returns False) and the refresh never completes although
   every reply is delivered. *)
Definition f02i_history : list isevent :=
  [ISOp (IRefresh true); ISDeliver 0; ISOp (IEv EDisc); ISOp (IEv (ERead 1 0 11)); ISOp (IRefresh true)]
  ++ deliver (seq 3 10).      (* the reply to that read is lost with the link: reply 2 is never delivered *)

Lemma f02i_refuted_before_fix :
  count_done (snd (isys_run false false false zero_plan sys3 f02i_history)) = 1%nat /\   (* only the IFailed of the link drop *)
  i_cb (is_st (fst (isys_run false false false zero_plan sys3 f02i_history))) = true /\
  count_done (snd (isys_run true false false zero_plan sys3 f02i_history)) = 2%nat /\
  last (snd (isys_run true false false zero_plan sys3 f02i_history)) IRaise = IDone.
Proof. vm_compute. repeat split; reflexivity. Qed.

(* ================================================================ observations outside the property text *)
(* The library calls refresh() once per connection.  A second refresh() while the first is still in progress:
   (1) during the 1-wire update: the id of the interrupted update stays in _ow_mems_left_to_update (refresh() does not
   empty it), the new enumeration adds it again, the list never gets empty: every reply is delivered in order, the
   second refresh is answered neither with done nor with failed. *)
Definition overlap_history_1 : list isevent :=
  [ISOp (IRefresh true)] ++ deliver (seq 0 4) ++ [ISOp (IRefresh true)] ++ deliver (seq 4 12).

Lemma overlapping_refresh_observation_never_answered :
  count_done (snd (isys_run true false false zero_plan sys3 overlap_history_1)) = 0%nat /\
  i_cb (is_st (fst (isys_run true false false zero_plan sys3 overlap_history_1))) = true /\
  i_left (is_st (fst (isys_run true false false zero_plan sys3 overlap_history_1))) = [1] /\
  c_reads (is_cl (fst (isys_run true false false zero_plan sys3 overlap_history_1))) = [].
Proof. vm_compute. repeat split; reflexivity. Qed.

(* (2) details replies are processed whatever the state: the details reply of the interrupted enumeration arrives
   before the second count, the refresh is reported done with memory 0 only. *)
Definition overlap_history_2 : list isevent :=
  [ISOp (IRefresh true); ISDeliver 0; ISOp (IRefresh true); ISDeliver 1].

Lemma overlapping_refresh_observation_partial_list :
  last (snd (isys_run true false false zero_plan sys3 overlap_history_2)) IRaise = IDone /\
  map m_id (i_mems (is_st (fst (isys_run true false false zero_plan sys3 overlap_history_2)))) = [0].
Proof. vm_compute. repeat split; reflexivity. Qed.

(* One refresh, the device refuses the 1-wire header read (status 9): the read fails with its failure notification and
   leaves no record, but nobody ends the element's update: the refresh is answered neither with done nor with failed.
   So "a refresh is answered whenever the device answers every request" is false for the code as it is. *)
Definition refresh_answered_when_device_answers : Prop :=
  forall plan dev blocks n, (n >= 40)%nat ->
    let r := isys_run true false false plan (mkIS info_init c_init (overlay blocks) dev [] O)
                      (ISOp (IRefresh true) :: deliver (seq 0 n)) in
    (count_done (snd r) >= 1)%nat.

Lemma refused_1wire_read_observation : ~ refresh_answered_when_device_answers.
Proof.
  intros H. specialize (H (fun k => match k with 4%nat => 9 | _ => 0 end) dev3 blk3 40%nat (le_n _)).
  vm_compute in H. lia.
Qed.

Lemma refused_1wire_read_leaves_no_record :
  let r := isys_run true false false (fun k => match k with 4%nat => 9 | _ => 0 end) sys3
                    (ISOp (IRefresh true) :: deliver (seq 0 8)) in
  c_reads (is_cl (fst r)) = [] /\ In (IO (OReadFail 0 1 0 [])) (snd r).
Proof. vm_compute. split; [reflexivity|tauto]. Qed.

(* ================================================================ 1-wire: valid iff both CRCs match *)
(* four 1-wire memories: good, elements CRC wrong, header CRC wrong, good with 3 elements over several read chunks *)
Definition el4 : list (Z * list Z) :=
  [(1, map (fun k => 97 + Z.of_nat k mod 26) (seq 0 40)); (3, map (fun k => 65 + Z.of_nat k mod 26) (seq 0 30)); (2, [68])].
Definition dev4 : list devmem := [(1, 112, a8); (1, 112, a8); (1, 112, a8); (1, 112, a8)].
Definition blk4 : list (Z * Z * list Z) :=
  [(0, 0, ow_header 235 12 188 7 ++ ow_elements el1);
   (1, 0, ow_header 235 3 188 1 ++ flip_last (ow_elements el1));
   (2, 0, flip_last (ow_header 235 3 188 1) ++ ow_elements el1);
   (3, 0, ow_header 235 4294967295 188 9 ++ ow_elements el4)].
Definition sys4 : isys := mkIS info_init c_init (overlay blk4) dev4 [] O.

Definition ow_of (m : mel) : option (bool * option (Z * Z * Z) * list (Z * list Z)) :=
  match m_ow m with Some o => Some (ow_valid o, ow_hdr o, ow_elems o) | None => None end.

Example enumeration_dev4_in_order :
  let r := isys_run true false false zero_plan sys4 (ISOp (IRefresh true) :: deliver (seq 0 30)) in
  count_done (snd r) = 1%nat /\ last (snd r) IRaise = IDone /\
  map ow_of (i_mems (is_st (fst r))) =
    [Some (true, Some (12, 188, 7), el1);
     Some (false, Some (3, 188, 1), []);
     Some (false, Some (3, 188, 1), []);
     Some (true, Some (4294967295, 188, 9), el4)].
Proof. vm_compute. repeat split; reflexivity. Qed.

(* the same under a bad schedule: every reply twice, the 1-wire reads answered in reverse order, a link drop in the
   middle of the 1-wire updates, a new refresh, and every reply of both sessions delivered (again) in order *)
Example enumeration_dev4_bad_schedule :
  let evs := [ISOp (IRefresh true)] ++ deliver [0; 0; 1; 1; 2; 3; 3; 4; 4]%nat ++ deliver [8; 7; 6; 5; 8]%nat
             ++ [ISOp (IEv EDisc); ISOp (IRefresh false)] ++ deliver (seq 9 60) in
  let r := isys_run true false false zero_plan sys4 evs in
  last (snd r) IRaise = IDone /\ notT (In IRaise (snd r)) /\
  map ow_of (i_mems (is_st (fst r))) =
    [Some (true, Some (12, 188, 7), el1);
     Some (false, Some (3, 188, 1), []);
     Some (false, Some (3, 188, 1), []);
     Some (true, Some (4294967295, 188, 9), el4)] /\
  i_cb (is_st (fst r)) = false /\ c_reads (is_cl (fst r)) = [] /\ i_left (is_st (fst r)) = [].
Proof. vm_compute. repeat split; try reflexivity. intros H. repeat (destruct H as [H|H]; [discriminate H|]). exact H. Qed.
