(* C06/Wrapper.v — the completion bookkeeping of the memory element classes (MemoryTester, I2CElement, OWElement,
   LocoMemory, LocoMemory2, ...): one callback slot per kind of request.  A request is taken only while the slot is
   free (otherwise it is silently dropped), it stores the caller's callback and starts the transfer; when the
   transfer completes the element decodes the data, calls the callback and frees the slot.

   The contract: the slot is set at the request, cleared and the callback invoked exactly once at completion,
   WHATEVER THE DATA.  [skip] marks data on which an implementation forgets the completion (a data-dependent branch
   that leaves the listener before the callback): the contract is [skip = fun _ => false]; any other choice is refuted.

   Second part: MemoryTester.new_data concretely (the per-byte validation loop), as repaired by fixes/F06j.patch, as
   it was before (callback inside the loop, after the first byte), and with a `break` at the first mismatch. *)
From CF Require Import Common.Bytes.
Open Scope Z_scope.

Section Slot.
  Variable data : Type.
  Variable skip : data -> bool.

  Inductive wev := WReq (t : Z) | WDone (d : data).
  Inductive wobs :=
  | WIssue (t : Z)               (* the request is taken: transfer started *)
  | WDropped (t : Z)             (* the slot is occupied: the request is silently ignored *)
  | WCall (t : Z) (d : data).    (* the caller's callback, with what was decoded from d *)

  Definition wstep (slot : option Z) (e : wev) : option Z * list wobs :=
    match e with
    | WReq t => match slot with Some _ => (slot, [WDropped t]) | None => (Some t, [WIssue t]) end
    | WDone d => match slot with
                 | Some t => if skip d then (slot, []) else (None, [WCall t d])
                 | None => (None, [])
                 end
    end.

  Fixpoint wrun (slot : option Z) (evs : list wev) : option Z * list wobs :=
    match evs with
    | [] => (slot, [])
    | e :: t => let '(s1, o1) := wstep slot e in let '(s2, o2) := wrun s1 t in (s2, o1 ++ o2)
    end.

  (* issued requests and callbacks alternate, each callback answers the request issued last *)
  Fixpoint bracket (pending : option Z) (tr : list wobs) : option (option Z) :=
    match tr with
    | [] => Some pending
    | WIssue t :: r => match pending with None => bracket (Some t) r | Some _ => None end
    | WCall t _ :: r => match pending with Some u => if u =? t then bracket None r else None | None => None end
    | WDropped _ :: r => match pending with Some _ => bracket pending r | None => None end
    end.
End Slot.

Arguments WReq {data}. Arguments WDone {data}. Arguments WIssue {data}. Arguments WDropped {data}. Arguments WCall {data}.

(* ---- the contract *)
Lemma wrun_bracket data (evs : list (wev data)) : forall slot,
  bracket data slot (snd (wrun data (fun _ => false) slot evs)) = Some (fst (wrun data (fun _ => false) slot evs)).
Proof.
  induction evs as [|e t IH]; intros slot; cbn [wrun]; [reflexivity|].
  destruct e as [r|d]; cbn [wstep].
  - destruct slot as [u|].
    + specialize (IH (Some u)). destruct (wrun data _ (Some u) t) as [s2 o2]. cbn [fst snd app bracket] in *. exact IH.
    + specialize (IH (Some r)). destruct (wrun data _ (Some r) t) as [s2 o2]. cbn [fst snd app bracket] in *. exact IH.
  - destruct slot as [u|].
    + specialize (IH None). destruct (wrun data _ None t) as [s2 o2]. cbn [fst snd app bracket] in *.
      rewrite Z.eqb_refl. exact IH.
    + specialize (IH None). destruct (wrun data _ None t) as [s2 o2]. cbn [fst snd app bracket] in *. exact IH.
Qed.

(* every history: callbacks and taken requests alternate (exactly one callback per taken request, none without) *)
Theorem wrapper_contract data (evs : list (wev data)) :
  exists p, bracket data None (snd (wrun data (fun _ => false) None evs)) = Some p.
Proof. eexists. apply wrun_bracket. Qed.

(* whatever the data, the completion calls the callback once and frees the slot: the next request is taken *)
Theorem wrapper_completion_whatever_the_data data (t t' : Z) (d : data) :
  wrun data (fun _ => false) (Some t) [WDone d; WReq t'] = (Some t', [WCall t d; WIssue t']).
Proof. reflexivity. Qed.

(* a completion skipped on some data: the request is never answered and every later request is dropped *)
Theorem wrapper_skip_refuted data (skip : data -> bool) (d0 : data) (later : list Z) :
  skip d0 = true ->
  wrun data skip None (WReq 0 :: WDone d0 :: map WReq later) = (Some 0, WIssue 0 :: map WDropped later).
Proof.
  intros H. cbn [wrun wstep]. rewrite H.
  assert (G : wrun data skip (Some 0) (map WReq later) = (Some 0, map WDropped later)).
  { induction later as [|x l IH]; cbn [map wrun wstep]; [reflexivity|]. rewrite IH. reflexivity. }
  rewrite G. reflexivity.
Qed.

(* ================================================================ MemoryTester.new_data *)
(* state: is _update_finished_cb set; readValidationSucess.  Result: new state and the value of
   readValidationSucess seen by each callback invocation. *)
Inductive tvariant := TFixed | TInLoop | TBreak.

Fixpoint tester_loop (v : tvariant) (start : Z) (data : list Z) (cb valid : bool) (calls : list bool)
  : bool * bool * list bool :=
  match data with
  | [] => (cb, valid, calls)
  | b :: rest =>
      let ok := b =? start mod 256 in
      let valid' := valid && ok in
      match v with
      | TFixed => tester_loop v (start + 1) rest cb valid' calls
      | TInLoop => if cb then tester_loop v (start + 1) rest false valid' (calls ++ [valid'])
                   else tester_loop v (start + 1) rest cb valid' calls
      | TBreak => if ok then (if cb then tester_loop v (start + 1) rest false valid' (calls ++ [valid'])
                             else tester_loop v (start + 1) rest cb valid' calls)
                  else (cb, valid', calls)                         (* break: the callback below is not reached *)
      end
  end.

Definition tester_new_data (v : tvariant) (start : Z) (data : list Z) (cb valid : bool) : bool * bool * list bool :=
  let '(cb', valid', calls) := tester_loop v start data cb valid [] in
  match v with
  | TFixed => if cb' then (false, valid', calls ++ [valid']) else (cb', valid', calls)
  | _ => (cb', valid', calls)
  end.

Fixpoint all_match (start : Z) (data : list Z) : bool :=
  match data with [] => true | b :: r => (b =? start mod 256) && all_match (start + 1) r end.

Lemma tester_loop_fixed data : forall start cb valid calls,
  tester_loop TFixed start data cb valid calls = (cb, valid && all_match start data, calls).
Proof.
  induction data as [|b r IH]; intros start cb valid calls; cbn [tester_loop all_match].
  - now rewrite andb_true_r.
  - rewrite IH. now rewrite andb_assoc.
Qed.

(* repaired: for every data (the empty one too) a pending read is answered by exactly one callback, which sees the
   verdict on ALL the bytes, and the slot is free afterwards *)
Theorem tester_fixed_contract start data valid :
  tester_new_data TFixed start data true valid = (false, valid && all_match start data, [valid && all_match start data]).
Proof. unfold tester_new_data. rewrite tester_loop_fixed. reflexivity. Qed.

Theorem tester_fixed_idle start data valid :
  tester_new_data TFixed start data false valid = (false, valid && all_match start data, []).
Proof. unfold tester_new_data. rewrite tester_loop_fixed. reflexivity. Qed.

(* before the repair: a zero-length read is never answered; the callback sees the verdict on the first byte only *)
Theorem tester_in_loop_refuted :
  tester_new_data TInLoop 7 [] true true = (true, true, []) /\
  tester_new_data TInLoop 7 [7; 8; 0] true true = (false, false, [true]).
Proof. split; reflexivity. Qed.

(* with a break at the first mismatch: a read whose first byte is wrong is never answered and the slot stays taken *)
Theorem tester_break_refuted :
  tester_new_data TBreak 7 [0; 8; 9] true true = (true, false, []) /\
  tester_new_data TBreak 7 [7; 8; 0] true true = (false, false, [true]).
Proof. split; reflexivity. Qed.
