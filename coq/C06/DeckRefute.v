(* C06/DeckRefute.v — the original deck layer (fxd = false) reports a wrong address in the write callbacks
   (finding F06d), with the witness; and a concrete non-trivial history for the repaired one: a read on deck A
   and a write to deck B outstanding at the same time, replies interleaved, both callbacks report the
   deck-relative addresses that were asked and the read hands over the server's bytes. *)
From CF Require Import Common.Bytes C06.Model C06.DeckModel.
Open Scope Z_scope.

Definition deckA : Z := 268435456.   (* 0x10000000 *)
Definition deckB : Z := 536870912.   (* 0x20000000 *)

(* DeckMemory(B).write(8, [1;2;3]) and its acknowledgement *)
Definition f06d_history : list devent :=
  [DWrite deckB 8 [1; 2; 3] 0; DEv (EPkt ChWrite (6 :: le_bytes 4 (deckB + 8) ++ [0]))].

Lemma original_deck_write_misattributed :
  Forall (wf_devent 6) f06d_history /\
  In (inr (DWriteOk 0 8 deckB (deckB + 8))) (snd (drun false 6 (dm_init, c_init) f06d_history)) /\
  In (inr (DWriteOk 0 8 deckB 8)) (snd (drun true 6 (dm_init, c_init) f06d_history)).
Proof.
  split.
  - repeat constructor; cbn; try lia; unfold byte; try lia.
  - split; vm_compute; tauto.
Qed.

(* after a read on deck A, the original reports B + 8 - A for a write to deck B at 8 *)
Definition f06d_history2 : list devent :=
  [DRead deckA 64 5 0; DEv (EPkt ChRead (6 :: le_bytes 4 (deckA + 64) ++ [0; 1; 2; 3; 4; 5]));
   DWrite deckB 8 [1; 2; 3] 1; DEv (EPkt ChWrite (6 :: le_bytes 4 (deckB + 8) ++ [0]))].

Lemma original_deck_write_misattributed_after_read :
  In (inr (DWriteOk 1 8 deckB (deckB + 8 - deckA))) (snd (drun false 6 (dm_init, c_init) f06d_history2)) /\
  In (inr (DWriteOk 1 8 deckB 8)) (snd (drun true 6 (dm_init, c_init) f06d_history2)).
Proof. split; vm_compute; tauto. Qed.

(* closed loop, repaired code: read of 30 bytes at 0x40 of deck A delayed, 60 bytes written to 8 of deck B in
   between, then the read replies (one of them twice) *)
Definition dk_mem : memory := fun _ a => (a * 7 + a / 256) mod 256.
Definition dk_data : list Z := map (fun k => Z.of_nat k * 3 mod 256) (seq 0 60).
Definition dk_history : list dsevent :=
  [DSOp (DRead deckA 64 30 0); DSOp (DWrite deckB 8 dk_data 1);
   DSDeliver 1; DSDeliver 2; DSDeliver 3; DSDeliver 0; DSDeliver 0; DSDeliver 4].

Fixpoint dsys_run (plan : nat -> Z) (ds : dm * sys) (evs : list dsevent) : (dm * sys) * list (obs + dobs) :=
  match evs with
  | [] => (ds, [])
  | e :: t => let '(ds1, tr, _) := dsys_step true 6 plan ds e in
              let '(ds2, tr2) := dsys_run plan ds1 t in (ds2, tr ++ tr2)
  end.

Example deck_concurrent_instance :
  let r := dsys_run (fun _ => 0) (dm_init, sys_init dk_mem) dk_history in
  In (inr (DWriteOk 1 8 deckB 8)) (snd r) /\
  In (inr (DReadOk 0 64 deckA 64 (mread dk_mem 6 (deckA + 64) 30))) (snd r) /\
  mread (s_mem (snd (fst r))) 6 (deckB + 8) 60 = dk_data /\
  d_r (fst (fst r)) = None /\ d_w (fst (fst r)) = None.
Proof. vm_compute. repeat split; tauto. Qed.
