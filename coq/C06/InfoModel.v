(* C06/InfoModel.v — memory enumeration and refresh on top of the read / write model
   (cflib/crazyflie/mem/__init__.py: Memory.refresh, _handle_cmd_info_nbr, _handle_cmd_info_details,
   _mem_update_done, _disconnected; cflib/crazyflie/mem/ow_element.py: OWElement.update, new_data,
   _parse_and_check_header, _parse_and_check_elements).

   refresh() asks for the number of memories (info channel, CMD_INFO_NBR), then for the details of memory 0, 1, ...
   (CMD_INFO_DETAILS), builds one element per memory, and when the last details have arrived starts OWElement.update
   on every 1-wire element: read 11 bytes at 0 (header, CRC over 7 bytes), then len+3 bytes at 8 (elements, CRC);
   when no 1-wire element is left to update the refresh callback is called.  The 1-wire reads are ordinary
   Memory.read requests: [step true] of C06/Model.v.

   The code as it is now is [istep true false false].  Flags:
   * [f2i] = true: refresh() fails the reads that are still registered (commit ae515bf, finding F02i);
     false = before that commit (kept for the refutation).
   * [f6e], [f6g]: variants that are NOT in the code (false = the code): with f6e refresh() would also forget
     _ow_mems_left_to_update, with f6g CMD_INFO_DETAILS replies would be accepted only while enumerating and only for
     the memory asked for.  They only matter when refresh() is called again while a refresh is in progress, which the
     library never does (observations in C06/InfoRefute.v).
   Definitions only. *)
From CF Require Export Common.Bytes C06.Model.
Open Scope Z_scope.

(* ---- binascii.crc32, bit by bit *)
Fixpoint crc_bits (n : nat) (c : Z) : Z :=
  match n with
  | O => c
  | S k => crc_bits k (if Z.odd c then Z.lxor (Z.shiftr c 1) 3988292384 else Z.shiftr c 1)
  end.
Definition crc_byte (c b : Z) : Z := crc_bits 8 (Z.lxor c b).
Definition crc32 (l : list Z) : Z := Z.lxor (fold_left crc_byte l 4294967295) 4294967295.
Definition crc8 (l : list Z) : Z := Z.land (crc32 l) 255.

(* ---- elements *)
Record ow := mkOW {
  ow_upd : bool;                        (* _update_finished_cb set *)
  ow_valid : bool;
  ow_hdr : option (Z * Z * Z);          (* pins, vid, pid (None until a header was parsed) *)
  ow_elems : list (Z * list Z) }.       (* elements: element id -> bytes, in dict order *)

Record mel := mkM { m_id : Z; m_type : Z; m_size : Z; m_addr : list Z; m_ow : option ow }.

Record info := mkI {
  i_mems : list mel;                    (* mems, in order *)
  i_cb : bool;                          (* _refresh_callback set *)
  i_fcb : bool;                         (* _refresh_failed_callback set *)
  i_fetch : Z;                          (* _fetch_id *)
  i_nbr : Z;                            (* nbr_of_mems *)
  i_left : list Z;                      (* _ow_mems_left_to_update *)
  i_getting : bool }.                   (* _getting_count *)

Definition info_init : info := mkI [] false false 0 0 [] false.

Inductive iobs :=
| IO (o : obs)                          (* observation of the read / write layer *)
| ISend (data : list Z)                 (* request on the info channel *)
| IDone                                 (* refresh_done_callback() *)
| IFailed                               (* refresh_failed_cb() *)
| IAdded (id type size : Z) (owaddr : option (list Z))   (* mem_added_cb(mem) *)
| IRaise.

Inductive ievent :=
| IRefresh (with_failed_cb : bool)      (* Memory.refresh(done_cb, failed_cb or None) *)
| IInfo (data : list Z)                 (* packet on the info channel *)
| IEv (e : event).                      (* anything of the read / write layer, incl. disconnect *)

Definition TYPE_1W : Z := 1.

(* dict assignment: replace the value of an existing key in place, else append *)
Fixpoint elems_set (k : Z) (v : list Z) (l : list (Z * list Z)) : list (Z * list Z) :=
  match l with
  | [] => [(k, v)]
  | (k', v') :: t => if k' =? k then (k, v) :: t else (k', v') :: elems_set k v t
  end.

(* the while loop of _parse_and_check_elements; None = an exception (element id not in element_mapping,
   one byte left over) *)
Fixpoint parse_elems (fuel : nat) (d : list Z) (acc : list (Z * list Z)) : option (list (Z * list Z)) :=
  match fuel with
  | O => None
  | S k =>
      match d with
      | [] => Some acc
      | [_] => None
      | eid :: elen :: rest =>
          if (1 <=? eid) && (eid <=? 3)
          then parse_elems k (skipn (Z.to_nat elen) rest) (elems_set eid (firstn (Z.to_nat elen) rest) acc)
          else None
      end
  end.

(* what the dictionary holds when the loop of _parse_and_check_elements raises: it was emptied before the loop and
   filled with the elements parsed so far *)
Fixpoint parse_prefix (fuel : nat) (d : list Z) (acc : list (Z * list Z)) : list (Z * list Z) :=
  match fuel with
  | O => acc
  | S k =>
      match d with
      | [] => acc
      | [_] => acc
      | eid :: elen :: rest =>
          if (1 <=? eid) && (eid <=? 3)
          then parse_prefix k (skipn (Z.to_nat elen) rest) (elems_set eid (firstn (Z.to_nat elen) rest) acc)
          else acc
      end
  end.

Definition remove_first (x : Z) (l : list Z) : list Z :=
  (fix go l := match l with [] => [] | y :: t => if y =? x then t else y :: go t end) l.

Definition clear_cbs (s : info) : info := mkI (i_mems s) false false (i_fetch s) (i_nbr s) (i_left s) (i_getting s).

(* "if self._refresh_callback: self._refresh_callback(); self._clear_refresh_callbacks()" *)
Definition call_done (s : info) : info * list iobs := if i_cb s then (clear_cbs s, [IDone]) else (s, []).

(* _mem_update_done(mem) *)
Definition update_done (s : info) (id : Z) : info * list iobs :=
  let s1 := mkI (i_mems s) (i_cb s) (i_fcb s) (i_fetch s) (i_nbr s) (remove_first id (i_left s)) (i_getting s) in
  match i_left s1 with [] => call_done s1 | _ :: _ => (s1, []) end.

Fixpoint get_mem (id : Z) (l : list mel) : option mel :=
  match l with [] => None | m :: t => if m_id m =? id then Some m else get_mem id t end.

Fixpoint set_ow (id : Z) (o : ow) (l : list mel) : list mel :=     (* the first element with that id *)
  match l with
  | [] => []
  | m :: t => if m_id m =? id then mkM (m_id m) (m_type m) (m_size m) (m_addr m) (Some o) :: t else m :: set_ow id o t
  end.

Definition set_mems (s : info) (l : list mel) : info :=
  mkI l (i_cb s) (i_fcb s) (i_fetch s) (i_nbr s) (i_left s) (i_getting s).

Definition lift (os : list obs) : list iobs := map IO os.

(* OWElement.new_data(mem, addr, data) of the 1-wire element with this id, after a completed read of that id *)
Definition ow_new_data (sc : info * client) (id : Z) (o : ow) (addr : Z) (data : list Z)
  : (info * client) * list iobs :=
  let '(s, c) := sc in
  let finish (o' : ow) :=                 (* "if self._update_finished_cb: cb(self); cb = None" *)
    let o2 := mkOW false (ow_valid o') (ow_hdr o') (ow_elems o') in
    let s1 := set_mems s (set_ow id o2 (i_mems s)) in
    if ow_upd o' then let '(s2, os) := update_done s1 id in ((s2, c), os) else ((s1, c), []) in
  if addr =? 0 then
    if (length data <? 8)%nat then (sc, [IRaise]) else      (* struct.unpack('<BIBBB', data[0:8]) *)
    let h := firstn 8 data in
    let o1 := mkOW (ow_upd o) (ow_valid o)
                   (Some (le_val (firstn 4 (skipn 1 h)), nth 5 h 0, nth 6 h 0)) (ow_elems o) in
    if (nth 0 h 0 =? 235) && (nth 7 h 0 =? crc8 (firstn 7 h)) then
      let s1 := set_mems s (set_ow id o1 (i_mems s)) in
      if (length data <? 10)%nat then ((s1, c), [IRaise])   (* struct.unpack('BB', data[8:10]) *)
      else let '(c', os) := step true c (ERead id 8 (nth 9 data 0 + 3)) in ((s1, c'), lift os)
    else finish o1
  else if addr =? 8 then
    match rev data with
    | [] => (sc, [IRaise])                                  (* data[-1] *)
    | crc :: _ =>
        if crc8 (removelast data) =? crc then
          match parse_elems (S (length data)) (removelast (skipn 2 data)) [] with
          | Some el => finish (mkOW (ow_upd o) true (ow_hdr o) el)
          | None =>                                         (* KeyError / struct.error: nothing finished; the dictionary
                                                               was emptied and holds the elements parsed so far *)
              let el := parse_prefix (S (length data)) (removelast (skipn 2 data)) [] in
              ((set_mems s (set_ow id (mkOW (ow_upd o) (ow_valid o) (ow_hdr o) el) (i_mems s)), c), [IRaise])
          end
        else finish o
    end
  else (sc, []).

(* the listeners of the 1-wire elements on one observation of the read layer *)
Definition ow_dispatch (sc : info * client) (x : obs) : (info * client) * list iobs :=
  match x with
  | OReadOk _ i a d =>
      match get_mem i (i_mems (fst sc)) with
      | Some m => match m_ow m with Some o => ow_new_data sc i o a d | None => (sc, []) end
      | None => (sc, [])
      end
  | _ => (sc, [])
  end.

Fixpoint ow_dispatch_all (sc : info * client) (os : list obs) : (info * client) * list iobs :=
  match os with
  | [] => (sc, [])
  | x :: t => let '(sc1, o1) := ow_dispatch sc x in
              let '(sc2, o2) := ow_dispatch_all sc1 t in (sc2, IO x :: o1 ++ o2)
  end.

(* ow_mem.update(self._mem_update_done) for every 1-wire element, in order *)
Fixpoint start_updates (l : list mel) (sc : info * client) : (info * client) * list iobs :=
  match l with
  | [] => (sc, [])
  | m :: t =>
      match m_ow m with
      | Some o =>
          if ow_upd o then start_updates t sc else
          let '(s, c) := sc in
          let s1 := set_mems s (set_ow (m_id m) (mkOW true false (ow_hdr o) (ow_elems o)) (i_mems s)) in
          let '(c', os) := step true c (ERead (m_id m) 0 11) in
          let '(sc2, o2) := start_updates t (s1, c') in (sc2, lift os ++ o2)
      | None => start_updates t sc
      end
  end.

Definition has_ow (l : list mel) : bool := existsb (fun m => match m_ow m with Some _ => true | None => false end) l.

Section Flags.
  Variable f2i f6e f6g : bool.

Definition info_packet (sc : info * client) (data : list Z) : (info * client) * list iobs :=
    let '(s, c) := sc in
    match data with
    | [] => (sc, [IRaise])                                    (* packet.data[0] *)
    | cmd :: payload =>
        if cmd =? 1 then                                      (* CMD_INFO_NBR *)
          match payload with
          | [] => (sc, [IRaise])
          | n :: _ =>
              let s1 := mkI (i_mems s) (i_cb s) (i_fcb s) (i_fetch s) n (i_left s) (i_getting s) in
              if 0 <? n then
                if i_getting s then ((s1, c), [])
                else ((mkI (i_mems s) (i_cb s) (i_fcb s) (i_fetch s) n (i_left s) true, c), [ISend [2; 0]])
              else let '(s2, os) := call_done s1 in ((s2, c), os)
          end
        else if cmd =? 2 then                                 (* CMD_INFO_DETAILS *)
          if f6g && negb (i_getting s) then (sc, [])           (* F06g: details are only accepted while enumerating *)
          else if (length payload <? 5)%nat then
            let s1 := mkI (i_mems s) (i_cb s) (i_fcb s) (i_fetch s) 1 (i_left s) (i_getting s) in
            let '(s2, os) := call_done s1 in ((s2, c), os)
          else if f6g && negb (nth 0 payload 0 =? i_fetch s) then (sc, [])   (* F06g: not the memory asked for *)
          else if (length payload <? 14)%nat then (sc, [IRaise])    (* struct.unpack of size / address *)
          else
            let id := nth 0 payload 0 in
            let ty := nth 1 payload 0 in
            let size := le_val (firstn 4 (skipn 2 payload)) in
            let addr := firstn 8 (skipn 6 payload) in
            let '(s1, o1) :=
              match get_mem id (i_mems s) with
              | Some _ => (s, [])
              | None =>
                  let isow := ty =? TYPE_1W in
                  let m := mkM id ty size addr (if isow then Some (mkOW false false None []) else None) in
                  (mkI (i_mems s ++ [m]) (i_cb s) (i_fcb s) (id + 1) (i_nbr s)
                       (if isow then i_left s ++ [id] else i_left s) (i_getting s),
                   [IAdded id ty size (if isow then Some addr else None)])
              end in
            if i_fetch s1 <=? i_nbr s1 - 1 then ((s1, c), o1 ++ [ISend [2; i_fetch s1]])
            else if has_ow (i_mems s1) then
                   let '(sc2, o2) := start_updates (i_mems s1) (s1, c) in (sc2, o1 ++ o2)
                 else let '(s2, o2) := call_done s1 in ((s2, c), o1 ++ o2)
        else (sc, [])
    end.

  Definition do_refresh (sc : info * client) (fcb : bool) : (info * client) * list iobs :=
    let '(s, c) := sc in
    let fails := if f2i then lift (map fail_read (c_reads c)) else [] in
    let c' := if f2i then mkC [] (c_writes c) (c_leaked c) (c_next c) else c in
    ((mkI [] true fcb 0 0 (if f6e then [] else i_left s) false, c'), fails ++ [ISend [1]]).

  Definition istep (sc : info * client) (e : ievent) : (info * client) * list iobs :=
    match e with
    | IRefresh fcb => do_refresh sc fcb
    | IInfo data => if bytesb data then info_packet sc data else (sc, [IO OOutOfDomain])
    | IEv EDisc =>
        let '(c', os) := step true (snd sc) EDisc in
        ((info_init, c'), lift os ++ (if i_fcb (fst sc) then [IFailed] else []))
    | IEv e =>
        let '(c', os) := step true (snd sc) e in
        ow_dispatch_all (fst sc, c') os
    end.

  Fixpoint irun (sc : info * client) (evs : list ievent) : (info * client) * list iobs :=
    match evs with
    | [] => (sc, [])
    | e :: t => let '(sc1, o1) := istep sc e in
                let '(sc2, o2) := irun sc1 t in (sc2, o1 ++ o2)
    end.
End Flags.

(* ================================================================ closed loop with a device (test plumbing and
   the setting of the enumeration theorems): the device has memories 0 .. n-1 described by (type, size, 8 address
   bytes), answers CMD_INFO_NBR with n, CMD_INFO_DETAILS id with the description (or with just the id when there
   is no such memory), and serves reads / writes like [serve] of C06/Model.v *)
Definition devmem := (Z * Z * list Z)%type.
Definition ireply := (Z * Z * list Z)%type.       (* ghost uid, channel 0/1/2/3, bytes *)

Record isys := mkIS {
  is_st : info; is_cl : client; is_mem : memory; is_dev : list devmem; is_log : list ireply; is_n : nat }.

Definition chan_code (ch : mchan) : Z := match ch with ChRead => 1 | ChWrite => 2 | ChOther => 3 end.

Definition serve_info (dev : list devmem) (d : list Z) : list ireply :=
  match d with
  | [1] => [(-1, 0, [1; zlen dev])]
  | [2; id] =>
      match nth_error dev (Z.to_nat id) with
      | Some (ty, size, addr) => [(-1, 0, [2; id; ty] ++ le_bytes 4 size ++ addr)]
      | None => [(-1, 0, [2; id])]
      end
  | _ => []
  end.

Fixpoint iserve_all (plan : nat -> Z) (dev : list devmem) (m : memory) (lg : list ireply) (n : nat) (os : list iobs)
  : memory * list ireply * nat :=
  match os with
  | [] => (m, lg, n)
  | IO o :: t =>
      if is_send o
      then let '(m', rs) := serve (plan n) m o in
           iserve_all plan dev m' (lg ++ map (fun r => let '(u, ch, b) := r in (u, chan_code ch, b)) rs) (S n) t
      else iserve_all plan dev m lg n t
  | ISend d :: t => iserve_all plan dev m (lg ++ serve_info dev d) (S n) t
  | _ :: t => iserve_all plan dev m lg n t
  end.

Inductive isevent := ISOp (e : ievent) | ISDeliver (k : nat).

Definition ifresh (s : isys) (e : isevent) : bool :=
  match e with
  | ISOp (IEv (EPkt _ _)) | ISOp (IInfo _) => false
  | ISOp _ => true
  | ISDeliver k =>
      match nth_error (is_log s) k with
      | Some (u, ch, _) => if ch =? 1 then active_read (is_cl s) u
                           else if ch =? 2 then active_write (is_cl s) u else true
      | None => true
      end
  end.

Section FlagsSys.
  Variable f2i f6e f6g : bool.

  Definition isys_step (plan : nat -> Z) (s : isys) (e : isevent) : isys * list iobs :=
    let ie := match e with
              | ISOp e => Some e
              | ISDeliver k =>
                  match nth_error (is_log s) k with
                  | Some (_, ch, b) => Some (if ch =? 0 then IInfo b
                                             else IEv (EPkt (if ch =? 1 then ChRead else if ch =? 2 then ChWrite else ChOther) b))
                  | None => None
                  end
              end in
    match ie with
    | None => (s, [])
    | Some ie =>
        let '((st', c'), os) := istep f2i f6e f6g (is_st s, is_cl s) ie in
        let '(m', lg', n') := iserve_all plan (is_dev s) (is_mem s) (is_log s) (is_n s) os in
        (mkIS st' c' m' (is_dev s) lg' n', os)
    end.

  Fixpoint isys_run (plan : nat -> Z) (s : isys) (evs : list isevent) : isys * list iobs :=
    match evs with
    | [] => (s, [])
    | e :: t => let '(s1, o1) := isys_step plan s e in
                let '(s2, o2) := isys_run plan s1 t in (s2, o1 ++ o2)
    end.

  Definition enc_iobs (o : iobs) : list Z :=
    match o with
    | IO o => enc_obs o
    | ISend d => [1; 0; zlen d] ++ d
    | IDone => [20]
    | IFailed => [21]
    | IAdded id ty size None => [22; id; ty; size; 0]
    | IAdded id ty size (Some a) => [22; id; ty; size; 1] ++ a
    | IRaise => [7]
    end.

  Fixpoint isys_trace (plan : nat -> Z) (s : isys) (evs : list isevent) : isys * list Z :=
    match evs with
    | [] => (s, [])
    | e :: t => let '(s1, o1) := isys_step plan s e in
                let '(s2, z2) := isys_trace plan s1 t in
                (s2, [9; if ifresh s e then 1 else 0; if c_leaked (is_cl s1) then 1 else 0]
                     ++ concat (map enc_iobs o1) ++ z2)
    end.

  Definition enc_mel (m : mel) : list Z :=
    [m_id m; m_type m; m_size m] ++
    match m_ow m with
    | None => [0]
    | Some o => [1; if ow_valid o then 1 else 0; if ow_upd o then 1 else 0]
                ++ (match ow_hdr o with Some (p, v, q) => [p; v; q] | None => [-1; -1; -1] end)
                ++ [zlen (ow_elems o)] ++ concat (map (fun kv => [fst kv; zlen (snd kv)] ++ snd kv) (ow_elems o))
    end.

  Definition enc_info (s : info) : list Z :=
    [zlen (i_mems s)] ++ concat (map enc_mel (i_mems s))
    ++ [i_fetch s; i_nbr s; if i_getting s then 1 else 0; if i_cb s then 1 else 0; if i_fcb s then 1 else 0;
        zlen (i_left s)] ++ i_left s.

  (* image of the device memories before the run: test_mem overlaid with the given (id, address, bytes) blocks *)
  Definition overlay (blocks : list (Z * Z * list Z)) : memory :=
    fold_left (fun m b => let '(i, a, d) := b in mwrite m i a d) blocks test_mem.

  Definition irun_case (plan : list Z) (dev : list devmem) (blocks : list (Z * Z * list Z)) (evs : list isevent) : list Z :=
    let '(s, z) := isys_trace (plan_of plan) (mkIS info_init c_init (overlay blocks) dev [] O) evs in
    z ++ [10] ++ enc_client (is_cl s) ++ [11; Z.of_nat (is_n s); zlen (is_log s)] ++ [12] ++ enc_info (is_st s).
End FlagsSys.
