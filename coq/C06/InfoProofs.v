(* C06/InfoProofs.v — safety of refresh(): every refresh() is answered by at most one notification
   (refresh_done_callback or refresh_failed_cb), for every history (flags true true true = the tree with
   ae515bf, F06e, F06g). *)
From CF Require Import Common.Bytes C06.Model C06.InfoModel C06.Proofs.
From Coq Require Import ZifyBool.
Open Scope Z_scope.

(* the notifications of a trace are well placed: a notification only while a refresh() waits for one,
   and it ends the waiting *)
Fixpoint notif_ok (armed : bool) (tr : list iobs) : bool :=
  match tr with
  | [] => true
  | ISend [1] :: t => notif_ok true t
  | IDone :: t | IFailed :: t => armed && notif_ok false t
  | _ :: t => notif_ok armed t
  end.

(* ---------------------------------------------------------------- the automaton as a function *)
Inductive kind := KArm | KNotif | KQuiet.

Definition kind_of (o : iobs) : kind :=
  match o with
  | ISend d => if zlist_eqb d [1] then KArm else KQuiet
  | IDone | IFailed => KNotif
  | _ => KQuiet
  end.

Fixpoint arm (b : bool) (tr : list iobs) : option bool :=
  match tr with
  | [] => Some b
  | o :: t => match kind_of o with
              | KArm => arm true t
              | KNotif => if b then arm false t else None
              | KQuiet => arm b t
              end
  end.

Lemma arm_app t1 : forall b t2,
  arm b (t1 ++ t2) = match arm b t1 with Some b' => arm b' t2 | None => None end.
Proof.
  induction t1 as [|o t1 IH]; intros b t2; [reflexivity|].
  cbn [app arm]. destruct (kind_of o).
  - apply IH.
  - destruct b; [apply IH | reflexivity].
  - apply IH.
Qed.

Lemma notif_ok_cons b o t :
  notif_ok b (o :: t) = match kind_of o with
                        | KArm => notif_ok true t
                        | KNotif => b && notif_ok false t
                        | KQuiet => notif_ok b t
                        end.
Proof.
  destruct o as [x|data| | |i ty sz a|]; try reflexivity.
  destruct data as [|z [|z' d']]; [reflexivity| |].
  - destruct z as [|[p|p|]|p]; reflexivity.
  - destruct z as [|[p|p|]|p]; reflexivity.
Qed.

Lemma arm_notif_ok tr : forall b b', arm b tr = Some b' -> notif_ok b tr = true.
Proof.
  induction tr as [|o t IH]; intros b b' H; [reflexivity|].
  rewrite notif_ok_cons. cbn [arm] in H. destruct (kind_of o).
  - eapply IH; exact H.
  - destruct b; [|discriminate H]. cbn [andb]. eapply IH; exact H.
  - eapply IH; exact H.
Qed.

(* ---------------------------------------------------------------- quiet observations *)
Definition quiet (os : list iobs) : Prop := Forall (fun o => kind_of o = KQuiet) os.

Lemma arm_quiet os : forall b, quiet os -> arm b os = Some b.
Proof.
  induction os as [|o t IH]; intros b H; [reflexivity|].
  inversion H as [|o' t' Ho Ht]; subst. cbn [arm]. rewrite Ho. apply IH; exact Ht.
Qed.

Lemma quiet_lift os : quiet (lift os).
Proof. unfold quiet, lift. induction os as [|o t IH]; cbn [map]; constructor; [reflexivity | exact IH]. Qed.

Lemma quiet_app a b : quiet a -> quiet b -> quiet (a ++ b).
Proof. unfold quiet. intros Ha Hb. apply Forall_app. split; assumption. Qed.

Lemma quiet_nil : quiet [].
Proof. constructor. Qed.

Lemma quiet_cons o t : kind_of o = KQuiet -> quiet t -> quiet (o :: t).
Proof. intros Ho Ht. constructor; assumption. Qed.

(* ---------------------------------------------------------------- the invariant *)
(* a refresh callback is registered only while the automaton waits for a notification *)
Definition Inv (s : info) (b : bool) : Prop := i_cb s = true \/ i_fcb s = true -> b = true.

(* the trace segment [os], read from automaton state [b], is accepted and the invariant holds after it *)
Definition good (b : bool) (os : list iobs) (s' : info) : Prop :=
  exists b', arm b os = Some b' /\ Inv s' b'.

Lemma good_quiet s s' b os :
  Inv s b -> i_cb s' = i_cb s -> i_fcb s' = i_fcb s -> quiet os -> good b os s'.
Proof.
  intros HI Hc Hf Hq. exists b. split; [apply arm_quiet; exact Hq|].
  unfold Inv in *. rewrite Hc, Hf. exact HI.
Qed.

Lemma good_app b os1 os2 s1 s2 :
  good b os1 s1 -> (forall b1, Inv s1 b1 -> good b1 os2 s2) -> good b (os1 ++ os2) s2.
Proof.
  intros [b1 [H1 HI1]] H2. destruct (H2 b1 HI1) as [b2 [H3 HI2]].
  exists b2. split; [|exact HI2]. rewrite arm_app, H1. exact H3.
Qed.

Lemma good_quiet_app s b os1 os2 s2 :
  Inv s b -> quiet os1 -> (forall b1, Inv s b1 -> good b1 os2 s2) -> good b (os1 ++ os2) s2.
Proof.
  intros HI Hq H2. apply good_app with (s1 := s); [|exact H2].
  apply good_quiet with (s := s); auto.
Qed.

Lemma inv_same s s' b : Inv s b -> i_cb s' = i_cb s -> i_fcb s' = i_fcb s -> Inv s' b.
Proof. unfold Inv. intros H Hc Hf. rewrite Hc, Hf. exact H. Qed.

(* ---------------------------------------------------------------- call_done, update_done *)
Lemma call_done_good s b s' os : Inv s b -> call_done s = (s', os) -> good b os s'.
Proof.
  intros HI H. unfold call_done in H. destruct (i_cb s) eqn:Hcb.
  - injection H as <- <-. assert (Hb : b = true) by (apply HI; left; exact Hcb). subst b.
    exists false. split; [reflexivity|]. unfold Inv, clear_cbs. cbn [i_cb i_fcb]. intros [H|H]; discriminate H.
  - injection H as <- <-. exists b. split; [reflexivity | exact HI].
Qed.

Lemma update_done_good s id b s' os : Inv s b -> update_done s id = (s', os) -> good b os s'.
Proof.
  intros HI H. unfold update_done in H.
  set (s1 := mkI (i_mems s) (i_cb s) (i_fcb s) (i_fetch s) (i_nbr s) (remove_first id (i_left s)) (i_getting s)) in H.
  assert (HI1 : Inv s1 b) by (apply inv_same with (s := s); [exact HI | reflexivity | reflexivity]).
  destruct (i_left s1) as [|x l].
  - eapply call_done_good; [exact HI1 | exact H].
  - injection H as <- <-. exists b. split; [reflexivity | exact HI1].
Qed.

(* ---------------------------------------------------------------- ow_new_data *)
Definition fin (s : info) (c : client) (id : Z) (o' : ow) : (info * client) * list iobs :=
  let o2 := mkOW false (ow_valid o') (ow_hdr o') (ow_elems o') in
  let s1 := set_mems s (set_ow id o2 (i_mems s)) in
  if ow_upd o' then let '(s2, os) := update_done s1 id in ((s2, c), os) else ((s1, c), []).

Lemma ow_new_data_eq s c id o addr data :
  ow_new_data (s, c) id o addr data =
  if addr =? 0 then
    if (length data <? 8)%nat then ((s, c), [IRaise]) else
    let h := firstn 8 data in
    let o1 := mkOW (ow_upd o) (ow_valid o)
                   (Some (le_val (firstn 4 (skipn 1 h)), nth 5 h 0, nth 6 h 0)) (ow_elems o) in
    if (nth 0 h 0 =? 235) && (nth 7 h 0 =? crc8 (firstn 7 h)) then
      let s1 := set_mems s (set_ow id o1 (i_mems s)) in
      if (length data <? 10)%nat then ((s1, c), [IRaise])
      else let '(c', os) := step true c (ERead id 8 (nth 9 data 0 + 3)) in ((s1, c'), lift os)
    else fin s c id o1
  else if addr =? 8 then
    match rev data with
    | [] => ((s, c), [IRaise])
    | crc :: _ =>
        if crc8 (removelast data) =? crc then
          match parse_elems (S (length data)) (removelast (skipn 2 data)) [] with
          | Some el => fin s c id (mkOW (ow_upd o) true (ow_hdr o) el)
          | None => ((set_mems s (set_ow id (mkOW (ow_upd o) (ow_valid o) (ow_hdr o)
                                     (parse_prefix (S (length data)) (removelast (skipn 2 data)) [])) (i_mems s)), c), [IRaise])
          end
        else fin s c id o
    end
  else ((s, c), []).
Proof. reflexivity. Qed.

Lemma fin_good s c id o' b r os : Inv s b -> fin s c id o' = (r, os) -> good b os (fst r).
Proof.
  intros HI H. unfold fin in H.
  set (s1 := set_mems s (set_ow id (mkOW false (ow_valid o') (ow_hdr o') (ow_elems o')) (i_mems s))) in H.
  assert (HI1 : Inv s1 b) by (apply inv_same with (s := s); [exact HI | reflexivity | reflexivity]).
  destruct (ow_upd o').
  - destruct (update_done s1 id) as [s2 os2] eqn:Hu. injection H as <- <-. cbn [fst].
    eapply update_done_good; [exact HI1 | exact Hu].
  - injection H as <- <-. cbn [fst]. exists b. split; [reflexivity | exact HI1].
Qed.

Lemma raise_quiet : quiet [IRaise].
Proof. apply quiet_cons; [reflexivity | apply quiet_nil]. Qed.

Lemma ow_new_data_good s c id o addr data b r os :
  Inv s b -> ow_new_data (s, c) id o addr data = (r, os) -> good b os (fst r).
Proof.
  intros HI H. rewrite ow_new_data_eq in H. cbv zeta in H.
  destruct (addr =? 0) eqn:Ha0.
  - destruct (length data <? 8)%nat eqn:Hl8.
    + injection H as <- <-. cbn [fst]. apply good_quiet with (s := s); auto using raise_quiet.
    + destruct ((nth 0 (firstn 8 data) 0 =? 235) && (nth 7 (firstn 8 data) 0 =? crc8 (firstn 7 (firstn 8 data)))) eqn:Hhd.
      * destruct (length data <? 10)%nat eqn:Hl10.
        -- injection H as <- <-. cbn [fst]. apply good_quiet with (s := s); auto using raise_quiet.
        -- destruct (step true c (ERead id 8 (nth 9 data 0 + 3))) as [c' os'] eqn:Hst.
           injection H as <- <-. cbn [fst]. apply good_quiet with (s := s); auto using quiet_lift.
      * eapply fin_good; [exact HI | exact H].
  - destruct (addr =? 8) eqn:Ha8.
    + destruct (rev data) as [|crc rest].
      * injection H as <- <-. cbn [fst]. apply good_quiet with (s := s); auto using raise_quiet.
      * destruct (crc8 (removelast data) =? crc) eqn:Hcrc.
        -- destruct (parse_elems (S (length data)) (removelast (skipn 2 data)) []) as [el|] eqn:Hp.
           ++ eapply fin_good; [exact HI | exact H].
           ++ injection H as <- <-. cbn [fst]. apply good_quiet with (s := s); auto using raise_quiet.
        -- eapply fin_good; [exact HI | exact H].
    + injection H as <- <-. cbn [fst]. apply good_quiet with (s := s); auto using quiet_nil.
Qed.

(* ---------------------------------------------------------------- ow_dispatch, ow_dispatch_all *)
Lemma ow_dispatch_good sc x b r os :
  Inv (fst sc) b -> ow_dispatch sc x = (r, os) -> good b os (fst r).
Proof.
  intros HI H. unfold ow_dispatch in H.
  assert (Hnil : forall r' os', (sc, @nil iobs) = (r', os') -> good b os' (fst r')).
  { intros r' os' E. injection E as <- <-. apply good_quiet with (s := fst sc); auto using quiet_nil. }
  destruct x as [u ch d|u i a d|u i a d|u i a|u i a|u|rb| | |]; try (apply Hnil; exact H).
  destruct (get_mem i (i_mems (fst sc))) as [m|]; [|apply Hnil; exact H].
  destruct (m_ow m) as [o|]; [|apply Hnil; exact H].
  destruct sc as [s c]. cbn [fst] in HI. eapply ow_new_data_good; [exact HI | exact H].
Qed.

Lemma ow_dispatch_all_good os : forall sc b r tr,
  Inv (fst sc) b -> ow_dispatch_all sc os = (r, tr) -> good b tr (fst r).
Proof.
  induction os as [|x t IH]; intros sc b r tr HI H.
  - cbn [ow_dispatch_all] in H. injection H as <- <-.
    apply good_quiet with (s := fst sc); auto using quiet_nil.
  - cbn [ow_dispatch_all] in H.
    destruct (ow_dispatch sc x) as [sc1 o1] eqn:H1.
    destruct (ow_dispatch_all sc1 t) as [sc2 o2] eqn:H2.
    injection H as <- <-.
    change (IO x :: o1 ++ o2) with ([IO x] ++ (o1 ++ o2)).
    apply good_quiet_app with (s := fst sc).
    + exact HI.
    + apply quiet_cons; [reflexivity | apply quiet_nil].
    + intros b1 HI1. apply good_app with (s1 := fst sc1).
      * eapply ow_dispatch_good; [exact HI1 | exact H1].
      * intros b2 HI2. eapply IH; [exact HI2 | exact H2].
Qed.

(* ---------------------------------------------------------------- start_updates *)
Lemma start_updates_quiet l : forall sc sc' os,
  start_updates l sc = (sc', os) ->
  i_cb (fst sc') = i_cb (fst sc) /\ i_fcb (fst sc') = i_fcb (fst sc) /\ quiet os.
Proof.
  induction l as [|m t IH]; intros sc sc' os H.
  - cbn [start_updates] in H. injection H as <- <-. auto using quiet_nil.
  - cbn [start_updates] in H. destruct (m_ow m) as [o|].
    + destruct (ow_upd o).
      * apply IH; exact H.
      * destruct sc as [s c].
        destruct (step true c (ERead (m_id m) 0 11)) as [c' os1] eqn:Hst.
        destruct (start_updates t (set_mems s (set_ow (m_id m) (mkOW true false (ow_hdr o) (ow_elems o)) (i_mems s)), c'))
          as [sc2 o2] eqn:H2.
        injection H as <- <-. apply IH in H2. cbn [fst set_mems i_cb i_fcb] in *.
        destruct H2 as [Hc [Hf Hq]]. repeat split; try assumption.
        apply quiet_app; [apply quiet_lift | exact Hq].
    + apply IH; exact H.
Qed.

(* ---------------------------------------------------------------- info packets *)
Lemma send2_quiet x : kind_of (ISend [2; x]) = KQuiet.
Proof. reflexivity. Qed.

Section AnyFlags.
Variables f2i f6e f6g : bool.

Lemma info_packet_good s c data b r os :
  Inv s b -> info_packet f6g (s, c) data = (r, os) -> good b os (fst r).
Proof.
  intros HI H. unfold info_packet in H.
  destruct data as [|cmd payload].
  { injection H as <- <-. cbn [fst]. apply good_quiet with (s := s); auto using raise_quiet. }
  destruct (cmd =? 1) eqn:Hc1.
  { destruct payload as [|n rest].
    { injection H as <- <-. cbn [fst]. apply good_quiet with (s := s); auto using raise_quiet. }
    destruct (0 <? n) eqn:Hn.
    - destruct (i_getting s) eqn:Hg.
      + injection H as <- <-. cbn [fst]. apply good_quiet with (s := s); auto using quiet_nil.
      + injection H as <- <-. cbn [fst]. apply good_quiet with (s := s); auto.
        apply quiet_cons; [apply send2_quiet | apply quiet_nil].
    - destruct (call_done (mkI (i_mems s) (i_cb s) (i_fcb s) (i_fetch s) n (i_left s) (i_getting s))) as [s2 os2] eqn:Hcd.
      injection H as <- <-. cbn [fst]. eapply call_done_good; [|exact Hcd].
      apply inv_same with (s := s); auto. }
  destruct (cmd =? 2) eqn:Hc2.
  2:{ injection H as <- <-. cbn [fst]. apply good_quiet with (s := s); auto using quiet_nil. }
  destruct (f6g && negb (i_getting s)) eqn:Hg.
  { injection H as <- <-. cbn [fst]. apply good_quiet with (s := s); auto using quiet_nil. }
  destruct (length payload <? 5)%nat eqn:Hl5.
  { destruct (call_done (mkI (i_mems s) (i_cb s) (i_fcb s) (i_fetch s) 1 (i_left s) (i_getting s))) as [s2 os2] eqn:Hcd.
    injection H as <- <-. cbn [fst]. eapply call_done_good; [|exact Hcd].
    apply inv_same with (s := s); auto. }
  destruct (f6g && negb (nth 0 payload 0 =? i_fetch s)) eqn:Hid.
  { injection H as <- <-. cbn [fst]. apply good_quiet with (s := s); auto using quiet_nil. }
  destruct (length payload <? 14)%nat eqn:Hl14.
  { injection H as <- <-. cbn [fst]. apply good_quiet with (s := s); auto using raise_quiet. }
  cbv zeta in H.
  match type of H with
  | (let '(s1, o1) := ?X in _) = _ => destruct X as [s1 o1] eqn:Hadd
  end.
  assert (Hs1 : i_cb s1 = i_cb s /\ i_fcb s1 = i_fcb s /\ quiet o1).
  { destruct (get_mem (nth 0 payload 0) (i_mems s)) as [m0|].
    - injection Hadd as <- <-. auto using quiet_nil.
    - injection Hadd as <- <-. cbn [i_cb i_fcb]. repeat split.
      apply quiet_cons; [reflexivity | apply quiet_nil]. }
  destruct Hs1 as [Hcb1 [Hfcb1 Hq1]].
  assert (HI1 : forall b1, Inv s b1 -> Inv s1 b1).
  { intros b1 Hb1. apply inv_same with (s := s); assumption. }
  destruct (i_fetch s1 <=? i_nbr s1 - 1) eqn:Hmore.
  { injection H as <- <-. cbn [fst]. apply good_quiet with (s := s); auto.
    apply quiet_app; [exact Hq1|]. apply quiet_cons; [apply send2_quiet | apply quiet_nil]. }
  destruct (has_ow (i_mems s1)) eqn:How.
  - destruct (start_updates (i_mems s1) (s1, c)) as [sc2 o2] eqn:Hsu.
    injection H as <- <-. apply start_updates_quiet in Hsu. cbn [fst] in Hsu.
    destruct Hsu as [Hc2' [Hf2' Hq2]].
    apply good_quiet with (s := s); [exact HI | congruence | congruence |]. apply quiet_app; assumption.
  - destruct (call_done s1) as [s2 o2] eqn:Hcd.
    injection H as <- <-. cbn [fst].
    apply good_quiet_app with (s := s); [exact HI | exact Hq1 |].
    intros b1 Hb1. eapply call_done_good; [apply HI1; exact Hb1 | exact Hcd].
Qed.

(* ---------------------------------------------------------------- one step, all histories *)
Lemma arm1 : kind_of (ISend [1]) = KArm.
Proof. reflexivity. Qed.

Lemma do_refresh_good sc fcb b (r : info * client) os :
  do_refresh f2i f6e sc fcb = (r, os) -> good b os (fst r).
Proof.
  intros H. unfold do_refresh in H. destruct sc as [s c]. injection H as <- <-. cbn [fst].
  exists true. split.
  - rewrite arm_app, arm_quiet by (destruct f2i; [apply quiet_lift|apply quiet_nil]). reflexivity.
  - intros _. reflexivity.
Qed.

Lemma disc_good (sc : info * client) b (c' : client) os :
  Inv (fst sc) b -> good b (lift os ++ (if i_fcb (fst sc) then [IFailed] else [])) (fst (info_init, c')).
Proof.
  intros HI. cbn [fst]. exists (if i_fcb (fst sc) then false else b). split.
  - rewrite arm_app, arm_quiet by apply quiet_lift.
    destruct (i_fcb (fst sc)) eqn:Hf; [|reflexivity].
    assert (Hb : b = true) by (apply HI; right; exact Hf). subst b. reflexivity.
  - intros [H|H]; discriminate H.
Qed.

Lemma istep_good sc e b r os :
  Inv (fst sc) b -> istep f2i f6e f6g sc e = (r, os) -> good b os (fst r).
Proof.
  intros HI H. destruct e as [fcb|data|e].
  - cbn [istep] in H. eapply do_refresh_good; exact H.
  - cbn [istep] in H. destruct (bytesb data).
    + destruct sc as [s c]. cbn [fst] in HI. eapply info_packet_good; [exact HI | exact H].
    + injection H as <- <-. apply good_quiet with (s := fst sc); auto.
      apply quiet_cons; [reflexivity | apply quiet_nil].
  - destruct e as [i a n|i a d fl|ch d|]; cbn [istep] in H.
    + destruct (step true (snd sc) (ERead i a n)) as [c' os'] eqn:Hst.
      eapply ow_dispatch_all_good; [|exact H]. exact HI.
    + destruct (step true (snd sc) (EWrite i a d fl)) as [c' os'] eqn:Hst.
      eapply ow_dispatch_all_good; [|exact H]. exact HI.
    + destruct (step true (snd sc) (EPkt ch d)) as [c' os'] eqn:Hst.
      eapply ow_dispatch_all_good; [|exact H]. exact HI.
    + destruct (step true (snd sc) EDisc) as [c' os'] eqn:Hst.
      injection H as <- <-. apply disc_good; exact HI.
Qed.

Lemma irun_good evs : forall sc b,
  Inv (fst sc) b -> exists b', arm b (snd (irun f2i f6e f6g sc evs)) = Some b'.
Proof.
  induction evs as [|e t IH]; intros sc b HI.
  - exists b. reflexivity.
  - cbn [irun].
    destruct (istep f2i f6e f6g sc e) as [sc1 o1] eqn:H1.
    destruct (irun f2i f6e f6g sc1 t) as [sc2 o2] eqn:H2.
    cbn [snd]. destruct (istep_good _ _ _ _ _ HI H1) as [b1 [Ha1 HI1]].
    destruct (IH sc1 b1 HI1) as [b2 Ha2]. rewrite H2 in Ha2. cbn [snd] in Ha2.
    exists b2. rewrite arm_app, Ha1. exact Ha2.
Qed.

Theorem refresh_notified_at_most_once : forall evs,
  notif_ok false (snd (irun f2i f6e f6g (info_init, c_init) evs)) = true.
Proof.
  intros evs.
  destruct (irun_good evs (info_init, c_init) false) as [b' Hb'].
  - intros [H|H]; discriminate H.
  - eapply arm_notif_ok; exact Hb'.
Qed.

End AnyFlags.

Print Assumptions refresh_notified_at_most_once.
