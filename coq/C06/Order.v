(* C06/Order.v — queued writes to one memory are performed, and notified, in the order of the calls. *)
From CF Require Import Common.Bytes C06.Model C06.Proofs.
From Coq Require Import ZifyBool Sorted.
Open Scope Z_scope.

(* uids of the write packets / write notifications of memory i in a trace, in order *)
Definition wsend_uid (i : Z) (o : obs) : list Z :=
  match o with OSend u ChWrite (j :: _) => if j =? i then [u] else [] | _ => [] end.
Definition wnote_uid (i : Z) (o : obs) : list Z :=
  match o with OWriteOk u j _ | OWriteFail u j _ => if j =? i then [u] else [] | _ => [] end.
Definition wsends (i : Z) (tr : list obs) : list Z := flat_map (wsend_uid i) tr.
Definition wnotes (i : Z) (tr : list obs) : list Z := flat_map (wnote_uid i) tr.

Definition incr (l : list Z) : Prop := StronglySorted Z.lt l.
Definition nondecr (l : list Z) : Prop := StronglySorted Z.le l.

Definition qi (i : Z) (c : client) : list wreq :=
  match wq_get i (c_writes c) with Some q => q | None => [] end.
Definition lo (i : Z) (c : client) : Z :=
  match qi i c with w :: _ => w_uid w | [] => c_next c end.

Definition keys_ok (ws : list (Z * list wreq)) : Prop :=
  NoDup (map fst ws) /\ Forall (fun jq => Forall (fun w => w_id w = fst jq) (snd jq)) ws.

(* ---- sorted lists *)
Lemma ss_snoc (R : Z -> Z -> Prop) l x :
  StronglySorted R l -> Forall (fun y => R y x) l -> StronglySorted R (l ++ [x]).
Proof.
  induction 1 as [|a l Hl IH Ha]; intros F; cbn [app].
  - constructor; constructor.
  - inversion F as [|? ? Fa Fl]; subst. constructor; [apply IH, Fl|].
    apply Forall_app. split; [exact Ha|constructor; [exact Fa|constructor]].
Qed.

Lemma ss_app (R : Z -> Z -> Prop) l1 l2 :
  StronglySorted R l1 -> StronglySorted R l2 -> (forall a b, In a l1 -> In b l2 -> R a b) ->
  StronglySorted R (l1 ++ l2).
Proof.
  induction 1 as [|a l Hl IH Ha]; intros S2 H; cbn [app]; [exact S2|].
  constructor.
  - apply IH; [exact S2|]. intros x y Hx Hy. apply H; [right; exact Hx|exact Hy].
  - apply Forall_app. split; [exact Ha|]. apply Forall_forall. intros y Hy. apply H; [left; reflexivity|exact Hy].
Qed.

Lemma in_firstn {A} n (l : list A) x : In x (firstn n l) -> In x l.
Proof.
  revert n. induction l as [|b l IHl]; intros [|n] Hy; cbn [firstn] in Hy; try contradiction.
  destruct Hy as [->|Hy]; [left; reflexivity|right; eapply IHl, Hy].
Qed.

Lemma ss_firstn (R : Z -> Z -> Prop) n l : StronglySorted R l -> StronglySorted R (firstn n l).
Proof.
  revert l. induction n as [|n IH]; intros l S; cbn [firstn]; [constructor|].
  destruct l as [|a l]; [constructor|]. inversion S as [|? ? Sl Fa]; subst.
  constructor; [apply IH, Sl|]. apply Forall_forall. intros y Hy.
  rewrite Forall_forall in Fa. apply Fa. eapply in_firstn, Hy.
Qed.

Lemma map_firstn' {A B} (f : A -> B) n l : map f (firstn n l) = firstn n (map f l).
Proof. revert l. induction n as [|n IH]; intros [|x l]; cbn [firstn map]; try reflexivity. now rewrite IH. Qed.

(* ---- the write dictionary *)
Lemma wq_get_set_same i q ws : wq_get i (wq_set i q ws) = Some q.
Proof.
  induction ws as [|[j q0] t IH]; cbn [wq_set wq_get].
  - now rewrite Z.eqb_refl.
  - destruct (j =? i) eqn:E; cbn [wq_get]; rewrite E; [reflexivity|exact IH].
Qed.

Lemma wq_get_set_other i j q ws : j <> i -> wq_get i (wq_set j q ws) = wq_get i ws.
Proof.
  intros N. induction ws as [|[k q0] t IH]; cbn [wq_set wq_get].
  - replace (j =? i) with false by lia. reflexivity.
  - destruct (k =? j) eqn:E; cbn [wq_get].
    + replace (k =? i) with false by lia. reflexivity.
    + destruct (k =? i); [reflexivity|exact IH].
Qed.

Lemma wq_set_keys i q ws :
  map fst (wq_set i q ws) = map fst ws \/ (~ In i (map fst ws) /\ map fst (wq_set i q ws) = map fst ws ++ [i]).
Proof.
  induction ws as [|[j q0] t IH]; cbn [wq_set map fst].
  - right. split; [tauto|reflexivity].
  - destruct (j =? i) eqn:E; cbn [map fst].
    + left. reflexivity.
    + destruct IH as [IH|[N IH]]; [left; now rewrite IH|right]. split.
      * cbn [In]. intros [H|H]; [lia|tauto].
      * now rewrite IH.
Qed.

Lemma keys_ok_set i q ws : keys_ok ws -> Forall (fun w => w_id w = i) q -> keys_ok (wq_set i q ws).
Proof.
  intros [ND K] Hq. split.
  - destruct (wq_set_keys i q ws) as [E|[N E]]; rewrite E; [exact ND|].
    clear -ND N. induction (map fst ws) as [|a l IH]; cbn [app].
    + constructor; [tauto|constructor].
    + inversion ND as [|? ? Na Nl]; subst. constructor.
      * rewrite in_app_iff. cbn [In]. intros [H|[H|[]]]; [tauto|]. apply N. left. symmetry. exact H.
      * apply IH; [exact Nl|]. intros H. apply N. right. exact H.
  - clear ND. induction ws as [|[j q0] t IH]; cbn [wq_set].
    + constructor; [exact Hq|constructor].
    + inversion K as [|? ? Kj Kt]; subst. destruct (j =? i) eqn:E.
      * constructor; [|exact Kt]. cbn [fst snd]. replace j with i by lia. exact Hq.
      * constructor; [exact Kj|apply IH, Kt].
Qed.

Lemma wq_get_ids i ws q : keys_ok ws -> wq_get i ws = Some q -> Forall (fun w => w_id w = i) q.
Proof.
  intros [_ K]. induction ws as [|[j q0] t IH]; cbn [wq_get]; [discriminate|].
  inversion K as [|? ? Kj Kt]; subst. destruct (j =? i) eqn:E.
  - intros [= <-]. cbn [fst snd] in Kj. replace i with j by lia. exact Kj.
  - apply IH, Kt.
Qed.

Lemma filter_none {A} (f : A -> bool) l : Forall (fun x => f x = false) l -> filter f l = [].
Proof. induction 1 as [|x l Hx _ IH]; cbn [filter]; [reflexivity|]. now rewrite Hx. Qed.

Lemma filter_all {A} (f : A -> bool) l : Forall (fun x => f x = true) l -> filter f l = l.
Proof. induction 1 as [|x l Hx _ IH]; cbn [filter]; [reflexivity|]. now rewrite Hx, IH. Qed.

(* the records of memory i among all queued writes are exactly its queue *)
Lemma allw_filter i ws : keys_ok ws ->
  filter (fun w => w_id w =? i) (allw ws) = match wq_get i ws with Some q => q | None => [] end.
Proof.
  unfold allw. intros [ND K]. induction ws as [|[j q0] t IH]; cbn [map snd concat wq_get]; [reflexivity|].
  inversion K as [|? ? Kj Kt]; subst. inversion ND as [|? ? Nj Nt]; subst. cbn [fst snd] in *.
  rewrite filter_app. destruct (j =? i) eqn:E.
  - rewrite filter_all.
    + rewrite filter_none; [now rewrite app_nil_r|].
      apply Forall_forall. intros w Hw. apply in_concat in Hw as (q & Hq & Hw).
      apply in_map_iff in Hq as ([k q'] & <- & Hin). cbn [snd] in Hw.
      rewrite Forall_forall in Kt. specialize (Kt _ Hin). cbn [fst snd] in Kt.
      rewrite Forall_forall in Kt. rewrite (Kt _ Hw).
      assert (k <> j). { intros ->. apply Nj. apply in_map_iff. exists (j, q'). split; [reflexivity|exact Hin]. }
      lia.
    + eapply Forall_impl; [|exact Kj]. intros w Hw. cbn beta in Hw. lia.
  - rewrite filter_none.
    + cbn [app]. apply IH; assumption.
    + eapply Forall_impl; [|exact Kj]. intros w Hw. cbn beta in Hw. lia.
Qed.

(* ---- the ordering invariant, abstractly: queue uids qs, next uid n, packet uids S, notification uids N *)
Definition OI (qs : list Z) (n : Z) (S N : list Z) : Prop :=
  incr qs /\ Forall (fun x => x < n) qs /\ nondecr S /\ incr N /\
  Forall (fun s => s <= hd n qs) S /\ Forall (fun x => x < hd n qs) N.

Lemma OI_hd_le qs n : Forall (fun x => x < n) qs -> forall n', n <= n' -> hd n qs <= hd n' qs.
Proof. intros F n' H. destruct qs; cbn [hd]; lia. Qed.

Lemma OI_A qs n S N n' : OI qs n S N -> n <= n' -> OI qs n' S N.
Proof.
  intros (Q & B & HS & HN & FS & FN) H. pose proof (OI_hd_le qs n B n' H) as Hh.
  repeat split; try assumption.
  - eapply Forall_impl; [|exact B]. intros; cbn beta in *; lia.
  - eapply Forall_impl; [|exact FS]. intros; cbn beta in *; lia.
  - eapply Forall_impl; [|exact FN]. intros; cbn beta in *; lia.
Qed.

Lemma OI_B qs n S N k : OI qs n S N ->
  OI (firstn k qs ++ [n]) (n + 1) (S ++ match firstn k qs with [] => [n] | _ :: _ => [] end) N.
Proof.
  intros (Q & B & HS & HN & FS & FN).
  assert (B1 : Forall (fun x => x < n) (firstn k qs)).
  { apply Forall_forall. intros x Hx. rewrite Forall_forall in B. apply B. eapply in_firstn, Hx. }
  assert (Hh : hd n qs <= hd (n + 1) (firstn k qs ++ [n])).
  { destruct k as [|k]; destruct qs as [|x t]; cbn [firstn app hd]; try lia.
    inversion B; subst. lia. }
  repeat split.
  - apply ss_snoc; [apply ss_firstn, Q|exact B1].
  - apply Forall_app. split; [|constructor; [lia|constructor]].
    eapply Forall_impl; [|exact B1]. intros; cbn beta in *; lia.
  - destruct (firstn k qs) as [|y t] eqn:E; [|now rewrite app_nil_r].
    apply ss_snoc; [exact HS|]. eapply Forall_impl; [|exact FS]. intros s Hs. cbn beta in *.
    destruct qs as [|x t]; cbn [hd] in Hs; [lia|]. inversion B; subst. lia.
  - exact HN.
  - apply Forall_app. split.
    + eapply Forall_impl; [|exact FS]. intros; cbn beta in *; lia.
    + destruct (firstn k qs) as [|y t] eqn:E; [|constructor]. constructor; [cbn [app hd]; lia|constructor].
  - eapply Forall_impl; [|exact FN]. intros; cbn beta in *; lia.
Qed.

Lemma OI_C x t n S N : OI (x :: t) n S N -> OI (x :: t) n (S ++ [x]) N.
Proof.
  intros (Q & B & HS & HN & FS & FN). cbn [hd] in *. repeat split; try assumption.
  - apply ss_snoc; assumption.
  - apply Forall_app. split; [exact FS|constructor; [cbn [hd]; lia|constructor]].
Qed.

Lemma OI_D x t n S N : OI (x :: t) n S N ->
  OI t n (S ++ match t with y :: _ => [y] | [] => [] end) (N ++ [x]).
Proof.
  intros (Q & B & HS & HN & FS & FN). cbn [hd] in *.
  inversion Q as [|? ? Qt Fx]; subst. inversion B as [|? ? Bx Bt]; subst.
  assert (Hx : x < hd n t). { destruct t as [|y t']; cbn [hd]; [lia|]. inversion Fx; subst. lia. }
  repeat split; try assumption.
  - destruct t as [|y t']; [now rewrite app_nil_r|]. apply ss_snoc; [exact HS|].
    eapply Forall_impl; [|exact FS]. intros s Hs. cbn beta in *. cbn [hd] in Hx. lia.
  - apply ss_snoc; assumption.
  - apply Forall_app. split.
    + eapply Forall_impl; [|exact FS]. intros; cbn beta in *; lia.
    + destruct t as [|y t']; constructor; [cbn [hd]; lia|constructor].
  - apply Forall_app. split; [|constructor; [exact Hx|constructor]].
    eapply Forall_impl; [|exact FN]. intros; cbn beta in *; lia.
Qed.

Lemma OI_E qs n S N : OI qs n S N -> OI [] n S (N ++ qs).
Proof.
  intros (Q & B & HS & HN & FS & FN). repeat split; try assumption; cbn [hd].
  - constructor.
  - constructor.
  - apply ss_app; [exact HN|exact Q|]. intros a b Ha Hb.
    rewrite Forall_forall in FN. specialize (FN a Ha).
    destruct qs as [|x t]; [contradiction|]. cbn [hd] in FN.
    destruct Hb as [<-|Hb]; [exact FN|]. inversion Q as [|? ? _ Fx]; subst.
    rewrite Forall_forall in Fx. specialize (Fx b Hb). lia.
  - eapply Forall_impl; [|exact FS]. intros s Hs. cbn beta in *.
    destruct qs as [|x t]; cbn [hd] in Hs; [lia|]. inversion B; subst. lia.
  - apply Forall_app. split; [|exact B].
    eapply Forall_impl; [|exact FN]. intros s Hs. cbn beta in *.
    destruct qs as [|x t]; cbn [hd] in Hs; [lia|]. inversion B; subst. lia.
Qed.

Definition OrdI (i : Z) (c : client) (tr : list obs) : Prop :=
  OI (map w_uid (qi i c)) (c_next c) (wsends i tr) (wnotes i tr).
Definition Ord (c : client) (tr : list obs) : Prop :=
  keys_ok (c_writes c) /\ forall i, OrdI i c tr.

Lemma wsends_app i a b : wsends i (a ++ b) = wsends i a ++ wsends i b.
Proof. unfold wsends. now rewrite flat_map_app. Qed.
Lemma wnotes_app i a b : wnotes i (a ++ b) = wnotes i a ++ wnotes i b.
Proof. unfold wnotes. now rewrite flat_map_app. Qed.

Lemma start_head_proj i j q : Forall (fun w => w_id w = j) q ->
  map w_uid (fst (start_head q)) = map w_uid q /\ Forall (fun w => w_id w = j) (fst (start_head q)) /\
  wsends i (snd (start_head q)) = (if j =? i then match map w_uid q with y :: _ => [y] | [] => [] end else []) /\
  wnotes i (snd (start_head q)) = [].
Proof.
  intros F. destruct q as [|w t]; cbn [start_head fst snd map].
  - repeat split; [constructor|now destruct (j =? i)].
  - inversion F as [|? ? Fw Ft]; subst. cbn [w_start fst snd map w_uid].
    repeat split.
    + constructor; [reflexivity|exact Ft].
    + cbn [wsends flat_map wsend_uid]. destruct (w_id w =? i); reflexivity.
Qed.

Lemma proj_fail_read i rs : wsends i (map fail_read rs) = [] /\ wnotes i (map fail_read rs) = [].
Proof. induction rs as [|r t [I1 I2]]; split; cbn; try reflexivity; assumption. Qed.

Lemma wsends_fail_write i l : wsends i (map fail_write l) = [].
Proof. induction l as [|w t IH]; cbn; [reflexivity|exact IH]. Qed.

Lemma wnotes_fail_write i l : wnotes i (map fail_write l) = map w_uid (filter (fun w => w_id w =? i) l).
Proof.
  induction l as [|w t IH]; [reflexivity|].
  cbn [map wnotes flat_map fail_write wnote_uid filter]. fold (wnotes i (map fail_write t)). rewrite IH.
  destruct (w_id w =? i); reflexivity.
Qed.

(* steps that do not touch the write side at all *)
Lemma Ord_same c tr c' os :
  Ord c tr -> c_writes c' = c_writes c -> c_next c <= c_next c' ->
  (forall i, wsends i os = []) -> (forall i, wnotes i os = []) -> Ord c' (tr ++ os).
Proof.
  intros [K H] Ew Hn Hs Hw. split; [now rewrite Ew|]. intros i. specialize (H i).
  unfold OrdI, qi in *. rewrite Ew, wsends_app, wnotes_app, Hs, Hw, !app_nil_r.
  eapply OI_A; eassumption.
Qed.

Lemma Ord_key c tr c' os j q' :
  Ord c tr -> c_writes c' = wq_set j q' (c_writes c) -> c_next c <= c_next c' ->
  Forall (fun w => w_id w = j) q' ->
  (forall i, i <> j -> wsends i os = [] /\ wnotes i os = []) ->
  OI (map w_uid q') (c_next c') (wsends j (tr ++ os)) (wnotes j (tr ++ os)) ->
  Ord c' (tr ++ os).
Proof.
  intros [K H] Ew Hn Fq Hoth Hj. split; [rewrite Ew; apply keys_ok_set; assumption|].
  intros i. unfold OrdI, qi. rewrite Ew. destruct (Z.eq_dec i j) as [->|N].
  - rewrite wq_get_set_same. exact Hj.
  - rewrite wq_get_set_other by lia. destruct (Hoth i N) as [Hs Hw].
    rewrite wsends_app, wnotes_app, Hs, Hw, !app_nil_r. specialize (H i). unfold OrdI, qi in H.
    eapply OI_A; eassumption.
Qed.

Lemma ord_step fx c tr e : Ord c tr -> Ord (fst (step fx c e)) (tr ++ snd (step fx c e)).
Proof.
  intros HO. pose proof HO as [K H].
  assert (Same : forall os, (forall i, wsends i os = []) -> (forall i, wnotes i os = []) -> Ord c (tr ++ os)).
  { intros os Hs Hw. eapply Ord_same; try eassumption; [reflexivity|lia]. }
  unfold step. destruct (negb (wf_eventb e)); [apply (Same [OOutOfDomain]); reflexivity|].
  destruct e as [i a n|i a d fl|ch d|].
  - (* read *)
    unfold do_read. destruct (rd_get i (c_reads c)); [apply (Same [ORet false]); reflexivity|].
    cbn [fst snd]. eapply Ord_same; try eassumption; [reflexivity|cbn [c_next]; lia| |]; reflexivity.
  - (* write *)
    unfold do_write. destruct (c_leaked c); [apply (Same [OHang]); reflexivity|].
    set (w := mkW (c_next c) i a a d 0).
    set (q := match wq_get i (c_writes c) with Some q => q | None => [] end).
    assert (Fq : Forall (fun w => w_id w = i) q).
    { unfold q. destruct (wq_get i (c_writes c)) eqn:G; [eapply wq_get_ids; eassumption|constructor]. }
    assert (Hq : map w_uid q = map w_uid (qi i c)) by reflexivity.
    set (k := if fl then 1%nat else length q).
    assert (Q1 : (if fl then firstn 1 q else q) = firstn k q).
    { unfold k. destruct fl; [reflexivity|now rewrite firstn_all]. }
    rewrite Q1.
    assert (Sup : forall j, wsends j (if fl then map (fun w => OSuperseded (w_uid w)) (skipn 1 q) else []) = [] /\
                            wnotes j (if fl then map (fun w => OSuperseded (w_uid w)) (skipn 1 q) else []) = []).
    { intros j. destruct fl; [|split; reflexivity]. induction (skipn 1 q) as [|x t [I1 I2]]; split; try reflexivity; assumption. }
    pose proof (OI_B _ _ _ _ k (H i)) as HB. rewrite <- Hq, <- map_firstn' in HB.
    assert (F1 : Forall (fun w => w_id w = i) (firstn k q)).
    { apply Forall_forall. intros x Hx. rewrite Forall_forall in Fq. eapply Fq, in_firstn, Hx. }
    destruct (firstn k q) as [|x q1] eqn:E1.
    + cbn [w_start fst snd w_uid w_id w]. eapply Ord_key with (j := i) (q' := [_]); try reflexivity.
      * exact HO.
      * cbn [c_next]. lia.
      * constructor; [reflexivity|constructor].
      * intros j Nj. rewrite wsends_app, wnotes_app. destruct (Sup j) as [-> ->].
        cbn [wsends wnotes flat_map wsend_uid wnote_uid app w_rest]. replace (i =? j) with false by lia. split; reflexivity.
      * cbn [c_next map w_uid]. rewrite !wsends_app, !wnotes_app. destruct (Sup i) as [-> ->].
        cbn [wsends wnotes flat_map wsend_uid wnote_uid app w_rest]. rewrite Z.eqb_refl. cbn [app].
        rewrite app_nil_r. cbn [map app] in HB. exact HB.
    + cbn [fst snd]. eapply Ord_key with (j := i) (q' := (x :: q1) ++ [w]); try reflexivity.
      * exact HO.
      * cbn [c_next]. lia.
      * apply Forall_app. split; [exact F1|constructor; [reflexivity|constructor]].
      * intros j Nj. rewrite wsends_app, wnotes_app. destruct (Sup j) as [-> ->]. split; reflexivity.
      * cbn [c_next]. rewrite !wsends_app, !wnotes_app. destruct (Sup i) as [-> ->].
        cbn [wsends wnotes flat_map wsend_uid wnote_uid app]. rewrite !app_nil_r.
        cbn [map app] in HB |- *. rewrite map_app. cbn [map w_uid w]. rewrite app_nil_r in HB. exact HB.
  - (* packet *)
    destruct d as [|i p]; [apply (Same [ORaise]); reflexivity|].
    destruct ch; [| |apply (Same []); reflexivity].
    + unfold do_read_reply. destruct (length p <? 5)%nat; [apply (Same [ORaise]); reflexivity|].
      destruct (rd_get i (c_reads c)) as [r|]; [|apply (Same []); reflexivity].
      destruct (nth 4 p 0 =? 0).
      * destruct (le_val (firstn 4 p) =? r_cur r); [|apply (Same []); reflexivity].
        match goal with |- context [if 0 <? ?x then _ else _] => destruct (0 <? x) end;
          cbn [fst snd]; eapply Ord_same; try eassumption; try reflexivity; cbn [c_next set_reads]; lia.
      * cbn [fst snd]; eapply Ord_same; try eassumption; try reflexivity; cbn [c_next set_reads]; lia.
    + unfold do_write_reply. destruct (length p <? 5)%nat; [apply (Same [ORaise]); reflexivity|].
      destruct (wq_get i (c_writes c)) as [[|w q]|] eqn:G; [| |apply (Same []); reflexivity].
      { destruct fx; [apply (Same []); reflexivity|].
        destruct (c_leaked c); [apply (Same [OHang]); reflexivity|].
        cbn [fst snd]. eapply Ord_same; try eassumption; try reflexivity; cbn [c_next]; lia. }
      destruct (c_leaked c); [apply (Same [OHang]); reflexivity|].
      pose proof (wq_get_ids _ _ _ K G) as Fwq. inversion Fwq as [|? ? Fw Fq]; subst.
      pose proof (H (w_id w)) as Hi. unfold OrdI, qi in Hi. rewrite G in Hi. cbn [map] in Hi.
      destruct (start_head_proj (w_id w) (w_id w) q Fq) as (Hq1 & Hq2 & Hq3 & Hq4).
      assert (Fin : forall note, (note = OWriteOk (w_uid w) (w_id w) (w_addr w) \/ note = OWriteFail (w_uid w) (w_id w) (w_addr w)) ->
        Ord (set_writes c (wq_set (w_id w) (fst (start_head q)) (c_writes c))) (tr ++ snd (start_head q) ++ [note])).
      { intros note Hnote. eapply Ord_key with (j := w_id w); try reflexivity.
        - exact HO.
        - exact Hq2.
        - intros j Nj. rewrite wsends_app, wnotes_app.
          destruct (start_head_proj j (w_id w) q Fq) as (_ & _ & -> & ->).
          replace (w_id w =? j) with false by lia.
          destruct Hnote as [-> | ->]; cbn [wsends wnotes flat_map wsend_uid wnote_uid app];
            replace (w_id w =? j) with false by lia; split; reflexivity.
        - cbn [c_next set_writes]. rewrite Hq1.
          rewrite !wsends_app, !wnotes_app, Hq3, Hq4, Z.eqb_refl.
          replace (wsends (w_id w) [note]) with (@nil Z) by (destruct Hnote as [-> | ->]; reflexivity).
          replace (wnotes (w_id w) [note]) with [w_uid w]
            by (destruct Hnote as [-> | ->]; cbn [wnotes flat_map wnote_uid app]; rewrite Z.eqb_refl; reflexivity).
          rewrite app_nil_r. cbn [app]. apply OI_D. exact Hi. }
      destruct (nth 4 p 0 =? 0).
      * destruct (le_val (firstn 4 p) =? w_cur w); [|apply (Same []); reflexivity].
        destruct (w_rest w) eqn:R.
        -- destruct (start_head q) as [q' os] eqn:SH. cbn [fst snd] in *. apply Fin. left. reflexivity.
        -- cbn [w_start fst snd w_advance w_uid w_id w_addr w_cur w_rest w_add].
           eapply Ord_key with (j := w_id w) (q' := _ :: q); try reflexivity.
           ++ exact HO.
           ++ constructor; [reflexivity|exact Fq].
           ++ intros j Nj. cbn [wsends wnotes flat_map wsend_uid wnote_uid app].
              replace (w_id w =? j) with false by lia. split; reflexivity.
           ++ cbn [c_next set_writes map w_uid]. rewrite wsends_app, wnotes_app.
              cbn [wsends wnotes flat_map wsend_uid wnote_uid app]. rewrite Z.eqb_refl, !app_nil_r.
              apply OI_C. exact Hi.
      * destruct (start_head q) as [q' os] eqn:SH. cbn [fst snd] in *. apply Fin. right. reflexivity.
  - (* disconnect *)
    unfold do_disc. destruct (c_leaked c); cbn [fst snd].
    + eapply Ord_same; try eassumption; try reflexivity.
      * intros i. rewrite wsends_app. rewrite (proj1 (proj_fail_read i _)). reflexivity.
      * intros i. rewrite wnotes_app. rewrite (proj2 (proj_fail_read i _)). reflexivity.
    + split; [split; [constructor|constructor]|].
      intros i. unfold OrdI, qi. cbn [c_writes wq_get map c_next].
      rewrite !wsends_app, !wnotes_app.
      rewrite (proj1 (proj_fail_read i _)), (proj2 (proj_fail_read i _)), wsends_fail_write, wnotes_fail_write.
      fold (allw (c_writes c)). rewrite (allw_filter i _ K). cbn [app]. rewrite app_nil_r.
      apply OI_E. exact (H i).
Qed.

Lemma ord_init : Ord c_init [].
Proof.
  split; [split; constructor|]. intros i. unfold OrdI, OI, qi. cbn.
  repeat split; constructor.
Qed.

Lemma run_ord fx evs : Ord (fst (run fx c_init evs)) (snd (run fx c_init evs)).
Proof. apply (run_inv fx Ord (ord_step fx) evs c_init [] ord_init). Qed.

(* write packets of one memory are sent in the order of the calls, and so are its write notifications;
   a packet of a request is sent only while every older request of that memory is settled *)
Lemma writes_in_order fx evs i :
  let tr := snd (run fx c_init evs) in nondecr (wsends i tr) /\ incr (wnotes i tr).
Proof. destruct (run_ord fx evs) as [_ H]. destruct (H i) as (_ & _ & HS & HN & _). split; assumption. Qed.
