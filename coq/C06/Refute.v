(* C06/Refute.v — exactness WITHOUT the freshness hypothesis is false for the code as it is (finding F06b):
   replies are matched by memory id and address only, so a reply that outlived its request is accepted by a
   later request for the same memory and address.  Also: concrete non-trivial instances of the hypotheses of
   read_exact / write_exact (non-vacuity). *)
From CF Require Import Common.Bytes C06.Model C06.Exact.
Open Scope Z_scope.

(* the full-strength statements: read_exact / write_exact without `all_fresh` *)
Definition read_exact_full : Prop := forall plan m0 pre s1 tr1 i a n mid s2 tr2,
  sys_run true plan (sys_init m0) pre = (s1, tr1) ->
  wf_event (ERead i a n) -> Forall wf_sevent mid ->
  rd_get i (c_reads (s_cl s1)) = None ->
  write_idle (s_cl s1) i ->
  Forall (no_write_to i) mid ->
  sys_run true plan s1 (SOp (ERead i a n) :: mid) = (s2, tr2) ->
  forall i' a' d, In (OReadOk (c_next (s_cl s1)) i' a' d) tr2 ->
    i' = i /\ a' = a /\ d = mread (s_mem s2) i a (Z.to_nat n) /\ (forall x, s_mem s2 i x = s_mem s1 i x).

Definition write_exact_full : Prop := forall plan m0 pre s1 tr1 i a d fl mid s2 tr2,
  sys_run true plan (sys_init m0) pre = (s1, tr1) ->
  wf_event (EWrite i a d fl) -> Forall wf_sevent mid ->
  write_idle (s_cl s1) i ->
  Forall (no_write_to i) mid ->
  sys_run true plan s1 (SOp (EWrite i a d fl) :: mid) = (s2, tr2) ->
  forall i' a', In (OWriteOk (c_next (s_cl s1)) i' a') tr2 ->
    i' = i /\ a' = a /\ (forall x, s_mem s2 i x = mwrite (s_mem s1) i a d i x).

Definition rx_plan : nat -> Z := fun _ => 0.
Definition rx_mem : memory := fun _ a => a mod 256.

(* read 20 bytes at 0, reply delivered; read 5 bytes at 0: the old reply delivered again completes it with 20 bytes *)
Lemma read_exact_full_refuted : ~ read_exact_full.
Proof.
  intros H.
  pose (pre := [SOp (ERead 1 0 20); SDeliver 0]).
  pose (mid := [SDeliver 0]).
  pose (r1 := sys_run true rx_plan (sys_init rx_mem) pre).
  pose (r2 := sys_run true rx_plan (fst r1) (SOp (ERead 1 0 5) :: mid)).
  specialize (H rx_plan rx_mem pre (fst r1) (snd r1) 1 0 5 mid (fst r2) (snd r2)).
  specialize (H (surjective_pairing _)).
  assert (W : wf_event (ERead 1 0 5)) by (cbn; lia).
  specialize (H W). clear W.
  assert (W : Forall wf_sevent mid) by (repeat constructor).
  specialize (H W). clear W.
  specialize (H eq_refl (or_introl eq_refl)).
  assert (W : Forall (no_write_to 1) mid) by (repeat constructor).
  specialize (H W). clear W.
  specialize (H (surjective_pairing _) 1 0 (mread rx_mem 1 0 20)).
  assert (W : In (OReadOk (c_next (s_cl (fst r1))) 1 0 (mread rx_mem 1 0 20)) (snd r2)).
  { vm_compute. right. right. left. reflexivity. }
  destruct (H W) as (_ & _ & E & _).
  apply (f_equal (@length Z)) in E. vm_compute in E. discriminate E.
Qed.

(* write [1;2;3] at 0 acknowledged; write [7;8;9] at 0 is refused by the server (status 9), but the old
   acknowledgement delivered again reports it done: the image still holds 1,2,3 *)
Definition wx_plan : nat -> Z := fun k => match k with 1%nat => 9 | _ => 0 end.

Lemma write_exact_full_refuted : ~ write_exact_full.
Proof.
  intros H.
  pose (pre := [SOp (EWrite 1 0 [1; 2; 3] false); SDeliver 0]).
  pose (mid := [SDeliver 0]).
  pose (r1 := sys_run true wx_plan (sys_init rx_mem) pre).
  pose (r2 := sys_run true wx_plan (fst r1) (SOp (EWrite 1 0 [7; 8; 9] false) :: mid)).
  specialize (H wx_plan rx_mem pre (fst r1) (snd r1) 1 0 [7; 8; 9] false mid (fst r2) (snd r2)).
  specialize (H (surjective_pairing _)).
  assert (W : wf_event (EWrite 1 0 [7; 8; 9] false)).
  { cbn. repeat split; try lia. repeat constructor; unfold byte; lia. }
  specialize (H W). clear W.
  assert (W : Forall wf_sevent mid) by (repeat constructor).
  specialize (H W). clear W.
  specialize (H (or_intror eq_refl)).
  assert (W : Forall (no_write_to 1) mid) by (repeat constructor).
  specialize (H W). clear W.
  specialize (H (surjective_pairing _) 1 0).
  assert (W : In (OWriteOk (c_next (s_cl (fst r1))) 1 0) (snd r2)).
  { vm_compute. right. right. left. reflexivity. }
  destruct (H W) as (_ & _ & E).
  specialize (E 0). vm_compute in E. discriminate E.
Qed.

(* ---- non-vacuity of read_exact / write_exact: histories that satisfy every hypothesis, with duplicated,
   late and out-of-order replies, a refusal on another memory and traffic on other memories, in which the
   request does complete *)
Definition ex_plan : nat -> Z := fun k => match k with 2%nat => 7 | _ => 0 end.
Definition ex_pre : list sevent := [SOp (EWrite 3 10 [5; 6; 7] false); SDeliver 0; SDeliver 0].
Definition ex_mid_r : list sevent :=
  [SOp (ERead 2 0 30);        (* another memory: refused by the server (request number 2) *)
   SDeliver 1; SDeliver 1;    (* first chunk of our read, twice *)
   SOp (EWrite 3 0 (map Z.of_nat (seq 0 60)) false);
   SDeliver 2;                (* the refusal of the other read *)
   SDeliver 3;                (* second chunk of our read *)
   SDeliver 1;                (* a late duplicate of the first chunk *)
   SDeliver 5; SDeliver 4; SDeliver 6; SDeliver 7].

Example read_exact_instance :
  let s1 := fst (sys_run true ex_plan (sys_init rx_mem) ex_pre) in
  let r2 := sys_run true ex_plan s1 (SOp (ERead 1 7 45) :: ex_mid_r) in
  rd_get 1 (c_reads (s_cl s1)) = None /\ write_idle (s_cl s1) 1 /\ Forall (no_write_to 1) ex_mid_r /\
  all_fresh true ex_plan s1 (SOp (ERead 1 7 45) :: ex_mid_r) = true /\
  In (OReadOk (c_next (s_cl s1)) 1 7 (mread rx_mem 1 7 45)) (snd r2) /\
  In (OReadFail 2 2 0 []) (snd r2).
Proof.
  cbv zeta. split; [reflexivity|]. split; [left; reflexivity|]. split; [repeat constructor; discriminate|].
  split; [vm_compute; reflexivity|]. split; vm_compute; tauto.
Qed.

Definition ex_mid_w : list sevent :=
  [SOp (ERead 1 0 30); SDeliver 1; SDeliver 1; SDeliver 2; SDeliver 1; SDeliver 3; SDeliver 4; SDeliver 3;
   SDeliver 5].

Example write_exact_instance :
  let s1 := fst (sys_run true rx_plan (sys_init rx_mem) ex_pre) in
  let d := map (fun k => Z.of_nat k * 3 mod 256) (seq 0 60) in
  let r2 := sys_run true rx_plan s1 (SOp (EWrite 1 4294967236 d true) :: ex_mid_w) in
  write_idle (s_cl s1) 1 /\ Forall (no_write_to 1) ex_mid_w /\
  all_fresh true rx_plan s1 (SOp (EWrite 1 4294967236 d true) :: ex_mid_w) = true /\
  In (OWriteOk (c_next (s_cl s1)) 1 4294967236) (snd r2) /\
  mread (s_mem (fst r2)) 1 4294967236 60 = d.
Proof.
  cbv zeta. split; [left; reflexivity|]. split; [repeat constructor|].
  split; [vm_compute; reflexivity|]. split; [vm_compute; tauto|vm_compute; reflexivity].
Qed.
