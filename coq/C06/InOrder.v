(* C06/InOrder.v — in-order, exactly-once delivery: a transfer of any length takes exactly
   ceil(len / chunk) request packets, ends with the success notification, and moves exactly
   the right bytes. *)
From CF Require Import Common.Bytes C06.Model.
From Coq Require Import ZifyBool.
Open Scope Z_scope.

Ltac Zify.zify_post_hook ::= Z.to_euclidean_division_equations.

Definition deliver_from (k0 n : nat) : list sevent := map SDeliver (seq k0 n).
Definition nchunks (n c : Z) : nat := Z.to_nat (Z.max 1 ((n + c - 1) / c)).
Definition write_idle (c : client) (i : Z) : Prop :=
  wq_get i (c_writes c) = None \/ wq_get i (c_writes c) = Some [].

(* ================================================================ generic *)
Lemma wf_eventb_true e : wf_event e -> wf_eventb e = true.
Proof.
  destruct e as [i a n|i a d fl|ch d|]; cbn [wf_eventb wf_event].
  - lia.
  - intros (H1 & H2 & H3 & H4). apply bytesb_spec in H4. rewrite H4. lia.
  - apply bytesb_spec.
  - reflexivity.
Qed.

Lemma pow256_4 : 256 ^ Z.of_nat 4 = 4294967296.
Proof. reflexivity. Qed.

Lemma pow2_32 : 2 ^ 32 = 4294967296.
Proof. reflexivity. Qed.

Lemma le4_val c : 0 <= c < 4294967296 -> le_val (le_bytes 4 c) = c.
Proof. intros H. apply le_val_le_bytes_id. rewrite pow256_4. exact H. Qed.

Lemma hd4_firstn (h t : list Z) : length h = 4%nat -> firstn 4 (h ++ t) = h.
Proof.
  destruct h as [|b0 [|b1 [|b2 [|b3 [|b4 h]]]]]; try discriminate. intros _. reflexivity.
Qed.

Lemma hd4_skipn (h t : list Z) : length h = 4%nat -> skipn 4 (h ++ t) = t.
Proof.
  destruct h as [|b0 [|b1 [|b2 [|b3 [|b4 h]]]]]; try discriminate. intros _. reflexivity.
Qed.

Lemma hd4_nth (h t : list Z) x : length h = 4%nat -> nth 4 (h ++ x :: t) 0 = x.
Proof.
  destruct h as [|b0 [|b1 [|b2 [|b3 [|b4 h]]]]]; try discriminate. intros _. reflexivity.
Qed.

Lemma hd4_skipn5 (h t : list Z) x : length h = 4%nat -> skipn 5 (h ++ x :: t) = t.
Proof.
  destruct h as [|b0 [|b1 [|b2 [|b3 [|b4 h]]]]]; try discriminate. intros _. reflexivity.
Qed.

Lemma hd4_short (h t : list Z) x : length h = 4%nat -> (length (h ++ x :: t) <? 5)%nat = false.
Proof.
  intros H. rewrite app_length, H. cbn [length]. apply Nat.ltb_ge. lia.
Qed.

Lemma nth_error_snoc {A} (l : list A) x : nth_error (l ++ [x]) (length l) = Some x.
Proof. induction l as [|y l IH]; cbn; [reflexivity|exact IH]. Qed.

Lemma length_snoc {A} (l : list A) x : length (l ++ [x]) = S (length l).
Proof. rewrite app_length. cbn [length]. lia. Qed.

Lemma deliver_from_S k0 n : deliver_from k0 (S n) = SDeliver k0 :: deliver_from (S k0) n.
Proof. reflexivity. Qed.

Lemma sys_run_cons fx plan s e t s' o1 s2 tr2 :
  sys_step fx plan s e = (s', o1) ->
  sys_run fx plan s (e :: t) = (s2, tr2) ->
  exists o2, sys_run fx plan s' t = (s2, o2) /\ tr2 = o1 ++ o2.
Proof.
  intros Hs Hr. cbn [sys_run] in Hr. rewrite Hs in Hr.
  destruct (sys_run fx plan s' t) as [s3 o3]. injection Hr as <- <-.
  exists o3. split; reflexivity.
Qed.

Lemma sys_step_deliver fx plan s k u ch d :
  nth_error (s_log s) k = Some (u, ch, d) ->
  sys_step fx plan s (SDeliver k) =
    let '(c', os) := step fx (s_cl s) (EPkt ch d) in
    let '(m', lg', n') := serve_all plan (s_mem s) (s_log s) (s_n s) os in
    (mkS c' m' lg' n', os).
Proof. intros H. unfold sys_step. rewrite H. reflexivity. Qed.

(* ---- chunk arithmetic *)
Lemma nchunks20_small n : n <= 20 -> nchunks n 20 = 1%nat.
Proof. intros Hn. unfold nchunks. lia. Qed.

Lemma nchunks20_big n : 20 < n -> nchunks n 20 = S (nchunks (n - 20) 20).
Proof. intros Hn. unfold nchunks. lia. Qed.

(* ---- the read dictionary *)
Lemma rd_get_id i rs r : rd_get i rs = Some r -> r_id r = i.
Proof.
  induction rs as [|x t IH]; cbn [rd_get]; [discriminate|].
  destruct (r_id x =? i) eqn:E; [|exact IH]. intros [= <-]. lia.
Qed.

Lemma rd_get_snoc i rs r : rd_get i rs = None -> r_id r = i -> rd_get i (rs ++ [r]) = Some r.
Proof.
  intros H Hr. induction rs as [|x t IH]; cbn [rd_get app].
  - replace (r_id r =? i) with true by lia. reflexivity.
  - cbn [rd_get] in H. destruct (r_id x =? i); [discriminate|]. apply IH, H.
Qed.

Lemma rd_del_snoc i rs r : rd_get i rs = None -> r_id r = i -> rd_del i (rs ++ [r]) = rs.
Proof.
  intros H Hr. induction rs as [|x t IH]; cbn [rd_del app].
  - replace (r_id r =? i) with true by lia. reflexivity.
  - cbn [rd_get] in H. destruct (r_id x =? i); [discriminate|]. f_equal. apply IH, H.
Qed.

Lemma rd_get_set i rs r0 r' : rd_get i rs = Some r0 -> r_id r' = i -> rd_get i (rd_set r' rs) = Some r'.
Proof.
  intros H Hr. induction rs as [|x t IH]; cbn [rd_get] in H; [discriminate|].
  cbn [rd_set]. rewrite Hr. destruct (r_id x =? i) eqn:E; cbn [rd_get].
  - replace (r_id r' =? i) with true by lia. reflexivity.
  - rewrite E. apply IH, H.
Qed.

Lemma rd_del_set i rs r' : r_id r' = i -> rd_del i (rd_set r' rs) = rd_del i rs.
Proof.
  intros Hr. induction rs as [|x t IH]; cbn [rd_set rd_del]; [reflexivity|].
  rewrite Hr. destruct (r_id x =? i) eqn:E; cbn [rd_del].
  - replace (r_id r' =? i) with true by lia. reflexivity.
  - rewrite E. f_equal. exact IH.
Qed.

(* ---- server memory *)
Lemma mread_length m i a k : length (mread m i a k) = k.
Proof. revert a; induction k as [|k IH]; intros a; cbn [mread length]; [reflexivity|]. now rewrite IH. Qed.

Lemma mread_app m i p q : forall a,
  mread m i a (p + q) = mread m i a p ++ mread m i (a + Z.of_nat p) q.
Proof.
  induction p as [|p IH]; intros a.
  - cbn [Nat.add mread app]. f_equal. lia.
  - cbn [Nat.add mread app]. f_equal. rewrite IH. f_equal. f_equal. lia.
Qed.

Lemma mread_bytes m i k : (forall x, 0 <= m i x < 256) -> forall a, bytes (mread m i a k).
Proof.
  intros Hm. induction k as [|k IH]; intros a; cbn [mread]; constructor.
  - apply Hm.
  - apply IH.
Qed.

(* ================================================================ read *)
(* the server's answer to the request packet of the read record r *)
Definition rreply (m : memory) (r : rreq) : reply :=
  (r_uid r, ChRead,
   r_id r :: le_bytes 4 (r_cur r) ++ 0 :: mread m (r_id r) (r_cur r) (Z.to_nat (Z.min (r_left r) 20))).

Lemma serve_read0 m r : 0 <= r_cur r < 4294967296 -> serve 0 m (read_pkt r) = (m, [rreply m r]).
Proof.
  intros Hc. unfold read_pkt, serve, rreply, RCHUNK.
  change (0 =? 0) with true. cbv iota.
  rewrite hd4_firstn by apply le_bytes_length.
  rewrite hd4_nth by apply le_bytes_length.
  rewrite le4_val by exact Hc. reflexivity.
Qed.

Lemma do_read_reply_ok cl i r h dat :
  rd_get i (c_reads cl) = Some r -> length h = 4%nat -> le_val h = r_cur r ->
  do_read_reply cl i (h ++ 0 :: dat) =
    let r' := mkR (r_uid r) (r_id r) (r_addr r) (r_left r - zlen dat) (r_cur r + zlen dat) (r_data r ++ dat) in
    if 0 <? r_left r' then (set_reads cl (rd_set r' (c_reads cl)), [read_pkt r'])
    else (set_reads cl (rd_del i (c_reads cl)), [OReadOk (r_uid r) (r_id r) (r_addr r) (r_data r')]).
Proof.
  intros Hg Hh Hv. unfold do_read_reply.
  rewrite hd4_short by exact Hh. rewrite Hg.
  rewrite hd4_nth by exact Hh. rewrite hd4_firstn by exact Hh. rewrite hd4_skipn5 by exact Hh.
  change (0 =? 0) with true. cbv iota. rewrite Hv, Z.eqb_refl. reflexivity.
Qed.

(* one delivery in the middle of a read *)
Lemma read_deliver plan i cl m lg sn r :
  rd_get i (c_reads cl) = Some r ->
  0 <= r_cur r < 4294967296 -> r_cur r + r_left r <= 4294967296 -> 0 <= r_left r ->
  0 <= i < 256 -> (forall x, 0 <= m i x < 256) -> plan sn = 0 ->
  sys_step true plan (mkS cl m (lg ++ [rreply m r]) sn) (SDeliver (length lg)) =
    let dat := mread m i (r_cur r) (Z.to_nat (Z.min (r_left r) 20)) in
    let r' := mkR (r_uid r) (r_id r) (r_addr r) (r_left r - Z.min (r_left r) 20)
                  (r_cur r + Z.min (r_left r) 20) (r_data r ++ dat) in
    if 20 <? r_left r
    then (mkS (set_reads cl (rd_set r' (c_reads cl))) m ((lg ++ [rreply m r]) ++ [rreply m r']) (S sn),
          [read_pkt r'])
    else (mkS (set_reads cl (rd_del i (c_reads cl))) m (lg ++ [rreply m r]) sn,
          [OReadOk (r_uid r) (r_id r) (r_addr r) (r_data r ++ dat)]).
Proof.
  intros Hg Hc He Hl Hi Hm Hp.
  pose proof (rd_get_id _ _ _ Hg) as Hid. subst i.
  rewrite (sys_step_deliver true plan _ (length lg) (r_uid r) ChRead
             (r_id r :: le_bytes 4 (r_cur r) ++ 0 :: mread m (r_id r) (r_cur r) (Z.to_nat (Z.min (r_left r) 20))))
    by (cbn [s_log]; apply nth_error_snoc).
  cbn [s_cl s_mem s_log s_n]. set (i := r_id r) in *.
  unfold step.
  assert (Hwf : wf_eventb (EPkt ChRead (i :: le_bytes 4 (r_cur r) ++ 0 :: mread m i (r_cur r) (Z.to_nat (Z.min (r_left r) 20)))) = true).
  { apply wf_eventb_true. cbn [wf_event]. constructor; [exact Hi|].
    apply Forall_app. split; [apply le_bytes_bytes|]. constructor; [unfold byte; lia|].
    apply mread_bytes. exact Hm. }
  rewrite Hwf. cbn [negb]. cbv iota.
  rewrite (do_read_reply_ok cl i r) by (try exact Hg; try apply le_bytes_length; apply le4_val; exact Hc).
  cbv zeta. cbn [r_left].
  assert (Hz : zlen (mread m i (r_cur r) (Z.to_nat (Z.min (r_left r) 20))) = Z.min (r_left r) 20).
  { unfold zlen. rewrite mread_length. lia. }
  rewrite Hz.
  destruct (0 <? r_left r - Z.min (r_left r) 20) eqn:E1; destruct (20 <? r_left r) eqn:E2; try lia.
  - cbn [serve_all is_send read_pkt]. rewrite Hp.
    set (r' := mkR _ _ _ _ _ _).
    change (OSend (r_uid r) ChRead (r_id r :: le_bytes 4 (r_cur r + Z.min (r_left r) 20) ++ [Z.min (r_left r - Z.min (r_left r) 20) RCHUNK]))
      with (read_pkt r').
    rewrite serve_read0 by (subst r'; cbn [r_cur]; lia).
    reflexivity.
  - cbn [serve_all is_send]. reflexivity.
Qed.

Definition rd_ok (o : obs) : Prop :=
  match o with
  | OSend _ ChRead p => length p = 6%nat /\ 0 <= nth 5 p 0 <= 20
  | OSend _ _ _ => False
  | _ => True
  end.

Lemma read_pkt_ok r : 0 <= r_left r -> rd_ok (read_pkt r).
Proof.
  intros Hl. unfold read_pkt, rd_ok, RCHUNK. split.
  - cbn [length]. rewrite app_length, le_bytes_length. reflexivity.
  - cbn [nth]. rewrite hd4_nth by apply le_bytes_length. lia.
Qed.

Lemma read_loop plan i m :
  (forall x, 0 <= m i x < 256) -> 0 <= i < 256 ->
  forall k cl lg sn r s2 tr2,
  rd_get i (c_reads cl) = Some r -> rd_get i (rd_del i (c_reads cl)) = None ->
  0 <= r_cur r < 4294967296 -> r_cur r + r_left r <= 4294967296 -> 0 <= r_left r ->
  (forall j, (sn <= j)%nat -> plan j = 0) ->
  nchunks (r_left r) 20 = S k ->
  sys_run true plan (mkS cl m (lg ++ [rreply m r]) sn) (deliver_from (length lg) (S k)) = (s2, tr2) ->
  length (filter is_send tr2) = k /\
  (exists tr', tr2 = tr' ++ [OReadOk (r_uid r) i (r_addr r)
                               (r_data r ++ mread m i (r_cur r) (Z.to_nat (r_left r)))]) /\
  Forall rd_ok tr2 /\ rd_get i (c_reads (s_cl s2)) = None /\ s_mem s2 = m.
Proof.
  intros Hm Hi. induction k as [|k IH]; intros cl lg sn r s2 tr2 Hg Hu Hc He Hl Hp Hn Hrun.
  - (* last chunk *)
    assert (Hsmall : r_left r <= 20) by (unfold nchunks in Hn; lia).
    pose proof (read_deliver plan i cl m lg sn r Hg Hc He Hl Hi Hm (Hp sn (le_n sn))) as Hs.
    cbv zeta in Hs. replace (20 <? r_left r) with false in Hs by lia.
    rewrite deliver_from_S in Hrun.
    destruct (sys_run_cons _ _ _ _ _ _ _ _ _ Hs Hrun) as (o2 & Hr2 & ->).
    cbn [deliver_from seq map sys_run] in Hr2. injection Hr2 as <- <-.
    rewrite (rd_get_id _ _ _ Hg).
    replace (Z.min (r_left r) 20) with (r_left r) by lia.
    repeat split.
    + exists []. reflexivity.
    + repeat constructor.
    + cbn [s_cl set_reads c_reads]. exact Hu.
  - (* more to come *)
    assert (Hbig : 20 < r_left r).
    { destruct (Z_lt_le_dec 20 (r_left r)) as [H|H]; [exact H|].
      rewrite nchunks20_small in Hn by exact H. discriminate. }
    pose proof (read_deliver plan i cl m lg sn r Hg Hc He Hl Hi Hm (Hp sn (le_n sn))) as Hs.
    cbv zeta in Hs. replace (20 <? r_left r) with true in Hs by lia.
    replace (Z.min (r_left r) 20) with 20 in Hs by lia.
    rewrite deliver_from_S in Hrun.
    destruct (sys_run_cons _ _ _ _ _ _ _ _ _ Hs Hrun) as (o2 & Hr2 & ->).
    set (r' := mkR (r_uid r) (r_id r) (r_addr r) (r_left r - 20) (r_cur r + 20)
                   (r_data r ++ mread m i (r_cur r) (Z.to_nat 20))) in *.
    pose proof (rd_get_id _ _ _ Hg) as Hid.
    rewrite <- (length_snoc lg (rreply m r)) in Hr2.
    apply (IH (set_reads cl (rd_set r' (c_reads cl))) (lg ++ [rreply m r]) (S sn) r') in Hr2.
    + destruct Hr2 as (Hcnt & (tr' & Htr) & Hall & Hnone & Hmem).
      repeat split.
      * cbn [filter is_send read_pkt app length]. rewrite Hcnt. reflexivity.
      * exists (read_pkt r' :: tr'). cbn [app]. rewrite Htr. f_equal. f_equal.
        subst r'. cbn [r_uid r_addr r_data r_cur r_left].
        rewrite <- app_assoc. f_equal. f_equal.
        replace (Z.to_nat (r_left r)) with (Z.to_nat 20 + Z.to_nat (r_left r - 20))%nat by lia.
        rewrite mread_app. replace (Z.of_nat (Z.to_nat 20)) with 20 by lia. reflexivity.
      * constructor; [|exact Hall]. apply read_pkt_ok. subst r'. cbn [r_left]. lia.
      * exact Hnone.
      * exact Hmem.
    + cbn [set_reads c_reads]. apply (rd_get_set i _ r); [exact Hg|exact Hid].
    + cbn [set_reads c_reads]. rewrite rd_del_set by exact Hid. exact Hu.
    + subst r'. cbn [r_cur]. lia.
    + subst r'. cbn [r_cur r_left]. lia.
    + subst r'. cbn [r_left]. lia.
    + intros j Hj. apply Hp. lia.
    + subst r'. cbn [r_left]. rewrite nchunks20_big in Hn by exact Hbig. congruence.
Qed.

Lemma read_first plan cl m log sn i a n :
  wf_event (ERead i a n) -> rd_get i (c_reads cl) = None -> plan sn = 0 ->
  sys_step true plan (mkS cl m log sn) (SOp (ERead i a n)) =
    let r := mkR (c_next cl) i a n a [] in
    (mkS (mkC (c_reads cl ++ [r]) (c_writes cl) (c_leaked cl) (c_next cl + 1)) m (log ++ [rreply m r]) (S sn),
     [read_pkt r; ORet true]).
Proof.
  intros Hwf Hg Hp. unfold sys_step. cbn [s_cl s_mem s_log s_n].
  unfold step. rewrite (wf_eventb_true _ Hwf). cbn [negb]. cbv iota.
  unfold do_read. rewrite Hg. cbv zeta.
  set (r := mkR (c_next cl) i a n a []).
  cbn [serve_all is_send read_pkt]. rewrite Hp.
  change (OSend (r_uid r) ChRead (r_id r :: le_bytes 4 (r_cur r) ++ [Z.min (r_left r) RCHUNK])) with (read_pkt r).
  rewrite serve_read0.
  - reflexivity.
  - subst r. cbn [r_cur]. cbn [wf_event] in Hwf. rewrite pow2_32 in Hwf. lia.
Qed.

(* The statement needs the server's memory i to hold bytes: the reply carries the memory content
   and a packet whose payload is not a byte list is outside the domain of [step]. *)
Theorem read_in_order_mem_i : forall plan s1 i a n s2 tr2,
  wf_event (ERead i a n) ->
  rd_get i (c_reads (s_cl s1)) = None ->
  (forall k, (s_n s1 <= k)%nat -> plan k = 0) ->
  (forall x, 0 <= s_mem s1 i x < 256) ->
  sys_run true plan s1 (SOp (ERead i a n) :: deliver_from (length (s_log s1)) (nchunks n 20)) = (s2, tr2) ->
  length (filter is_send tr2) = nchunks n 20 /\
  (exists tr', tr2 = tr' ++ [OReadOk (c_next (s_cl s1)) i a (mread (s_mem s1) i a (Z.to_nat n))]) /\
  Forall (fun o => match o with
                   | OSend _ ChRead p => length p = 6%nat /\ 0 <= nth 5 p 0 <= 20
                   | OSend _ _ _ => False
                   | _ => True end) tr2 /\
  rd_get i (c_reads (s_cl s2)) = None /\
  (forall j x, s_mem s2 j x = s_mem s1 j x).
Proof.
  intros plan [cl m log sn] i a n s2 tr2 Hwf Hg Hp Hm Hrun.
  cbn [s_cl s_mem s_log s_n] in *.
  pose proof (read_first plan cl m log sn i a n Hwf Hg (Hp sn (le_n sn))) as Hs. cbv zeta in Hs.
  set (r := mkR (c_next cl) i a n a []) in *.
  destruct (sys_run_cons _ _ _ _ _ _ _ _ _ Hs Hrun) as (o2 & Hr2 & ->).
  cbn [wf_event] in Hwf. rewrite pow2_32 in Hwf. destruct Hwf as (Hi & Ha & Hn & Han).
  assert (Hk : exists k, nchunks n 20 = S k).
  { exists (pred (nchunks n 20)). unfold nchunks. lia. }
  destruct Hk as (k & Hk). rewrite Hk in Hr2 |- *.
  apply (read_loop plan i m Hm Hi k _ log (S sn) r) in Hr2.
  - destruct Hr2 as (Hcnt & (tr' & Htr) & Hall & Hnone & Hmem).
    repeat split.
    + cbn [app filter is_send read_pkt length]. rewrite Hcnt. reflexivity.
    + exists (read_pkt r :: ORet true :: tr'). rewrite Htr. reflexivity.
    + change (Forall rd_ok ([read_pkt r; ORet true] ++ o2)). cbn [app].
      constructor; [apply read_pkt_ok; exact Hn|]. constructor; [exact I|exact Hall].
    + exact Hnone.
    + intros j x. rewrite Hmem. reflexivity.
  - cbn [c_reads]. apply rd_get_snoc; [exact Hg|reflexivity].
  - cbn [c_reads]. rewrite rd_del_snoc by (try exact Hg; reflexivity). exact Hg.
  - cbn [r r_cur]. lia.
  - cbn [r r_cur r_left]. lia.
  - exact Hn.
  - intros j Hj. apply Hp. lia.
  - exact Hk.
Qed.

Theorem read_in_order : forall plan s1 i a n s2 tr2,
  wf_event (ERead i a n) ->
  rd_get i (c_reads (s_cl s1)) = None ->
  (forall k, (s_n s1 <= k)%nat -> plan k = 0) ->          (* the server refuses nothing from now on *)
  (forall j x, 0 <= s_mem s1 j x < 256) ->                (* the server's memories hold bytes *)
  sys_run true plan s1 (SOp (ERead i a n) :: deliver_from (length (s_log s1)) (nchunks n 20)) = (s2, tr2) ->
  length (filter is_send tr2) = nchunks n 20 /\
  (exists tr', tr2 = tr' ++ [OReadOk (c_next (s_cl s1)) i a (mread (s_mem s1) i a (Z.to_nat n))]) /\
  Forall (fun o => match o with
                   | OSend _ ChRead p => length p = 6%nat /\ 0 <= nth 5 p 0 <= 20
                   | OSend _ _ _ => False
                   | _ => True end) tr2 /\
  rd_get i (c_reads (s_cl s2)) = None /\
  (forall j x, s_mem s2 j x = s_mem s1 j x).
Proof.
  intros plan s1 i a n s2 tr2 Hwf Hg Hp Hm Hrun.
  apply (read_in_order_mem_i plan s1 i a n s2 tr2 Hwf Hg Hp (Hm i) Hrun).
Qed.

(* ================================================================ write *)
Lemma wq_get_set_same i q ws : wq_get i (wq_set i q ws) = Some q.
Proof.
  induction ws as [|[j q0] t IH]; cbn [wq_set wq_get].
  - rewrite Z.eqb_refl. reflexivity.
  - destruct (j =? i) eqn:E; cbn [wq_get]; rewrite E; [reflexivity|exact IH].
Qed.

Lemma zlen_app {A} (l1 l2 : list A) : zlen (l1 ++ l2) = zlen l1 + zlen l2.
Proof. unfold zlen. rewrite app_length. lia. Qed.

Lemma zlen_firstn (l : list Z) : zlen (firstn WCHUNK l) = Z.min 25 (zlen l).
Proof. unfold zlen, WCHUNK. rewrite firstn_length. lia. Qed.

Lemma zlen_skipn (l : list Z) : zlen (skipn WCHUNK l) = Z.max 0 (zlen l - 25).
Proof. unfold zlen, WCHUNK. rewrite skipn_length. lia. Qed.

Lemma mwrite_nil m i a j x : mwrite m i a [] j x = m j x.
Proof.
  unfold mwrite, zlen. cbn [length].
  destruct ((j =? i) && (a <=? x) && (x <? a + Z.of_nat 0)) eqn:E; [lia|reflexivity].
Qed.

Lemma mwrite_app m i a d1 d2 j x :
  mwrite (mwrite m i a d1) i (a + zlen d1) d2 j x = mwrite m i a (d1 ++ d2) j x.
Proof.
  unfold mwrite. rewrite zlen_app.
  pose proof (Zle_0_nat (length d1)) as H1. pose proof (Zle_0_nat (length d2)) as H2.
  fold (zlen d1) in H1. fold (zlen d2) in H2.
  destruct (j =? i) eqn:Ej; cbn [andb]; [|reflexivity].
  destruct (a + zlen d1 <=? x) eqn:E1; cbn [andb].
  - replace (a <=? x) with true by lia. cbn [andb].
    destruct (x <? a + zlen d1 + zlen d2) eqn:E2.
    + replace (x <? a + (zlen d1 + zlen d2)) with true by lia.
      rewrite app_nth2 by (unfold zlen in *; lia).
      f_equal. unfold zlen in *. lia.
    + replace (x <? a + (zlen d1 + zlen d2)) with false by lia.
      replace (x <? a + zlen d1) with false by lia. reflexivity.
  - destruct (a <=? x) eqn:E3; cbn [andb]; [|reflexivity].
    replace (x <? a + zlen d1) with true by lia.
    replace (x <? a + (zlen d1 + zlen d2)) with true by lia.
    rewrite app_nth1 by (unfold zlen in *; lia). reflexivity.
Qed.

(* the server's answer to the outstanding packet of the write record w *)
Definition wreply (w : wreq) : reply := (w_uid w, ChWrite, w_id w :: le_bytes 4 (w_cur w) ++ [0]).

Lemma serve_write0 m u i cur chunk :
  0 <= cur < 4294967296 ->
  serve 0 m (OSend u ChWrite (i :: le_bytes 4 cur ++ chunk)) =
    (mwrite m i cur chunk, [(u, ChWrite, i :: le_bytes 4 cur ++ [0])]).
Proof.
  intros Hc. unfold serve. change (0 =? 0) with true. cbv iota.
  rewrite hd4_firstn by apply le_bytes_length.
  rewrite hd4_skipn by apply le_bytes_length.
  rewrite le4_val by exact Hc. reflexivity.
Qed.

Lemma do_write_reply_last cl i w h :
  wq_get i (c_writes cl) = Some [w] -> c_leaked cl = false ->
  length h = 4%nat -> le_val h = w_cur w -> w_rest w = [] ->
  do_write_reply true cl i (h ++ [0]) =
    (set_writes cl (wq_set i [] (c_writes cl)), [OWriteOk (w_uid w) (w_id w) (w_addr w)]).
Proof.
  intros Hg Hlk Hh Hv Hr. unfold do_write_reply.
  rewrite hd4_short by exact Hh. rewrite Hg, Hlk.
  rewrite hd4_nth by exact Hh. rewrite hd4_firstn by exact Hh.
  change (0 =? 0) with true. cbv iota. rewrite Hv, Z.eqb_refl, Hr. reflexivity.
Qed.

Lemma do_write_reply_more cl i w h :
  wq_get i (c_writes cl) = Some [w] -> c_leaked cl = false ->
  length h = 4%nat -> le_val h = w_cur w -> w_rest w <> [] ->
  do_write_reply true cl i (h ++ [0]) =
    let chunk := firstn WCHUNK (w_rest w) in
    let w' := mkW (w_uid w) (w_id w) (w_addr w) (w_cur w + w_add w) (skipn WCHUNK (w_rest w)) (zlen chunk) in
    (set_writes cl (wq_set i [w'] (c_writes cl)),
     [OSend (w_uid w) ChWrite (w_id w :: le_bytes 4 (w_cur w + w_add w) ++ chunk)]).
Proof.
  intros Hg Hlk Hh Hv Hr. unfold do_write_reply.
  rewrite hd4_short by exact Hh. rewrite Hg, Hlk.
  rewrite hd4_nth by exact Hh. rewrite hd4_firstn by exact Hh.
  change (0 =? 0) with true. cbv iota. rewrite Hv, Z.eqb_refl.
  destruct (w_rest w) as [|z l] eqn:E; [congruence|].
  unfold w_start, w_advance. cbn [w_uid w_id w_addr w_cur w_rest w_add]. rewrite E. reflexivity.
Qed.

Lemma wreply_wf i w : 0 <= i < 256 -> w_id w = i ->
  wf_eventb (EPkt ChWrite (w_id w :: le_bytes 4 (w_cur w) ++ [0])) = true.
Proof.
  intros Hi Hid. apply wf_eventb_true. cbn [wf_event]. constructor; [unfold byte; lia|].
  apply Forall_app. split; [apply le_bytes_bytes|]. constructor; [unfold byte; lia|constructor].
Qed.

Lemma write_deliver_last plan i cl m lg sn w :
  wq_get i (c_writes cl) = Some [w] -> c_leaked cl = false -> w_id w = i -> 0 <= i < 256 ->
  0 <= w_cur w < 4294967296 -> w_rest w = [] ->
  sys_step true plan (mkS cl m (lg ++ [wreply w]) sn) (SDeliver (length lg)) =
    (mkS (set_writes cl (wq_set i [] (c_writes cl))) m (lg ++ [wreply w]) sn,
     [OWriteOk (w_uid w) i (w_addr w)]).
Proof.
  intros Hg Hlk Hid Hi Hc Hr.
  rewrite (sys_step_deliver true plan _ (length lg) (w_uid w) ChWrite (w_id w :: le_bytes 4 (w_cur w) ++ [0]))
    by (cbn [s_log]; apply nth_error_snoc).
  cbn [s_cl s_mem s_log s_n]. unfold step.
  rewrite (wreply_wf i w Hi Hid). cbn [negb]. cbv iota. rewrite Hid.
  rewrite (do_write_reply_last cl i w) by (try assumption; try apply le_bytes_length; apply le4_val; exact Hc).
  rewrite Hid. cbn [serve_all is_send]. reflexivity.
Qed.

Lemma write_deliver_more plan i cl m lg sn w :
  wq_get i (c_writes cl) = Some [w] -> c_leaked cl = false -> w_id w = i -> 0 <= i < 256 ->
  0 <= w_cur w < 4294967296 -> 0 <= w_cur w + w_add w < 4294967296 -> w_rest w <> [] -> plan sn = 0 ->
  sys_step true plan (mkS cl m (lg ++ [wreply w]) sn) (SDeliver (length lg)) =
    let chunk := firstn WCHUNK (w_rest w) in
    let w' := mkW (w_uid w) (w_id w) (w_addr w) (w_cur w + w_add w) (skipn WCHUNK (w_rest w)) (zlen chunk) in
    (mkS (set_writes cl (wq_set i [w'] (c_writes cl))) (mwrite m i (w_cur w + w_add w) chunk)
         ((lg ++ [wreply w]) ++ [wreply w']) (S sn),
     [OSend (w_uid w) ChWrite (i :: le_bytes 4 (w_cur w + w_add w) ++ chunk)]).
Proof.
  intros Hg Hlk Hid Hi Hc Hc2 Hr Hp.
  rewrite (sys_step_deliver true plan _ (length lg) (w_uid w) ChWrite (w_id w :: le_bytes 4 (w_cur w) ++ [0]))
    by (cbn [s_log]; apply nth_error_snoc).
  cbn [s_cl s_mem s_log s_n]. unfold step.
  rewrite (wreply_wf i w Hi Hid). cbn [negb]. cbv iota. rewrite Hid.
  rewrite (do_write_reply_more cl i w) by (try assumption; try apply le_bytes_length; apply le4_val; exact Hc).
  cbv zeta. rewrite Hid. cbn [serve_all is_send]. rewrite Hp.
  rewrite serve_write0 by exact Hc2.
  unfold wreply. cbn [w_uid w_id w_cur]. rewrite Hid. reflexivity.
Qed.

Definition wr_ok (o : obs) : Prop :=
  match o with
  | OSend _ ChWrite p => (length p <= 30)%nat
  | OSend _ _ _ => False
  | _ => True
  end.

Lemma write_pkt_ok u i cur (l : list Z) : wr_ok (OSend u ChWrite (i :: le_bytes 4 cur ++ firstn WCHUNK l)).
Proof.
  unfold wr_ok. cbn [length]. rewrite app_length, le_bytes_length.
  pose proof (firstn_le_length WCHUNK l) as H. unfold WCHUNK in *. lia.
Qed.

Lemma write_loop plan i :
  0 <= i < 256 ->
  forall k cl m lg sn w s2 tr2,
  wq_get i (c_writes cl) = Some [w] -> c_leaked cl = false -> w_id w = i ->
  0 <= w_cur w < 4294967296 -> 0 <= w_add w -> w_cur w + w_add w + zlen (w_rest w) <= 4294967296 ->
  (forall j, (sn <= j)%nat -> plan j = 0) ->
  Z.to_nat ((zlen (w_rest w) + 24) / 25) = k ->
  sys_run true plan (mkS cl m (lg ++ [wreply w]) sn) (deliver_from (length lg) (S k)) = (s2, tr2) ->
  length (filter is_send tr2) = k /\
  (exists tr', tr2 = tr' ++ [OWriteOk (w_uid w) i (w_addr w)]) /\
  Forall wr_ok tr2 /\
  (forall j x, s_mem s2 j x = mwrite m i (w_cur w + w_add w) (w_rest w) j x) /\
  wq_get i (c_writes (s_cl s2)) = Some [].
Proof.
  intros Hi. induction k as [|k IH]; intros cl m lg sn w s2 tr2 Hg Hlk Hid Hc Ha He Hp Hn Hrun.
  - (* the last acknowledgement *)
    assert (Hr : w_rest w = []).
    { destruct (w_rest w) as [|z l]; [reflexivity|]. unfold zlen in Hn. cbn [length] in Hn. lia. }
    pose proof (write_deliver_last plan i cl m lg sn w Hg Hlk Hid Hi Hc Hr) as Hs.
    rewrite deliver_from_S in Hrun.
    destruct (sys_run_cons _ _ _ _ _ _ _ _ _ Hs Hrun) as (o2 & Hr2 & ->).
    cbn [deliver_from seq map sys_run] in Hr2. injection Hr2 as <- <-.
    repeat split.
    + exists []. reflexivity.
    + repeat constructor.
    + intros j x. cbn [s_mem]. rewrite Hr, mwrite_nil. reflexivity.
    + cbn [s_cl set_writes c_writes]. apply wq_get_set_same.
  - (* more to come *)
    assert (Hr : w_rest w <> []).
    { intros E. rewrite E in Hn. unfold zlen in Hn. cbn [length] in Hn. lia. }
    assert (Hpos : 0 < zlen (w_rest w)).
    { destruct (w_rest w) as [|z l]; [congruence|]. unfold zlen. cbn [length]. lia. }
    assert (Hc2 : 0 <= w_cur w + w_add w < 4294967296) by lia.
    pose proof (write_deliver_more plan i cl m lg sn w Hg Hlk Hid Hi Hc Hc2 Hr (Hp sn (le_n sn))) as Hs.
    cbv zeta in Hs.
    rewrite deliver_from_S in Hrun.
    destruct (sys_run_cons _ _ _ _ _ _ _ _ _ Hs Hrun) as (o2 & Hr2 & ->).
    set (chunk := firstn WCHUNK (w_rest w)) in *.
    set (w' := mkW (w_uid w) (w_id w) (w_addr w) (w_cur w + w_add w) (skipn WCHUNK (w_rest w)) (zlen chunk)) in *.
    pose proof (zlen_firstn (w_rest w)) as Hzf. fold chunk in Hzf.
    pose proof (zlen_skipn (w_rest w)) as Hzs.
    rewrite <- (length_snoc lg (wreply w)) in Hr2.
    apply (IH (set_writes cl (wq_set i [w'] (c_writes cl))) _ (lg ++ [wreply w]) (S sn) w') in Hr2.
    + destruct Hr2 as (Hcnt & (tr' & Htr) & Hall & Hmem & Hidle).
      repeat split.
      * cbn [filter is_send app length]. rewrite Hcnt. reflexivity.
      * exists (OSend (w_uid w) ChWrite (i :: le_bytes 4 (w_cur w + w_add w) ++ chunk) :: tr').
        cbn [app]. rewrite Htr. reflexivity.
      * cbn [app]. constructor; [apply write_pkt_ok|exact Hall].
      * intros j x. rewrite Hmem. subst w'. cbn [w_cur w_add w_rest].
        rewrite mwrite_app. subst chunk. rewrite firstn_skipn. reflexivity.
      * exact Hidle.
    + cbn [set_writes c_writes]. apply wq_get_set_same.
    + cbn [set_writes c_leaked]. exact Hlk.
    + subst w'. cbn [w_id]. exact Hid.
    + subst w'. cbn [w_cur]. exact Hc2.
    + subst w'. cbn [w_add]. lia.
    + subst w'. cbn [w_cur w_add w_rest]. lia.
    + intros j Hj. apply Hp. lia.
    + subst w'. cbn [w_rest]. lia.
Qed.

Lemma write_first plan cl m log sn i a d fl :
  wf_event (EWrite i a d fl) -> c_leaked cl = false -> write_idle cl i -> plan sn = 0 ->
  sys_step true plan (mkS cl m log sn) (SOp (EWrite i a d fl)) =
    let w' := mkW (c_next cl) i a a (skipn WCHUNK d) (zlen (firstn WCHUNK d)) in
    (mkS (mkC (c_reads cl) (wq_set i [w'] (c_writes cl)) false (c_next cl + 1))
         (mwrite m i a (firstn WCHUNK d)) (log ++ [wreply w']) (S sn),
     [OSend (c_next cl) ChWrite (i :: le_bytes 4 a ++ firstn WCHUNK d); ORet true]).
Proof.
  intros Hwf Hlk Hidle Hp. unfold sys_step. cbn [s_cl s_mem s_log s_n].
  unfold step. rewrite (wf_eventb_true _ Hwf). cbn [negb]. cbv iota.
  unfold do_write. rewrite Hlk.
  assert (Hq : match wq_get i (c_writes cl) with Some q => q | None => [] end = []).
  { destruct Hidle as [E|E]; rewrite E; reflexivity. }
  rewrite Hq. cbv zeta.
  assert (Hq1 : (if fl then firstn 1 (@nil wreq) else []) = []) by (destruct fl; reflexivity).
  assert (Hdr : (if fl then map (fun w => OSuperseded (w_uid w)) (skipn 1 (@nil wreq)) else []) = [])
    by (destruct fl; reflexivity).
  rewrite Hq1, Hdr.
  unfold w_start. cbn [w_uid w_id w_addr w_cur w_rest w_add app].
  cbn [serve_all is_send]. rewrite Hp.
  cbn [wf_event] in Hwf. rewrite pow2_32 in Hwf.
  rewrite serve_write0 by lia. reflexivity.
Qed.

Theorem write_in_order : forall plan s1 i a d fl s2 tr2,
  wf_event (EWrite i a d fl) ->
  c_leaked (s_cl s1) = false ->
  write_idle (s_cl s1) i ->
  (forall k, (s_n s1 <= k)%nat -> plan k = 0) ->
  sys_run true plan s1 (SOp (EWrite i a d fl) :: deliver_from (length (s_log s1)) (nchunks (zlen d) 25)) = (s2, tr2) ->
  length (filter is_send tr2) = nchunks (zlen d) 25 /\
  (exists tr', tr2 = tr' ++ [OWriteOk (c_next (s_cl s1)) i a]) /\
  Forall (fun o => match o with
                   | OSend _ ChWrite p => (length p <= 30)%nat
                   | OSend _ _ _ => False
                   | _ => True end) tr2 /\
  (forall x, s_mem s2 i x = mwrite (s_mem s1) i a d i x) /\
  (forall j x, j <> i -> s_mem s2 j x = s_mem s1 j x) /\
  write_idle (s_cl s2) i.
Proof.
  intros plan [cl m log sn] i a d fl s2 tr2 Hwf Hlk Hidle Hp Hrun.
  cbn [s_cl s_mem s_log s_n] in *.
  pose proof (write_first plan cl m log sn i a d fl Hwf Hlk Hidle (Hp sn (le_n sn))) as Hs. cbv zeta in Hs.
  set (w' := mkW (c_next cl) i a a (skipn WCHUNK d) (zlen (firstn WCHUNK d))) in *.
  destruct (sys_run_cons _ _ _ _ _ _ _ _ _ Hs Hrun) as (o2 & Hr2 & ->).
  cbn [wf_event] in Hwf. rewrite pow2_32 in Hwf. destruct Hwf as (Hi & Ha & Han & Hd).
  pose proof (zlen_firstn d) as Hzf. pose proof (zlen_skipn d) as Hzs.
  assert (Hlen : 0 <= zlen d) by (unfold zlen; lia).
  assert (Hk : nchunks (zlen d) 25 = S (Z.to_nat ((zlen (w_rest w') + 24) / 25))).
  { subst w'. cbn [w_rest]. unfold nchunks. lia. }
  rewrite Hk in Hr2 |- *.
  apply (write_loop plan i Hi _ _ _ log (S sn) w') in Hr2.
  - destruct Hr2 as (Hcnt & (tr' & Htr) & Hall & Hmem & Hidle2).
    assert (Hfinal : forall j x, s_mem s2 j x = mwrite m i a d j x).
    { intros j x. rewrite Hmem. subst w'. cbn [w_cur w_add w_rest].
      rewrite mwrite_app, firstn_skipn. reflexivity. }
    repeat split.
    + cbn [app filter is_send length]. rewrite Hcnt. reflexivity.
    + exists (OSend (c_next cl) ChWrite (i :: le_bytes 4 a ++ firstn WCHUNK d) :: ORet true :: tr').
      rewrite Htr. reflexivity.
    + change (Forall wr_ok ([OSend (c_next cl) ChWrite (i :: le_bytes 4 a ++ firstn WCHUNK d); ORet true] ++ o2)).
      cbn [app]. constructor; [apply write_pkt_ok|]. constructor; [exact I|exact Hall].
    + intros x. apply Hfinal.
    + intros j x Hj. rewrite Hfinal. unfold mwrite. replace (j =? i) with false by lia. reflexivity.
    + right. exact Hidle2.
  - cbn [c_writes]. apply wq_get_set_same.
  - reflexivity.
  - reflexivity.
  - cbn [w' w_cur]. lia.
  - cbn [w' w_add]. lia.
  - cbn [w' w_cur w_add w_rest]. lia.
  - intros j Hj. apply Hp. lia.
  - reflexivity.
Qed.

Print Assumptions read_in_order_mem_i.
Print Assumptions read_in_order.
Print Assumptions write_in_order.
