(* C06/DeckProofs.v — the deck-memory layer with fixes/F06d.patch (fxd = true): every callback of the manager
   reports the deck-relative address that was asked, and the data / acknowledgement it hands over are those of a
   completed transfer of the manager's memory at asked + base.  Open system: arbitrary packets (forged, duplicated,
   error replies), disconnects, requests on other memories; one deck read and one deck write may be outstanding. *)
From CF Require Import Common.Bytes C06.Model C06.DeckModel C06.Proofs C06.ExactLemmas C06.Order.
From Coq Require Import ZifyBool.
Open Scope Z_scope.

Definition dnote_ok (x : obs + dobs) : Prop :=
  match x with
  | inr (DReadOk _ asked _ rep _) | inr (DReadFail _ asked _ rep)
  | inr (DWriteOk _ asked _ rep) | inr (DWriteFail _ asked _ rep) => rep = asked
  | _ => True
  end.

(* ================================================================ generic list facts *)
Lemma filter_nil_inv {A} (f : A -> bool) l : filter f l = [] -> Forall (fun x => f x = false) l.
Proof.
  induction l as [|a t IH]; cbn [filter]; intros H; [constructor|].
  destruct (f a) eqn:E; [discriminate H|]. constructor; [exact E|exact (IH H)].
Qed.

Lemma filter_single {A} (f : A -> bool) l x : filter f l = [x] ->
  exists l1 l2, l = l1 ++ x :: l2 /\ Forall (fun y => f y = false) l1 /\ Forall (fun y => f y = false) l2.
Proof.
  induction l as [|a t IH]; cbn [filter]; intros H; [discriminate H|].
  destruct (f a) eqn:E.
  - injection H as -> H. exists [], t. split; [reflexivity|]. split; [constructor|exact (filter_nil_inv f t H)].
  - destruct (IH H) as [l1 [l2 [-> [H1 H2]]]]. exists (a :: l1), l2. split; [reflexivity|].
    split; [constructor; [exact E|exact H1]|exact H2].
Qed.

Lemma rd_get_absent i rs : (forall r, In r rs -> r_id r <> i) -> rd_get i rs = None.
Proof.
  induction rs as [|x t IH]; cbn [rd_get]; intros H; [reflexivity|].
  destruct (r_id x =? i) eqn:E.
  - exfalso. apply (H x (or_introl eq_refl)). lia.
  - apply IH. intros r Hr. apply H. right. exact Hr.
Qed.

Lemma rd_get_del_same i rs : NoDup (map r_id rs) -> rd_get i (rd_del i rs) = None.
Proof. intros N. apply rd_get_absent. intros r Hr. exact (rd_del_ne r i rs N Hr). Qed.

Lemma rw_keys_ok g n ws : RW g n ws -> keys_ok ws.
Proof.
  intros [N H]. split; [exact N|]. apply Forall_forall. intros [j q] Hin. apply Forall_forall. intros w Hw.
  cbn [fst snd] in *. destruct (H j q w Hin Hw) as [_ [B _]]. exact B.
Qed.

Section DeckProofs.
Variable did : Z.

(* ================================================================ observations the manager ignores *)
Definition isn (o : obs) : bool :=
  match o with
  | OReadOk _ i _ _ | OReadFail _ i _ _ | OWriteOk _ i _ | OWriteFail _ i _ => i =? did
  | _ => false
  end.

Definition quietd (os : list obs) : Prop := Forall (fun o => isn o = false) os.

Ltac qt := unfold quietd; repeat (apply Forall_cons; [reflexivity|]); apply Forall_nil.

Lemma dnote_quiet d o : isn o = false -> dnote true did d o = (d, []).
Proof. destruct o; cbn [isn dnote]; intros H; try reflexivity; rewrite H; reflexivity. Qed.

Lemma dnotes_quiet d os : quietd os -> dnotes true did d os = (d, map inl os).
Proof.
  induction 1 as [|o t Ho _ IH]; cbn [dnotes map]; [reflexivity|].
  rewrite (dnote_quiet d o Ho), IH. reflexivity.
Qed.

Lemma dnotes_app d l1 l2 : dnotes true did d (l1 ++ l2) =
  let '(d1, t1) := dnotes true did d l1 in let '(d2, t2) := dnotes true did d1 l2 in (d2, t1 ++ t2).
Proof.
  revert d. induction l1 as [|o t IH]; intros d; cbn [app dnotes].
  - destruct (dnotes true did d l2) as [d2 t2]. reflexivity.
  - destruct (dnote true did d o) as [d1 x]. rewrite IH.
    destruct (dnotes true did d1 t) as [d2 y]. destruct (dnotes true did d2 l2) as [d3 z].
    cbn [app]. rewrite <- app_assoc. reflexivity.
Qed.

Lemma dnotes_mid d l1 o l2 d1 x : quietd l1 -> quietd l2 -> dnote true did d o = (d1, x) ->
  dnotes true did d (l1 ++ o :: l2) = (d1, map inl l1 ++ inl o :: map inr x ++ map inl l2).
Proof.
  intros Q1 Q2 H. rewrite dnotes_app, (dnotes_quiet d l1 Q1). cbn [dnotes].
  rewrite H, (dnotes_quiet d1 l2 Q2). reflexivity.
Qed.

(* ---- the four listeners when the callback is set *)
Lemma dnote_readok d u a dat t asked b : d_r d = Some (t, asked, b) -> a <> 0 ->
  dnote true did d (OReadOk u did a dat) =
  (mkD None (d_rbase d) (d_w d) (d_wbase d), [DReadOk t asked b (a - d_rbase d) dat]).
Proof.
  intros H N. cbn [dnote]. rewrite Z.eqb_refl. cbn [negb]. destruct (a =? 0) eqn:E; [lia|]. rewrite H. reflexivity.
Qed.

Lemma dnote_readfail d u a dat t asked b : d_r d = Some (t, asked, b) -> a <> 0 ->
  dnote true did d (OReadFail u did a dat) =
  (mkD None (d_rbase d) (d_w d) (d_wbase d), if has_fcb t then [DReadFail t asked b (a - d_rbase d)] else []).
Proof.
  intros H N. cbn [dnote]. rewrite Z.eqb_refl. cbn [negb]. destruct (a =? 0) eqn:E; [lia|]. rewrite H. reflexivity.
Qed.

Lemma dnote_writeok d u a t asked b : d_w d = Some (t, asked, b) ->
  dnote true did d (OWriteOk u did a) =
  (mkD (d_r d) (d_rbase d) None (d_wbase d), [DWriteOk t asked b (a - d_wbase d)]).
Proof. intros H. cbn [dnote]. rewrite Z.eqb_refl. cbn [negb]. rewrite H. reflexivity. Qed.

Lemma dnote_writefail d u a t asked b : d_w d = Some (t, asked, b) ->
  dnote true did d (OWriteFail u did a) =
  (mkD (d_r d) (d_rbase d) None (d_wbase d), if has_fcb t then [DWriteFail t asked b (a - d_wbase d)] else []).
Proof. intros H. cbn [dnote]. rewrite Z.eqb_refl. cbn [negb]. rewrite H. reflexivity. Qed.

(* ================================================================ what the client holds for memory did *)
Definition rv (c : client) : option Z := option_map r_addr (rd_get did (c_reads c)).
Definition qd (c : client) : list wreq := match wq_get did (c_writes c) with Some q => q | None => [] end.
Definition wv (c : client) : list Z := map w_addr (qd c).

(* one client step, seen from memory did *)
Inductive dspec (c c' : client) : list obs -> Prop :=
| DS_same os : rv c' = rv c -> wv c' = wv c -> quietd os -> dspec c c' os
| DS_read a o : rv c = Some a -> rv c' = None -> wv c' = wv c ->
    ((exists u dat, o = OReadOk u did a dat) \/ (exists u dat, o = OReadFail u did a dat)) ->
    dspec c c' [o]
| DS_write a t os1 o : wv c = a :: t -> wv c' = t -> rv c' = rv c -> quietd os1 ->
    ((exists u, o = OWriteOk u did a) \/ (exists u, o = OWriteFail u did a)) ->
    dspec c c' (os1 ++ [o]).

Lemma start_head_view q : map w_addr (fst (start_head q)) = map w_addr q /\ quietd (snd (start_head q)).
Proof.
  destruct q as [|w t]; cbn [start_head w_start fst snd map w_addr].
  - split; [reflexivity|constructor].
  - split; [reflexivity|qt].
Qed.

Lemma step_view g c e c' os : RC g c ->
  match e with ERead i _ _ => i <> did | EWrite i _ _ _ => i <> did | EDisc => False | _ => True end ->
  step true c e = (c', os) -> dspec c c' os.
Proof.
  intros [L [[Rn Rr] [Wn Ww]]] He. unfold step.
  assert (Same : forall os0, quietd os0 -> (c, os0) = (c', os) -> dspec c c' os).
  { intros os0 Q H. injection H as <- <-. apply DS_same; [reflexivity|reflexivity|exact Q]. }
  destruct (wf_eventb e); cbn [negb]; [|apply Same; qt].
  destruct e as [i a n|i a d fl|ch d|]; [| | |destruct He].
  - (* read on another memory *)
    unfold do_read. destruct (rd_get i (c_reads c)) eqn:G; [apply Same; qt|].
    cbv zeta. intros H; injection H as <- <-. apply DS_same; [|reflexivity|qt].
    unfold rv. cbn [c_reads]. rewrite rd_get_app. destruct (rd_get did (c_reads c)); [reflexivity|].
    cbn [rd_get r_id]. destruct (i =? did) eqn:E; [lia|reflexivity].
  - (* write on another memory *)
    unfold do_write. rewrite L. cbv zeta.
    set (q0 := match wq_get i (c_writes c) with Some q => q | None => [] end).
    assert (Hdr : quietd (if fl then map (fun w => OSuperseded (w_uid w)) (skipn 1 q0) else [])).
    { destruct fl; [|constructor]. apply Forall_forall. intros o Ho. apply in_map_iff in Ho.
      destruct Ho as [w [<- _]]. reflexivity. }
    assert (Hw : forall Q, wv (mkC (c_reads c) (wq_set i Q (c_writes c)) false (c_next c + 1)) = wv c).
    { intros Q. unfold wv, qd. cbn [c_writes]. rewrite wq_get_set. destruct (i =? did) eqn:E; [lia|reflexivity]. }
    destruct (if fl then firstn 1 q0 else q0) as [|w1 t1];
      cbn [w_start w_uid w_id w_addr w_cur w_rest w_add]; intros H; injection H as <- <-.
    + apply DS_same; [reflexivity|apply Hw|]. apply Forall_app. split; [exact Hdr|qt].
    + apply DS_same; [reflexivity|apply Hw|]. apply Forall_app. split; [exact Hdr|qt].
  - (* packet *)
    destruct d as [|i p]; [apply Same; qt|]. destruct ch; [| |apply Same; qt].
    + unfold do_read_reply. destruct (length p <? 5)%nat; [apply Same; qt|]. cbv zeta.
      destruct (rd_get i (c_reads c)) as [r|] eqn:G; [|apply Same; qt].
      destruct (rd_get_in _ _ _ G) as [Hr Hid].
      assert (Del : forall o, ((exists u dat, o = OReadOk u i (r_addr r) dat) \/
                               (exists u dat, o = OReadFail u i (r_addr r) dat)) ->
                dspec c (set_reads c (rd_del i (c_reads c))) [o]).
      { intros o Ho. destruct (Z.eq_dec i did) as [E|N].
        - rewrite E in *. apply DS_read with (a := r_addr r).
          + unfold rv. rewrite G. reflexivity.
          + unfold rv. cbn [set_reads c_reads]. rewrite rd_get_del_same by exact Rn. reflexivity.
          + reflexivity.
          + exact Ho.
        - apply DS_same.
          + unfold rv. cbn [set_reads c_reads]. rewrite rd_get_del_ne by lia. reflexivity.
          + reflexivity.
          + constructor; [|constructor]. destruct Ho as [[u [dat ->]]|[u [dat ->]]]; cbn [isn]; lia. }
      destruct (nth 4 p 0 =? 0).
      * destruct (le_val (firstn 4 p) =? r_cur r); [|apply Same; qt].
        destruct (0 <? _); intros H; injection H as <- <-.
        -- apply DS_same; [|reflexivity|qt].
           unfold rv. cbn [set_reads c_reads]. destruct (Z.eq_dec i did) as [E|N].
           ++ rewrite E in *. erewrite rd_get_set_eq; [|exact G|cbn [r_id]; exact Hid]. rewrite G. reflexivity.
           ++ rewrite rd_get_set_ne; [reflexivity|cbn [r_id]; lia].
        -- apply Del. left. eexists. eexists. rewrite Hid. reflexivity.
      * intros H; injection H as <- <-. apply Del. right. eexists. eexists. rewrite Hid. reflexivity.
    + unfold do_write_reply. destruct (length p <? 5)%nat; [apply Same; qt|]. cbv zeta.
      destruct (wq_get i (c_writes c)) as [[|w q]|] eqn:G; [apply Same; qt| |apply Same; qt].
      rewrite L.
      assert (Hwi : w_id w = i).
      { destruct (Ww i (w :: q) w (wq_get_in _ _ _ G) (or_introl eq_refl)) as [_ [B _]]. exact B. }
      assert (Pop : forall o, ((exists u, o = OWriteOk u i (w_addr w)) \/ (exists u, o = OWriteFail u i (w_addr w))) ->
         dspec c (set_writes c (wq_set i (fst (start_head q)) (c_writes c))) (snd (start_head q) ++ [o])).
      { intros o Ho. destruct (start_head_view q) as [Ha Hq]. destruct (Z.eq_dec i did) as [E|N].
        - rewrite E in *. apply DS_write with (a := w_addr w) (t := map w_addr q).
          + unfold wv, qd. rewrite G. reflexivity.
          + unfold wv, qd. cbn [set_writes c_writes]. rewrite wq_get_set, Z.eqb_refl. exact Ha.
          + reflexivity.
          + exact Hq.
          + exact Ho.
        - apply DS_same.
          + reflexivity.
          + unfold wv, qd. cbn [set_writes c_writes]. rewrite wq_get_set.
            destruct (i =? did) eqn:E; [lia|reflexivity].
          + apply Forall_app. split; [exact Hq|]. constructor; [|constructor].
            destruct Ho as [[u ->]|[u ->]]; cbn [isn]; lia. }
      destruct (nth 4 p 0 =? 0).
      * destruct (le_val (firstn 4 p) =? w_cur w); [|apply Same; qt].
        destruct (w_rest w) as [|b rest] eqn:Rw.
        -- destruct (start_head q) as [q' os1] eqn:Sh. cbn [fst snd] in Pop. intros H; injection H as <- <-.
           apply Pop. left. eexists. rewrite Hwi. reflexivity.
        -- cbn [w_start]. intros H; injection H as <- <-. apply DS_same; [reflexivity| |qt].
           unfold wv, qd. cbn [set_writes c_writes]. rewrite wq_get_set. destruct (i =? did) eqn:E; [|reflexivity].
           assert (Ei : i = did) by lia. rewrite Ei in *. rewrite G. reflexivity.
      * destruct (start_head q) as [q' os1] eqn:Sh. cbn [fst snd] in Pop. intros H; injection H as <- <-.
        apply Pop. right. eexists. rewrite Hwi. reflexivity.
Qed.

(* ================================================================ alignment of the manager with the client *)
Definition AR (v : option Z) (d : dm) : Prop :=
  match v, d_r d with
  | Some a, Some (t, asked, b) => a = asked + b /\ d_rbase d = b /\ 0 < a
  | None, None => True
  | _, _ => False
  end.

Definition AW (v : list Z) (d : dm) : Prop :=
  match v, d_w d with
  | [], None => True
  | [a], Some (t, asked, b) => a = asked + b /\ d_wbase d = b
  | _, _ => False
  end.

Definition Inv (d : dm) (c : client) : Prop := (exists g, RC g c) /\ AR (rv c) d /\ AW (wv c) d.

(* an element of a trace is fine, given the whole trace tr *)
Definition good (tr : list (obs + dobs)) (x : obs + dobs) : Prop :=
  match x with
  | inl _ => True
  | inr (DReadOk _ asked b rep dat) => rep = asked /\ exists u, In (inl (OReadOk u did (asked + b) dat)) tr
  | inr (DWriteOk _ asked b rep) => rep = asked /\ exists u, In (inl (OWriteOk u did (asked + b))) tr
  | inr (DReadFail _ asked _ rep) | inr (DWriteFail _ asked _ rep) => rep = asked
  | inr DRaise => False
  end.

(* the same without reference to a trace: failures only *)
Definition fgood (x : obs + dobs) : Prop :=
  match x with
  | inl _ => True
  | inr (DReadFail _ asked _ rep) | inr (DWriteFail _ asked _ rep) => rep = asked
  | inr _ => False
  end.

Lemma fgood_good tr x : fgood x -> good tr x.
Proof. destruct x as [o|[| | | |]]; cbn [fgood good]; intros H; try exact H; destruct H. Qed.

Lemma good_mono tr tr' x : incl tr tr' -> good tr x -> good tr' x.
Proof.
  intros I. destruct x as [o|[| | | |]]; cbn [good]; intros H; try exact H.
  - destruct H as [E [u Hu]]. split; [exact E|]. exists u. exact (I _ Hu).
  - destruct H as [E [u Hu]]. split; [exact E|]. exists u. exact (I _ Hu).
Qed.

Lemma fgood_inl os : Forall fgood (map inl os).
Proof. induction os as [|o t IH]; cbn [map]; constructor; [exact I|exact IH]. Qed.

Lemma good_inl tr os : Forall (good tr) (map inl os).
Proof. induction os as [|o t IH]; cbn [map]; constructor; [exact I|exact IH]. Qed.

(* ---- one client step other than a disconnect, followed by the listeners *)
Lemma dspec_notes d c c' os : AR (rv c) d -> AW (wv c) d -> dspec c c' os ->
  exists d2 tr, dnotes true did d os = (d2, tr) /\ AR (rv c') d2 /\ AW (wv c') d2 /\ Forall (good tr) tr.
Proof.
  intros HR HW S. destruct S as [os Er Ew Q|a o Er Er' Ew Ho|a t os1 o Ew Ew' Er Q Ho].
  - exists d, (map inl os). rewrite (dnotes_quiet d os Q), Er, Ew.
    split; [reflexivity|]. split; [exact HR|]. split; [exact HW|apply good_inl].
  - unfold AR in HR. rewrite Er in HR. destruct (d_r d) as [[[tk asked] b]|] eqn:Dr; [|destruct HR].
    destruct HR as [Ea [Eb Hp]].
    destruct Ho as [[u [dat ->]]|[u [dat ->]]].
    + exists (mkD None (d_rbase d) (d_w d) (d_wbase d)),
             [inl (OReadOk u did a dat); inr (DReadOk tk asked b (a - d_rbase d) dat)].
      cbn [dnotes]. rewrite (dnote_readok d u a dat tk asked b Dr) by lia. cbn [map app].
      split; [reflexivity|]. split; [rewrite Er'; exact I|]. split; [rewrite Ew; exact HW|].
      constructor; [exact I|]. constructor; [|constructor]. cbn [good]. split; [lia|].
      exists u. left. rewrite Ea. reflexivity.
    + exists (mkD None (d_rbase d) (d_w d) (d_wbase d)),
             (inl (OReadFail u did a dat) :: map inr (if has_fcb tk then [DReadFail tk asked b (a - d_rbase d)] else [])).
      cbn [dnotes]. rewrite (dnote_readfail d u a dat tk asked b Dr) by lia. rewrite app_nil_r.
      split; [reflexivity|]. split; [rewrite Er'; exact I|]. split; [rewrite Ew; exact HW|].
      constructor; [exact I|]. destruct (has_fcb tk); cbn [map]; [|constructor].
      constructor; [|constructor]. cbn [good]. lia.
  - unfold AW in HW. rewrite Ew in HW.
    destruct t as [|a2 t2]; [|destruct (d_w d); destruct HW].
    destruct (d_w d) as [[[tk asked] b]|] eqn:Dw; [|destruct HW].
    destruct HW as [Ea Eb].
    destruct Ho as [[u ->]|[u ->]].
    + exists (mkD (d_r d) (d_rbase d) None (d_wbase d)),
             (map inl os1 ++ inl (OWriteOk u did a) :: map inr [DWriteOk tk asked b (a - d_wbase d)] ++ map inl []).
      rewrite (dnotes_mid d os1 (OWriteOk u did a) [] _ _ Q (Forall_nil _) (dnote_writeok d u a tk asked b Dw)).
      split; [reflexivity|]. split; [rewrite Er; exact HR|]. split; [rewrite Ew'; exact I|].
      apply Forall_app. split; [apply good_inl|]. constructor; [exact I|]. cbn [map app].
      constructor; [|constructor]. cbn [good]. split; [lia|].
      exists u. apply in_or_app. right. left. rewrite Ea. reflexivity.
    + exists (mkD (d_r d) (d_rbase d) None (d_wbase d)),
             (map inl os1 ++ inl (OWriteFail u did a) ::
              map inr (if has_fcb tk then [DWriteFail tk asked b (a - d_wbase d)] else []) ++ map inl []).
      rewrite (dnotes_mid d os1 (OWriteFail u did a) [] _ _ Q (Forall_nil _) (dnote_writefail d u a tk asked b Dw)).
      split; [reflexivity|]. split; [rewrite Er; exact HR|]. split; [rewrite Ew'; exact I|].
      apply Forall_app. split; [apply good_inl|]. constructor; [exact I|]. destruct (has_fcb tk); cbn [map app]; [|constructor].
      constructor; [|constructor]. cbn [good]. lia.
Qed.

Lemma dev_nondisc g d c e0 c' os d2 tr0 : RC g c -> AR (rv c) d -> AW (wv c) d ->
  match e0 with ERead i _ _ => i <> did | EWrite i _ _ _ => i <> did | EDisc => False | _ => True end ->
  step true c e0 = (c', os) -> dnotes true did d os = (d2, tr0) ->
  AR (rv c') d2 /\ AW (wv c') d2 /\ Forall (good tr0) tr0.
Proof.
  intros HC HR HW He St Dn. pose proof (step_view g c e0 c' os HC He St) as S.
  destruct (dspec_notes d c c' os HR HW S) as [d2' [tr' [Dn' [H1 [H2 H3]]]]].
  rewrite Dn in Dn'. injection Dn' as <- <-. split; [exact H1|]. split; [exact H2|exact H3].
Qed.

(* ---- the disconnect: every record fails *)
Lemma quiet_fail_reads l : (forall x, In x l -> r_id x <> did) -> quietd (map fail_read l).
Proof.
  intros H. apply Forall_forall. intros o Ho. apply in_map_iff in Ho. destruct Ho as [x [<- Hx]].
  cbn [fail_read isn]. specialize (H x Hx). lia.
Qed.

Lemma quiet_fail_writes l : Forall (fun w => (w_id w =? did) = false) l -> quietd (map fail_write l).
Proof.
  intros H. apply Forall_forall. intros o Ho. apply in_map_iff in Ho. destruct Ho as [x [<- Hx]].
  cbn [fail_write isn]. rewrite Forall_forall in H. exact (H x Hx).
Qed.

Lemma dnotes_fail_reads d rs : NoDup (map r_id rs) -> AR (option_map r_addr (rd_get did rs)) d ->
  exists d1 tr, dnotes true did d (map fail_read rs) = (d1, tr) /\
                d_w d1 = d_w d /\ d_wbase d1 = d_wbase d /\ Forall fgood tr.
Proof.
  intros N HR. destruct (rd_get did rs) as [r|] eqn:G; cbn [option_map] in HR.
  - destruct (rd_get_split _ _ _ G) as (l1 & l2 & E & Hi & _ & _).
    unfold AR in HR. destruct (d_r d) as [[[tk asked] b]|] eqn:Dr; [|destruct HR].
    destruct HR as [Ea [Eb Hp]].
    rewrite E, map_app in N. cbn [map] in N. pose proof (NoDup_remove_2 _ _ _ N) as N2.
    assert (Q1 : quietd (map fail_read l1)).
    { apply quiet_fail_reads. intros x Hx Ex. apply N2. apply in_or_app. left.
      apply in_map_iff. exists x. split; [lia|exact Hx]. }
    assert (Q2 : quietd (map fail_read l2)).
    { apply quiet_fail_reads. intros x Hx Ex. apply N2. apply in_or_app. right.
      apply in_map_iff. exists x. split; [lia|exact Hx]. }
    rewrite E, map_app. cbn [map]. unfold fail_read at 2. rewrite Hi.
    eexists. eexists. split.
    + eapply dnotes_mid; [exact Q1|exact Q2|]. apply (dnote_readfail d _ _ _ tk asked b Dr). lia.
    + split; [reflexivity|]. split; [reflexivity|].
      apply Forall_app. split; [apply fgood_inl|]. constructor; [exact I|].
      destruct (has_fcb tk); cbn [map app]; [|apply fgood_inl].
      constructor; [cbn [fgood]; lia|apply fgood_inl].
  - exists d, (map inl (map fail_read rs)). split.
    + apply dnotes_quiet. apply quiet_fail_reads. exact (rd_get_none _ _ G).
    + split; [reflexivity|]. split; [reflexivity|apply fgood_inl].
Qed.

Lemma dnotes_fail_writes d ws : keys_ok ws ->
  AW (map w_addr (match wq_get did ws with Some q => q | None => [] end)) d ->
  exists d1 tr, dnotes true did d (map fail_write (concat (map snd ws))) = (d1, tr) /\ Forall fgood tr.
Proof.
  intros K HW. pose proof (allw_filter did ws K) as F. unfold allw in F.
  set (qq := match wq_get did ws with Some q => q | None => [] end) in *.
  set (l := concat (map snd ws)) in *. clearbody qq l.
  unfold AW in HW. destruct qq as [|w [|w2 t2]]; cbn [map] in HW.
  - exists d, (map inl (map fail_write l)). split; [|apply fgood_inl].
    apply dnotes_quiet. apply quiet_fail_writes. exact (filter_nil_inv _ _ F).
  - destruct (d_w d) as [[[tk asked] b]|] eqn:Dw; [|destruct HW]. destruct HW as [Ea Eb].
    destruct (filter_single _ _ _ F) as [l1 [l2 [-> [H1 H2]]]].
    assert (Hi : w_id w = did).
    { assert (Hin : In w (filter (fun w0 => w_id w0 =? did) (l1 ++ w :: l2))) by (rewrite F; left; reflexivity).
      apply filter_In in Hin. destruct Hin as [_ Hin]. lia. }
    rewrite map_app. cbn [map]. unfold fail_write at 2. rewrite Hi.
    eexists. eexists. split.
    + eapply dnotes_mid; [exact (quiet_fail_writes _ H1)|exact (quiet_fail_writes _ H2)|].
      apply (dnote_writefail d _ _ tk asked b Dw).
    + apply Forall_app. split; [apply fgood_inl|]. constructor; [exact I|].
      destruct (has_fcb tk); cbn [map app]; [|apply fgood_inl].
      constructor; [cbn [fgood]; lia|apply fgood_inl].
  - destruct (d_w d); destruct HW.
Qed.

(* ---- the two requests of the deck layer, when the manager accepts them *)
Lemma step_read_new c i a n : wf_event (ERead i a n) -> rd_get i (c_reads c) = None ->
  step true c (ERead i a n) =
  (mkC (c_reads c ++ [mkR (c_next c) i a n a []]) (c_writes c) (c_leaked c) (c_next c + 1),
   [read_pkt (mkR (c_next c) i a n a []); ORet true]).
Proof.
  intros W G. unfold step. rewrite (proj2 (wf_eventb_spec _) W). cbn [negb]. unfold do_read. rewrite G. reflexivity.
Qed.

Lemma step_write_new c i a dd : wf_event (EWrite i a dd true) -> c_leaked c = false ->
  match wq_get i (c_writes c) with Some q => q | None => [] end = [] ->
  step true c (EWrite i a dd true) =
  (mkC (c_reads c) (wq_set i [fst (w_start (mkW (c_next c) i a a dd 0))] (c_writes c)) false (c_next c + 1),
   [snd (w_start (mkW (c_next c) i a a dd 0)); ORet true]).
Proof.
  intros W L G. unfold step. rewrite (proj2 (wf_eventb_spec _) W). cbn [negb]. unfold do_write. rewrite L, G.
  reflexivity.
Qed.

(* ================================================================ one step of the deck layer *)
Lemma dstep_inv d c e dc' tr : Inv d c -> wf_devent did e -> dstep true did (d, c) e = (dc', tr) ->
  Inv (fst dc') (snd dc') /\ ((dev_event did d e = None /\ tr = [inr DRaise]) \/ Forall (good tr) tr).
Proof.
  intros [[g HC] [HR HW]] Wf. unfold dstep. cbn [fst snd].
  destruct e as [base addr len tok|base addr data tok|e0].
  - (* deck read *)
    cbn [dev_event]. destruct (d_r d) as [x|] eqn:Dr.
    + intros H; injection H as <- <-. cbn [fst snd].
      split; [split; [exists g; exact HC|split; assumption]|left; split; reflexivity].
    + destruct Wf as [Hb [Ha We]].
      assert (G : rd_get did (c_reads c) = None).
      { unfold AR, rv in HR. rewrite Dr in HR.
        destruct (rd_get did (c_reads c)); cbn [option_map] in HR; [destruct HR|reflexivity]. }
      pose proof (step_read_new c did (addr + base) len We G) as St.
      destruct (rc_step _ _ _ _ _ HC St) as [g' [HC' _]].
      rewrite St. cbv beta iota. rewrite dnotes_quiet by qt. cbn [is_disc].
      intros H; injection H as <- <-. cbn [fst snd].
      split; [|right; constructor; [exact I|constructor; [exact I|constructor]]].
      split; [exists g'; exact HC'|]. split; [|exact HW].
      unfold AR, rv. cbn [c_reads d_r d_rbase]. rewrite rd_get_app, G. cbn [rd_get r_id].
      rewrite Z.eqb_refl. cbn [option_map r_addr]. repeat split; lia.
  - (* deck write *)
    cbn [dev_event]. destruct (d_w d) as [x|] eqn:Dw.
    + intros H; injection H as <- <-. cbn [fst snd].
      split; [split; [exists g; exact HC|split; assumption]|left; split; reflexivity].
    + destruct Wf as [Hb [Ha We]].
      assert (G : qd c = []).
      { unfold AW, wv in HW. rewrite Dw in HW.
        destruct (qd c) as [|w [|w2 t2]]; cbn [map] in HW; [reflexivity|destruct HW|destruct HW]. }
      pose proof HC as [L _].
      pose proof (step_write_new c did (addr + base) data We L G) as St.
      destruct (rc_step _ _ _ _ _ HC St) as [g' [HC' _]].
      rewrite St. cbv beta iota. rewrite dnotes_quiet by (cbn [w_start snd]; qt). cbn [is_disc].
      intros H; injection H as <- <-. cbn [fst snd].
      split; [|right; constructor; [exact I|constructor; [exact I|constructor]]].
      split; [exists g'; exact HC'|]. split; [exact HR|].
      unfold AW, wv, qd. cbn [c_writes d_w d_wbase]. rewrite wq_get_set, Z.eqb_refl.
      cbn [w_start fst map w_addr]. split; reflexivity.
  - (* anything else *)
    cbn [dev_event]. destruct (step true c e0) as [c' os] eqn:St.
    destruct (rc_step _ _ _ _ _ HC St) as [g' [HC' _]].
    destruct (dnotes true did d os) as [d2 tr0] eqn:Dn. intros H; injection H as <- <-. cbn [fst snd].
    destruct e0 as [i a n|i a dd fl|ch p|]; cbn [is_disc wf_devent] in *.
    + destruct (dev_nondisc g d c (ERead i a n) c' os d2 tr0 HC HR HW Wf St Dn) as [H1 [H2 H3]].
      split; [split; [exists g'; exact HC'|split; assumption]|right; exact H3].
    + destruct (dev_nondisc g d c (EWrite i a dd fl) c' os d2 tr0 HC HR HW Wf St Dn) as [H1 [H2 H3]].
      split; [split; [exists g'; exact HC'|split; assumption]|right; exact H3].
    + destruct (dev_nondisc g d c (EPkt ch p) c' os d2 tr0 HC HR HW Wf St Dn) as [H1 [H2 H3]].
      split; [split; [exists g'; exact HC'|split; assumption]|right; exact H3].
    + (* disconnect *)
      pose proof HC as [L [[Rn _] HRW]].
      unfold step in St. cbn [wf_eventb negb] in St. unfold do_disc in St. rewrite L in St.
      injection St as <- <-.
      split.
      * split; [exists g'; exact HC'|]. split; exact I.
      * right. rewrite dnotes_app in Dn.
        destruct (dnotes_fail_reads d (c_reads c) Rn HR) as [d1 [t1 [E1 [Ew [Eb F1]]]]].
        rewrite E1 in Dn.
        assert (HW1 : AW (wv c) d1). { unfold AW. rewrite Ew, Eb. exact HW. }
        destruct (dnotes_fail_writes d1 (c_writes c) (rw_keys_ok _ _ _ HRW) HW1) as [d3 [t3 [E3 F3]]].
        rewrite E3 in Dn. injection Dn as <- <-.
        apply Forall_app. split; (eapply Forall_impl; [intros x Hx; apply fgood_good; exact Hx|assumption]).
Qed.

(* ================================================================ runs *)
Definition good' (tr : list (obs + dobs)) (x : obs + dobs) : Prop := x = inr DRaise \/ good tr x.

Lemma good'_mono tr tr' x : incl tr tr' -> good' tr x -> good' tr' x.
Proof. intros I [H|H]; [left; exact H|right; exact (good_mono tr tr' x I H)]. Qed.

Lemma drun_good evs : forall d c dc' tr, Inv d c -> Forall (wf_devent did) evs ->
  drun true did (d, c) evs = (dc', tr) -> Inv (fst dc') (snd dc') /\ Forall (good' tr) tr.
Proof.
  induction evs as [|e t IH]; intros d c dc' tr HI Wf R; cbn [drun] in R.
  - injection R as <- <-. split; [exact HI|constructor].
  - inversion Wf as [|? ? We Wt]; subst.
    destruct (dstep true did (d, c) e) as [[d1 c1] o1] eqn:St.
    destruct (drun true did (d1, c1) t) as [dc2 o2] eqn:Rt. injection R as <- <-.
    destruct (dstep_inv d c e _ _ HI We St) as [HI1 H1]. cbn [fst snd] in HI1.
    destruct (IH d1 c1 dc2 o2 HI1 Wt Rt) as [HI2 H2].
    split; [exact HI2|]. apply Forall_app. split.
    + assert (G1 : Forall (good' o1) o1).
      { destruct H1 as [[_ ->]|H1]; [constructor; [left; reflexivity|constructor]|].
        eapply Forall_impl; [|exact H1]. intros x Hx. right. exact Hx. }
      eapply Forall_impl; [|exact G1]. intros x Hx. apply (good'_mono o1); [apply incl_appl, incl_refl|exact Hx].
    + eapply Forall_impl; [|exact H2]. intros x Hx. apply (good'_mono o2); [apply incl_appr, incl_refl|exact Hx].
Qed.

Lemma inv_init : Inv dm_init c_init.
Proof.
  split; [|split; exact I]. exists (fun _ => 0). split; [reflexivity|].
  split; (split; [constructor|]); cbn; intros; contradiction.
Qed.

End DeckProofs.

(* ================================================================ the theorems *)
(* every callback of the deck layer reports the deck-relative address that was asked in the request it belongs to *)
Theorem deck_notifications_attributed : forall did evs, Forall (wf_devent did) evs ->
  Forall dnote_ok (snd (drun true did (dm_init, c_init) evs)).
Proof.
  intros did evs Wf. destruct (drun true did (dm_init, c_init) evs) as [dc tr] eqn:R. cbn [snd].
  destruct (drun_good did evs _ _ _ _ (inv_init did) Wf R) as [_ H].
  eapply Forall_impl; [|exact H]. intros x [-> | Hx]; [exact I|].
  destruct x as [o|[| | | |]]; cbn [good dnote_ok] in *; try exact I; try exact Hx; exact (proj1 Hx).
Qed.

(* the data a deck read hands over are the data of a completed transfer of the manager's memory at asked + base *)
Theorem deck_read_passes_through : forall did evs t asked b rep dat, Forall (wf_devent did) evs ->
  In (inr (DReadOk t asked b rep dat)) (snd (drun true did (dm_init, c_init) evs)) ->
  exists u, In (inl (OReadOk u did (asked + b) dat)) (snd (drun true did (dm_init, c_init) evs)).
Proof.
  intros did evs t asked b rep dat Wf. destruct (drun true did (dm_init, c_init) evs) as [dc tr] eqn:R. cbn [snd].
  destruct (drun_good did evs _ _ _ _ (inv_init did) Wf R) as [_ H]. intros Hin.
  rewrite Forall_forall in H. destruct (H _ Hin) as [E|Hx]; [discriminate E|].
  cbn [good] in Hx. exact (proj2 Hx).
Qed.

(* the same for the acknowledgement of a deck write *)
Theorem deck_write_passes_through : forall did evs t asked b rep, Forall (wf_devent did) evs ->
  In (inr (DWriteOk t asked b rep)) (snd (drun true did (dm_init, c_init) evs)) ->
  exists u, In (inl (OWriteOk u did (asked + b))) (snd (drun true did (dm_init, c_init) evs)).
Proof.
  intros did evs t asked b rep Wf. destruct (drun true did (dm_init, c_init) evs) as [dc tr] eqn:R. cbn [snd].
  destruct (drun_good did evs _ _ _ _ (inv_init did) Wf R) as [_ H]. intros Hin.
  rewrite Forall_forall in H. destruct (H _ Hin) as [E|Hx]; [discriminate E|].
  cbn [good] in Hx. exact (proj2 Hx).
Qed.

(* the listeners never raise: the only exception of a step is the manager's refusal ('operation ongoing') *)
Theorem deck_listeners_never_raise : forall did evs e, Forall (wf_devent did) evs -> wf_devent did e ->
  dev_event did (fst (fst (drun true did (dm_init, c_init) evs))) e <> None ->
  ~ In (inr DRaise) (snd (dstep true did (fst (drun true did (dm_init, c_init) evs)) e)).
Proof.
  intros did evs e Wf We Hn. destruct (drun true did (dm_init, c_init) evs) as [[d c] tr] eqn:R. cbn [fst] in *.
  destruct (drun_good did evs _ _ _ _ (inv_init did) Wf R) as [HI _]. cbn [fst snd] in HI.
  destruct (dstep true did (d, c) e) as [dc' tr'] eqn:St. cbn [snd].
  destruct (dstep_inv did d c e dc' tr' HI We St) as [_ [[E _]|H]]; [exact (False_ind _ (Hn E))|].
  intros Hin. rewrite Forall_forall in H. exact (H _ Hin).
Qed.

Print Assumptions deck_notifications_attributed.
Print Assumptions deck_read_passes_through.
Print Assumptions deck_write_passes_through.
Print Assumptions deck_listeners_never_raise.
