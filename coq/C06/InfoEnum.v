(* C06/InfoEnum.v — closed loop with a device that has no 1-wire memory: refresh() followed by the in-order
   delivery of every reply ends with exactly one refresh_done_callback and the element list is the device's list
   (flags true false false = the code as it is: commit ae515bf in, no guard on details replies, refresh() keeps
   _ow_mems_left_to_update).  The start state is arbitrary except that this list is empty. *)
From CF Require Import Common.Bytes C06.Model C06.InfoModel C06.Proofs.
From Coq Require Import ZifyBool.
Open Scope Z_scope.

Definition wf_devmem (d : devmem) : Prop :=
  let '(ty, size, addr) := d in
  0 <= ty < 256 /\ ty <> TYPE_1W /\ 0 <= size < 2 ^ 32 /\ length addr = 8%nat /\ bytes addr.

Definition expected_mems (dev : list devmem) : list mel :=
  map (fun p => let '(i, (ty, size, addr)) := p in mkM (Z.of_nat i) ty size addr None)
      (combine (seq 0 (length dev)) dev).

Definition deliver_from (k0 n : nat) : list isevent := map ISDeliver (seq k0 n).

(* ---------------------------------------------------------------- the expected list, recursively *)
Definition mk_mel (i : nat) (d : devmem) : mel :=
  let '(ty, size, addr) := d in mkM (Z.of_nat i) ty size addr None.

Fixpoint emems (i : nat) (dev : list devmem) : list mel :=
  match dev with
  | [] => []
  | d :: t => mk_mel i d :: emems (S i) t
  end.

Lemma expected_emems_gen dev : forall i,
  map (fun p : nat * devmem => let '(i, (ty, size, addr)) := p in mkM (Z.of_nat i) ty size addr None)
      (combine (seq i (length dev)) dev) = emems i dev.
Proof.
  induction dev as [|d t IH]; intros i; [reflexivity|].
  cbn [length seq combine map emems]. rewrite IH. destruct d as [[ty size] addr]. reflexivity.
Qed.

Lemma expected_emems dev : expected_mems dev = emems 0 dev.
Proof. unfold expected_mems. apply expected_emems_gen. Qed.

Lemma emems_app a : forall i b, emems i (a ++ b) = emems i a ++ emems (i + length a) b.
Proof.
  induction a as [|d t IH]; intros i b.
  - cbn [app emems length]. rewrite Nat.add_0_r. reflexivity.
  - cbn [app emems length]. rewrite IH. f_equal. f_equal. f_equal. lia.
Qed.

Lemma mk_mel_id i d : m_id (mk_mel i d) = Z.of_nat i.
Proof. destruct d as [[ty size] addr]. reflexivity. Qed.

Lemma mk_mel_ow i d : m_ow (mk_mel i d) = None.
Proof. destruct d as [[ty size] addr]. reflexivity. Qed.

Lemma get_mem_emems l : forall i z, Z.of_nat i + zlen l <= z -> get_mem z (emems i l) = None.
Proof.
  induction l as [|d t IH]; intros i z Hz; [reflexivity|].
  cbn [emems get_mem]. rewrite mk_mel_id. unfold zlen in Hz. cbn [length] in Hz.
  destruct (Z.of_nat i =? z) eqn:E; [lia|].
  apply IH. unfold zlen. lia.
Qed.

Lemma has_ow_emems l : forall i, has_ow (emems i l) = false.
Proof.
  unfold has_ow. induction l as [|d t IH]; intros i; [reflexivity|].
  cbn [emems existsb]. rewrite mk_mel_ow. cbn [orb]. apply IH.
Qed.

Lemma zlen_app {A} (a b : list A) : zlen (a ++ b) = zlen a + zlen b.
Proof. unfold zlen. rewrite app_length. lia. Qed.

(* ---------------------------------------------------------------- the device's replies *)
Definition det_reply (k : Z) (d : devmem) : ireply :=
  let '(ty, size, addr) := d in (-1, 0, [2; k; ty] ++ le_bytes 4 size ++ addr).

Lemma serve_details dev k d :
  nth_error dev (Z.to_nat k) = Some d -> serve_info dev [2; k] = [det_reply k d].
Proof.
  intros H. unfold serve_info. rewrite H. destruct d as [[ty size] addr]. reflexivity.
Qed.

Lemma nth_error_last {A} (l : list A) x : nth_error (l ++ [x]) (length l) = Some x.
Proof. rewrite nth_error_app2 by lia. rewrite Nat.sub_diag. reflexivity. Qed.

Lemma nth_error_mid {A} (a : list A) x b : nth_error (a ++ x :: b) (length a) = Some x.
Proof. rewrite nth_error_app2 by lia. rewrite Nat.sub_diag. reflexivity. Qed.

(* ---------------------------------------------------------------- failed reads are not served *)
Lemma iserve_all_fails plan dev m lg n rs rest :
  iserve_all plan dev m lg n (lift (map fail_read rs) ++ rest) = iserve_all plan dev m lg n rest.
Proof.
  induction rs as [|r t IH]; [reflexivity|].
  cbn [map lift app iserve_all fail_read is_send]. exact IH.
Qed.

Lemma not_in_lift (x : iobs) os : (forall o, x <> IO o) -> ~ In x (lift os).
Proof.
  intros Hx Hin. unfold lift in Hin. apply in_map_iff in Hin. destruct Hin as [o [E _]].
  apply (Hx o). symmetry. exact E.
Qed.

(* ---------------------------------------------------------------- one closed-loop step on an info packet *)
Lemma isys_step_info plan s k u b st' c' os m' lg' n' :
  nth_error (is_log s) k = Some (u, 0, b) ->
  istep true false false (is_st s, is_cl s) (IInfo b) = ((st', c'), os) ->
  iserve_all plan (is_dev s) (is_mem s) (is_log s) (is_n s) os = (m', lg', n') ->
  isys_step true false false plan s (ISDeliver k) = (mkIS st' c' m' (is_dev s) lg' n', os).
Proof.
  intros Hn Hs Hv. unfold isys_step. rewrite Hn. change (0 =? 0) with true. cbv iota.
  rewrite Hs, Hv. reflexivity.
Qed.

(* ---------------------------------------------------------------- the two handlers on the device's replies *)
Lemma le4_val' x : 0 <= x < 2 ^ 32 -> le_val (le_bytes 4 x) = x.
Proof. intros H. apply le_val_le_bytes_id. change (256 ^ Z.of_nat 4) with (2 ^ 32). exact H. Qed.

Lemma has_ow_app a b : has_ow (a ++ b) = has_ow a || has_ow b.
Proof. unfold has_ow. apply existsb_app. Qed.

Lemma details_packet mems fcb k nbr c ty size addr :
  get_mem k mems = None -> has_ow mems = false ->
  ty <> TYPE_1W -> 0 <= size < 2 ^ 32 -> length addr = 8%nat ->
  info_packet false (mkI mems true fcb k nbr [] true, c) ([2; k; ty] ++ le_bytes 4 size ++ addr) =
  if k + 1 <=? nbr - 1
  then ((mkI (mems ++ [mkM k ty size addr None]) true fcb (k + 1) nbr [] true, c),
        [IAdded k ty size None; ISend [2; k + 1]])
  else ((mkI (mems ++ [mkM k ty size addr None]) false false (k + 1) nbr [] true, c),
        [IAdded k ty size None; IDone]).
Proof.
  intros Hget How Hty Hsize Hlen.
  pose proof (le4_val' size Hsize) as Hval.
  pose proof (le_bytes_length 4 size) as Hlb.
  destruct (le_bytes 4 size) as [|b0 [|b1 [|b2 [|b3 [|b4 lb]]]]]; try discriminate Hlb.
  destruct addr as [|a0 [|a1 [|a2 [|a3 [|a4 [|a5 [|a6 [|a7 [|a8 ad]]]]]]]]]; try discriminate Hlen.
  unfold info_packet. cbn [app].
  change (2 =? 1) with false. change (2 =? 2) with true. cbv iota.
  cbn [i_getting negb andb length Nat.ltb Nat.leb nth i_fetch].
  try rewrite Z.eqb_refl. cbn [negb].
  cbn [skipn firstn i_mems]. rewrite Hget, Hval.
  assert (Ety : (ty =? TYPE_1W) = false) by (apply Z.eqb_neq; exact Hty).
  rewrite Ety. cbn [i_fetch i_nbr i_mems i_cb i_fcb i_left i_getting].
  destruct (k + 1 <=? nbr - 1) eqn:Hmore; [reflexivity|].
  rewrite has_ow_app, How. cbn [has_ow existsb m_ow orb].
  unfold call_done. cbn [i_cb clear_cbs i_mems i_fetch i_nbr i_left i_getting app]. reflexivity.
Qed.

Lemma det_reply_bytes k ty size addr :
  0 <= k < 256 -> 0 <= ty < 256 -> bytes addr ->
  bytesb ([2; k; ty] ++ le_bytes 4 size ++ addr) = true.
Proof.
  intros Hk Hty Ha. apply bytesb_spec. unfold bytes. cbn [app].
  repeat (apply Forall_cons; [unfold byte; lia|]).
  apply Forall_app. split; [apply le_bytes_bytes | exact Ha].
Qed.

(* ---------------------------------------------------------------- the conclusion *)
Definition final (dev : list devmem) (s2 : isys) (tr2 : list iobs) : Prop :=
  i_mems (is_st s2) = expected_mems dev /\
  i_cb (is_st s2) = false /\ i_fcb (is_st s2) = false /\ i_left (is_st s2) = [] /\
  (exists tr', tr2 = tr' ++ [IDone] /\ ~ In IDone tr' /\ ~ In IFailed tr').

Lemma final_prepend dev s tr os :
  final dev s tr -> ~ In IDone os -> ~ In IFailed os -> final dev s (os ++ tr).
Proof.
  intros [Hm [Hc [Hf [Hl [tr' [Htr [Hnd Hnf]]]]]]] Hd Hfl.
  unfold final. split; [exact Hm|]. split; [exact Hc|]. split; [exact Hf|]. split; [exact Hl|].
  exists (os ++ tr'). split; [rewrite Htr; apply app_assoc|].
  split; intros Hin; apply in_app_or in Hin; destruct Hin as [Hin|Hin]; contradiction.
Qed.

Lemma final_last dev s os :
  i_mems (is_st s) = expected_mems dev -> i_cb (is_st s) = false -> i_fcb (is_st s) = false ->
  i_left (is_st s) = [] -> ~ In IDone os -> ~ In IFailed os -> final dev s (os ++ [IDone]).
Proof.
  intros Hm Hc Hf Hl Hd Hfl.
  unfold final. split; [exact Hm|]. split; [exact Hc|]. split; [exact Hf|]. split; [exact Hl|].
  exists os. split; [reflexivity|]. split; assumption.
Qed.

(* ---------------------------------------------------------------- the enumeration loop *)
Section Loop.
  Variable plan : nat -> Z.
  Variable dev : list devmem.
  Variable fcb : bool.
  Hypothesis Hwf : Forall wf_devmem dev.
  Hypothesis Hlen : (length dev <= 255)%nat.

  (* state while the details of memory [length done] are awaited *)
  Definition mid (done : list devmem) : info :=
    mkI (emems 0 done) true fcb (zlen done) (zlen dev) [] true.

  Lemma detail_step (done : list devmem) ty size addr (rest : list devmem) c m lg0 n p :
    dev = done ++ (ty, size, addr) :: rest ->
    length lg0 = S p ->
    nth_error lg0 p = Some (det_reply (zlen done) (ty, size, addr)) ->
    isys_step true false false plan (mkIS (mid done) c m dev lg0 n) (ISDeliver p) =
    match rest with
    | [] => (mkIS (mkI (emems 0 dev) false false (zlen dev) (zlen dev) [] true) c m dev lg0 n,
             [IAdded (zlen done) ty size None; IDone])
    | d' :: _ => (mkIS (mid (done ++ [(ty, size, addr)])) c m dev
                       (lg0 ++ [det_reply (zlen (done ++ [(ty, size, addr)])) d']) (S n),
                  [IAdded (zlen done) ty size None; ISend [2; zlen done + 1]])
    end.
  Proof.
    intros Hdev Hlg Hnth.
    assert (Hin : In (ty, size, addr) dev) by (rewrite Hdev; apply in_or_app; right; left; reflexivity).
    pose proof (proj1 (Forall_forall _ _) Hwf _ Hin) as Hd. unfold wf_devmem in Hd.
    destruct Hd as [Hty [Hty1 [Hsize [Hal Hab]]]].
    assert (Hzl : zlen dev = zlen done + 1 + zlen rest).
    { rewrite Hdev. unfold zlen. rewrite app_length. cbn [length]. lia. }
    assert (Hzd : 0 <= zlen done) by (unfold zlen; lia).
    assert (Hzr : 0 <= zlen rest) by (unfold zlen; lia).
    assert (Hz255 : zlen dev <= 255) by (unfold zlen; lia).
    assert (Hgm : get_mem (zlen done) (emems 0 done) = None).
    { apply get_mem_emems. unfold zlen. lia. }
    pose proof (details_packet (emems 0 done) fcb (zlen done) (zlen dev) c ty size addr
                  Hgm (has_ow_emems done 0%nat) Hty1 Hsize Hal) as Hpk.
    fold (mid done) in Hpk.
    assert (Hem : emems 0 done ++ [mkM (zlen done) ty size addr None] = emems 0 (done ++ [(ty, size, addr)])).
    { rewrite emems_app. cbn [emems mk_mel Nat.add]. reflexivity. }
    rewrite Hem in Hpk.
    destruct rest as [|d' rest'].
    - assert (Hmore : (zlen done + 1 <=? zlen dev - 1) = false).
      { unfold zlen at 3 in Hzl. cbn [length] in Hzl. lia. }
      rewrite Hmore in Hpk.
      assert (Hdev' : dev = done ++ [(ty, size, addr)]) by exact Hdev.
      rewrite <- Hdev' in Hpk.
      replace (zlen done + 1) with (zlen dev) in Hpk by (unfold zlen at 3 in Hzl; cbn [length] in Hzl; lia).
      eapply isys_step_info.
      + cbn [is_log]. exact Hnth.
      + cbn [is_st is_cl istep]. unfold det_reply in Hnth |- *.
        rewrite det_reply_bytes by (try assumption; lia). exact Hpk.
      + cbn [iserve_all is_dev is_mem is_log is_n]. reflexivity.
    - assert (Hmore : (zlen done + 1 <=? zlen dev - 1) = true).
      { unfold zlen at 3 in Hzl. cbn [length] in Hzl. lia. }
      rewrite Hmore in Hpk.
      assert (Hz1 : zlen (done ++ [(ty, size, addr)]) = zlen done + 1).
      { rewrite zlen_app. reflexivity. }
      unfold mid at 2. rewrite Hz1.
      eapply isys_step_info.
      + cbn [is_log]. exact Hnth.
      + cbn [is_st is_cl istep].
        rewrite det_reply_bytes by (try assumption; lia). exact Hpk.
      + cbn [iserve_all is_dev is_mem is_log is_n].
        rewrite (serve_details dev (zlen done + 1) d'); [reflexivity|].
        replace (Z.to_nat (zlen done + 1)) with (length (done ++ [(ty, size, addr)]))
          by (rewrite app_length; cbn [length]; unfold zlen; lia).
        rewrite Hdev. change (done ++ (ty, size, addr) :: d' :: rest') with (done ++ [(ty, size, addr)] ++ d' :: rest').
        rewrite app_assoc. apply nth_error_mid.
  Qed.

  Lemma fetch_loop (rest : list devmem) : forall (done : list devmem) (d : devmem) c m lg0 n p s2 tr2,
    dev = done ++ d :: rest ->
    length lg0 = S p ->
    nth_error lg0 p = Some (det_reply (zlen done) d) ->
    isys_run true false false plan (mkIS (mid done) c m dev lg0 n) (deliver_from p (S (length rest))) = (s2, tr2) ->
    final dev s2 tr2.
  Proof.
    induction rest as [|d' rest' IH]; intros done d c m lg0 n p s2 tr2 Hdev Hlg Hnth Hrun;
      destruct d as [[ty size] addr].
    - unfold deliver_from in Hrun. cbn [length seq map isys_run] in Hrun.
      rewrite (detail_step done ty size addr [] c m lg0 n p Hdev Hlg Hnth) in Hrun.
      injection Hrun as <- <-. try rewrite app_nil_r.
      apply (final_last dev _ [IAdded (zlen done) ty size None]); cbn [is_st i_mems i_cb i_fcb i_left];
        try reflexivity.
      + symmetry. apply expected_emems.
      + intros [H|[]]; discriminate H.
      + intros [H|[]]; discriminate H.
    - unfold deliver_from in Hrun. cbn [length] in Hrun.
      change (seq p (S (S (length rest')))) with (p :: seq (S p) (S (length rest'))) in Hrun.
      cbn [map isys_run] in Hrun.
      rewrite (detail_step done ty size addr (d' :: rest') c m lg0 n p Hdev Hlg Hnth) in Hrun.
      match type of Hrun with
      | (let '(s2, o2) := ?X in _) = _ => destruct X as [s3 tr3] eqn:Hrest
      end.
      injection Hrun as <- <-.
      apply (final_prepend dev s3 tr3 [IAdded (zlen done) ty size None; ISend [2; zlen done + 1]]).
      { eapply (IH (done ++ [(ty, size, addr)]) d' c m _ (S n) (S p)); [| | |exact Hrest].
        - rewrite <- app_assoc. exact Hdev.
        - rewrite app_length. cbn [length]. lia.
        - rewrite <- Hlg. apply nth_error_last. }
      + intros [H|[H|[]]]; discriminate H.
      + intros [H|[H|[]]]; discriminate H.
  Qed.
End Loop.

(* ---------------------------------------------------------------- refresh and the NBR reply *)
Theorem enumeration_in_order : forall plan st c m dev lg n fcb s2 tr2,
  Forall wf_devmem dev -> (length dev <= 255)%nat ->
  i_left st = [] ->          (* no 1-wire update of an interrupted enumeration is left over *)
  isys_run true false false plan (mkIS st c m dev lg n)
           (ISOp (IRefresh fcb) :: deliver_from (length lg) (S (length dev))) = (s2, tr2) ->
  i_mems (is_st s2) = expected_mems dev /\
  i_cb (is_st s2) = false /\ i_fcb (is_st s2) = false /\ i_left (is_st s2) = [] /\
  (exists tr', tr2 = tr' ++ [IDone] /\ ~ In IDone tr' /\ ~ In IFailed tr').
Proof.
  intros plan st c m dev lg n fcb s2 tr2 Hwf Hlen Hleft Hrun.
  destruct st as [ms0 cb0 fcb0 fe0 nb0 lf0 gt0]. cbn [i_left] in Hleft. subst lf0.
  set (st := mkI ms0 cb0 fcb0 fe0 nb0 [] gt0) in *.
  change (final dev s2 tr2).
  cbn [isys_run] in Hrun.
  (* step 0: refresh *)
  set (c0 := mkC [] (c_writes c) (c_leaked c) (c_next c)) in *.
  set (lg1 := lg ++ [(-1, 0, [1; zlen dev])]).
  assert (H0 : isys_step true false false plan (mkIS st c m dev lg n) (ISOp (IRefresh fcb)) =
               (mkIS (mkI [] true fcb 0 0 [] false) c0 m dev lg1 (S n),
                lift (map fail_read (c_reads c)) ++ [ISend [1]])).
  { unfold isys_step. cbn [istep do_refresh is_st is_cl is_dev is_mem is_log is_n].
    rewrite iserve_all_fails. cbn [iserve_all serve_info]. reflexivity. }
  rewrite H0 in Hrun. clear H0.
  match type of Hrun with
  | (let '(s2, o2) := ?X in _) = _ => destruct X as [s3 tr3] eqn:Hrest
  end.
  injection Hrun as <- <-.
  assert (Hnf : forall x, (forall o, x <> IO o) -> x <> ISend [1] ->
                ~ In x (lift (map fail_read (c_reads c)) ++ [ISend [1]])).
  { intros x Hx Hx1 Hin. apply in_app_or in Hin. destruct Hin as [Hin|[Hin|[]]].
    - revert Hin. apply not_in_lift. exact Hx.
    - apply Hx1. symmetry. exact Hin. }
  assert (Hfin : final dev s3 tr3).
  { unfold deliver_from in Hrest. cbn [seq map isys_run] in Hrest.
    assert (Hz255 : 0 <= zlen dev <= 255) by (unfold zlen; lia).
    assert (Hnth : nth_error lg1 (length lg) = Some (-1, 0, [1; zlen dev])) by apply nth_error_last.
    assert (Hb : bytesb [1; zlen dev] = true).
    { apply bytesb_spec. repeat (apply Forall_cons; [unfold byte; lia|]). constructor. }
    destruct dev as [|d rest].
    - (* no memory: the NBR handler completes the refresh *)
      rewrite (isys_step_info plan _ (length lg) (-1) [1; zlen (@nil devmem)]
                 (mkI [] false false 0 0 [] false) c0 [IDone] m lg1 (S n)) in Hrest.
      + injection Hrest as <- <-. try rewrite app_nil_r.
        apply (final_last [] _ []); cbn [is_st i_mems i_cb i_fcb i_left]; try reflexivity; intros [].
      + exact Hnth.
      + cbn [is_st is_cl istep]. rewrite Hb. reflexivity.
      + reflexivity.
    - (* at least one memory: details of memory 0 are requested *)
      rewrite (isys_step_info plan _ (length lg) (-1) [1; zlen (d :: rest)]
                 (mid (d :: rest) fcb []) c0 [ISend [2; 0]] m (lg1 ++ [det_reply 0 d]) (S (S n))) in Hrest.
      + match type of Hrest with
        | (let '(s2, o2) := ?X in _) = _ => destruct X as [s4 tr4] eqn:Hloop
        end.
        injection Hrest as <- <-.
        apply (final_prepend (d :: rest) s4 tr4 [ISend [2; 0]]).
        { eapply (fetch_loop plan (d :: rest) fcb Hwf Hlen rest [] d c0 m _ (S (S n)) (S (length lg)));
            [reflexivity | | | exact Hloop].
          - unfold lg1. rewrite !app_length. cbn [length]. lia.
          - replace (S (length lg)) with (length lg1) by (unfold lg1; rewrite app_length; cbn [length]; lia).
            apply nth_error_last. }
        { intros [H|[]]; discriminate H. }
        { intros [H|[]]; discriminate H. }
      + exact Hnth.
      + cbn [is_st is_cl istep]. rewrite Hb. unfold info_packet.
        change (1 =? 1) with true. cbv iota. cbn [i_getting].
        assert (Hpos : (0 <? zlen (d :: rest)) = true) by (unfold zlen; cbn [length]; lia).
        rewrite Hpos. reflexivity.
      + cbn [iserve_all is_dev is_mem is_log is_n].
        rewrite (serve_details (d :: rest) 0 d) by reflexivity. reflexivity. }
  apply final_prepend; [exact Hfin | |]; apply Hnf; intros; discriminate.
Qed.

Print Assumptions enumeration_in_order.
