(* C06/Proofs.v — invariants of the client model (open system: arbitrary packets, arbitrary histories). *)
From CF Require Import Common.Bytes C06.Model.
From Coq Require Import ZifyBool Permutation Sorted.
Open Scope Z_scope.

(* ================================================================ domain *)
Lemma wf_eventb_spec e : wf_eventb e = true <-> wf_event e.
Proof.
  destruct e as [i a n|i a d fl|ch d|]; cbn [wf_eventb wf_event].
  - rewrite !andb_true_iff, !Z.leb_le, !Z.ltb_lt. tauto.
  - rewrite !andb_true_iff, bytesb_spec, !Z.leb_le, !Z.ltb_lt. tauto.
  - apply bytesb_spec.
  - tauto.
Qed.

(* ================================================================ the lock (fx = true) *)
Lemma step_leaked_fixed c e : c_leaked c = false -> c_leaked (fst (step true c e)) = false.
Proof.
  intros L. unfold step. destruct (negb (wf_eventb e)); [exact L|].
  destruct e as [i a n|i a d fl|ch d|]; cbn [fst].
  - unfold do_read. destruct (rd_get i (c_reads c)); exact L.
  - unfold do_write. rewrite L.
    destruct (if fl then firstn 1 _ else _); [destruct (w_start _)|]; reflexivity.
  - destruct d as [|i p]; [exact L|]. destruct ch; [| |exact L].
    + unfold do_read_reply. destruct (length p <? 5)%nat; [exact L|].
      destruct (rd_get i (c_reads c)) as [r|]; [|exact L].
      destruct (nth 4 p 0 =? 0); [|exact L].
      destruct (le_val (firstn 4 p) =? r_cur r); [|exact L].
      destruct (0 <? _); exact L.
    + unfold do_write_reply. destruct (length p <? 5)%nat; [exact L|].
      destruct (wq_get i (c_writes c)) as [[|w q]|]; [exact L| |exact L].
      rewrite L. destruct (nth 4 p 0 =? 0).
      * destruct (le_val (firstn 4 p) =? w_cur w); [|exact L].
        destruct (w_rest w); [destruct (start_head q)|destruct (w_start _)]; exact L.
      * destruct (start_head q); exact L.
  - unfold do_disc. rewrite L. reflexivity.
Qed.

Lemma run_leaked_fixed evs : forall c, c_leaked c = false -> c_leaked (fst (run true c evs)) = false.
Proof.
  induction evs as [|e t IH]; intros c L; cbn [run]; [exact L|].
  pose proof (step_leaked_fixed c e L) as H1. destruct (step true c e) as [c1 o1]. cbn [fst] in H1.
  specialize (IH c1 H1). destruct (run true c1 t) as [c2 o2]. exact IH.
Qed.

(* generic: an invariant of (state, trace so far) that every step preserves holds after every run *)
Section RunInv.
  Variable fx : bool.
  Variable I : client -> list obs -> Prop.
  Hypothesis I_step : forall c tr e, I c tr -> I (fst (step fx c e)) (tr ++ snd (step fx c e)).

  Lemma run_inv evs : forall c tr, I c tr -> I (fst (run fx c evs)) (tr ++ snd (run fx c evs)).
  Proof.
    induction evs as [|e t IH]; intros c tr H; cbn [run].
    - cbn [fst snd]. rewrite app_nil_r. exact H.
    - pose proof (I_step c tr e H) as H1. destruct (step fx c e) as [c1 o1]. cbn [fst snd] in H1.
      specialize (IH c1 (tr ++ o1) H1). destruct (run fx c1 t) as [c2 o2]. cbn [fst snd] in *.
      rewrite app_assoc. exact IH.
  Qed.
End RunInv.

(* ================================================================ the dictionaries *)
Definition allw (ws : list (Z * list wreq)) : list wreq := concat (map snd ws).

Lemma rd_get_split i rs r : rd_get i rs = Some r ->
  exists l1 l2, rs = l1 ++ r :: l2 /\ r_id r = i /\ rd_del i rs = l1 ++ l2 /\
                (forall r', r_id r' = i -> rd_set r' rs = l1 ++ r' :: l2).
Proof.
  induction rs as [|x t IH]; cbn [rd_get rd_del rd_set]; [discriminate|].
  destruct (r_id x =? i) eqn:E.
  - intros [= ->]. exists [], t. cbn [app]. repeat split; [lia|].
    intros r' Hr. replace (r_id r =? r_id r') with true by lia. reflexivity.
  - intros H. destruct (IH H) as (l1 & l2 & -> & Hi & Hd & Hs).
    exists (x :: l1), l2. cbn [app]. repeat split; [exact Hi|now rewrite Hd|].
    intros r' Hr. replace (r_id x =? r_id r') with false by lia. now rewrite (Hs r' Hr).
Qed.

Lemma wq_get_split i ws q : wq_get i ws = Some q ->
  exists l1 l2, allw ws = l1 ++ q ++ l2 /\ forall q', allw (wq_set i q' ws) = l1 ++ q' ++ l2.
Proof.
  unfold allw. induction ws as [|[j q0] t IH]; cbn [wq_get wq_set]; [discriminate|].
  destruct (j =? i) eqn:E.
  - intros [= ->]. exists [], (concat (map snd t)). split; [reflexivity|]. intros q'. reflexivity.
  - intros H. destruct (IH H) as (l1 & l2 & E1 & E2).
    exists (q0 ++ l1), l2. cbn [map snd concat]. split.
    + rewrite E1. now rewrite app_assoc.
    + intros q'. rewrite E2. now rewrite app_assoc.
Qed.

Lemma wq_get_none_set i ws q' : wq_get i ws = None -> allw (wq_set i q' ws) = allw ws ++ q'.
Proof.
  unfold allw. induction ws as [|[j q0] t IH]; cbn [wq_get wq_set].
  - intros _. cbn. now rewrite app_nil_r.
  - destruct (j =? i); [discriminate|]. intros H. cbn [map snd concat]. rewrite (IH H). now rewrite app_assoc.
Qed.

Lemma w_start_uid w : w_uid (fst (w_start w)) = w_uid w /\ w_id (fst (w_start w)) = w_id w.
Proof. split; reflexivity. Qed.

(* ================================================================ every request: pending, or settled exactly once *)
Definition settled_uid (o : obs) : list Z :=
  match o with
  | OReadOk u _ _ _ | OReadFail u _ _ _ | OWriteOk u _ _ | OWriteFail u _ _ | OSuperseded u => [u]
  | _ => []
  end.
Definition settled (tr : list obs) : list Z := flat_map settled_uid tr.
Definition pending (c : client) : list Z := map r_uid (c_reads c) ++ map w_uid (allw (c_writes c)).

Fixpoint cnt (u : Z) (l : list Z) : Z :=
  match l with [] => 0 | x :: t => (if x =? u then 1 else 0) + cnt u t end.

Lemma cnt_app u a b : cnt u (a ++ b) = cnt u a + cnt u b.
Proof. induction a as [|x t IH]; cbn [app cnt]; [reflexivity|]. rewrite IH. lia. Qed.

Lemma cnt_nonneg u l : 0 <= cnt u l.
Proof. induction l as [|x t IH]; cbn [cnt]; [lia|]. destruct (x =? u); lia. Qed.

Lemma cnt_pos_In u l : 0 < cnt u l <-> In u l.
Proof.
  induction l as [|x t IH]; cbn [cnt In]; [lia|].
  destruct (x =? u) eqn:E.
  - pose proof (cnt_nonneg u t). split; [intros _; left; lia|lia].
  - rewrite Z.add_0_l, IH. split; [tauto|]. intros [H|H]; [lia|exact H].
Qed.

Lemma settled_app a b : settled (a ++ b) = settled a ++ settled b.
Proof. unfold settled. now rewrite flat_map_app. Qed.

Lemma settled_superseded q : settled (map (fun w => OSuperseded (w_uid w)) q) = map w_uid q.
Proof. unfold settled. induction q as [|x t IH]; cbn; [reflexivity|]. now rewrite IH. Qed.

Lemma settled_fail_read rs : settled (map fail_read rs) = map r_uid rs.
Proof. unfold settled. induction rs as [|x t IH]; cbn; [reflexivity|]. now rewrite IH. Qed.

Lemma settled_fail_write q : settled (map fail_write q) = map w_uid q.
Proof. unfold settled. induction q as [|x t IH]; cbn; [reflexivity|]. now rewrite IH. Qed.

Lemma start_head_spec q :
  map w_uid (fst (start_head q)) = map w_uid q /\ settled (snd (start_head q)) = [].
Proof. destruct q as [|w t]; cbn; split; reflexivity. Qed.

Ltac cnt_norm := repeat (rewrite ?map_app, ?cnt_app, ?settled_app, ?settled_superseded, ?settled_fail_read,
                                 ?settled_fail_write); cbn [map cnt settled flat_map settled_uid app read_pkt r_uid w_uid].

(* what one step does to the ledger: for every uid, occurrences among pending + settled stay the same,
   except for the uid handed out by this step, which appears once *)
Definition fresh_uid (c c' : client) (u : Z) : Z :=
  if (c_next c' =? c_next c + 1) && (u =? c_next c) then 1 else 0.

Lemma step_ledger fx c e u :
  let c' := fst (step fx c e) in let os := snd (step fx c e) in
  (c_next c' = c_next c \/ c_next c' = c_next c + 1) /\
  cnt u (pending c') + cnt u (settled os) = cnt u (pending c) + fresh_uid c c' u.
Proof.
  cbv zeta. unfold fresh_uid, step. destruct (negb (wf_eventb e)).
  { cbn. cbn [fst snd c_next set_writes set_reads]. split; [left; reflexivity|]. replace (c_next c =? c_next c + 1) with false by lia. cbn. lia. }
  destruct e as [i a n|i a d fl|ch d|].
  - (* read *)
    unfold do_read. destruct (rd_get i (c_reads c)).
    + cbn. cbn [fst snd c_next set_writes set_reads]. split; [left; reflexivity|]. replace (c_next c =? c_next c + 1) with false by lia. cbn. lia.
    + cbn [fst snd c_next]. split; [right; reflexivity|]. rewrite Z.eqb_refl. cbn [andb].
      unfold pending. cbn [c_reads c_writes read_pkt]. cnt_norm. rewrite (Z.eqb_sym u). lia.
  - (* write *)
    unfold do_write. destruct (c_leaked c).
    { cbn. cbn [fst snd c_next set_writes set_reads]. split; [left; reflexivity|]. replace (c_next c =? c_next c + 1) with false by lia. cbn. lia. }
    set (w := mkW (c_next c) i a a d 0).
    assert (Hdrop : forall (q : list wreq),
      cnt u (map w_uid (if fl then firstn 1 q else q)) +
      cnt u (settled (if fl then map (fun w => OSuperseded (w_uid w)) (skipn 1 q) else [])) = cnt u (map w_uid q)).
    { intros q. destruct fl.
      - rewrite settled_superseded, <- cnt_app, <- map_app, firstn_skipn. reflexivity.
      - cbn. lia. }
    destruct (wq_get i (c_writes c)) as [q|] eqn:G.
    + destruct (wq_get_split _ _ _ G) as (l1 & l2 & E1 & E2).
      specialize (Hdrop q).
      destruct (if fl then firstn 1 q else q) as [|x q1] eqn:Q1.
      * destruct (w_start w) as [w' o] eqn:W. cbn [fst snd c_next]. split; [right; reflexivity|].
        rewrite Z.eqb_refl. cbn [andb].
        assert (Hu : w_uid w' = c_next c) by (injection W as <- _; reflexivity).
        injection W as _ <-.
        unfold pending. cbn [c_reads c_writes]. rewrite E2, E1. cnt_norm. rewrite Hu.
        cbn [map cnt] in Hdrop. rewrite (Z.eqb_sym u). lia.
      * cbn [fst snd c_next]. split; [right; reflexivity|]. rewrite Z.eqb_refl. cbn [andb].
        unfold pending. cbn [c_reads c_writes]. rewrite E2, E1. cnt_norm. subst w. cbn [w_uid].
        cbn [map cnt] in Hdrop. rewrite (Z.eqb_sym u). lia.
    + specialize (Hdrop []). destruct fl; cbn [firstn skipn map app] in *.
      * destruct (w_start w) as [w' o] eqn:W. cbn [fst snd c_next]. split; [right; reflexivity|].
        rewrite Z.eqb_refl. cbn [andb].
        assert (Hu : w_uid w' = c_next c) by (injection W as <- _; reflexivity).
        injection W as _ <-.
        unfold pending. cbn [c_reads c_writes]. rewrite (wq_get_none_set _ _ _ G). cnt_norm. rewrite Hu.
        rewrite (Z.eqb_sym u). lia.
      * destruct (w_start w) as [w' o] eqn:W. cbn [fst snd c_next]. split; [right; reflexivity|].
        rewrite Z.eqb_refl. cbn [andb].
        assert (Hu : w_uid w' = c_next c) by (injection W as <- _; reflexivity).
        injection W as _ <-.
        unfold pending. cbn [c_reads c_writes]. rewrite (wq_get_none_set _ _ _ G). cnt_norm. rewrite Hu.
        rewrite (Z.eqb_sym u). lia.
  - (* packet *)
    assert (Same : forall os, settled os = [] ->
      (c_next c = c_next c \/ c_next c = c_next c + 1) /\
      cnt u (pending c) + cnt u (settled os) = cnt u (pending c) +
        (if (c_next c =? c_next c + 1) && (u =? c_next c) then 1 else 0)).
    { intros os ->. cbn [fst snd c_next set_writes set_reads]. split; [left; reflexivity|]. replace (c_next c =? c_next c + 1) with false by lia. cbn. lia. }
    destruct d as [|i p]; [apply (Same [ORaise]); reflexivity|].
    destruct ch; [| |apply (Same []); reflexivity].
    + unfold do_read_reply. destruct (length p <? 5)%nat; [apply (Same [ORaise]); reflexivity|].
      destruct (rd_get i (c_reads c)) as [r|] eqn:G; [|apply (Same []); reflexivity].
      destruct (rd_get_split _ _ _ G) as (l1 & l2 & E1 & Hi & Ed & Es).
      destruct (nth 4 p 0 =? 0).
      * destruct (le_val (firstn 4 p) =? r_cur r); [|apply (Same []); reflexivity].
        match goal with |- context [if 0 <? ?x then _ else _] => destruct (0 <? x) end.
        -- cbn [fst snd c_next set_reads]. split; [left; reflexivity|].
           replace (c_next c =? c_next c + 1) with false by lia. cbn [andb].
           unfold pending. cbn [c_reads c_writes set_reads read_pkt]. rewrite Es by exact Hi. rewrite E1.
           cnt_norm. lia.
        -- cbn [fst snd c_next set_reads]. split; [left; reflexivity|].
           replace (c_next c =? c_next c + 1) with false by lia. cbn [andb].
           unfold pending. cbn [c_reads c_writes set_reads]. rewrite Ed. rewrite E1. cnt_norm. lia.
      * cbn [fst snd c_next set_reads]. split; [left; reflexivity|].
        replace (c_next c =? c_next c + 1) with false by lia. cbn [andb].
        unfold pending. cbn [c_reads c_writes set_reads]. rewrite Ed. rewrite E1. cnt_norm. lia.
    + unfold do_write_reply. destruct (length p <? 5)%nat; [apply (Same [ORaise]); reflexivity|].
      destruct (wq_get i (c_writes c)) as [[|w q]|] eqn:G; [| |apply (Same []); reflexivity].
      { destruct fx; [apply (Same []); reflexivity|].
        destruct (c_leaked c); [apply (Same [OHang]); reflexivity|].
        cbn [fst snd c_next]. split; [left; reflexivity|].
        replace (c_next c =? c_next c + 1) with false by lia. cbn [andb]. unfold pending, allw. cbn [c_reads c_writes settled flat_map settled_uid app cnt]. lia. }
      destruct (c_leaked c); [apply (Same [OHang]); reflexivity|].
      destruct (wq_get_split _ _ _ G) as (l1 & l2 & E1 & E2).
      pose proof (start_head_spec q) as [Hq1 Hq2].
      destruct (nth 4 p 0 =? 0).
      * destruct (le_val (firstn 4 p) =? w_cur w); [|apply (Same []); reflexivity].
        destruct (w_rest w) eqn:R.
        -- destruct (start_head q) as [q' os]. cbn [fst snd] in *.
           cbn [fst snd c_next set_writes set_reads]. split; [left; reflexivity|]. replace (c_next c =? c_next c + 1) with false by lia. cbn [andb].
           unfold pending. cbn [c_reads c_writes set_writes]. rewrite E2, E1. cnt_norm. rewrite Hq1, Hq2. cbn [cnt]. lia.
        -- destruct (w_start (w_advance w)) as [w' o] eqn:W.
           assert (Hu : w_uid w' = w_uid w) by (injection W as <- _; reflexivity).
           injection W as _ <-. cbn [fst snd].
           cbn [fst snd c_next set_writes set_reads]. split; [left; reflexivity|]. replace (c_next c =? c_next c + 1) with false by lia. cbn [andb].
           unfold pending. cbn [c_reads c_writes set_writes]. rewrite E2, E1. cnt_norm. rewrite Hu. lia.
      * destruct (start_head q) as [q' os]. cbn [fst snd] in *.
        cbn [fst snd c_next set_writes set_reads]. split; [left; reflexivity|]. replace (c_next c =? c_next c + 1) with false by lia. cbn [andb].
        unfold pending. cbn [c_reads c_writes set_writes]. rewrite E2, E1. cnt_norm. rewrite Hq1, Hq2. cbn [cnt]. lia.
  - (* disconnect *)
    unfold do_disc. destruct (c_leaked c); cbn [fst snd c_next].
    + cbn [fst snd c_next set_writes set_reads]. split; [left; reflexivity|]. replace (c_next c =? c_next c + 1) with false by lia. cbn [andb].
      unfold pending. cbn [c_reads c_writes]. cnt_norm. lia.
    + cbn [fst snd c_next set_writes set_reads]. split; [left; reflexivity|]. replace (c_next c =? c_next c + 1) with false by lia. cbn [andb].
      unfold pending, allw. cbn [c_reads c_writes]. cnt_norm. cbn [concat map cnt]. lia.
Qed.

Definition issued (c : client) (u : Z) : Z := if (0 <=? u) && (u <? c_next c) then 1 else 0.

Definition Ledger (c : client) (tr : list obs) : Prop :=
  0 <= c_next c /\ forall u, cnt u (pending c) + cnt u (settled tr) = issued c u.

Lemma ledger_step fx c tr e : Ledger c tr -> Ledger (fst (step fx c e)) (tr ++ snd (step fx c e)).
Proof.
  intros [H0 H]. split.
  - destruct (step_ledger fx c e 0) as [[E|E] _]; cbv zeta in E; lia.
  - intros u. destruct (step_ledger fx c e u) as [N E]. cbv zeta in N, E.
    rewrite settled_app, cnt_app. specialize (H u). unfold issued, fresh_uid in *.
    destruct N as [N|N]; rewrite N in *.
    + replace (c_next c =? c_next c + 1) with false in E by lia. cbn [andb] in E. lia.
    + rewrite Z.eqb_refl in E. cbn [andb] in E.
      destruct (u =? c_next c) eqn:Eu.
      * replace ((0 <=? u) && (u <? c_next c)) with false in H by lia.
        replace ((0 <=? u) && (u <? c_next c + 1)) with true by lia. lia.
      * replace ((0 <=? u) && (u <? c_next c + 1)) with ((0 <=? u) && (u <? c_next c)) by lia. lia.
Qed.

Lemma ledger_init : Ledger c_init [].
Proof.
  split; [cbn; lia|]. intros u. unfold issued. cbn [c_init c_next pending c_reads c_writes allw map concat app settled flat_map cnt].
  replace ((0 <=? u) && (u <? 0)) with false by lia. reflexivity.
Qed.

Lemma run_ledger fx evs : Ledger (fst (run fx c_init evs)) (snd (run fx c_init evs)).
Proof. apply (run_inv fx Ledger (ledger_step fx) evs c_init [] ledger_init). Qed.

(* no request is ever notified (or superseded) twice; none is both recorded as pending and settled *)
Lemma settled_once fx evs u : cnt u (settled (snd (run fx c_init evs))) <= 1.
Proof.
  destruct (run_ledger fx evs) as [_ H]. specialize (H u). unfold issued in H.
  pose proof (cnt_nonneg u (pending (fst (run fx c_init evs)))).
  destruct ((0 <=? u) && _); lia.
Qed.

Lemma pending_not_settled fx evs u :
  In u (pending (fst (run fx c_init evs))) -> cnt u (settled (snd (run fx c_init evs))) = 0 /\
                                              cnt u (pending (fst (run fx c_init evs))) = 1.
Proof.
  intros Hin. apply cnt_pos_In in Hin.
  destruct (run_ledger fx evs) as [_ H]. specialize (H u). unfold issued in H.
  pose proof (cnt_nonneg u (settled (snd (run fx c_init evs)))).
  destruct ((0 <=? u) && _); lia.
Qed.

Lemma issued_pending_or_settled fx evs u :
  0 <= u < c_next (fst (run fx c_init evs)) ->
  cnt u (pending (fst (run fx c_init evs))) + cnt u (settled (snd (run fx c_init evs))) = 1.
Proof.
  intros Hu. destruct (run_ledger fx evs) as [_ H]. specialize (H u). unfold issued in H.
  replace ((0 <=? u) && _) with true in H by lia. exact H.
Qed.

Lemma run_app fx c e1 e2 :
  run fx c (e1 ++ e2) = (fst (run fx (fst (run fx c e1)) e2), snd (run fx c e1) ++ snd (run fx (fst (run fx c e1)) e2)).
Proof.
  revert c. induction e1 as [|e t IH]; intros c; cbn [run app].
  - cbn [fst snd app]. now destruct (run fx c e2).
  - destruct (step fx c e) as [c1 o1]. rewrite IH. destruct (run fx c1 t) as [c2 o2]. cbn [fst snd].
    now rewrite app_assoc.
Qed.

(* a disconnect settles everything: nothing stays pending, every request issued so far is settled exactly once *)
Lemma disc_settles_all evs :
  let r := run true c_init (evs ++ [EDisc]) in
  c_reads (fst r) = [] /\ c_writes (fst r) = [] /\ c_leaked (fst r) = false /\
  forall u, 0 <= u < c_next (fst r) -> cnt u (settled (snd r)) = 1.
Proof.
  cbv zeta.
  assert (P : pending (fst (run true c_init (evs ++ [EDisc]))) = [] /\
              c_reads (fst (run true c_init (evs ++ [EDisc]))) = [] /\
              c_writes (fst (run true c_init (evs ++ [EDisc]))) = [] /\
              c_leaked (fst (run true c_init (evs ++ [EDisc]))) = false).
  { rewrite run_app. cbn [fst snd run step wf_eventb negb].
    pose proof (run_leaked_fixed evs c_init eq_refl) as L.
    unfold do_disc. rewrite L. cbn. repeat split; reflexivity. }
  destruct P as (P & R & W & L). repeat split; [exact R|exact W|exact L|].
  intros u Hu. pose proof (issued_pending_or_settled true (evs ++ [EDisc]) u Hu) as H.
  rewrite P in H. cbn [cnt] in H. lia.
Qed.
