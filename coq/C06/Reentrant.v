(* C06/Reentrant.v — RE-ENTRANT listeners: from inside every notification of the read / write layer (read done / failed,
   write done / failed; delivered by a reply, by an error status or by a link drop) the application may issue a new
   read or write, on the same or another memory.  A policy [pol n o] says what the listener does inside the n-th
   notification delivered so far, o being that notification (None: nothing; Some (ERead ..) / Some (EWrite ..): the
   nested request).

   Replies and error statuses: the handlers call their listeners last, after the state is updated and the lock is
   released, so the nested request runs on the state [step true] returns.
   Link drop (_disconnected -> _call_all_failed_callbacks -> _clear_state): the listeners run in the middle:
     read_requests = list(values); _read_requests.clear(); mem_read_failed_cb for each;
     [lock] write_requests = all queued; _write_requests.clear() [unlock]; mem_write_failed_cb for each;
     _clear_state() (both dictionaries replaced by empty ones).
   Flags:
   * [fxl] = false: the code as it is; true = a variant that is NOT in the code (while the link-drop handler runs,
     read() and write() refuse, return False).  In the code the nested request is registered, a packet is handed to the dead link, and
     _clear_state wipes the record without any notification (a nested write made during the read phase is the
     exception: it is collected and failed by the write phase).
   * [cbin] = false: the code: the write-failed listeners run after the lock is released; true = the listeners inside
     the locked region (the `with` block variant): they run with _write_requests_lock held, a nested write (not
     refused) blocks for ever on the non-re-entrant lock: the handler never returns, _clear_state never runs.
   [RNest lk] marks the start of a nested call and records whether the write lock was held at that moment. *)
From CF Require Import Common.Bytes C06.Model C06.Proofs.
From Coq Require Import ZifyBool.
Open Scope Z_scope.

(* n-th notification delivered so far; is it delivered by the link-drop handler (the link is already gone); the notification *)
Definition policy := nat -> bool -> obs -> option event.

(* the listeners make no request on a link that is already gone *)
Definition no_request_on_dead_link (pol : policy) : Prop := forall n o, pol n true o = None.

Definition is_note (o : obs) : bool :=
  match o with OReadOk _ _ _ _ | OReadFail _ _ _ _ | OWriteOk _ _ _ | OWriteFail _ _ _ => true | _ => false end.

Inductive robs := RO (o : obs) | RNest (lock_held : bool).

Definition strip (l : list robs) : list obs := flat_map (fun x => match x with RO o => [o] | RNest _ => [] end) l.

(* the nested call: refused (F06l, link-drop handler running), blocked (a write with the lock held by the caller of
   the listener), or an ordinary read() / write() *)
Definition nested (refuse lk : bool) (c : client) (op : event) : client * list robs * bool :=
  match op with
  | ERead _ _ _ =>
      if refuse then (c, [RNest lk; RO (ORet false)], false)
      else let '(c', os) := step true c op in (c', RNest lk :: map RO os, false)
  | EWrite _ _ _ _ =>
      if refuse then (c, [RNest lk; RO (ORet false)], false)
      else if lk then (c, [RNest lk; RO OHang], true)
      else let '(c', os) := step true c op in (c', RNest lk :: map RO os, false)
  | _ => (c, [], false)
  end.

(* hand the observations of a handler to the listeners, in order; a nested call runs at its notification *)
Fixpoint deliver (refuse lk drop : bool) (pol : policy) (n : nat) (c : client) (os : list obs)
  : nat * client * list robs * bool :=
  match os with
  | [] => (n, c, [], false)
  | o :: t =>
      if is_note o then
        match pol n drop o with
        | Some op =>
            let '(c1, ro, hung) := nested refuse lk c op in
            if hung then (S n, c1, RO o :: ro, true)
            else let '(n2, c2, r2, h2) := deliver refuse lk drop pol (S n) c1 t in (n2, c2, RO o :: ro ++ r2, h2)
        | None => let '(n2, c2, r2, h2) := deliver refuse lk drop pol (S n) c t in (n2, c2, RO o :: r2, h2)
        end
      else let '(n2, c2, r2, h2) := deliver refuse lk drop pol n c t in (n2, c2, RO o :: r2, h2)
  end.

Section Flags.
  Variable fxl cbin : bool.

  Definition rdisc (pol : policy) (n : nat) (c : client) : nat * client * list robs :=
    if c_leaked c then let '(c', os) := step true c EDisc in (n, c', map RO os) else
    let c0 := mkC [] (c_writes c) false (c_next c) in
    let '(n1, c1, o1, _) := deliver fxl false true pol n c0 (map fail_read (c_reads c)) in
    let ws := concat (map snd (c_writes c1)) in
    let c2 := mkC (c_reads c1) [] false (c_next c1) in
    let '(n2, c3, o2, hung) := deliver fxl cbin true pol n1 c2 (map fail_write ws) in
    if hung then (n2, mkC (c_reads c3) (c_writes c3) true (c_next c3), o1 ++ o2)
    else (n2, mkC [] [] false (c_next c3), o1 ++ o2).

  Definition rstep (pol : policy) (nc : nat * client) (e : event) : (nat * client) * list robs :=
    let '(n, c) := nc in
    match e with
    | EDisc => let '(n', c', ro) := rdisc pol n c in ((n', c'), ro)
    | _ => let '(c1, os) := step true c e in
           let '(n2, c2, ro, _) := deliver false false false pol n c1 os in ((n2, c2), ro)
    end.

  Fixpoint rrun (pol : policy) (nc : nat * client) (evs : list event) : (nat * client) * list robs :=
    match evs with
    | [] => (nc, [])
    | e :: t => let '(nc1, o1) := rstep pol nc e in
                let '(nc2, o2) := rrun pol nc1 t in (nc2, o1 ++ o2)
    end.
End Flags.

(* ================================================================ the lock: listeners run with it free *)
Definition calm (x : robs) : Prop := x <> RNest true /\ x <> RO OHang.

Lemma step_no_hang c e : c_leaked c = false -> ~ In OHang (snd (step true c e)).
Proof.
  intros L. unfold step. destruct (negb (wf_eventb e)); [cbn; intuition discriminate|].
  destruct e as [i a n|i a d fl|ch d|].
  - unfold do_read. destruct (rd_get i (c_reads c)); cbn; intuition discriminate.
  - unfold do_write. rewrite L.
    assert (S : forall q : list wreq, ~ In OHang (if fl then map (fun w => OSuperseded (w_uid w)) (skipn 1 q) else [])).
    { intros q. destruct fl; [|intros []]. induction (skipn 1 q) as [|x t IH]; [intros []|].
      cbn [map In]. intros [H|H]; [discriminate H|exact (IH H)]. }
    destruct (if fl then firstn 1 _ else _); [destruct (w_start _) as [w' o] eqn:W|]; cbn [snd].
    + injection W as _ <-. rewrite in_app_iff. cbn [In]. intros [H|[H|[H|[]]]]; try discriminate H. exact (S _ H).
    + rewrite in_app_iff. cbn [In]. intros [H|[H|[]]]; try discriminate H. exact (S _ H).
  - destruct d as [|i p]; [cbn; intuition discriminate|]. destruct ch; [| |cbn; tauto].
    + unfold do_read_reply. destruct (length p <? 5)%nat; [cbn; intuition discriminate|].
      destruct (rd_get i (c_reads c)) as [r|]; [|cbn; tauto].
      destruct (nth 4 p 0 =? 0); [|cbn; intuition discriminate].
      destruct (le_val (firstn 4 p) =? r_cur r); [|cbn; tauto].
      destruct (0 <? _); cbn; intuition discriminate.
    + unfold do_write_reply. destruct (length p <? 5)%nat; [cbn; intuition discriminate|].
      destruct (wq_get i (c_writes c)) as [[|w q]|]; [cbn; tauto| |cbn; tauto].
      rewrite L.
      assert (SH : ~ In OHang (snd (start_head q))).
      { destruct q as [|x t]; [intros []|]. cbn. intuition discriminate. }
      destruct (nth 4 p 0 =? 0).
      * destruct (le_val (firstn 4 p) =? w_cur w); [|cbn; tauto].
        destruct (w_rest w); [destruct (start_head q) as [q' os]|cbn; intuition discriminate].
        cbn [snd] in *. rewrite in_app_iff. cbn [In]. intros [H|[H|[]]]; [exact (SH H)|discriminate H].
      * destruct (start_head q) as [q' os]. cbn [snd] in *. rewrite in_app_iff. cbn [In].
        intros [H|[H|[]]]; [exact (SH H)|discriminate H].
  - unfold do_disc. rewrite L. cbn [snd]. rewrite in_app_iff. intros [H|H].
    + induction (c_reads c) as [|x t IH]; [exact H|]. destruct H as [H|H]; [discriminate H|exact (IH H)].
    + induction (concat (map snd (c_writes c))) as [|x t IH]; [exact H|]. destruct H as [H|H]; [discriminate H|exact (IH H)].
Qed.

Lemma calm_map_RO os : ~ In OHang os -> Forall calm (map RO os).
Proof.
  intros H. apply Forall_forall. intros x Hx. apply in_map_iff in Hx as (o & <- & Ho). split; [discriminate|].
  intros E. injection E as ->. exact (H Ho).
Qed.

Lemma nested_calm refuse c op :
  c_leaked c = false ->
  let '(c', ro, hung) := nested refuse false c op in c_leaked c' = false /\ Forall calm ro /\ hung = false.
Proof.
  intros L. unfold nested.
  assert (G : forall e, let '(c', os) := step true c e in c_leaked c' = false /\ Forall calm (RNest false :: map RO os)).
  { intros e. pose proof (step_leaked_fixed c e L) as H1. pose proof (step_no_hang c e L) as H2.
    destruct (step true c e) as [c' os]. cbn [fst snd] in *. split; [exact H1|].
    constructor; [split; discriminate|apply calm_map_RO, H2]. }
  assert (R : Forall calm [RNest false; RO (ORet false)]) by (repeat constructor; discriminate).
  destruct op as [i a n|i a d fl|ch d|]; try (repeat split; [exact L|constructor]).
  - destruct refuse; [repeat split; assumption|]. specialize (G (ERead i a n)).
    destruct (step true c (ERead i a n)) as [c' os]. destruct G. repeat split; assumption.
  - destruct refuse; [repeat split; assumption|]. specialize (G (EWrite i a d fl)).
    destruct (step true c (EWrite i a d fl)) as [c' os]. destruct G. repeat split; assumption.
Qed.

Lemma deliver_calm refuse drop pol os : forall n c,
  c_leaked c = false -> ~ In OHang os ->
  let '(n', c', ro, hung) := deliver refuse false drop pol n c os in
  c_leaked c' = false /\ Forall calm ro /\ hung = false.
Proof.
  induction os as [|o t IH]; intros n c L NH; cbn [deliver]; [repeat split; [exact L|constructor]|].
  assert (NHt : ~ In OHang t) by (intros H; apply NH; right; exact H).
  assert (Co : calm (RO o)) by (split; [discriminate|intros E; injection E as ->; apply NH; left; reflexivity]).
  destruct (is_note o).
  - destruct (pol n drop o) as [op|].
    + pose proof (nested_calm refuse c op L) as HN. destruct (nested refuse false c op) as [[c1 ro] hung].
      destruct HN as (L1 & C1 & ->).
      specialize (IH (S n) c1 L1 NHt). destruct (deliver refuse false drop pol (S n) c1 t) as [[[n2 c2] r2] h2].
      destruct IH as (L2 & C2 & ->). repeat split; [exact L2|].
      constructor; [exact Co|]. apply Forall_app. split; assumption.
    + specialize (IH (S n) c L NHt). destruct (deliver refuse false drop pol (S n) c t) as [[[n2 c2] r2] h2].
      destruct IH as (L2 & C2 & ->). repeat split; [exact L2|]. constructor; assumption.
  - specialize (IH n c L NHt). destruct (deliver refuse false drop pol n c t) as [[[n2 c2] r2] h2].
    destruct IH as (L2 & C2 & ->). repeat split; [exact L2|]. constructor; assumption.
Qed.

Lemma no_hang_fails_r rs : ~ In OHang (map fail_read rs).
Proof. induction rs as [|x t IH]; [intros []|]. intros [H|H]; [discriminate H|exact (IH H)]. Qed.
Lemma no_hang_fails_w ws : ~ In OHang (map fail_write ws).
Proof. induction ws as [|x t IH]; [intros []|]. intros [H|H]; [discriminate H|exact (IH H)]. Qed.

Lemma rstep_calm fxl pol n c e :
  c_leaked c = false ->
  c_leaked (snd (fst (rstep fxl false pol (n, c) e))) = false /\ Forall calm (snd (rstep fxl false pol (n, c) e)).
Proof.
  intros L. unfold rstep.
  assert (P : forall e', let '(c1, os) := step true c e' in
              let '(n2, c2, ro, _) := deliver false false false pol n c1 os in
              c_leaked c2 = false /\ Forall calm ro).
  { intros e'. pose proof (step_leaked_fixed c e' L) as H1. pose proof (step_no_hang c e' L) as H2.
    destruct (step true c e') as [c1 os]. cbn [fst snd] in *.
    pose proof (deliver_calm false false pol os n c1 H1 H2) as D.
    destruct (deliver false false false pol n c1 os) as [[[n2 c2] ro] h]. destruct D as (A & B & _). split; assumption. }
  destruct e as [i a k|i a d fl|ch d|].
  - specialize (P (ERead i a k)). destruct (step true c (ERead i a k)) as [c1 os].
    destruct (deliver false false false pol n c1 os) as [[[n2 c2] ro] h]. exact P.
  - specialize (P (EWrite i a d fl)). destruct (step true c (EWrite i a d fl)) as [c1 os].
    destruct (deliver false false false pol n c1 os) as [[[n2 c2] ro] h]. exact P.
  - specialize (P (EPkt ch d)). destruct (step true c (EPkt ch d)) as [c1 os].
    destruct (deliver false false false pol n c1 os) as [[[n2 c2] ro] h]. exact P.
  - unfold rdisc. rewrite L.
    pose proof (deliver_calm fxl true pol (map fail_read (c_reads c)) n (mkC [] (c_writes c) false (c_next c)) eq_refl
                  (no_hang_fails_r _)) as D1.
    destruct (deliver fxl false true pol n _ (map fail_read (c_reads c))) as [[[n1 c1] o1] h1].
    destruct D1 as (L1 & C1 & _).
    pose proof (deliver_calm fxl true pol (map fail_write (concat (map snd (c_writes c1)))) n1
                  (mkC (c_reads c1) [] false (c_next c1)) eq_refl (no_hang_fails_w _)) as D2.
    destruct (deliver fxl false true pol n1 _ (map fail_write _)) as [[[n2 c3] o2] h2].
    destruct D2 as (L3 & C3 & ->). cbn [fst snd]. split; [reflexivity|]. apply Forall_app. split; assumption.
Qed.

(* For every history, every policy of the listeners and both variants of the link-drop handler (with or without
   F06l): no nested call starts with the write lock held, no call blocks, the lock is free at the end. *)
Theorem listeners_run_lock_free fxl pol evs : forall n c,
  c_leaked c = false ->
  c_leaked (snd (fst (rrun fxl false pol (n, c) evs))) = false /\ Forall calm (snd (rrun fxl false pol (n, c) evs)).
Proof.
  induction evs as [|e t IH]; intros n c L; cbn [rrun]; [split; [exact L|constructor]|].
  pose proof (rstep_calm fxl pol n c e L) as H. destruct (rstep fxl false pol (n, c) e) as [[n1 c1] o1].
  cbn [fst snd] in H. destruct H as [L1 C1]. specialize (IH n1 c1 L1).
  destruct (rrun fxl false pol (n1, c1) t) as [nc2 o2]. cbn [fst snd] in *. destruct IH as [L2 C2].
  split; [exact L2|]. apply Forall_app. split; assumption.
Qed.

(* ================================================================ refutations *)
(* the listeners inside the locked region: a write retried from the write-failed notification of a link drop blocks for
   ever; the lock stays held, the dictionaries are not cleared (the nested call started with the lock held) *)
Definition retry_write : policy := fun n _ o => match o with OWriteFail _ i a => Some (EWrite i a [1; 2; 3] false) | _ => None end.

Lemma listeners_inside_locked_region_refuted :
  let r := rrun false true retry_write (O, c_init) [EWrite 2 0 [1; 2; 3] false; EDisc] in
  In (RNest true) (snd r) /\ In (RO OHang) (snd r) /\ c_leaked (snd (fst r)) = true /\
  (* with F06l the nested write is refused before it touches the lock, but the listener still runs with the lock held *)
  In (RNest true) (snd (rrun true true retry_write (O, c_init) [EWrite 2 0 [1; 2; 3] false; EDisc])).
Proof. vm_compute. repeat split; tauto. Qed.

(* observation outside the property text (a request on a link that is already gone, like one made just after the
   link drop): a read issued from the read-failed notification of a link drop is registered (uid 1), its packet is handed
   to the dead link, and _clear_state wipes it: it is neither pending nor ever notified *)
Definition retry_read : policy := fun n _ o => match o with OReadFail _ i a _ => Some (ERead i a 5) | _ => None end.

Lemma request_on_dead_link_observation :
  let r := rrun false false retry_read (O, c_init) [ERead 1 0 5; EDisc] in
  c_next (snd (fst r)) = 2 /\ pending (snd (fst r)) = [] /\ cnt 1 (settled (strip (snd r))) = 0 /\
  (* the refusing variant (not in the code): read() returns False, no uid is handed out *)
  c_next (snd (fst (rrun true false retry_read (O, c_init) [ERead 1 0 5; EDisc]))) = 1 /\
  In (RO (ORet false)) (snd (rrun true false retry_read (O, c_init) [ERead 1 0 5; EDisc])).
Proof. vm_compute. repeat split; tauto. Qed.

(* ================================================================ exactly one notification, re-entrant listeners *)
Lemma strip_app a b : strip (a ++ b) = strip a ++ strip b.
Proof. unfold strip. apply flat_map_app. Qed.

Lemma strip_map_RO os : strip (map RO os) = os.
Proof. induction os as [|o t IH]; [reflexivity|]. cbn. now rewrite <- IH at 2. Qed.

Lemma ledger_cnt c t1 t2 :
  (forall u, cnt u (settled t1) = cnt u (settled t2)) -> Ledger c t1 -> Ledger c t2.
Proof. intros E [H0 H]. split; [exact H0|]. intros u. rewrite <- E. apply H. Qed.

(* outside the link-drop handler a nested request is an ordinary request made right after the handler *)
Lemma deliver_as_run pol os : forall n c,
  let '(n', c', ro, h) := deliver false false false pol n c os in
  exists ops, c' = fst (run true c ops) /\
              forall u, cnt u (settled (strip ro)) = cnt u (settled os) + cnt u (settled (snd (run true c ops))).
Proof.
  induction os as [|o t IH]; intros n c; cbn [deliver].
  - exists []. split; [reflexivity|]. intros u. reflexivity.
  - assert (Plain : forall n0, let '(n2, c2, r2, h2) := deliver false false false pol n0 c t in
              exists ops, c2 = fst (run true c ops) /\
                forall u, cnt u (settled (strip (RO o :: r2))) = cnt u (settled (o :: t)) + cnt u (settled (snd (run true c ops)))).
    { intros n0. specialize (IH n0 c). destruct (deliver false false false pol n0 c t) as [[[n2 c2] r2] h2].
      destruct IH as (ops & E & Hc). exists ops. split; [exact E|]. intros u.
      change (strip (RO o :: r2)) with (o :: strip r2).
      change (settled (o :: strip r2)) with (settled_uid o ++ settled (strip r2)).
      change (settled (o :: t)) with (settled_uid o ++ settled t). rewrite !cnt_app, Hc. lia. }
    destruct (is_note o).
    + destruct (pol n false o) as [op|];
        [|specialize (Plain (S n)); destruct (deliver false false false pol (S n) c t) as [[[n2 c2] r2] h2]; exact Plain].
      assert (Nest : forall e', op = e' -> (exists i a k, e' = ERead i a k) \/ (exists i a d fl, e' = EWrite i a d fl) ->
                let '(c1, os1) := step true c e' in
                let '(n2, c2, r2, h2) := deliver false false false pol (S n) c1 t in
                exists ops, c2 = fst (run true c ops) /\
                  forall u, cnt u (settled (strip (RO o :: (RNest false :: map RO os1) ++ r2))) =
                            cnt u (settled (o :: t)) + cnt u (settled (snd (run true c ops)))).
      { intros e' _ _. destruct (step true c e') as [c1 os1] eqn:S1. specialize (IH (S n) c1).
        destruct (deliver false false false pol (S n) c1 t) as [[[n2 c2] r2] h2]. destruct IH as (ops & E & Hc).
        exists (e' :: ops). cbn [run]. rewrite S1. destruct (run true c1 ops) as [cx ox] eqn:R. cbn [fst snd] in *.
        split; [exact E|]. intros u.
        change (strip (RO o :: (RNest false :: map RO os1) ++ r2)) with (o :: strip (map RO os1 ++ r2)).
        rewrite strip_app, strip_map_RO.
        change (settled (o :: os1 ++ strip r2)) with (settled_uid o ++ settled (os1 ++ strip r2)).
        change (settled (o :: t)) with (settled_uid o ++ settled t).
        rewrite !settled_app, !cnt_app, Hc. lia. }
      destruct op as [i a k|i a d fl|ch d|]; unfold nested.
      * specialize (Nest (ERead i a k) eq_refl (or_introl (ex_intro _ i (ex_intro _ a (ex_intro _ k eq_refl))))).
        destruct (step true c (ERead i a k)) as [c1 os1].
        destruct (deliver false false false pol (S n) c1 t) as [[[n2 c2] r2] h2]. exact Nest.
      * specialize (Nest (EWrite i a d fl) eq_refl
                      (or_intror (ex_intro _ i (ex_intro _ a (ex_intro _ d (ex_intro _ fl eq_refl)))))).
        destruct (step true c (EWrite i a d fl)) as [c1 os1].
        destruct (deliver false false false pol (S n) c1 t) as [[[n2 c2] r2] h2]. exact Nest.
      * specialize (Plain (S n)). destruct (deliver false false false pol (S n) c t) as [[[n2 c2] r2] h2]. exact Plain.
      * specialize (Plain (S n)). destruct (deliver false false false pol (S n) c t) as [[[n2 c2] r2] h2]. exact Plain.
    + specialize (Plain n). destruct (deliver false false false pol n c t) as [[[n2 c2] r2] h2]. exact Plain.
Qed.

(* listeners that make no request on a dead link: the link-drop handler just delivers its notifications *)
Lemma deliver_none refuse lk pol os : no_request_on_dead_link pol -> forall n c,
  let '(n', c', ro, h) := deliver refuse lk true pol n c os in
  c' = c /\ h = false /\ ro = map RO os.
Proof.
  intros Q. induction os as [|o t IH]; intros n c; cbn [deliver map]; [repeat split; reflexivity|].
  rewrite Q. destruct (is_note o).
  - specialize (IH (S n) c). destruct (deliver refuse lk true pol (S n) c t) as [[[n2 c2] r2] h2].
    destruct IH as (-> & -> & ->). repeat split; reflexivity.
  - specialize (IH n c). destruct (deliver refuse lk true pol n c t) as [[[n2 c2] r2] h2].
    destruct IH as (-> & -> & ->). repeat split; reflexivity.
Qed.

Lemma rstep_ledger fxl pol n c tr e :
  no_request_on_dead_link pol ->
  c_leaked c = false -> Ledger c tr ->
  Ledger (snd (fst (rstep fxl false pol (n, c) e))) (tr ++ strip (snd (rstep fxl false pol (n, c) e))).
Proof.
  intros Q L HL. unfold rstep.
  assert (P : forall e', let '(c1, os) := step true c e' in
              let '(n2, c2, ro, _) := deliver false false false pol n c1 os in Ledger c2 (tr ++ strip ro)).
  { intros e'. pose proof (ledger_step true c tr e' HL) as H1.
    destruct (step true c e') as [c1 os]. cbn [fst snd] in H1.
    pose proof (deliver_as_run pol os n c1) as D. destruct (deliver false false false pol n c1 os) as [[[n2 c2] ro] h].
    destruct D as (ops & -> & Hc).
    pose proof (run_inv true Ledger (ledger_step true) ops c1 (tr ++ os) H1) as H2.
    eapply ledger_cnt; [|exact H2]. intros u. rewrite !settled_app, !cnt_app, Hc. lia. }
  destruct e as [i a k|i a d fl|ch d|].
  - specialize (P (ERead i a k)). destruct (step true c (ERead i a k)) as [c1 os].
    destruct (deliver false false false pol n c1 os) as [[[n2 c2] ro] h]. exact P.
  - specialize (P (EWrite i a d fl)). destruct (step true c (EWrite i a d fl)) as [c1 os].
    destruct (deliver false false false pol n c1 os) as [[[n2 c2] ro] h]. exact P.
  - specialize (P (EPkt ch d)). destruct (step true c (EPkt ch d)) as [c1 os].
    destruct (deliver false false false pol n c1 os) as [[[n2 c2] ro] h]. exact P.
  - unfold rdisc. rewrite L.
    pose proof (deliver_none fxl false pol (map fail_read (c_reads c)) Q n (mkC [] (c_writes c) false (c_next c))) as D1.
    destruct (deliver fxl false true pol n _ (map fail_read (c_reads c))) as [[[n1 c1] o1] h1].
    destruct D1 as (-> & _ & ->). cbn [c_writes c_reads c_next].
    pose proof (deliver_none fxl false pol (map fail_write (concat (map snd (c_writes c)))) Q n1
                  (mkC [] [] false (c_next c))) as D2.
    destruct (deliver fxl false true pol n1 _ (map fail_write _)) as [[[n2 c3] o2] h2].
    destruct D2 as (-> & -> & ->). cbn [fst snd c_next].
    pose proof (ledger_step true c tr EDisc HL) as H1. unfold step in H1. cbn [wf_eventb negb] in H1.
    unfold do_disc in H1. rewrite L in H1. cbn [fst snd] in H1.
    rewrite strip_app, !strip_map_RO. exact H1.
Qed.

(* With re-entrant listeners following any policy that makes no request on a dead link (requests made from inside the
   notifications of a link drop are outside "every request": nothing can answer them): after every history every request
   ever accepted is exactly one of pending / settled once.  (For the code as it is, fxl = false, and with F06l.) *)
Theorem reentrant_exactly_one_notification fxl pol evs : no_request_on_dead_link pol -> forall n c tr,
  c_leaked c = false -> Ledger c tr ->
  Ledger (snd (fst (rrun fxl false pol (n, c) evs))) (tr ++ strip (snd (rrun fxl false pol (n, c) evs))).
Proof.
  intros Q. induction evs as [|e t IH]; intros n c tr L HL; cbn [rrun].
  - cbn [fst snd strip flat_map]. now rewrite app_nil_r.
  - pose proof (rstep_ledger fxl pol n c tr e Q L HL) as H1. pose proof (rstep_calm fxl pol n c e L) as [L1 _].
    destruct (rstep fxl false pol (n, c) e) as [[n1 c1] o1]. cbn [fst snd] in *.
    specialize (IH n1 c1 (tr ++ strip o1) L1 H1). destruct (rrun fxl false pol (n1, c1) t) as [nc2 o2].
    cbn [fst snd] in *. rewrite strip_app, app_assoc. exact IH.
Qed.

(* ================================================================ closed loop with the memory server (test plumbing) *)
Fixpoint pol_lookup (n : Z) (l : list (Z * event)) : option event :=
  match l with [] => None | (k, e) :: t => if k =? n then Some e else pol_lookup n t end.
Definition pol_of (l : list (Z * event)) : policy := fun n _ _ => pol_lookup (Z.of_nat n) l.

Definition enc_robs (x : robs) : list Z :=
  match x with RO o => enc_obs o | RNest lk => [19; if lk then 1 else 0] end.

Definition rsys_step (fxl : bool) (plan : nat -> Z) (pol : policy) (ns : nat * sys) (e : sevent)
  : (nat * sys) * list robs :=
  let '(n, s) := ns in
  let ce := match e with
            | SOp e => Some e
            | SDeliver k => match nth_error (s_log s) k with
                            | Some (_, ch, d) => Some (EPkt ch d)
                            | None => None
                            end
            end in
  match ce with
  | None => (ns, [])
  | Some e =>
      let '((n', c'), ro) := rstep fxl false pol (n, s_cl s) e in
      let '(m', lg', k') := serve_all plan (s_mem s) (s_log s) (s_n s) (strip ro) in
      ((n', mkS c' m' lg' k'), ro)
  end.

Fixpoint rsys_trace (fxl : bool) (plan : nat -> Z) (pol : policy) (ns : nat * sys) (evs : list sevent)
  : (nat * sys) * list Z :=
  match evs with
  | [] => (ns, [])
  | e :: t => let '(ns1, o1) := rsys_step fxl plan pol ns e in
              let '(ns2, z2) := rsys_trace fxl plan pol ns1 t in
              (ns2, [9; if fresh (snd ns) e then 1 else 0; if c_leaked (s_cl (snd ns1)) then 1 else 0]
                    ++ concat (map enc_robs o1) ++ z2)
  end.

Definition rrun_case (plan : list Z) (pol : list (Z * event)) (evs : list sevent) (windows : list (Z * Z * Z)) : list Z :=
  let '((_, s), z) := rsys_trace false (plan_of plan) (pol_of pol) (O, sys_init test_mem) evs in
  z ++ [10] ++ enc_client (s_cl s) ++ [11; Z.of_nat (s_n s); zlen (s_log s)]
    ++ concat (map (fun w => let '(i, a, n) := w in mread (s_mem s) i a (Z.to_nat n)) windows).
