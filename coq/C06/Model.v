(* C06/Model.v — executable model of the Crazyflie memory subsystem client
   (cflib/crazyflie/mem/__init__.py: _ReadRequest, _WriteRequest, Memory.read / write,
   _handle_chan_read / _handle_chan_write, _disconnected / _call_all_failed_callbacks)
   and of its environment (a memory server that answers every request packet it is sent,
   with replies that the adversary delivers late, several times, out of order or not at all).

   Definitions only.  Hand-written from the source; tied to the code on every run by
   differential execution of generated histories (harness/props/c06.py).

   Conventions.
   * Every accepted request gets a ghost identity [uid] (a counter).  The code has no such
     number: the harness makes it observable by handing a distinct memory object to every
     request (the callbacks report that object).  [OSend] carries the uid of the request the
     packet belongs to and [OSuperseded] reports a request dropped by flush_queue; both are
     ghost information and are stripped before traces are compared with the code.
   * [step fx]: fx = true models the tree with fixes/F06.patch (a write acknowledgement
     for a memory whose queue is empty is ignored); fx = false models the original code, where
     the same packet raises IndexError after _write_requests_lock has been acquired: the lock is
     never released ([c_leaked]) and every later operation that needs it blocks ([OHang]).
   * Domain: [wf_event].  Requests outside it (id not a byte, address range not inside
     [0, 2^32), data not bytes) make struct.pack raise in the code; the model does not describe
     them ([OOutOfDomain], state unchanged) and every theorem assumes [wf_event]. *)
From CF Require Export Common.Bytes.
Open Scope Z_scope.

Definition RCHUNK : Z := 20.     (* _ReadRequest.MAX_DATA_LENGTH *)
Definition WCHUNK : nat := 25.   (* _WriteRequest.MAX_DATA_LENGTH *)

Inductive mchan := ChRead | ChWrite | ChOther.   (* CRTP channel 1, 2, 3 of port 4 *)

Definition zlen {A} (l : list A) : Z := Z.of_nat (length l).

(* _ReadRequest: mem.id, addr, _bytes_left, _current_addr, data *)
Record rreq := mkR { r_uid : Z; r_id : Z; r_addr : Z; r_left : Z; r_cur : Z; r_data : list Z }.
(* _WriteRequest: mem.id, addr, _current_addr, _data (not yet sent), _addr_add *)
Record wreq := mkW { w_uid : Z; w_id : Z; w_addr : Z; w_cur : Z; w_rest : list Z; w_add : Z }.

Inductive obs :=
| OSend (uid : Z) (ch : mchan) (data : list Z)       (* cf.send_packet on port 4 *)
| OReadOk (uid id addr : Z) (data : list Z)          (* mem_read_cb *)
| OReadFail (uid id addr : Z) (data : list Z)        (* mem_read_failed_cb *)
| OWriteOk (uid id addr : Z)                         (* mem_write_cb *)
| OWriteFail (uid id addr : Z)                       (* mem_write_failed_cb *)
| OSuperseded (uid : Z)                              (* ghost: dropped from the queue by flush_queue *)
| ORet (b : bool)                                    (* value returned by read() / write() *)
| ORaise                                             (* an exception leaves the entry point *)
| OHang                                              (* blocks for ever on the leaked lock *)
| OOutOfDomain.

Inductive event :=
| ERead (id addr len : Z)                            (* Memory.read(mem, addr, len) *)
| EWrite (id addr : Z) (data : list Z) (flush : bool) (* Memory.write(mem, addr, data, flush_queue) *)
| EPkt (ch : mchan) (data : list Z)                  (* packet on port 4 handed to _new_packet_cb *)
| EDisc.                                             (* cf.disconnected fires *)

Record client := mkC {
  c_reads : list rreq;                 (* _read_requests, in dict order *)
  c_writes : list (Z * list wreq);     (* _write_requests: id -> queue, in dict order; keys stay *)
  c_leaked : bool;                     (* _write_requests_lock held with nobody to release it *)
  c_next : Z }.                        (* ghost: next uid *)

Definition c_init : client := mkC [] [] false 0.

(* ---- request packets *)
(* struct.pack('<BIB', id, current_addr, min(bytes_left, 20)) *)
Definition read_pkt (r : rreq) : obs :=
  OSend (r_uid r) ChRead (r_id r :: le_bytes 4 (r_cur r) ++ [Z.min (r_left r) RCHUNK]).

(* _write_new_chunk: take up to 25 bytes off _data, send id, address, bytes; remember the length *)
Definition w_start (w : wreq) : wreq * obs :=
  let chunk := firstn WCHUNK (w_rest w) in
  (mkW (w_uid w) (w_id w) (w_addr w) (w_cur w) (skipn WCHUNK (w_rest w)) (zlen chunk),
   OSend (w_uid w) ChWrite (w_id w :: le_bytes 4 (w_cur w) ++ chunk)).

(* write_done on the continuing branch: _current_addr += _addr_add; _write_new_chunk() *)
Definition w_advance (w : wreq) : wreq :=
  mkW (w_uid w) (w_id w) (w_addr w) (w_cur w + w_add w) (w_rest w) (w_add w).

(* ---- the two dictionaries *)
Fixpoint rd_get (i : Z) (rs : list rreq) : option rreq :=
  match rs with
  | [] => None
  | r :: t => if r_id r =? i then Some r else rd_get i t
  end.

Fixpoint rd_del (i : Z) (rs : list rreq) : list rreq :=
  match rs with
  | [] => []
  | r :: t => if r_id r =? i then t else r :: rd_del i t
  end.

Fixpoint rd_set (r' : rreq) (rs : list rreq) : list rreq :=   (* replace the record of that id in place *)
  match rs with
  | [] => []
  | r :: t => if r_id r =? r_id r' then r' :: t else r :: rd_set r' t
  end.

Fixpoint wq_get (i : Z) (ws : list (Z * list wreq)) : option (list wreq) :=
  match ws with
  | [] => None
  | (j, q) :: t => if j =? i then Some q else wq_get i t
  end.

Fixpoint wq_set (i : Z) (q : list wreq) (ws : list (Z * list wreq)) : list (Z * list wreq) :=
  match ws with
  | [] => [(i, q)]
  | (j, q0) :: t => if j =? i then (j, q) :: t else (j, q0) :: wq_set i q t
  end.

Definition set_reads (c : client) rs := mkC rs (c_writes c) (c_leaked c) (c_next c).
Definition set_writes (c : client) ws := mkC (c_reads c) ws (c_leaked c) (c_next c).

(* "Get a new one to start (if there are any)" *)
Definition start_head (q : list wreq) : list wreq * list obs :=
  match q with
  | [] => ([], [])
  | w :: t => let '(w', o) := w_start w in (w' :: t, [o])
  end.

(* ---- domain *)
Definition wf_event (e : event) : Prop :=
  match e with
  | ERead i a n => 0 <= i < 256 /\ 0 <= a < 2 ^ 32 /\ 0 <= n /\ a + n <= 2 ^ 32
  | EWrite i a d _ => 0 <= i < 256 /\ 0 <= a < 2 ^ 32 /\ a + zlen d <= 2 ^ 32 /\ bytes d
  | EPkt _ d => bytes d
  | EDisc => True
  end.

Definition wf_eventb (e : event) : bool :=
  match e with
  | ERead i a n => (0 <=? i) && (i <? 256) && (0 <=? a) && (a <? 2 ^ 32) && (0 <=? n) && (a + n <=? 2 ^ 32)
  | EWrite i a d _ => (0 <=? i) && (i <? 256) && (0 <=? a) && (a <? 2 ^ 32) && (a + zlen d <=? 2 ^ 32) && bytesb d
  | EPkt _ d => bytesb d
  | EDisc => true
  end.

(* ---- Memory.read *)
Definition do_read (c : client) (i a n : Z) : client * list obs :=
  match rd_get i (c_reads c) with
  | Some _ => (c, [ORet false])                      (* "already a read operation ongoing" *)
  | None =>
      let r := mkR (c_next c) i a n a [] in
      (mkC (c_reads c ++ [r]) (c_writes c) (c_leaked c) (c_next c + 1), [read_pkt r; ORet true])
  end.

(* ---- Memory.write *)
Definition do_write (c : client) (i a : Z) (d : list Z) (flush : bool) : client * list obs :=
  if c_leaked c then (c, [OHang]) else
  let q := match wq_get i (c_writes c) with Some q => q | None => [] end in
  let q1 := if flush then firstn 1 q else q in
  let dropped := if flush then map (fun w => OSuperseded (w_uid w)) (skipn 1 q) else [] in
  let w := mkW (c_next c) i a a d 0 in
  match q1 with
  | [] => let '(w', o) := w_start w in
          (mkC (c_reads c) (wq_set i [w'] (c_writes c)) false (c_next c + 1), dropped ++ [o; ORet true])
  | _ :: _ => (mkC (c_reads c) (wq_set i (q1 ++ [w]) (c_writes c)) false (c_next c + 1), dropped ++ [ORet true])
  end.

(* ---- _handle_chan_read *)
Definition do_read_reply (c : client) (i : Z) (payload : list Z) : client * list obs :=
  if (length payload <? 5)%nat then (c, [ORaise]) else      (* struct.unpack('<IB', payload[0:5]) *)
  let addr := le_val (firstn 4 payload) in
  let status := nth 4 payload 0 in
  let dat := skipn 5 payload in
  match rd_get i (c_reads c) with
  | None => (c, [])
  | Some r =>
      if status =? 0 then
        if addr =? r_cur r then
          let r' := mkR (r_uid r) (r_id r) (r_addr r) (r_left r - zlen dat) (r_cur r + zlen dat) (r_data r ++ dat) in
          if 0 <? r_left r' then (set_reads c (rd_set r' (c_reads c)), [read_pkt r'])
          else (set_reads c (rd_del i (c_reads c)), [OReadOk (r_uid r) (r_id r) (r_addr r) (r_data r')])
        else (c, [])                                        (* "Address did not match" *)
      else (set_reads c (rd_del i (c_reads c)), [OReadFail (r_uid r) (r_id r) (r_addr r) (r_data r)])
  end.

(* ---- _handle_chan_write *)
Definition do_write_reply (fx : bool) (c : client) (i : Z) (payload : list Z) : client * list obs :=
  if (length payload <? 5)%nat then (c, [ORaise]) else
  let addr := le_val (firstn 4 payload) in
  let status := nth 4 payload 0 in
  match wq_get i (c_writes c) with
  | None => (c, [])
  | Some [] =>
      if fx then (c, [])
      else if c_leaked c then (c, [OHang])
      else (mkC (c_reads c) (c_writes c) true (c_next c), [ORaise])   (* IndexError with the lock held *)
  | Some (w :: q) =>
      if c_leaked c then (c, [OHang]) else
      if status =? 0 then
        if addr =? w_cur w then
          match w_rest w with
          | [] => let '(q', os) := start_head q in
                  (set_writes c (wq_set i q' (c_writes c)), os ++ [OWriteOk (w_uid w) (w_id w) (w_addr w)])
          | _ :: _ => let '(w', o) := w_start (w_advance w) in
                      (set_writes c (wq_set i (w' :: q) (c_writes c)), [o])
          end
        else (c, [])
      else let '(q', os) := start_head q in
           (set_writes c (wq_set i q' (c_writes c)), os ++ [OWriteFail (w_uid w) (w_id w) (w_addr w)])
  end.

(* ---- _disconnected *)
Definition fail_read (r : rreq) : obs := OReadFail (r_uid r) (r_id r) (r_addr r) (r_data r).
Definition fail_write (w : wreq) : obs := OWriteFail (w_uid w) (w_id w) (w_addr w).

Definition do_disc (c : client) : client * list obs :=
  let ro := map fail_read (c_reads c) in
  if c_leaked c then (mkC [] (c_writes c) true (c_next c), ro ++ [OHang])
  else (mkC [] [] false (c_next c), ro ++ map fail_write (concat (map snd (c_writes c)))).

Definition step (fx : bool) (c : client) (e : event) : client * list obs :=
  if negb (wf_eventb e) then (c, [OOutOfDomain]) else
  match e with
  | ERead i a n => do_read c i a n
  | EWrite i a d fl => do_write c i a d fl
  | EPkt ch d =>
      match d with
      | [] => (c, [ORaise])                                 (* packet.data[0] *)
      | i :: p => match ch with
                  | ChRead => do_read_reply c i p
                  | ChWrite => do_write_reply fx c i p
                  | ChOther => (c, [])
                  end
      end
  | EDisc => do_disc c
  end.

Fixpoint run (fx : bool) (c : client) (evs : list event) : client * list obs :=
  match evs with
  | [] => (c, [])
  | e :: t => let '(c1, o1) := step fx c e in
              let '(c2, o2) := run fx c1 t in (c2, o1 ++ o2)
  end.

(* ================================================================ environment: the memory server *)

Definition memory := Z -> Z -> Z.        (* memory id -> address -> byte *)

(* the image after writing the bytes d at address a of memory i: d over [a, a + |d|), m elsewhere *)
Definition mwrite (m : memory) (i a : Z) (d : list Z) : memory :=
  fun i' a' => if (i' =? i) && (a <=? a') && (a' <? a + zlen d)
               then nth (Z.to_nat (a' - a)) d 0 else m i' a'.

Fixpoint mread (m : memory) (i a : Z) (n : nat) : list Z :=
  match n with
  | O => []
  | S k => m i a :: mread m i (a + 1) k
  end.

(* a reply waiting somewhere between server and client: uid of the request whose packet it answers
   (ghost), channel, bytes *)
Definition reply := (Z * mchan * list Z)%type.

Record sys := mkS {
  s_cl : client;
  s_mem : memory;
  s_log : list reply;        (* every reply ever produced, oldest first; none is ever removed *)
  s_n : nat }.               (* number of request packets served *)

Definition sys_init (m : memory) : sys := mkS c_init m [] O.

(* The server handles one request packet.  [st] is the status it decides to answer with: 0 = done,
   anything else = refused and nothing done. *)
Definition serve (st : Z) (m : memory) (o : obs) : memory * list reply :=
  match o with
  | OSend u ChRead (i :: rest) =>
      let hd := i :: firstn 4 rest in
      if st =? 0 then (m, [(u, ChRead, hd ++ [0] ++ mread m i (le_val (firstn 4 rest)) (Z.to_nat (nth 4 rest 0)))])
      else (m, [(u, ChRead, hd ++ [st])])
  | OSend u ChWrite (i :: rest) =>
      let hd := i :: firstn 4 rest in
      if st =? 0 then (mwrite m i (le_val (firstn 4 rest)) (skipn 4 rest), [(u, ChWrite, hd ++ [0])])
      else (m, [(u, ChWrite, hd ++ [st])])
  | _ => (m, [])
  end.

Definition is_send (o : obs) : bool := match o with OSend _ _ _ => true | _ => false end.

(* the packets the client sent during one step reach the server at once, in order *)
Fixpoint serve_all (plan : nat -> Z) (m : memory) (lg : list reply) (n : nat) (os : list obs)
  : memory * list reply * nat :=
  match os with
  | [] => (m, lg, n)
  | o :: t => if is_send o
              then let '(m', rs) := serve (plan n) m o in serve_all plan m' (lg ++ rs) (S n) t
              else serve_all plan m lg n t
  end.

Inductive sevent :=
| SOp (e : event)          (* user operation, disconnect (or, with EPkt, a packet forged by the adversary) *)
| SDeliver (k : nat).      (* the k-th reply ever produced reaches the client (again) *)

Definition sys_step (fx : bool) (plan : nat -> Z) (s : sys) (e : sevent) : sys * list obs :=
  let ce := match e with
            | SOp e => Some e
            | SDeliver k => match nth_error (s_log s) k with
                            | Some (_, ch, d) => Some (EPkt ch d)
                            | None => None
                            end
            end in
  match ce with
  | None => (s, [])
  | Some e =>
      let '(c', os) := step fx (s_cl s) e in
      let '(m', lg', n') := serve_all plan (s_mem s) (s_log s) (s_n s) os in
      (mkS c' m' lg' n', os)
  end.

Fixpoint sys_run (fx : bool) (plan : nat -> Z) (s : sys) (evs : list sevent) : sys * list obs :=
  match evs with
  | [] => (s, [])
  | e :: t => let '(s1, o1) := sys_step fx plan s e in
              let '(s2, o2) := sys_run fx plan s1 t in (s2, o1 ++ o2)
  end.

(* ---- freshness: the delivered reply answers a packet of a request that is still the active one
   (the pending read of its memory / the head of its write queue).  Duplicates and late deliveries
   of such replies are fresh; a reply that outlived its request is stale. *)
Definition active_read (c : client) (u : Z) : bool := existsb (fun r => r_uid r =? u) (c_reads c).
Definition active_write (c : client) (u : Z) : bool :=
  existsb (fun iq => match snd iq with w :: _ => w_uid w =? u | [] => false end) (c_writes c).

Definition fresh (s : sys) (e : sevent) : bool :=
  match e with
  | SOp (EPkt _ _) => false
  | SOp _ => true
  | SDeliver k => match nth_error (s_log s) k with
                  | Some (u, ChRead, _) => active_read (s_cl s) u
                  | Some (u, ChWrite, _) => active_write (s_cl s) u
                  | Some (_, ChOther, _) => true
                  | None => true
                  end
  end.

Fixpoint all_fresh (fx : bool) (plan : nat -> Z) (s : sys) (evs : list sevent) : bool :=
  match evs with
  | [] => true
  | e :: t => fresh s e && all_fresh fx plan (fst (sys_step fx plan s e)) t
  end.

Definition wf_sevent (e : sevent) : Prop := match e with SOp e => wf_event e | SDeliver _ => True end.

(* ================================================================ test plumbing (not used by theorems) *)
Definition ch_code (ch : mchan) : Z := match ch with ChRead => 1 | ChWrite => 2 | ChOther => 3 end.

(* encoding of the non-ghost part of an observation as integers (compared with the adapter's encoding) *)
Definition enc_obs (o : obs) : list Z :=
  match o with
  | OSend _ ch d => [1; ch_code ch; zlen d] ++ d
  | OReadOk u i a d => [2; u; i; a; zlen d] ++ d
  | OReadFail u i a d => [3; u; i; a; zlen d] ++ d
  | OWriteOk u i a => [4; u; i; a]
  | OWriteFail u i a => [5; u; i; a]
  | OSuperseded _ => []
  | ORet b => [6; if b then 1 else 0]
  | ORaise => [7]
  | OHang => [8]
  | OOutOfDomain => [99]
  end.

Definition enc_client (c : client) : list Z :=
  [if c_leaked c then 1 else 0; zlen (c_reads c)]
  ++ concat (map (fun r => [r_uid r; r_id r; r_addr r; r_left r; r_cur r; zlen (r_data r)]) (c_reads c))
  ++ [zlen (c_writes c)]
  ++ concat (map (fun iq => [fst iq; zlen (snd iq)]
                   ++ concat (map (fun w => [w_uid w; w_addr w; w_cur w; zlen (w_rest w)]) (snd iq))) (c_writes c)).

(* run a closed-loop history; per event: marker 9, freshness flag, lock flag after the event, observations *)
Fixpoint sys_trace (fx : bool) (plan : nat -> Z) (s : sys) (evs : list sevent) : sys * list Z :=
  match evs with
  | [] => (s, [])
  | e :: t => let '(s1, o1) := sys_step fx plan s e in
              let '(s2, z2) := sys_trace fx plan s1 t in
              (s2, [9; if fresh s e then 1 else 0; if c_leaked (s_cl s1) then 1 else 0]
                   ++ concat (map enc_obs o1) ++ z2)
  end.

Definition plan_of (l : list Z) : nat -> Z := fun k => nth k l 0.

(* initial device image used by the correspondence runs (same formula in the Python fake) *)
Definition test_mem : memory := fun i a => (a * 31 + i * 17 + a / 256 * 7 + 5) mod 256.

(* windows = list of (id, addr, len): device bytes dumped after the run *)
Definition run_case (fx : bool) (plan : list Z) (evs : list sevent) (windows : list (Z * Z * Z)) : list Z :=
  let '(s, z) := sys_trace fx (plan_of plan) (sys_init test_mem) evs in
  z ++ [10] ++ enc_client (s_cl s) ++ [11; Z.of_nat (s_n s); zlen (s_log s)]
    ++ concat (map (fun w => let '(i, a, n) := w in mread (s_mem s) i a (Z.to_nat n)) windows).

(* cheap 61-bit rolling digest (test plumbing: lets the harness compare long traces without printing them) *)
Definition dg61 (l : list Z) : Z :=
  fold_left (fun h v => Z.land (h * 1000003 + v + 1) 2305843009213693951) l 7.
