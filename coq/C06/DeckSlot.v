(* C06/DeckSlot.v — the pending-callback records of the deck memory manager (_read_complete_cb / _write_complete_cb with
   their optional failure callbacks): after any completed or failed deck read / write, with or without failure callback,
   the record is clear, so the next DeckMemory.read / write on that manager is taken.  Refutation of the variant that
   returns early from _new_data_failed when there is no read_failed_cb ("nobody to tell") and leaves the record set. *)
From CF Require Import Common.Bytes C06.Model C06.DeckModel C06.DeckProofs.
Open Scope Z_scope.

(* one notification: whatever the record holds (failure callback or not), the listener clears it *)
Theorem deck_record_cleared_by_every_notification : forall did d u a dat t asked b,
  a <> 0 ->
  (d_r d = Some (t, asked, b) ->
     d_r (fst (dnote true did d (OReadOk u did a dat))) = None /\
     d_r (fst (dnote true did d (OReadFail u did a dat))) = None) /\
  (d_w d = Some (t, asked, b) ->
     d_w (fst (dnote true did d (OWriteOk u did a))) = None /\
     d_w (fst (dnote true did d (OWriteFail u did a))) = None).
Proof.
  intros did d u a dat t asked b N. split; intros H.
  - rewrite (dnote_readok did d u a dat t asked b H N), (dnote_readfail did d u a dat t asked b H N). split; reflexivity.
  - rewrite (dnote_writeok did d u a t asked b H), (dnote_writefail did d u a t asked b H). split; reflexivity.
Qed.

(* every history (deck reads / writes with and without failure callbacks, any packets, error statuses, link drops):
   whenever the read / write layer holds no read (no queued write) of the manager's memory, the manager's record is
   clear and the next deck read (write) is taken *)
Theorem deck_no_record_left_behind : forall did evs,
  Forall (wf_devent did) evs ->
  let dc := fst (drun true did (dm_init, c_init) evs) in
  (rd_get did (c_reads (snd dc)) = None ->
     d_r (fst dc) = None /\ forall base addr len tok, dev_event did (fst dc) (DRead base addr len tok) <> None) /\
  (match wq_get did (c_writes (snd dc)) with Some q => q | None => [] end = [] ->
     d_w (fst dc) = None /\ forall base addr data tok, dev_event did (fst dc) (DWrite base addr data tok) <> None).
Proof.
  intros did evs Wf. cbv zeta.
  destruct (drun true did (dm_init, c_init) evs) as [[d c] tr] eqn:R.
  destruct (drun_good did evs dm_init c_init (d, c) tr (inv_init did) Wf R) as [[_ [HR HW]] _].
  cbn [fst snd] in *. split.
  - intros G. unfold AR, rv in HR. rewrite G in HR. cbn [option_map] in HR.
    destruct (d_r d) as [[[t asked] b]|] eqn:Dr; [destruct HR|].
    split; [reflexivity|]. intros base addr len tok. cbn [dev_event]. rewrite Dr. discriminate.
  - intros G. unfold AW, wv, qd in HW. rewrite G in HW. cbn [map] in HW.
    destruct (d_w d) as [[[t asked] b]|] eqn:Dw; [destruct HW|].
    split; [reflexivity|]. intros base addr data tok. cbn [dev_event]. rewrite Dw. discriminate.
Qed.

(* ---- the early-return variant: a failed read without failure callback leaves _read_complete_cb set *)
Definition dnote_early (did : Z) (d : dm) (o : obs) : dm * list dobs :=
  match o with
  | OReadFail _ i a _ =>
      if (i =? did) && negb (a =? 0) then
        match d_r d with
        | Some (t, _, _) => if has_fcb t then dnote true did d o else (d, [])     (* "nobody to tell": return *)
        | None => dnote true did d o
        end
      else dnote true did d o
  | _ => dnote true did d o
  end.

Fixpoint dnotes_early (did : Z) (d : dm) (os : list obs) : dm * list (obs + dobs) :=
  match os with
  | [] => (d, [])
  | o :: t => let '(d1, x) := dnote_early did d o in
              let '(d2, y) := dnotes_early did d1 t in (d2, inl o :: map inr x ++ y)
  end.

Definition dstep_early (did : Z) (dc : dm * client) (e : devent) : (dm * client) * list (obs + dobs) :=
  match dev_event did (fst dc) e with
  | None => (dc, [inr DRaise])
  | Some (d1, ce) =>
      let '(c', os) := step true (snd dc) ce in
      let '(d2, tr) := dnotes_early did d1 os in
      ((if is_disc e then dm_init else d2, c'), tr)
  end.

Fixpoint drun_early (did : Z) (dc : dm * client) (evs : list devent) : (dm * client) * list (obs + dobs) :=
  match evs with
  | [] => (dc, [])
  | e :: t => let '(dc1, o1) := dstep_early did dc e in
              let '(dc2, o2) := drun_early did dc1 t in (dc2, o1 ++ o2)
  end.

(* DeckMemory(0x10000000).read(0x40, 30, cb) without failure callback (token -1); the device refuses the first chunk
   (status 9); the next read on the manager *)
Definition early_history : list devent :=
  [DRead 268435456 64 30 (-1);
   DEv (EPkt ChRead (6 :: le_bytes 4 (268435456 + 64) ++ [9]));
   DRead 268435456 64 30 5].

Theorem deck_early_return_refuted :
  Forall (wf_devent 6) early_history /\
  (* the variant: the read layer holds nothing, the record is still set, the next read is refused ('Read operation ongoing') *)
  rd_get 6 (c_reads (snd (fst (drun_early 6 (dm_init, c_init) early_history)))) = None /\
  d_r (fst (fst (drun_early 6 (dm_init, c_init) (firstn 2 early_history)))) <> None /\
  last (snd (drun_early 6 (dm_init, c_init) early_history)) (inr DRaise) = inr DRaise /\
  (* the code: the record is clear after the failed read, the next read is taken (its first request goes out) *)
  d_r (fst (fst (drun true 6 (dm_init, c_init) (firstn 2 early_history)))) = None /\
  ~ In (inr DRaise) (snd (drun true 6 (dm_init, c_init) early_history)).
Proof.
  split; [repeat constructor; cbn; try lia; unfold byte; try lia|].
  vm_compute. repeat split; try reflexivity; try discriminate.
  intros H. repeat (destruct H as [H|H]; [discriminate H|]). exact H.
Qed.

(* ================================================================ Wave 16: requests made from inside deck callbacks *)
(* The manager clears its record BEFORE it calls the caller's callback: the state in which the callback runs is
   [fst (dnote ...)].  Inside any deck callback the corresponding record is clear, so a nested request of the same kind
   (the next block, a retry) is taken. *)
Theorem deck_nested_request_taken : forall did d u a dat t asked b base addr len data tok,
  a <> 0 ->
  (d_r d = Some (t, asked, b) ->
     dev_event did (fst (dnote true did d (OReadOk u did a dat))) (DRead base addr len tok) <> None /\
     dev_event did (fst (dnote true did d (OReadFail u did a dat))) (DRead base addr len tok) <> None) /\
  (d_w d = Some (t, asked, b) ->
     dev_event did (fst (dnote true did d (OWriteOk u did a))) (DWrite base addr data tok) <> None /\
     dev_event did (fst (dnote true did d (OWriteFail u did a))) (DWrite base addr data tok) <> None).
Proof.
  intros did d u a dat t asked b base addr len data tok N.
  destruct (deck_record_cleared_by_every_notification did d u a dat t asked b N) as [HR HW].
  split; intros H.
  - destruct (HR H) as [E1 E2]. cbn [dev_event]. rewrite E1, E2. split; discriminate.
  - destruct (HW H) as [E1 E2]. cbn [dev_event]. rewrite E1, E2. split; discriminate.
Qed.

(* the variant that calls the callback first and clears the record afterwards (in a `finally`): the callback runs in
   the state d itself, where the record is still set: the nested request is refused ('Write operation ongoing') *)
Theorem deck_clear_after_callback_refuted : forall did d t asked b base addr data tok,
  d_w d = Some (t, asked, b) -> dev_event did d (DWrite base addr data tok) = None.
Proof. intros did d t asked b base addr data tok H. cbn [dev_event]. rewrite H. reflexivity. Qed.
