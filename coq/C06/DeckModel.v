(* C06/DeckModel.v — the deck-memory layer on top of the memory subsystem
   (cflib/crazyflie/mem/deck_memory.py: DeckMemory.read / write -> DeckMemoryManager._read / _write,
   _new_data / _new_data_failed / _write_done / _write_failed).

   One memory id [did] (the deck memory manager's) is addressed deck-relative: a DeckMemory with base
   address `base` maps address a to base + a, and the manager translates the addresses reported by
   Memory's notifications back before it calls the caller's callbacks.  It allows one read and one write
   outstanding at the same time (_read_complete_cb / _write_complete_cb), for decks with different bases.

   [fxd] = true: the code with fixes/F06d.patch (the base of the outstanding write is kept in its own
   attribute); fxd = false: the original, which subtracts _read_base_address in _write_done / _write_failed.
   Ghost: [d_r] / [d_w] remember, next to the token of the caller's callbacks, the deck-relative address and
   the base that were asked, so that theorems can speak about them; the code keeps only the callbacks.
   Definitions only. *)
From CF Require Export Common.Bytes C06.Model.
Open Scope Z_scope.

Record dm := mkD {
  d_r : option (Z * Z * Z);    (* _read_complete_cb set: token, asked address, asked base (ghost) *)
  d_rbase : Z;                 (* _read_base_address *)
  d_w : option (Z * Z * Z);    (* _write_complete_cb set *)
  d_wbase : Z }.               (* _write_base_address (F06d.patch); unused when fxd = false *)

Definition dm_init : dm := mkD None 0 None 0.

(* The failure callbacks of DeckMemory.read / write are optional (read_failed_cb=None, write_failed_cb=None).  Ghost
   encoding: the token of a request made WITHOUT failure callback is negative. *)
Definition has_fcb (tok : Z) : bool := 0 <=? tok.

Inductive dobs :=
| DReadOk (tok asked base reported : Z) (data : list Z)   (* read_complete_cb(reported, data) *)
| DReadFail (tok asked base reported : Z)                 (* read_failed_cb(reported) *)
| DWriteOk (tok asked base reported : Z)                  (* write_complete_cb(reported) *)
| DWriteFail (tok asked base reported : Z)                (* write_failed_cb(reported) *)
| DRaise.                                                 (* 'Read/Write operation ongoing', or a callback that is None is called *)

Inductive devent :=
| DRead (base addr len tok : Z)                 (* DeckMemory(base).read(addr, len, cb, failed_cb) *)
| DWrite (base addr : Z) (data : list Z) (tok : Z)  (* DeckMemory(base).write(addr, data, cb, failed_cb) *)
| DEv (e : event).                              (* anything else: packets, disconnect, requests on other memories *)

Section Deck.
  Variable fxd : bool.
  Variable did : Z.

  (* the manager's four listeners on Memory's notification of one observation *)
  Definition dnote (d : dm) (o : obs) : dm * list dobs :=
    match o with
    | OReadOk _ i a dat =>
        if negb (i =? did) then (d, []) else
        if a =? 0 then (d, [DRaise])                      (* INFO_SECTION_ADDRESS: the query path, not modelled *)
        else match d_r d with
             | Some (t, asked, b) => (mkD None (d_rbase d) (d_w d) (d_wbase d), [DReadOk t asked b (a - d_rbase d) dat])
             | None => (d, [DRaise])
             end
    | OReadFail _ i a _ =>
        if negb (i =? did) then (d, []) else
        if a =? 0 then (d, [])
        else match d_r d with
             | Some (t, asked, b) =>       (* tmp = _read_failed_cb; _clear_read_cb(); tmp(..) if tmp is not None *)
                 (mkD None (d_rbase d) (d_w d) (d_wbase d),
                  if has_fcb t then [DReadFail t asked b (a - d_rbase d)] else [])
             | None => (d, [])
             end
    | OWriteOk _ i a =>
        if negb (i =? did) then (d, []) else
        match d_w d with
        | Some (t, asked, b) => (mkD (d_r d) (d_rbase d) None (d_wbase d),
                                 [DWriteOk t asked b (a - (if fxd then d_wbase d else d_rbase d))])
        | None => (d, [DRaise])
        end
    | OWriteFail _ i a =>
        if negb (i =? did) then (d, []) else
        match d_w d with
        | Some (t, asked, b) =>         (* _clear_write_cb(); the failure callback if there is one (F06m.patch) *)
            (mkD (d_r d) (d_rbase d) None (d_wbase d),
             if has_fcb t then [DWriteFail t asked b (a - (if fxd then d_wbase d else d_rbase d))] else [])
        | None => (d, [DRaise])
        end
    | _ => (d, [])
    end.

  (* Memory's observations of one step, each followed by what the manager's listener does with it *)
  Fixpoint dnotes (d : dm) (os : list obs) : dm * list (obs + dobs) :=
    match os with
    | [] => (d, [])
    | o :: t => let '(d1, x) := dnote d o in
                let '(d2, y) := dnotes d1 t in (d2, inl o :: map inr x ++ y)
    end.

  (* the client event a deck event boils down to; None = the manager refuses ('operation ongoing') *)
  Definition dev_event (d : dm) (e : devent) : option (dm * event) :=
    match e with
    | DRead base addr len tok =>
        match d_r d with
        | Some _ => None
        | None => Some (mkD (Some (tok, addr, base)) base (d_w d) (d_wbase d), ERead did (addr + base) len)
        end
    | DWrite base addr data tok =>
        match d_w d with
        | Some _ => None
        | None => Some (mkD (d_r d) (d_rbase d) (Some (tok, addr, base)) base, EWrite did (addr + base) data true)
        end
    | DEv e => Some (d, e)
    end.

  Definition is_disc (e : devent) : bool := match e with DEv EDisc => true | _ => false end.

  Definition dstep (dc : dm * client) (e : devent) : (dm * client) * list (obs + dobs) :=
    match dev_event (fst dc) e with
    | None => (dc, [inr DRaise])
    | Some (d1, ce) =>
        let '(c', os) := step true (snd dc) ce in
        let '(d2, tr) := dnotes d1 os in
        (* after a disconnect the memories are enumerated again: a new manager object *)
        ((if is_disc e then dm_init else d2, c'), tr)
    end.

  Fixpoint drun (dc : dm * client) (evs : list devent) : (dm * client) * list (obs + dobs) :=
    match evs with
    | [] => (dc, [])
    | e :: t => let '(dc1, o1) := dstep dc e in
                let '(dc2, o2) := drun dc1 t in (dc2, o1 ++ o2)
    end.

  (* domain: deck requests are in the domain of the memory subsystem with a base above 0 (so that the mapped
     address is never INFO_SECTION_ADDRESS = 0), and nobody else uses the manager's memory id *)
  Definition wf_devent (e : devent) : Prop :=
    match e with
    | DRead base addr len _ => 0 < base /\ 0 <= addr /\ wf_event (ERead did (addr + base) len)
    | DWrite base addr data _ => 0 < base /\ 0 <= addr /\ wf_event (EWrite did (addr + base) data true)
    | DEv (ERead i _ _) => i <> did
    | DEv (EWrite i _ _ _) => i <> did
    | DEv _ => True
    end.

  (* ---- closed loop with the memory server (test plumbing for the correspondence runs) *)
  Inductive dsevent := DSOp (e : devent) | DSDeliver (k : nat).

  Definition dsys_step (plan : nat -> Z) (ds : dm * sys) (e : dsevent) : (dm * sys) * list (obs + dobs) * bool :=
    let '(d, s) := ds in
    let de := match e with
              | DSOp e => Some e
              | DSDeliver k => match nth_error (s_log s) k with
                               | Some (_, ch, p) => Some (DEv (EPkt ch p))
                               | None => None
                               end
              end in
    let fr := match e with
              | DSDeliver k => fresh s (SDeliver k)
              | DSOp (DEv e) => fresh s (SOp e)
              | DSOp _ => true
              end in
    match de with
    | None => (ds, [], fr)
    | Some de =>
        let '((d', c'), tr) := dstep (d, s_cl s) de in
        let os := flat_map (fun x => match x with inl o => [o] | inr _ => [] end) tr in
        let '(m', lg', n') := serve_all plan (s_mem s) (s_log s) (s_n s) os in
        ((d', mkS c' m' lg' n'), tr, fr)
    end.

  Definition enc_dobs (o : dobs) : list Z :=
    match o with
    | DReadOk t _ _ rep dat => [12; t; rep; zlen dat] ++ dat
    | DReadFail t _ _ rep => [13; t; rep]
    | DWriteOk t _ _ rep => [14; t; rep]
    | DWriteFail t _ _ rep => [15; t; rep]
    | DRaise => [7]
    end.

  Fixpoint dsys_trace (plan : nat -> Z) (ds : dm * sys) (evs : list dsevent) : (dm * sys) * list Z :=
    match evs with
    | [] => (ds, [])
    | e :: t => let '(ds1, tr, fr) := dsys_step plan ds e in
                let '(ds2, z2) := dsys_trace plan ds1 t in
                (ds2, [9; if fr then 1 else 0; if c_leaked (s_cl (snd ds1)) then 1 else 0]
                      ++ flat_map (fun x => match x with inl o => enc_obs o | inr o => enc_dobs o end) tr ++ z2)
    end.

  Definition drun_case (plan : list Z) (evs : list dsevent) (windows : list (Z * Z * Z)) : list Z :=
    let '((d, s), z) := dsys_trace (plan_of plan) (dm_init, sys_init test_mem) evs in
    z ++ [10] ++ enc_client (s_cl s) ++ [11; Z.of_nat (s_n s); zlen (s_log s)]
      ++ concat (map (fun w => let '(i, a, n) := w in mread (s_mem s) i a (Z.to_nat n)) windows).
End Deck.
