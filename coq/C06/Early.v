(* C06/Early.v — EARLY replies: Memory.read() is two steps, the registration of the request
   (self._read_requests[memory.id] = rreq) and the sending of its first packet (rreq.start()); the incoming-packet
   thread may handle packets — in particular the reply to that very packet — between the send and the next statement
   of the calling thread.  [read_two_step reg_first c i a n early]: early = what the dispatcher handles in between.
   reg_first = true is the code (register, then send): a reply exists only after the send, hence after the
   registration, and finds its record, for every interleaving; the result is the one of the atomic read() followed by
   the same packets, so every theorem about [run] covers early replies.  reg_first = false (send, then register) is
   refuted: the early reply finds no record and is dropped, the request registered afterwards is never answered and
   blocks every later read of that memory. *)
From CF Require Import Common.Bytes C06.Model C06.Proofs C06.ExactLemmas.
From Coq Require Import ZifyBool.
Open Scope Z_scope.

Definition new_rreq (c : client) (i a n : Z) : rreq := mkR (c_next c) i a n a [].
Definition register (c : client) (r : rreq) : client :=
  mkC (c_reads c ++ [r]) (c_writes c) (c_leaked c) (c_next c + 1).

Definition read_two_step (reg_first : bool) (c : client) (i a n : Z) (early : list event) : client * list obs :=
  match rd_get i (c_reads c) with
  | Some _ => (c, [ORet false])
  | None =>
      let r := new_rreq c i a n in
      if reg_first then
        let '(c2, os) := run true (register c r) early in (c2, read_pkt r :: os ++ [ORet true])
      else
        let '(c1, os) := run true c early in (register c1 r, read_pkt r :: os ++ [ORet true])
  end.

(* the code: the same as the atomic read() followed by the packets (only the position of read()'s return value in
   the observations differs) *)
Theorem early_read_is_read_then_packets c i a n early :
  wf_event (ERead i a n) -> rd_get i (c_reads c) = None ->
  let r := new_rreq c i a n in
  fst (read_two_step true c i a n early) = fst (run true c (ERead i a n :: early)) /\
  snd (read_two_step true c i a n early) = read_pkt r :: snd (run true (register c r) early) ++ [ORet true] /\
  snd (run true c (ERead i a n :: early)) = [read_pkt r; ORet true] ++ snd (run true (register c r) early).
Proof.
  intros W G. apply wf_eventb_spec in W. cbv zeta. unfold read_two_step. rewrite G. cbn [run]. unfold step. rewrite W.
  cbn [negb]. unfold do_read. rewrite G. fold (new_rreq c i a n). fold (register c (new_rreq c i a n)).
  destruct (run true (register c (new_rreq c i a n)) early) as [c2 os]. cbn [fst snd]. repeat split.
Qed.

(* every reply finds its record: whatever the dispatcher handles after the send, it handles it with the request
   registered; the honest reply to the first packet (status 0, the address that was asked) is taken: the next chunk is
   requested or the read is notified — for any data *)
Theorem early_reply_finds_its_record c i a n dat :
  wf_event (ERead i a n) -> rd_get i (c_reads c) = None -> bytes dat ->
  let r := new_rreq c i a n in
  rd_get i (c_reads (register c r)) = Some r /\
  exists c' o, step true (register c r) (EPkt ChRead (i :: le_bytes 4 a ++ [0] ++ dat)) = (c', [o]) /\
               (o = OReadOk (c_next c) i a dat \/ exists r', o = read_pkt r' /\ r_uid r' = c_next c /\ r_data r' = dat).
Proof.
  intros W G Hd. cbv zeta. assert (Wc := W). cbn [wf_event] in Wc. destruct Wc as (Hi & Ha & Hn & Han).
  assert (R : rd_get i (c_reads (register c (new_rreq c i a n))) = Some (new_rreq c i a n)).
  { cbn [register c_reads]. rewrite rd_get_app, G. cbn [rd_get new_rreq r_id]. now rewrite Z.eqb_refl. }
  split; [exact R|].
  assert (Wp : wf_eventb (EPkt ChRead (i :: le_bytes 4 a ++ [0] ++ dat)) = true).
  { apply wf_eventb_spec. cbn [wf_event]. constructor; [exact Hi|]. apply Forall_app. split; [apply le_bytes_bytes|].
    constructor; [unfold byte; lia|exact Hd]. }
  unfold step. rewrite Wp. cbn [negb]. unfold do_read_reply.
  pose proof (le_bytes_length 4 a) as L4.
  assert (Lp : Nat.ltb (length (le_bytes 4 a ++ [0] ++ dat)) 5 = false).
  { rewrite app_length, L4. cbn [app length]. apply Nat.ltb_ge. lia. }
  rewrite Lp, R.
  assert (F4 : firstn 4 (le_bytes 4 a ++ [0] ++ dat) = le_bytes 4 a).
  { rewrite <- L4 at 1. apply firstn_app_exact. }
  assert (N4 : nth 4 (le_bytes 4 a ++ [0] ++ dat) 0 = 0).
  { rewrite app_nth2 by lia. rewrite L4. reflexivity. }
  assert (S5 : skipn 5 (le_bytes 4 a ++ [0] ++ dat) = dat).
  { destruct (le_bytes 4 a) as [|b0 [|b1 [|b2 [|b3 [|b4 t]]]]]; try discriminate L4. reflexivity. }
  rewrite F4, N4, S5, le4_val by lia. cbn [new_rreq r_cur r_uid r_id r_addr r_left r_data app]. rewrite !Z.eqb_refl.
  destruct (0 <? n - zlen dat) eqn:More.
  - eexists. eexists. split; [reflexivity|]. right. eexists. split; [reflexivity|]. cbn [r_uid r_data]. split; reflexivity.
  - eexists. eexists. split; [reflexivity|]. left. reflexivity.
Qed.

(* ---- send before register: refuted *)
(* without a record every packet for that memory on the read channel is dropped (or raises): the state is unchanged *)
Lemma no_record_reply_dropped c i p :
  rd_get i (c_reads c) = None -> fst (step true c (EPkt ChRead (i :: p))) = c /\
  forall o, In o (snd (step true c (EPkt ChRead (i :: p)))) -> o = ORaise \/ o = OOutOfDomain.
Proof.
  intros G. unfold step. destruct (negb (wf_eventb _)); [split; [reflexivity|intros o [<-|[]]; right; reflexivity]|].
  unfold do_read_reply. destruct (length p <? 5)%nat; [split; [reflexivity|intros o [<-|[]]; left; reflexivity]|].
  rewrite G. split; [reflexivity|intros o []].
Qed.

(* the early reply of the first packet is dropped; the request is registered afterwards with nothing on its way: no
   notification, and every later read of that memory is refused *)
Theorem send_before_register_refuted c i a n p :
  wf_event (ERead i a n) -> rd_get i (c_reads c) = None ->
  let r := new_rreq c i a n in
  let res := read_two_step false c i a n [EPkt ChRead (i :: p)] in
  fst res = register c r /\
  (forall o, In o (snd res) -> o = read_pkt r \/ o = ORet true \/ o = ORaise \/ o = OOutOfDomain) /\
  rd_get i (c_reads (fst res)) = Some r /\
  forall a' n', wf_event (ERead i a' n') -> snd (step true (fst res) (ERead i a' n')) = [ORet false].
Proof.
  intros W G. cbv zeta. unfold read_two_step. rewrite G. cbn [run].
  destruct (no_record_reply_dropped c i p G) as [E Ho].
  destruct (step true c (EPkt ChRead (i :: p))) as [c1 os]. cbn [fst snd] in *. subst c1.
  assert (R : rd_get i (c_reads (register c (new_rreq c i a n))) = Some (new_rreq c i a n)).
  { cbn [register c_reads]. rewrite rd_get_app, G. cbn [rd_get new_rreq r_id]. now rewrite Z.eqb_refl. }
  repeat split.
  - intros o [<-|Hin]; [left; reflexivity|]. rewrite app_nil_r in Hin. apply in_app_or in Hin.
    destruct Hin as [Hin|[<-|[]]]; [|right; left; reflexivity].
    destruct (Ho o Hin) as [->| ->]; [right; right; left|right; right; right]; reflexivity.
  - exact R.
  - intros a' n' W'. apply wf_eventb_spec in W'. unfold step. rewrite W'. cbn [negb]. unfold do_read. rewrite R. reflexivity.
Qed.
