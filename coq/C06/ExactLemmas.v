(* C06/ExactLemmas.v — helper lemmas for C06/Exact.v (closed-loop exactness of reads and writes). *)
From CF Require Import Common.Bytes C06.Model.
From Coq Require Import ZifyBool.
Open Scope Z_scope.

(* ================================================================ the read dictionary *)
Lemma rd_get_in i rs r : rd_get i rs = Some r -> In r rs /\ r_id r = i.
Proof.
  induction rs as [|x t IH]; cbn [rd_get]; intros H; [discriminate|].
  destruct (r_id x =? i) eqn:E.
  - injection H as <-. split; [left; reflexivity|lia].
  - destruct (IH H) as [H1 H2]. split; [right; exact H1|exact H2].
Qed.

Lemma rd_get_none i rs : rd_get i rs = None -> forall r, In r rs -> r_id r <> i.
Proof.
  induction rs as [|x t IH]; cbn [rd_get]; intros H r Hr; [destruct Hr|].
  destruct (r_id x =? i) eqn:E; [discriminate|].
  destruct Hr as [<-|Hr]; [lia|exact (IH H r Hr)].
Qed.

Lemma rd_get_app i rs l :
  rd_get i (rs ++ l) = match rd_get i rs with Some r => Some r | None => rd_get i l end.
Proof.
  induction rs as [|x t IH]; cbn [rd_get app]; [reflexivity|].
  destruct (r_id x =? i); [reflexivity|exact IH].
Qed.

Lemma rd_set_in r r' rs : In r (rd_set r' rs) -> r = r' \/ In r rs.
Proof.
  induction rs as [|x t IH]; cbn [rd_set]; intros H; [destruct H|].
  destruct (r_id x =? r_id r') eqn:E.
  - destruct H as [H|H]; [left; symmetry; exact H|right; right; exact H].
  - destruct H as [H|H]; [right; left; exact H|].
    destruct (IH H) as [H1|H1]; [left; exact H1|right; right; exact H1].
Qed.

Lemma rd_set_ids r' rs : map r_id (rd_set r' rs) = map r_id rs.
Proof.
  induction rs as [|x t IH]; cbn [rd_set map]; [reflexivity|].
  destruct (r_id x =? r_id r') eqn:E; cbn [map]; [f_equal; lia|f_equal; exact IH].
Qed.

Lemma rd_get_set_ne i r' rs : r_id r' <> i -> rd_get i (rd_set r' rs) = rd_get i rs.
Proof.
  intros N. induction rs as [|x t IH]; cbn [rd_set rd_get]; [reflexivity|].
  destruct (r_id x =? r_id r') eqn:E; cbn [rd_get].
  - destruct (r_id r' =? i) eqn:E1; [lia|]. destruct (r_id x =? i) eqn:E2; [lia|reflexivity].
  - destruct (r_id x =? i); [reflexivity|exact IH].
Qed.

Lemma rd_get_set_eq i r r' rs : rd_get i rs = Some r -> r_id r' = i -> rd_get i (rd_set r' rs) = Some r'.
Proof.
  intros G N. induction rs as [|x t IH]; cbn [rd_set rd_get] in *; [discriminate|].
  destruct (r_id x =? i) eqn:E.
  - destruct (r_id x =? r_id r') eqn:E1; [|lia]. cbn [rd_get].
    destruct (r_id r' =? i) eqn:E2; [reflexivity|lia].
  - destruct (r_id x =? r_id r') eqn:E1; [lia|]. cbn [rd_get]. rewrite E. exact (IH G).
Qed.

Lemma rd_del_in r j rs : In r (rd_del j rs) -> In r rs.
Proof.
  induction rs as [|x t IH]; cbn [rd_del]; intros H; [destruct H|].
  destruct (r_id x =? j); [right; exact H|].
  destruct H as [H|H]; [left; exact H|right; exact (IH H)].
Qed.

Lemma rd_del_nodup j rs : NoDup (map r_id rs) -> NoDup (map r_id (rd_del j rs)).
Proof.
  induction rs as [|x t IH]; cbn [rd_del map]; intros H; [exact H|].
  inversion H as [|y l Hn Hd]; subst.
  destruct (r_id x =? j); [exact Hd|].
  cbn [map]. constructor; [|exact (IH Hd)].
  intros Hin. apply Hn. apply in_map_iff in Hin. destruct Hin as [r [E Hr]].
  apply in_map_iff. exists r. split; [exact E|exact (rd_del_in _ _ _ Hr)].
Qed.

Lemma rd_del_ne r j rs : NoDup (map r_id rs) -> In r (rd_del j rs) -> r_id r <> j.
Proof.
  induction rs as [|x t IH]; cbn [rd_del map]; intros H Hin; [destruct Hin|].
  inversion H as [|y l Hn Hd]; subst.
  destruct (r_id x =? j) eqn:E.
  - intros E1. apply Hn. apply in_map_iff. exists r. split; [lia|exact Hin].
  - destruct Hin as [<-|Hin]; [lia|exact (IH Hd Hin)].
Qed.

Lemma rd_get_del_ne i j rs : i <> j -> rd_get i (rd_del j rs) = rd_get i rs.
Proof.
  intros N. induction rs as [|x t IH]; cbn [rd_del rd_get]; [reflexivity|].
  destruct (r_id x =? j) eqn:E.
  - destruct (r_id x =? i) eqn:E1; [lia|reflexivity].
  - cbn [rd_get]. destruct (r_id x =? i); [reflexivity|exact IH].
Qed.

Lemma nodup_id_unique rs r r' :
  NoDup (map r_id rs) -> In r rs -> In r' rs -> r_id r = r_id r' -> r = r'.
Proof.
  induction rs as [|x t IH]; cbn [map]; intros H H1 H2 E; [destruct H1|].
  inversion H as [|y l Hn Hd]; subst.
  destruct H1 as [<-|H1]; destruct H2 as [<-|H2].
  - reflexivity.
  - exfalso. apply Hn. apply in_map_iff. exists r'. split; [symmetry; exact E|exact H2].
  - exfalso. apply Hn. apply in_map_iff. exists r. split; [exact E|exact H1].
  - exact (IH Hd H1 H2 E).
Qed.

Lemma nodup_snoc {A} (l : list A) x : NoDup l -> ~ In x l -> NoDup (l ++ [x]).
Proof.
  induction l as [|y t IH]; cbn [app]; intros H N.
  - constructor; [intros []|constructor].
  - inversion H as [|z l Hn Hd]; subst. constructor.
    + intros Hin. apply in_app_or in Hin. destruct Hin as [Hin|[<-|[]]]; [exact (Hn Hin)|].
      apply N. left. reflexivity.
    + apply IH; [exact Hd|]. intros Hin. apply N. right. exact Hin.
Qed.

(* ================================================================ the write dictionary *)
Lemma wq_get_in i ws q : wq_get i ws = Some q -> In (i, q) ws.
Proof.
  induction ws as [|[j q0] t IH]; cbn [wq_get]; intros H; [discriminate|].
  destruct (j =? i) eqn:E.
  - injection H as <-. left. f_equal. lia.
  - right. exact (IH H).
Qed.

Lemma wq_set_in j q' i q ws : In (j, q') (wq_set i q ws) -> (j = i /\ q' = q) \/ In (j, q') ws.
Proof.
  induction ws as [|[k q0] t IH]; cbn [wq_set]; intros H.
  - destruct H as [H|[]]. injection H as <- <-. left. split; reflexivity.
  - destruct (k =? i) eqn:E.
    + destruct H as [H|H]; [|right; right; exact H].
      injection H as <- <-. left. split; [lia|reflexivity].
    + destruct H as [H|H]; [right; left; exact H|].
      destruct (IH H) as [H1|H1]; [left; exact H1|right; right; exact H1].
Qed.

Lemma wq_get_set j i q ws : wq_get j (wq_set i q ws) = if i =? j then Some q else wq_get j ws.
Proof.
  induction ws as [|[k q0] t IH]; cbn [wq_set wq_get].
  - destruct (i =? j); reflexivity.
  - destruct (k =? i) eqn:E; cbn [wq_get].
    + destruct (k =? j) eqn:E1; destruct (i =? j) eqn:E2; try reflexivity; lia.
    + destruct (k =? j) eqn:E1; [|exact IH]. destruct (i =? j) eqn:E2; [lia|reflexivity].
Qed.

Lemma wq_set_keys_in k i q ws : In k (map fst (wq_set i q ws)) -> k = i \/ In k (map fst ws).
Proof.
  induction ws as [|[j q0] t IH]; cbn [wq_set map fst]; intros H.
  - destruct H as [H|[]]. left. symmetry. exact H.
  - destruct (j =? i) eqn:E; cbn [map fst] in H.
    + right. exact H.
    + destruct H as [H|H]; [right; left; exact H|].
      destruct (IH H) as [H1|H1]; [left; exact H1|right; right; exact H1].
Qed.

Lemma wq_set_nodup i q ws : NoDup (map fst ws) -> NoDup (map fst (wq_set i q ws)).
Proof.
  induction ws as [|[j q0] t IH]; cbn [wq_set map fst]; intros H.
  - constructor; [intros []|constructor].
  - inversion H as [|y l Hn Hd]; subst.
    destruct (j =? i) eqn:E; cbn [map fst]; [exact H|].
    constructor; [|exact (IH Hd)].
    intros Hin. destruct (wq_set_keys_in _ _ _ _ Hin) as [H1|H1]; [lia|exact (Hn H1)].
Qed.

Lemma wq_in_get i q ws : NoDup (map fst ws) -> In (i, q) ws -> wq_get i ws = Some q.
Proof.
  induction ws as [|[j q0] t IH]; cbn [wq_get map fst]; intros H Hin; [destruct Hin|].
  inversion H as [|y l Hn Hd]; subst.
  destruct Hin as [Hin|Hin].
  - injection Hin as -> ->. rewrite Z.eqb_refl. reflexivity.
  - destruct (j =? i) eqn:E; [|exact (IH Hd Hin)].
    exfalso. apply Hn. apply in_map_iff. exists (i, q). split; [cbn [fst]; lia|exact Hin].
Qed.

(* ================================================================ memory *)
Lemma mread_app m i a p q :
  mread m i a (p + q) = mread m i a p ++ mread m i (a + Z.of_nat p) q.
Proof.
  revert a. induction p as [|p IH]; intros a.
  - cbn [mread plus app]. f_equal. lia.
  - cbn [mread plus app]. f_equal. rewrite IH. f_equal. f_equal. lia.
Qed.

Lemma mread_length m i a k : length (mread m i a k) = k.
Proof. revert a. induction k as [|k IH]; intros a; cbn [mread length]; [reflexivity|]. now rewrite IH. Qed.

Lemma mread_ext m m' i a k : (forall x, m i x = m' i x) -> mread m i a k = mread m' i a k.
Proof.
  intros E. revert a. induction k as [|k IH]; intros a; cbn [mread]; [reflexivity|].
  rewrite E, IH. reflexivity.
Qed.

Lemma zlen_app {A} (l1 l2 : list A) : zlen (l1 ++ l2) = zlen l1 + zlen l2.
Proof. unfold zlen. rewrite app_length. lia. Qed.

Lemma mwrite_other m i a d i' x : i' <> i -> mwrite m i a d i' x = m i' x.
Proof. intros N. unfold mwrite. destruct (i' =? i) eqn:E; [lia|reflexivity]. Qed.

Lemma mwrite_nil m i a i' x : mwrite m i a [] i' x = m i' x.
Proof.
  unfold mwrite, zlen. cbn [length].
  destruct ((i' =? i) && (a <=? x) && (x <? a + Z.of_nat 0)) eqn:E; [lia|reflexivity].
Qed.

Lemma mwrite_ext m m' i a d x : (forall y, m i y = m' i y) -> mwrite m i a d i x = mwrite m' i a d i x.
Proof. intros E. unfold mwrite. rewrite E. reflexivity. Qed.

Lemma mwrite_app m i a d1 d2 x :
  mwrite (mwrite m i a d1) i (a + zlen d1) d2 i x = mwrite m i a (d1 ++ d2) i x.
Proof.
  unfold mwrite. rewrite zlen_app. rewrite Z.eqb_refl. unfold zlen.
  set (l1 := Z.of_nat (length d1)). set (l2 := Z.of_nat (length d2)).
  assert (L1 : l1 = Z.of_nat (length d1)) by reflexivity.
  assert (L2 : l2 = Z.of_nat (length d2)) by reflexivity.
  destruct (true && (a + l1 <=? x) && (x <? a + l1 + l2)) eqn:E1.
  - destruct (true && (a <=? x) && (x <? a + (l1 + l2))) eqn:E2; [|lia].
    rewrite app_nth2 by lia. f_equal. lia.
  - destruct (true && (a <=? x) && (x <? a + l1)) eqn:E2.
    + destruct (true && (a <=? x) && (x <? a + (l1 + l2))) eqn:E3; [|lia].
      rewrite app_nth1 by lia. reflexivity.
    + destruct (true && (a <=? x) && (x <? a + (l1 + l2))) eqn:E3; [lia|reflexivity].
Qed.

(* ================================================================ reply payloads *)
Section Payload.
  Variables (x st : Z) (dat : list Z).
  Let p := le_bytes 4 x ++ st :: dat.

  Lemma pl_len : (length p <? 5)%nat = false.
  Proof. subst p. rewrite app_length, le_bytes_length. cbn [length]. apply Nat.ltb_ge. lia. Qed.
  Lemma pl_addr : firstn 4 p = le_bytes 4 x.
  Proof. subst p. rewrite <- (le_bytes_length 4 x) at 1. apply firstn_app_exact. Qed.
  Lemma pl_skip4 : skipn 4 p = st :: dat.
  Proof. subst p. rewrite <- (le_bytes_length 4 x) at 1. apply skipn_app_exact. Qed.
  Lemma pl_status : nth 4 p 0 = st.
  Proof. subst p. rewrite app_nth2; rewrite le_bytes_length; [|lia]. reflexivity. Qed.
  Lemma pl_data : skipn 5 p = dat.
  Proof. subst p. cbn [le_bytes app skipn]. reflexivity. Qed.
End Payload.

Lemma le4_val x : 0 <= x < 2 ^ 32 -> le_val (le_bytes 4 x) = x.
Proof. intros H. apply le_val_le_bytes_id. change (256 ^ Z.of_nat 4) with (2 ^ 32). exact H. Qed.

(* ================================================================ the server *)
Lemma serve_log st m o m1 rs v ch d :
  serve st m o = (m1, rs) -> In (v, ch, d) rs ->
  exists j rest p, o = OSend v ch (j :: rest) /\ d = j :: p.
Proof.
  intros S Hin. destruct o as [u c dd| | | | | | | | |]; cbn [serve] in S;
    try (injection S as <- <-; destruct Hin).
  destruct c; destruct dd as [|j rest]; try (injection S as <- <-; destruct Hin);
    destruct (st =? 0); injection S as <- <-; destruct Hin as [Hin|[]];
    injection Hin as <- <- <-; exists j, rest; eexists; (split; [reflexivity|]); cbn [app]; reflexivity.
Qed.

Lemma serve_mem i st m o m1 rs :
  serve st m o = (m1, rs) -> (forall v j rest, o = OSend v ChWrite (j :: rest) -> j <> i) ->
  forall x, m1 i x = m i x.
Proof.
  intros S N x. destruct o as [u c dd| | | | | | | | |]; cbn [serve] in S;
    try (injection S as <- <-; reflexivity).
  destruct c; destruct dd as [|j rest]; try (injection S as <- <-; reflexivity).
  - destruct (st =? 0); injection S as <- <-; reflexivity.
  - destruct (st =? 0); injection S as <- <-; [|reflexivity].
    apply mwrite_other. intros E. exact (N u j rest eq_refl (eq_sym E)).
Qed.

Lemma serve_all_log plan os : forall m lg n m' lg' n' v ch d,
  serve_all plan m lg n os = (m', lg', n') -> In (v, ch, d) lg' ->
  In (v, ch, d) lg \/ exists j rest p, In (OSend v ch (j :: rest)) os /\ d = j :: p.
Proof.
  induction os as [|o t IH]; intros m lg n m' lg' n' v ch d S Hin; cbn [serve_all] in S.
  - injection S as <- <- <-. left. exact Hin.
  - destruct (is_send o).
    + destruct (serve (plan n) m o) as [m1 rs] eqn:Sv.
      destruct (IH _ _ _ _ _ _ _ _ _ S Hin) as [H|[j [rest [p [H1 H2]]]]].
      * apply in_app_or in H. destruct H as [H|H]; [left; exact H|].
        destruct (serve_log _ _ _ _ _ _ _ _ Sv H) as [j [rest [p [-> ->]]]].
        right. exists j, rest, p. split; [left; reflexivity|reflexivity].
      * right. exists j, rest, p. split; [right; exact H1|exact H2].
    + destruct (IH _ _ _ _ _ _ _ _ _ S Hin) as [H|[j [rest [p [H1 H2]]]]]; [left; exact H|].
      right. exists j, rest, p. split; [right; exact H1|exact H2].
Qed.

Lemma serve_all_old plan os : forall m lg n m' lg' n' e,
  serve_all plan m lg n os = (m', lg', n') -> In e lg -> In e lg'.
Proof.
  induction os as [|o t IH]; intros m lg n m' lg' n' e S Hin; cbn [serve_all] in S.
  - injection S as <- <- <-. exact Hin.
  - destruct (is_send o).
    + destruct (serve (plan n) m o) as [m1 rs]. apply (IH _ _ _ _ _ _ _ S). apply in_or_app. left. exact Hin.
    + exact (IH _ _ _ _ _ _ _ S Hin).
Qed.

Lemma serve_all_mem i plan os : forall m lg n m' lg' n',
  serve_all plan m lg n os = (m', lg', n') ->
  (forall v j rest, In (OSend v ChWrite (j :: rest)) os -> j <> i) ->
  forall x, m' i x = m i x.
Proof.
  induction os as [|o t IH]; intros m lg n m' lg' n' S N x; cbn [serve_all] in S.
  - injection S as <- <- <-. reflexivity.
  - assert (N' : forall v j rest, In (OSend v ChWrite (j :: rest)) t -> j <> i).
    { intros v j rest H. apply (N v j rest). right. exact H. }
    destruct (is_send o).
    + destruct (serve (plan n) m o) as [m1 rs] eqn:Sv.
      rewrite (IH _ _ _ _ _ _ S N' x).
      apply (serve_mem i _ _ _ _ _ Sv). intros v j rest ->. apply (N v j rest). left. reflexivity.
    + exact (IH _ _ _ _ _ _ S N' x).
Qed.

(* ================================================================ one step of the closed system *)
Definition ev_of (s : sys) (e : sevent) : option event :=
  match e with
  | SOp e => Some e
  | SDeliver k => match nth_error (s_log s) k with
                  | Some (_, ch, d) => Some (EPkt ch d)
                  | None => None
                  end
  end.

Lemma sys_step_inv fx plan s e s' os :
  sys_step fx plan s e = (s', os) ->
  (ev_of s e = None /\ s' = s /\ os = []) \/
  exists ce c' m' lg' n', ev_of s e = Some ce /\ step fx (s_cl s) ce = (c', os) /\
    serve_all plan (s_mem s) (s_log s) (s_n s) os = (m', lg', n') /\ s' = mkS c' m' lg' n'.
Proof.
  unfold sys_step. fold (ev_of s e). destruct (ev_of s e) as [ce|].
  - destruct (step fx (s_cl s) ce) as [c' os'] eqn:St.
    destruct (serve_all plan (s_mem s) (s_log s) (s_n s) os') as [[m' lg'] n'] eqn:Sv.
    intros H. injection H as <- <-. right. exists ce, c', m', lg', n'.
    split; [reflexivity|]. split; [exact St|]. split; [exact Sv|reflexivity].
  - intros H. injection H as <- <-. left. repeat split; reflexivity.
Qed.

(* ================================================================ relational description of [step true] *)
Definition quiet (o : obs) : bool :=
  match o with OSend _ _ _ | OReadOk _ _ _ _ | OWriteOk _ _ _ => false | _ => true end.

Inductive stepR (c : client) : event -> client -> list obs -> Prop :=
| SR_nop e os : (forall o, In o os -> quiet o = true) -> stepR c e c os
| SR_read i a n :
    rd_get i (c_reads c) = None ->
    stepR c (ERead i a n)
      (mkC (c_reads c ++ [mkR (c_next c) i a n a []]) (c_writes c) (c_leaked c) (c_next c + 1))
      [read_pkt (mkR (c_next c) i a n a []); ORet true]
| SR_write i a d fl Q os :
    (forall w, In w Q -> (w_uid w = c_next c /\ w_id w = i) \/
       exists q, wq_get i (c_writes c) = Some q /\ In w q) ->
    (forall o, In o os -> quiet o = true \/ exists rest, o = OSend (c_next c) ChWrite (i :: rest)) ->
    stepR c (EWrite i a d fl) (mkC (c_reads c) (wq_set i Q (c_writes c)) false (c_next c + 1)) os
| SR_rset i p r r' :
    rd_get i (c_reads c) = Some r -> r_uid r' = r_uid r -> r_id r' = r_id r ->
    stepR c (EPkt ChRead (i :: p)) (set_reads c (rd_set r' (c_reads c))) [read_pkt r']
| SR_rdel i p r o :
    rd_get i (c_reads c) = Some r ->
    (quiet o = true \/ exists dd, o = OReadOk (r_uid r) (r_id r) (r_addr r) dd) ->
    stepR c (EPkt ChRead (i :: p)) (set_reads c (rd_del i (c_reads c))) [o]
| SR_wrep i p w q Q os :
    wq_get i (c_writes c) = Some (w :: q) ->
    (forall w', In w' Q -> exists w0, In w0 (w :: q) /\ w_uid w' = w_uid w0 /\ w_id w' = w_id w0) ->
    (forall o, In o os -> quiet o = true \/ o = OWriteOk (w_uid w) (w_id w) (w_addr w) \/
       exists w0 rest, In w0 (w :: q) /\ o = OSend (w_uid w0) ChWrite (w_id w0 :: rest)) ->
    stepR c (EPkt ChWrite (i :: p)) (set_writes c (wq_set i Q (c_writes c))) os
| SR_disc os : (forall o, In o os -> quiet o = true) -> stepR c EDisc (mkC [] [] false (c_next c)) os.

Ltac quiet_list :=
  let o := fresh "o" in let H := fresh "H" in
  intros o H; cbn [In] in H;
  repeat (destruct H as [H|H]; [subst o; reflexivity|]); destruct H.

Ltac nop_case :=
  let H := fresh "H" in intros H; injection H as <- <-; apply SR_nop; quiet_list.

Lemma q1_sub (fl : bool) (q : list wreq) w : In w (if fl then firstn 1 q else q) -> In w q.
Proof.
  destruct fl; [|exact (fun H => H)]. destruct q as [|x t]; cbn [firstn]; intros H; [destruct H|].
  destruct H as [H|[]]. left. exact H.
Qed.

Lemma start_head_spec q q' os :
  start_head q = (q', os) ->
  (forall w', In w' q' -> exists w0, In w0 q /\ w_uid w' = w_uid w0 /\ w_id w' = w_id w0) /\
  (forall o, In o os -> exists w0 rest, In w0 q /\ o = OSend (w_uid w0) ChWrite (w_id w0 :: rest)).
Proof.
  destruct q as [|w t]; cbn [start_head w_start]; intros H; injection H as <- <-.
  - split; [intros w' []|intros o []].
  - split.
    + intros w' [<-|Hin]; [exists w; split; [left; reflexivity|split; reflexivity]|].
      exists w'. split; [right; exact Hin|split; reflexivity].
    + intros o [<-|[]]. exists w. eexists. split; [left; reflexivity|reflexivity].
Qed.

Lemma step_spec c e c' os : c_leaked c = false -> step true c e = (c', os) -> stepR c e c' os.
Proof.
  intros L. unfold step. destruct (wf_eventb e); cbn [negb];
    [|intros H; injection H as <- <-; apply SR_nop; quiet_list].
  destruct e as [i a n|i a d fl|ch d|].
  - unfold do_read. destruct (rd_get i (c_reads c)) eqn:G; cbv zeta; intros H; injection H as <- <-.
    + apply SR_nop. quiet_list.
    + apply SR_read. exact G.
  - unfold do_write. rewrite L. cbv zeta.
    remember (match wq_get i (c_writes c) with Some q => q | None => [] end) as q0 eqn:Eq0.
    assert (Hq0 : forall w, In w q0 -> exists q, wq_get i (c_writes c) = Some q /\ In w q).
    { intros w Hw. subst q0. destruct (wq_get i (c_writes c)) as [q|]; [|destruct Hw].
      exists q. split; [reflexivity|exact Hw]. }
    assert (Hdr : forall o, In o (if fl then map (fun w => OSuperseded (w_uid w)) (skipn 1 q0) else []) ->
                   quiet o = true).
    { intros o Ho. destruct fl; [|destruct Ho]. apply in_map_iff in Ho. destruct Ho as [w [<- _]]. reflexivity. }
    remember (if fl then firstn 1 q0 else q0) as q1 eqn:Eq1.
    assert (Hq1 : forall w, In w q1 -> In w q0). { intros w Hw. subst q1. exact (q1_sub _ _ _ Hw). }
    destruct q1 as [|w1 t1]; cbn [w_start w_uid w_id w_addr w_cur w_rest w_add]; intros H; injection H as <- <-.
    + apply SR_write.
      * intros w [<-|[]]. cbn [w_id w_uid]. left. split; reflexivity.
      * intros o Ho. apply in_app_or in Ho. destruct Ho as [Ho|Ho]; [left; exact (Hdr o Ho)|].
        destruct Ho as [<-|[<-|[]]]; [right; eexists; reflexivity|left; reflexivity].
    + apply SR_write.
      * intros w Hw. rewrite app_comm_cons in Hw. apply in_app_or in Hw. destruct Hw as [Hw|[<-|[]]].
        -- right. exact (Hq0 w (Hq1 w Hw)).
        -- cbn [w_id w_uid]. left. split; reflexivity.
      * intros o Ho. apply in_app_or in Ho. destruct Ho as [Ho|Ho]; [left; exact (Hdr o Ho)|].
        destruct Ho as [<-|[]]. left. reflexivity.
  - destruct d as [|i p]; [nop_case|].
    destruct ch; [| |nop_case].
    + unfold do_read_reply. destruct (length p <? 5)%nat; [nop_case|]. cbv zeta.
      destruct (rd_get i (c_reads c)) as [r|] eqn:G; [|nop_case].
      destruct (nth 4 p 0 =? 0).
      * destruct (le_val (firstn 4 p) =? r_cur r); [|nop_case].
        destruct (0 <? _); intros H; injection H as <- <-.
        -- eapply SR_rset; [exact G|reflexivity|reflexivity].
        -- eapply SR_rdel; [exact G|right; eexists; reflexivity].
      * intros H; injection H as <- <-. eapply SR_rdel; [exact G|left; reflexivity].
    + unfold do_write_reply. destruct (length p <? 5)%nat; [nop_case|]. cbv zeta.
      destruct (wq_get i (c_writes c)) as [[|w q]|] eqn:G; [nop_case| |nop_case].
      rewrite L. destruct (nth 4 p 0 =? 0).
      * destruct (le_val (firstn 4 p) =? w_cur w); [|nop_case].
        destruct (w_rest w) as [|b rest] eqn:Rw.
        -- destruct (start_head q) as [q' os1] eqn:Sh. intros H; injection H as <- <-.
           destruct (start_head_spec _ _ _ Sh) as [S1 S2].
           eapply SR_wrep; [exact G| |].
           ++ intros w' Hw'. destruct (S1 w' Hw') as [w0 [H0 H1]]. exists w0. split; [right; exact H0|exact H1].
           ++ intros o Ho. apply in_app_or in Ho. destruct Ho as [Ho|[<-|[]]].
              ** right. right. destruct (S2 o Ho) as [w0 [rest [H0 H1]]]. exists w0, rest.
                 split; [right; exact H0|exact H1].
              ** right. left. reflexivity.
        -- cbn [w_start]. intros H; injection H as <- <-.
           eapply SR_wrep; [exact G| |].
           ++ intros w' [<-|Hw'].
              ** exists w. split; [left; reflexivity|split; reflexivity].
              ** exists w'. split; [right; exact Hw'|split; reflexivity].
           ++ intros o [<-|[]]. right. right. exists w. eexists. split; [left; reflexivity|reflexivity].
      * destruct (start_head q) as [q' os1] eqn:Sh. intros H; injection H as <- <-.
        destruct (start_head_spec _ _ _ Sh) as [S1 S2].
        eapply SR_wrep; [exact G| |].
        -- intros w' Hw'. destruct (S1 w' Hw') as [w0 [H0 H1]]. exists w0. split; [right; exact H0|exact H1].
        -- intros o Ho. apply in_app_or in Ho. destruct Ho as [Ho|[<-|[]]].
           ++ right. right. destruct (S2 o Ho) as [w0 [rest [H0 H1]]]. exists w0, rest.
              split; [right; exact H0|exact H1].
           ++ left. reflexivity.
  - unfold do_disc. rewrite L. intros H; injection H as <- <-. apply SR_disc.
    intros o Ho. apply in_app_or in Ho.
    destruct Ho as [Ho|Ho]; apply in_map_iff in Ho; destruct Ho as [x [<- _]]; reflexivity.
Qed.

(* ================================================================ reachability invariant (client part) *)
(* g : ghost map uid -> memory id of the request *)
Definition RR (g : Z -> Z) (n : Z) (rs : list rreq) : Prop :=
  NoDup (map r_id rs) /\ forall r, In r rs -> r_uid r < n /\ g (r_uid r) = r_id r.
Definition RW (g : Z -> Z) (n : Z) (ws : list (Z * list wreq)) : Prop :=
  NoDup (map fst ws) /\
  forall j q w, In (j, q) ws -> In w q -> w_uid w < n /\ w_id w = j /\ g (w_uid w) = j.
Definition RC (g : Z -> Z) (c : client) : Prop :=
  c_leaked c = false /\ RR g (c_next c) (c_reads c) /\ RW g (c_next c) (c_writes c).
Definition agree (g g' : Z -> Z) (n : Z) : Prop := forall v, v < n -> g' v = g v.
Definition sends_ok (g : Z -> Z) (n : Z) (os : list obs) : Prop :=
  forall v ch j rest, In (OSend v ch (j :: rest)) os -> v < n /\ g v = j.

Lemma agree_refl g n : agree g g n.
Proof. intros v _. reflexivity. Qed.

Lemma RR_mono g g' n n' rs : RR g n rs -> n <= n' -> agree g g' n -> RR g' n' rs.
Proof.
  intros [H1 H2] Hn A. split; [exact H1|]. intros r Hr. destruct (H2 r Hr) as [H3 H4].
  split; [lia|]. rewrite (A _ H3). exact H4.
Qed.

Lemma RW_mono g g' n n' ws : RW g n ws -> n <= n' -> agree g g' n -> RW g' n' ws.
Proof.
  intros [H1 H2] Hn A. split; [exact H1|]. intros j q w Hq Hw. destruct (H2 j q w Hq Hw) as [H3 [H4 H5]].
  split; [lia|]. split; [exact H4|]. rewrite (A _ H3). exact H5.
Qed.

Lemma upd_agree g n i : agree g (fun v => if v =? n then i else g v) n.
Proof. intros v Hv. cbv beta. destruct (v =? n) eqn:E; [lia|reflexivity]. Qed.

Lemma rc_step g c e c' os : RC g c -> step true c e = (c', os) ->
  exists g', RC g' c' /\ agree g g' (c_next c) /\ c_next c <= c_next c' /\ sends_ok g' (c_next c') os.
Proof.
  intros [L [[Rn Rr] [Wn Ww]]] St. pose proof (step_spec _ _ _ _ L St) as SR.
  destruct SR as [e os Q|i a n G|i a d fl Q os HQ Hos|i p r r' G Eu Ei|i p r o G Ho|i p w q Q os G HQ Hos|os Q].
  - exists g. split; [split; [exact L|split; split; assumption]|]. split; [apply agree_refl|]. split; [lia|].
    intros v ch j rest Hin. specialize (Q _ Hin). discriminate Q.
  - set (g' := fun v => if v =? c_next c then i else g v).
    assert (A : agree g g' (c_next c)) by apply upd_agree.
    exists g'. split; [|split; [exact A|split; [cbn [c_next]; lia|]]].
    + split; [exact L|]. cbn [c_reads c_writes c_next]. split.
      * split.
        -- rewrite map_app. cbn [map r_id]. apply nodup_snoc; [exact Rn|].
           intros Hin. apply in_map_iff in Hin. destruct Hin as [r0 [E Hr0]].
           exact (rd_get_none _ _ G r0 Hr0 E).
        -- intros r Hr. apply in_app_or in Hr. destruct Hr as [Hr|[<-|[]]].
           ++ destruct (Rr r Hr) as [B1 B2]. split; [lia|]. rewrite (A _ B1). exact B2.
           ++ cbn [r_uid r_id]. split; [lia|]. unfold g'. rewrite Z.eqb_refl. reflexivity.
      * apply (RW_mono g g' (c_next c)); [split; assumption|lia|exact A].
    + intros v ch j rest [H|[H|[]]]; [|discriminate H].
      unfold read_pkt in H. cbn [r_uid r_id r_cur r_left] in H. injection H as <- <- <- <-.
      cbn [c_next]. split; [lia|]. unfold g'. rewrite Z.eqb_refl. reflexivity.
  - set (g' := fun v => if v =? c_next c then i else g v).
    assert (A : agree g g' (c_next c)) by apply upd_agree.
    exists g'. split; [|split; [exact A|split; [cbn [c_next]; lia|]]].
    + split; [reflexivity|]. cbn [c_reads c_writes c_next]. split.
      * apply (RR_mono g g' (c_next c)); [split; assumption|lia|exact A].
      * split; [apply wq_set_nodup; exact Wn|].
        intros j q0 w Hin Hw. destruct (wq_set_in _ _ _ _ _ Hin) as [[-> ->]|Hin'].
        -- destruct (HQ w Hw) as [[E1 E2]|[q1 [G1 Hq1]]].
           ++ split; [lia|]. split; [exact E2|]. rewrite E1. unfold g'. rewrite Z.eqb_refl. reflexivity.
           ++ destruct (Ww i q1 w (wq_get_in _ _ _ G1) Hq1) as [B1 [B2 B3]].
              split; [lia|]. split; [exact B2|]. rewrite (A _ B1). exact B3.
        -- destruct (Ww j q0 w Hin' Hw) as [B1 [B2 B3]].
           split; [lia|]. split; [exact B2|]. rewrite (A _ B1). exact B3.
    + intros v ch j rest Hin. destruct (Hos _ Hin) as [Hq|[rest' E]]; [discriminate Hq|].
      injection E as -> -> -> ->. cbn [c_next]. split; [lia|]. unfold g'. rewrite Z.eqb_refl. reflexivity.
  - exists g. split; [|split; [apply agree_refl|split; [cbn; lia|]]].
    + split; [exact L|]. cbn [set_reads c_reads c_writes c_next]. split; [|split; assumption].
      split; [rewrite rd_set_ids; exact Rn|].
      intros r0 Hr0. destruct (rd_set_in _ _ _ Hr0) as [->|H]; [|exact (Rr r0 H)].
      rewrite Eu, Ei. apply Rr. exact (proj1 (rd_get_in _ _ _ G)).
    + intros v ch j rest [H|[]]. unfold read_pkt in H. injection H as <- <- <- <-.
      cbn [set_reads c_next]. rewrite Eu, Ei. apply Rr. exact (proj1 (rd_get_in _ _ _ G)).
  - exists g. split; [|split; [apply agree_refl|split; [cbn; lia|]]].
    + split; [exact L|]. cbn [set_reads c_reads c_writes c_next]. split; [|split; assumption].
      split; [apply rd_del_nodup; exact Rn|].
      intros r0 Hr0. exact (Rr r0 (rd_del_in _ _ _ Hr0)).
    + intros v ch j rest [H|[]]. subst o. destruct Ho as [Ho|[dd Ho]]; discriminate Ho.
  - assert (HW : forall w0, In w0 (w :: q) -> w_uid w0 < c_next c /\ w_id w0 = i /\ g (w_uid w0) = i).
    { intros w0 H0. exact (Ww i (w :: q) w0 (wq_get_in _ _ _ G) H0). }
    exists g. split; [|split; [apply agree_refl|split; [cbn; lia|]]].
    + split; [exact L|]. cbn [set_writes c_reads c_writes c_next]. split; [split; assumption|].
      split; [apply wq_set_nodup; exact Wn|].
      intros j q0 w1 Hin Hw. destruct (wq_set_in _ _ _ _ _ Hin) as [[-> ->]|Hin']; [|exact (Ww j q0 w1 Hin' Hw)].
      destruct (HQ w1 Hw) as [w0 [H0 [E1 E2]]]. rewrite E1, E2. exact (HW w0 H0).
    + intros v ch j rest Hin. destruct (Hos _ Hin) as [Hq|[Hq|[w0 [rest' [H0 E]]]]]; try discriminate Hq.
      injection E as -> -> -> ->. cbn [set_writes c_next]. destruct (HW w0 H0) as [B1 [B2 B3]].
      split; [exact B1|]. rewrite B2. exact B3.
  - exists g. split; [|split; [apply agree_refl|split; [cbn; lia|]]].
    + split; [reflexivity|]. cbn [c_reads c_writes c_next]. split.
      * split; [constructor|intros r []].
      * split; [constructor|intros j q w []].
    + intros v ch j rest Hin. specialize (Q _ Hin). discriminate Q.
Qed.

(* ================================================================ reachability invariant (system) *)
Definition RL (g : Z -> Z) (s : sys) : Prop :=
  forall v ch d, In (v, ch, d) (s_log s) -> v < c_next (s_cl s) /\ exists p, d = g v :: p.
Definition RS (g : Z -> Z) (s : sys) : Prop := RC g (s_cl s) /\ RL g s.

Lemma reach_step g plan s e s' os : RS g s -> sys_step true plan s e = (s', os) ->
  exists g', RS g' s' /\ agree g g' (c_next (s_cl s)) /\ c_next (s_cl s) <= c_next (s_cl s').
Proof.
  intros [HC HL] St.
  destruct (sys_step_inv _ _ _ _ _ _ St) as [[_ [-> _]]|[ce [c' [m' [lg' [n' [_ [Sc [Sv ->]]]]]]]]].
  - exists g. split; [split; assumption|]. split; [apply agree_refl|lia].
  - destruct (rc_step _ _ _ _ _ HC Sc) as [g' [HC' [A [Hn So]]]]. exists g'.
    split; [|split; [exact A|exact Hn]]. split; [exact HC'|].
    intros v ch d Hin. cbn [s_log s_cl] in *.
    destruct (serve_all_log _ _ _ _ _ _ _ _ _ _ _ Sv Hin) as [H|[j [rest [p [H1 ->]]]]].
    + destruct (HL _ _ _ H) as [B1 [p ->]]. split; [lia|]. exists p. rewrite (A _ B1). reflexivity.
    + destruct (So _ _ _ _ H1) as [B1 B2]. split; [exact B1|]. exists p. rewrite B2. reflexivity.
Qed.

Lemma reach_run plan evs : forall g s s' tr, RS g s -> sys_run true plan s evs = (s', tr) ->
  exists g', RS g' s' /\ agree g g' (c_next (s_cl s)) /\ c_next (s_cl s) <= c_next (s_cl s').
Proof.
  induction evs as [|e t IH]; intros g s s' tr H R; cbn [sys_run] in R.
  - injection R as <- <-. exists g. split; [exact H|]. split; [apply agree_refl|lia].
  - destruct (sys_step true plan s e) as [s1 o1] eqn:St.
    destruct (sys_run true plan s1 t) as [s2 o2] eqn:Rt. injection R as <- <-.
    destruct (reach_step _ _ _ _ _ _ H St) as [g1 [H1 [A1 N1]]].
    destruct (IH _ _ _ _ H1 Rt) as [g2 [H2 [A2 N2]]].
    exists g2. split; [exact H2|]. split; [|lia].
    intros v Hv. rewrite A2 by lia. apply A1. exact Hv.
Qed.

Lemma reach_init m0 : RS (fun _ => 0) (sys_init m0).
Proof.
  split.
  - split; [reflexivity|]. split; (split; [constructor|]); cbn; intros; contradiction.
  - intros v ch d [].
Qed.

(* ================================================================ a uid that is not in the client any more *)
Definition no_ru (u : Z) (c : client) : Prop := forall r, In r (c_reads c) -> r_uid r <> u.
Definition no_wu (u : Z) (c : client) : Prop :=
  forall j q w, In (j, q) (c_writes c) -> In w q -> w_uid w <> u.

Lemma no_ru_step u c e c' os :
  c_leaked c = false -> u < c_next c -> no_ru u c -> step true c e = (c', os) ->
  no_ru u c' /\ forall i' a' d, ~ In (OReadOk u i' a' d) os.
Proof.
  intros L Hu N St. pose proof (step_spec _ _ _ _ L St) as SR. unfold no_ru in *.
  destruct SR as [e os Q|i a n G|i a d fl Q os HQ Hos|i p r r' G Eu Ei|i p r o G Ho|i p w q Q os G HQ Hos|os Q].
  - split; [exact N|]. intros i' a' d Hin. specialize (Q _ Hin). discriminate Q.
  - split.
    + cbn [c_reads]. intros r Hr. apply in_app_or in Hr. destruct Hr as [Hr|[<-|[]]]; [exact (N r Hr)|].
      cbn [r_uid]. lia.
    + intros i' a' d [H|[H|[]]]; discriminate H.
  - split; [exact N|]. intros i' a' d0 Hin. destruct (Hos _ Hin) as [H|[rest H]]; discriminate H.
  - split.
    + cbn [set_reads c_reads]. intros r0 Hr0. destruct (rd_set_in _ _ _ Hr0) as [->|H]; [|exact (N r0 H)].
      rewrite Eu. apply N. exact (proj1 (rd_get_in _ _ _ G)).
    + intros i' a' d [H|[]]; discriminate H.
  - split.
    + cbn [set_reads c_reads]. intros r0 Hr0. exact (N r0 (rd_del_in _ _ _ Hr0)).
    + intros i' a' d [H|[]]. subst o. destruct Ho as [Ho|[dd Ho]]; [discriminate Ho|].
      injection Ho as E _ _ _. exact (N r (proj1 (rd_get_in _ _ _ G)) (eq_sym E)).
  - split; [exact N|]. intros i' a' d Hin.
    destruct (Hos _ Hin) as [H|[H|[w0 [rest [_ H]]]]]; discriminate H.
  - split; [intros r []|]. intros i' a' d Hin. specialize (Q _ Hin). discriminate Q.
Qed.

Lemma no_wu_step u c e c' os :
  c_leaked c = false -> u < c_next c -> no_wu u c -> step true c e = (c', os) ->
  no_wu u c' /\ forall i' a', ~ In (OWriteOk u i' a') os.
Proof.
  intros L Hu N St. pose proof (step_spec _ _ _ _ L St) as SR. unfold no_wu in *.
  destruct SR as [e os Q|i a n G|i a d fl Q os HQ Hos|i p r r' G Eu Ei|i p r o G Ho|i p w q Q os G HQ Hos|os Q].
  - split; [exact N|]. intros i' a' Hin. specialize (Q _ Hin). discriminate Q.
  - split; [exact N|]. intros i' a' [H|[H|[]]]; discriminate H.
  - split.
    + cbn [c_writes]. intros j q0 w Hin Hw. destruct (wq_set_in _ _ _ _ _ Hin) as [[-> ->]|Hin']; [|exact (N j q0 w Hin' Hw)].
      destruct (HQ w Hw) as [[E1 E2]|[q1 [G1 Hq1]]]; [lia|].
      exact (N i q1 w (wq_get_in _ _ _ G1) Hq1).
    + intros i' a' Hin. destruct (Hos _ Hin) as [H|[rest H]]; discriminate H.
  - split; [exact N|]. intros i' a' [H|[]]; discriminate H.
  - split; [exact N|]. intros i' a' [H|[]]. subst o. destruct Ho as [Ho|[dd Ho]]; discriminate Ho.
  - assert (HW : forall w0, In w0 (w :: q) -> w_uid w0 <> u).
    { intros w0 H0. exact (N i (w :: q) w0 (wq_get_in _ _ _ G) H0). }
    split.
    + cbn [set_writes c_writes]. intros j q0 w1 Hin Hw.
      destruct (wq_set_in _ _ _ _ _ Hin) as [[-> ->]|Hin']; [|exact (N j q0 w1 Hin' Hw)].
      destruct (HQ w1 Hw) as [w0 [H0 [E1 E2]]]. rewrite E1. exact (HW w0 H0).
    + intros i' a' Hin. destruct (Hos _ Hin) as [H|[H|[w0 [rest [_ H]]]]]; try discriminate H.
      injection H as E _ _. apply (HW w (or_introl eq_refl)). symmetry. exact E.
  - split; [intros j q w []|]. intros i' a' Hin. specialize (Q _ Hin). discriminate Q.
Qed.

(* ================================================================ frames: events that do not concern memory i *)
Lemma wframe g i c e c' os :
  RC g c ->
  match e with EWrite j _ _ _ => j <> i | EPkt ChWrite (j :: _) => j <> i | _ => True end ->
  step true c e = (c', os) ->
  (wq_get i (c_writes c') = wq_get i (c_writes c) \/ c_writes c' = []) /\
  (forall v j rest, In (OSend v ChWrite (j :: rest)) os -> j <> i /\ (g v <> i \/ c_next c <= v)) /\
  (forall v i' a', In (OWriteOk v i' a') os -> g v <> i).
Proof.
  intros [L [[Rn Rr] [Wn Ww]]] He St. pose proof (step_spec _ _ _ _ L St) as SR.
  destruct SR as [e os Q|i0 a n G|i0 a d fl Q os HQ Hos|i0 p r r' G Eu Ei|i0 p r o G Ho|i0 p w q Q os G HQ Hos|os Q].
  - split; [left; reflexivity|]. split.
    + intros v j rest Hin. specialize (Q _ Hin). discriminate Q.
    + intros v i' a' Hin. specialize (Q _ Hin). discriminate Q.
  - split; [left; reflexivity|]. split.
    + intros v j rest [H|[H|[]]]; discriminate H.
    + intros v i' a' [H|[H|[]]]; discriminate H.
  - cbv beta iota in He. split; [left|split].
    + cbn [c_writes]. rewrite wq_get_set. destruct (i0 =? i) eqn:E; [lia|reflexivity].
    + intros v j rest Hin. destruct (Hos _ Hin) as [H|[rest' H]]; [discriminate H|].
      injection H as -> -> ->. split; [exact He|right; lia].
    + intros v i' a' Hin. destruct (Hos _ Hin) as [H|[rest' H]]; discriminate H.
  - split; [left; reflexivity|]. split.
    + intros v j rest [H|[]]; discriminate H.
    + intros v i' a' [H|[]]; discriminate H.
  - split; [left; reflexivity|]. split.
    + intros v j rest [H|[]]. subst o. destruct Ho as [Ho|[dd Ho]]; discriminate Ho.
    + intros v i' a' [H|[]]. subst o. destruct Ho as [Ho|[dd Ho]]; discriminate Ho.
  - cbv beta iota in He.
    assert (HW : forall w0, In w0 (w :: q) -> w_id w0 = i0 /\ g (w_uid w0) = i0).
    { intros w0 H0. destruct (Ww i0 (w :: q) w0 (wq_get_in _ _ _ G) H0) as [_ B]. exact B. }
    split; [left|split].
    + cbn [set_writes c_writes]. rewrite wq_get_set. destruct (i0 =? i) eqn:E; [lia|reflexivity].
    + intros v j rest Hin. destruct (Hos _ Hin) as [H|[H|[w0 [rest' [H0 H]]]]]; try discriminate H.
      injection H as -> -> ->. destruct (HW w0 H0) as [B1 B2]. split; [lia|left; lia].
    + intros v i' a' Hin. destruct (Hos _ Hin) as [H|[H|[w0 [rest' [H0 H]]]]]; try discriminate H.
      injection H as -> _ _. destruct (HW w (or_introl eq_refl)) as [B1 B2]. lia.
  - split; [right; reflexivity|]. split.
    + intros v j rest Hin. specialize (Q _ Hin). discriminate Q.
    + intros v i' a' Hin. specialize (Q _ Hin). discriminate Q.
Qed.

Lemma rframe g i c e c' os r0 :
  RC g c ->
  match e with EPkt ChRead (j :: _) => j <> i | _ => True end ->
  rd_get i (c_reads c) = Some r0 ->
  step true c e = (c', os) ->
  (rd_get i (c_reads c') = Some r0 \/ c_reads c' = []) /\
  (forall v d, In (OSend v ChRead d) os -> g v <> i \/ c_next c <= v) /\
  (forall v i' a' d, In (OReadOk v i' a' d) os -> g v <> i).
Proof.
  intros [L [[Rn Rr] [Wn Ww]]] He G0 St. pose proof (step_spec _ _ _ _ L St) as SR.
  destruct SR as [e os Q|i0 a n G|i0 a d fl Q os HQ Hos|i0 p r r' G Eu Ei|i0 p r o G Ho|i0 p w q Q os G HQ Hos|os Q].
  - split; [left; exact G0|]. split.
    + intros v d Hin. specialize (Q _ Hin). discriminate Q.
    + intros v i' a' d Hin. specialize (Q _ Hin). discriminate Q.
  - split; [left|split].
    + cbn [c_reads]. rewrite rd_get_app, G0. reflexivity.
    + intros v d [H|[H|[]]]; [|discriminate H]. unfold read_pkt in H. cbn [r_uid] in H.
      injection H as <- _. right. lia.
    + intros v i' a' d [H|[H|[]]]; discriminate H.
  - split; [left; exact G0|]. split.
    + intros v d0 Hin. destruct (Hos _ Hin) as [H|[rest' H]]; discriminate H.
    + intros v i' a' d0 Hin. destruct (Hos _ Hin) as [H|[rest' H]]; discriminate H.
  - cbv beta iota in He. destruct (rd_get_in _ _ _ G) as [Hr Hid].
    destruct (Rr r Hr) as [B1 B2].
    split; [left|split].
    + cbn [set_reads c_reads]. rewrite rd_get_set_ne by lia. exact G0.
    + intros v d [H|[]]. unfold read_pkt in H. injection H as <- _. left. rewrite Eu. lia.
    + intros v i' a' d [H|[]]; discriminate H.
  - cbv beta iota in He. destruct (rd_get_in _ _ _ G) as [Hr Hid].
    destruct (Rr r Hr) as [B1 B2].
    split; [left|split].
    + cbn [set_reads c_reads]. rewrite rd_get_del_ne by lia. exact G0.
    + intros v d [H|[]]. subst o. destruct Ho as [Ho|[dd Ho]]; discriminate Ho.
    + intros v i' a' d [H|[]]. subst o. destruct Ho as [Ho|[dd Ho]]; [discriminate Ho|].
      injection Ho as -> _ _ _. lia.
  - split; [left; exact G0|]. split.
    + intros v d Hin. destruct (Hos _ Hin) as [H|[H|[w0 [rest' [H0 H]]]]]; discriminate H.
    + intros v i' a' d Hin. destruct (Hos _ Hin) as [H|[H|[w0 [rest' [H0 H]]]]]; discriminate H.
  - split; [right; reflexivity|]. split.
    + intros v d Hin. specialize (Q _ Hin). discriminate Q.
    + intros v i' a' d Hin. specialize (Q _ Hin). discriminate Q.
Qed.

(* a write acknowledgement for a memory whose queue is idle is ignored (fx = true) *)
Lemma wack_idle c i p :
  (wq_get i (c_writes c) = None \/ wq_get i (c_writes c) = Some []) ->
  step true c (EPkt ChWrite (i :: p)) = (c, [OOutOfDomain]) \/
  step true c (EPkt ChWrite (i :: p)) = (c, [ORaise]) \/
  step true c (EPkt ChWrite (i :: p)) = (c, []).
Proof.
  intros H. unfold step. destruct (wf_eventb (EPkt ChWrite (i :: p))); cbn [negb]; [|left; reflexivity].
  right. unfold do_write_reply. destruct (length p <? 5)%nat; [left; reflexivity|]. right.
  destruct H as [-> | ->]; reflexivity.
Qed.
