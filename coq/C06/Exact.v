(* C06/Exact.v — closed loop, fixed tree (fx = true): a read / write that is notified as done
   transferred exactly the bytes of the request.  Helper lemmas in C06/ExactLemmas.v. *)
From CF Require Import Common.Bytes C06.Model C06.ExactLemmas.
From Coq Require Import ZifyBool.
Open Scope Z_scope.

Definition no_write_to (i : Z) (e : sevent) : Prop :=
  match e with SOp (EWrite j _ _ _) => j <> i | _ => True end.
Definition write_idle (c : client) (i : Z) : Prop :=
  wq_get i (c_writes c) = None \/ wq_get i (c_writes c) = Some [].

(* ================================================================ generic *)
Lemma ev_of_cond i s e ce :
  ev_of s e = Some ce -> no_write_to i e -> match ce with EWrite j _ _ _ => j <> i | _ => True end.
Proof.
  destruct e as [e0|k]; cbn [ev_of no_write_to].
  - intros H. injection H as ->. destruct ce; auto.
  - destruct (nth_error (s_log s) k) as [[[v ch] d]|]; [|discriminate].
    intros H _. injection H as <-. exact I.
Qed.

Lemma ev_of_deliver s e ch d :
  ev_of s e = Some (EPkt ch d) -> fresh s e = true ->
  exists v, In (v, ch, d) (s_log s) /\
    match ch with
    | ChRead => active_read (s_cl s) v = true
    | ChWrite => active_write (s_cl s) v = true
    | ChOther => True
    end.
Proof.
  destruct e as [e0|k]; cbn [ev_of fresh].
  - intros H. injection H as ->. discriminate.
  - destruct (nth_error (s_log s) k) as [[[v ch'] d']|] eqn:N; [|discriminate].
    intros H F. injection H as <- <-. exists v. split; [exact (nth_error_In _ _ N)|].
    destruct ch'; [exact F|exact F|exact I].
Qed.

Lemma ce_split_w i ce :
  (exists p, ce = EPkt ChWrite (i :: p)) \/
  (match ce with EWrite j _ _ _ => j <> i | _ => True end ->
   match ce with EWrite j _ _ _ => j <> i | EPkt ChWrite (j :: _) => j <> i | _ => True end).
Proof.
  destruct ce as [? ? ?|? ? ? ?|ch d|]; try (right; exact (fun H => H)).
  destruct ch; try (right; exact (fun _ => I)).
  destruct d as [|j p]; [right; exact (fun _ => I)|].
  destruct (Z.eq_dec j i) as [->|N]; [left; eexists; reflexivity|right; exact (fun _ => N)].
Qed.

Lemma ce_split_r i ce :
  (exists p, ce = EPkt ChRead (i :: p)) \/
  match ce with EPkt ChRead (j :: _) => j <> i | _ => True end.
Proof.
  destruct ce as [? ? ?|? ? ? ?|ch d|]; try (right; exact I).
  destruct ch; try (right; exact I).
  destruct d as [|j p]; [right; exact I|].
  destruct (Z.eq_dec j i) as [->|N]; [left; eexists; reflexivity|right; exact N].
Qed.

(* while the write queue of memory i is idle and no write to i is requested, memory i does not change *)
Lemma idle_step g plan i s e s' os :
  RS g s -> write_idle (s_cl s) i -> no_write_to i e ->
  sys_step true plan s e = (s', os) ->
  write_idle (s_cl s') i /\ forall x, s_mem s' i x = s_mem s i x.
Proof.
  intros [HC HL] Hidle Hnw St.
  destruct (sys_step_inv _ _ _ _ _ _ St) as [[_ [-> _]]|[ce [c' [m' [lg' [n' [Ev [Sc [Sv ->]]]]]]]]].
  - split; [exact Hidle|reflexivity].
  - cbn [s_cl s_mem]. destruct (ce_split_w i ce) as [[p ->]|Hc].
    + destruct (wack_idle _ i p Hidle) as [E|[E|E]]; rewrite E in Sc; injection Sc as <- <-;
        cbn [serve_all is_send] in Sv; injection Sv as <- <- <-; (split; [exact Hidle|reflexivity]).
    + destruct (wframe g i _ _ _ _ HC (Hc (ev_of_cond _ _ _ _ Ev Hnw)) Sc) as [F1 [F2 F3]]. split.
      * unfold write_idle. destruct F1 as [-> | ->]; [exact Hidle|left; reflexivity].
      * apply (serve_all_mem i _ _ _ _ _ _ _ _ Sv). intros v j rest Hin. exact (proj1 (F2 v j rest Hin)).
Qed.

Lemma active_read_in c v : active_read c v = true -> exists r, In r (c_reads c) /\ r_uid r = v.
Proof.
  unfold active_read. intros H. apply existsb_exists in H. destruct H as [r [H1 H2]].
  exists r. split; [exact H1|lia].
Qed.

Lemma active_write_in c v :
  active_write c v = true -> exists j w q, In (j, w :: q) (c_writes c) /\ w_uid w = v.
Proof.
  unfold active_write. intros H. apply existsb_exists in H. destruct H as [[j [|w q]] [H1 H2]]; cbn [snd] in H2.
  - discriminate.
  - exists j, w, q. split; [exact H1|lia].
Qed.

Lemma serve_read_pkt st m r :
  0 <= r_cur r < 2 ^ 32 ->
  serve st m (read_pkt r) =
  (m, [(r_uid r, ChRead, r_id r :: le_bytes 4 (r_cur r) ++
         (if st =? 0 then 0 :: mread m (r_id r) (r_cur r) (Z.to_nat (Z.min (r_left r) RCHUNK)) else [st]))]).
Proof.
  intros H. unfold read_pkt. cbn [serve]. rewrite pl_addr, pl_status, (le4_val _ H).
  destruct (st =? 0); reflexivity.
Qed.

Lemma read_reply_step c i x st dat r :
  rd_get i (c_reads c) = Some r ->
  step true c (EPkt ChRead (i :: le_bytes 4 x ++ st :: dat)) =
  if negb (wf_eventb (EPkt ChRead (i :: le_bytes 4 x ++ st :: dat))) then (c, [OOutOfDomain]) else
  if st =? 0 then
    if le_val (le_bytes 4 x) =? r_cur r then
      if 0 <? r_left r - zlen dat
      then (set_reads c (rd_set (mkR (r_uid r) (r_id r) (r_addr r) (r_left r - zlen dat) (r_cur r + zlen dat) (r_data r ++ dat)) (c_reads c)),
            [read_pkt (mkR (r_uid r) (r_id r) (r_addr r) (r_left r - zlen dat) (r_cur r + zlen dat) (r_data r ++ dat))])
      else (set_reads c (rd_del i (c_reads c)), [OReadOk (r_uid r) (r_id r) (r_addr r) (r_data r ++ dat)])
    else (c, [])
  else (set_reads c (rd_del i (c_reads c)), [OReadFail (r_uid r) (r_id r) (r_addr r) (r_data r)]).
Proof.
  intros G. unfold step. destruct (negb _); [reflexivity|].
  unfold do_read_reply. rewrite pl_len, pl_addr, pl_status, pl_data, G. reflexivity.
Qed.

Lemma del_no_ru g c i u r :
  RC g c -> rd_get i (c_reads c) = Some r -> g u = i ->
  no_ru u (set_reads c (rd_del i (c_reads c))).
Proof.
  intros [L [[Rn Rr] _]] G Hg r1 H1. cbn [set_reads c_reads] in H1.
  pose proof (rd_del_ne _ _ _ Rn H1) as N. destruct (Rr r1 (rd_del_in _ _ _ H1)) as [_ B].
  intros E. rewrite E in B. lia.
Qed.

(* ================================================================ reads *)
Section ReadExact.
  Variables (plan : nat -> Z) (i a n u : Z) (M0 : memory).
  Hypotheses (Hi : 0 <= i < 256) (Ha : 0 <= a < 2 ^ 32) (Hn : 0 <= n) (Han : a + n <= 2 ^ 32).

  (* a reply tagged u: a refusal, or an honest answer to a request for an earlier chunk or for the current one *)
  Definition rgood (cur left : Z) (d : list Z) : Prop :=
    exists x st dat, d = i :: le_bytes 4 x ++ st :: dat /\
      (st <> 0 \/ (0 <= x < 2 ^ 32 /\ exists k, dat = mread M0 i x k /\
                   (x < cur \/ (x = cur /\ k = Z.to_nat (Z.min left 20))))).

  Definition rpend (s : sys) (r : rreq) : Prop :=
    rd_get i (c_reads (s_cl s)) = Some r /\ r_uid r = u /\ r_addr r = a /\ a <= r_cur r /\
    r_left r = n - (r_cur r - a) /\ r_data r = mread M0 i a (Z.to_nat (r_cur r - a)) /\
    (0 < r_left r \/ (n = 0 /\ r_cur r = a)) /\ 0 <= r_left r /\
    forall d, In (u, ChRead, d) (s_log s) -> rgood (r_cur r) (r_left r) d.

  Definition rbase (g : Z -> Z) (s : sys) : Prop :=
    RS g s /\ g u = i /\ u < c_next (s_cl s) /\ write_idle (s_cl s) i /\ forall x, s_mem s i x = M0 i x.

  Definition rinv (s : sys) : Prop :=
    (exists g, rbase g s) /\ ((exists r, rpend s r) \/ no_ru u (s_cl s)).

  Lemma rbase_step g s e s' os :
    rbase g s -> no_write_to i e -> sys_step true plan s e = (s', os) -> exists g', rbase g' s'.
  Proof.
    intros [HS [Hg [Hu [Hidle Hm]]]] Hnw St.
    destruct (reach_step _ _ _ _ _ _ HS St) as [g' [HS' [A N]]].
    destruct (idle_step _ _ _ _ _ _ _ HS Hidle Hnw St) as [Hidle' Hm'].
    exists g'. split; [exact HS'|]. split; [rewrite (A _ Hu); exact Hg|]. split; [lia|].
    split; [exact Hidle'|]. intros x. rewrite Hm'. apply Hm.
  Qed.

  Lemma rgood_mono cur left cur' left' d : cur < cur' -> rgood cur left d -> rgood cur' left' d.
  Proof.
    intros Hc [x [st [dat [E H]]]]. exists x, st, dat. split; [exact E|].
    destruct H as [H|[Hx [k [Hk H]]]]; [left; exact H|right]. split; [exact Hx|]. exists k. split; [exact Hk|].
    left. lia.
  Qed.

  Lemma rpend_frame s s' r :
    rpend s r -> rd_get i (c_reads (s_cl s')) = Some r ->
    (forall d, In (u, ChRead, d) (s_log s') -> In (u, ChRead, d) (s_log s)) -> rpend s' r.
  Proof.
    intros [P1 [P2 [P3 [P4 [P5 [P6 [P7 [P8 P9]]]]]]]] G HL.
    repeat (split; [assumption|]). intros d Hd. exact (P9 d (HL d Hd)).
  Qed.

  Lemma serve_all_one m lg k r :
    0 <= r_cur r < 2 ^ 32 ->
    serve_all plan m lg k [read_pkt r] =
    (m, lg ++ [(r_uid r, ChRead, r_id r :: le_bytes 4 (r_cur r) ++
         (if plan k =? 0 then 0 :: mread m (r_id r) (r_cur r) (Z.to_nat (Z.min (r_left r) RCHUNK)) else [plan k]))],
     S k).
  Proof.
    intros H. unfold serve_all. change (is_send (read_pkt r)) with true. cbv iota.
    rewrite (serve_read_pkt _ _ _ H). reflexivity.
  Qed.

  Ltac unchanged Sc Sv r P :=
    injection Sc as <- <-; cbn [serve_all is_send] in Sv; injection Sv as <- <- <-;
    split; [left; exists r; exact P|
            let H := fresh "H" in intros ? ? ? H; cbn [In] in H; intuition discriminate].

  Lemma rpend_reply g s r x st dat c' os m' lg' n' :
    rbase g s -> rpend s r ->
    (st <> 0 \/ (0 <= x < 2 ^ 32 /\ exists k, dat = mread M0 i x k /\
                   (x < r_cur r \/ (x = r_cur r /\ k = Z.to_nat (Z.min (r_left r) 20))))) ->
    step true (s_cl s) (EPkt ChRead (i :: le_bytes 4 x ++ st :: dat)) = (c', os) ->
    serve_all plan (s_mem s) (s_log s) (s_n s) os = (m', lg', n') ->
    ((exists r', rpend (mkS c' m' lg' n') r') \/ no_ru u c') /\
    forall i' a' d, In (OReadOk u i' a' d) os -> i' = i /\ a' = a /\ d = mread M0 i a (Z.to_nat n).
  Proof.
    intros [[HC HL] [Hg [Hu [Hidle Hm]]]] P Hgood Sc Sv.
    pose proof P as [P1 [P2 [P3 [P4 [P5 [P6 [P7 [P8 P9]]]]]]]].
    destruct (rd_get_in _ _ _ P1) as [Hin Hid].
    rewrite (read_reply_step _ _ _ _ _ _ P1) in Sc.
    destruct (negb (wf_eventb _)); [unchanged Sc Sv r P|].
    destruct (st =? 0) eqn:Est.
    - destruct Hgood as [Hst|[Hx [k [Hk Hpos]]]]; [lia|].
      rewrite (le4_val _ Hx) in Sc.
      destruct (x =? r_cur r) eqn:Ex; [|unchanged Sc Sv r P].
      destruct Hpos as [Hlt|[_ Hkk]]; [lia|].
      assert (Hxc : x = r_cur r) by lia.
      assert (Hz : zlen dat = Z.min (r_left r) 20).
      { rewrite Hk. unfold zlen. rewrite mread_length, Hkk. lia. }
      assert (Hdat : r_data r ++ dat = mread M0 i a (Z.to_nat (r_cur r + zlen dat - a))).
      { replace (Z.to_nat (r_cur r + zlen dat - a)) with (Z.to_nat (r_cur r - a) + k)%nat by lia.
        rewrite mread_app, P6. f_equal. rewrite Hk, Hxc. f_equal. lia. }
      remember (mkR (r_uid r) (r_id r) (r_addr r) (r_left r - zlen dat) (r_cur r + zlen dat) (r_data r ++ dat))
        as r' eqn:Er'.
      destruct (0 <? r_left r - zlen dat) eqn:El; injection Sc as <- <-.
      + assert (Hc' : 0 <= r_cur r' < 2 ^ 32) by (subst r'; cbn [r_cur]; lia).
        rewrite (serve_all_one _ _ _ _ Hc') in Sv. injection Sv as <- <- <-.
        split; [left; exists r'|].
        * unfold rpend. cbn [s_cl s_log set_reads c_reads].
          split; [apply (rd_get_set_eq i r r' _ P1); subst r'; exact Hid|].
          subst r'. cbn [r_uid r_id r_addr r_cur r_left r_data].
          split; [exact P2|]. split; [exact P3|]. split; [lia|]. split; [lia|]. split; [exact Hdat|].
          split; [left; lia|]. split; [lia|].
          intros d Hd. apply in_app_or in Hd. destruct Hd as [Hd|[Hd|[]]].
          -- apply (rgood_mono (r_cur r) (r_left r)); [lia|exact (P9 d Hd)].
          -- injection Hd as _ <-. rewrite Hid.
             destruct (plan (s_n s) =? 0) eqn:Ep.
             ++ exists (r_cur r + zlen dat), 0, (mread (s_mem s) i (r_cur r + zlen dat) (Z.to_nat (Z.min (r_left r - zlen dat) RCHUNK))).
                split; [reflexivity|]. right. split; [lia|]. eexists. split; [apply mread_ext; exact Hm|].
                right. split; reflexivity.
             ++ exists (r_cur r + zlen dat), (plan (s_n s)), []. split; [reflexivity|left; lia].
        * intros i' a' d [H|[]]. subst r'. discriminate H.
      + cbn [serve_all is_send] in Sv. injection Sv as <- <- <-.
        split; [right; exact (del_no_ru g _ i u r HC P1 Hg)|].
        intros i' a' d [H|[]]. injection H as _ <- <- <-.
        split; [exact Hid|]. split; [exact P3|]. rewrite Hdat. f_equal. lia.
    - injection Sc as <- <-. cbn [serve_all is_send] in Sv. injection Sv as <- <- <-.
      split; [right; exact (del_no_ru g _ i u r HC P1 Hg)|].
      intros i' a' d [H|[]]. discriminate H.
  Qed.

  Lemma rinv_step s e s' os :
    rinv s -> no_write_to i e -> fresh s e = true -> sys_step true plan s e = (s', os) ->
    rinv s' /\ forall i' a' d, In (OReadOk u i' a' d) os -> i' = i /\ a' = a /\ d = mread M0 i a (Z.to_nat n).
  Proof.
    intros [[g B] P] Hnw Hf St.
    destruct (rbase_step _ _ _ _ _ B Hnw St) as [g' B'].
    assert (X : ((exists r, rpend s' r) \/ no_ru u (s_cl s')) /\
                forall i' a' d, In (OReadOk u i' a' d) os -> i' = i /\ a' = a /\ d = mread M0 i a (Z.to_nat n));
      [|destruct X as [X1 X2]; split; [split; [exists g'; exact B'|exact X1]|exact X2]].
    pose proof B as [[HC HL] [Hg [Hu [Hidle Hm]]]].
    destruct (sys_step_inv _ _ _ _ _ _ St) as [[_ [-> ->]]|[ce [c' [m' [lg' [n' [Ev [Sc [Sv ->]]]]]]]]].
    - split; [exact P|intros ? ? ? []].
    - cbn [s_cl]. destruct P as [[r P]|P].
      2:{ destruct (no_ru_step u _ _ _ _ (proj1 HC) Hu P Sc) as [N1 N2]. split; [right; exact N1|].
          intros i' a' d Hin. destruct (N2 _ _ _ Hin). }
      destruct (ce_split_r i ce) as [[p ->]|Hc].
      + destruct (ev_of_deliver _ _ _ _ Ev Hf) as [v [Hlog Hact]].
        destruct (active_read_in _ _ Hact) as [r1 [Hr1 Hv]].
        pose proof P as [P1 [P2 [_ [_ [_ [_ [_ [_ P9]]]]]]]].
        destruct (rd_get_in _ _ _ P1) as [Hin Hid].
        destruct (HL _ _ _ Hlog) as [_ [p' Ep]]. injection Ep as Ei _.
        destruct HC as [L [[Rn Rr] RWw]].
        destruct (Rr r1 Hr1) as [_ B1].
        assert (E1 : r1 = r). { apply (nodup_id_unique _ _ _ Rn Hr1 Hin). rewrite <- B1, Hv. lia. }
        subst r1. rewrite P2 in Hv. subst v.
        destruct (P9 _ Hlog) as [x [st [dat [E Hgood]]]]. injection E as ->.
        exact (rpend_reply g s r x st dat _ _ _ _ _ B P Hgood Sc Sv).
      + destruct (rframe g i _ _ _ _ r HC Hc (proj1 P) Sc) as [F1 [F2 F3]].
        split.
        * destruct F1 as [F1|F1].
          -- left. exists r. apply (rpend_frame s _ r P); cbn [s_cl s_log]; [exact F1|].
             intros d Hd.
             destruct (serve_all_log _ _ _ _ _ _ _ _ _ _ _ Sv Hd) as [H|[j [rest [p [H1 _]]]]]; [exact H|].
             exfalso. destruct (F2 _ _ H1) as [H|H]; lia.
          -- right. intros r1 Hr1. rewrite F1 in Hr1. destruct Hr1.
        * intros i' a' d Hin. exfalso. apply (F3 _ _ _ _ Hin). exact Hg.
  Qed.

  Lemma rinv_run mid : forall s s2 tr2,
    rinv s -> Forall (no_write_to i) mid -> all_fresh true plan s mid = true ->
    sys_run true plan s mid = (s2, tr2) ->
    (exists g, rbase g s2) /\
    forall i' a' d, In (OReadOk u i' a' d) tr2 -> i' = i /\ a' = a /\ d = mread M0 i a (Z.to_nat n).
  Proof.
    induction mid as [|e t IH]; intros s s2 tr2 HI Hnw Hf R; cbn [sys_run all_fresh] in R, Hf.
    - injection R as <- <-. split; [exact (proj1 HI)|intros ? ? ? []].
    - destruct (sys_step true plan s e) as [s1 o1] eqn:St. cbn [fst] in Hf.
      destruct (sys_run true plan s1 t) as [s3 o3] eqn:Rt. injection R as <- <-.
      apply andb_true_iff in Hf. destruct Hf as [Hf1 Hf2].
      inversion Hnw as [|? ? Hn1 Hn2]; subst.
      destruct (rinv_step _ _ _ _ HI Hn1 Hf1 St) as [HI1 T1].
      destruct (IH _ _ _ HI1 Hn2 Hf2 Rt) as [HB T2].
      split; [exact HB|]. intros i' a' d Hin. apply in_app_or in Hin.
      destruct Hin as [Hin|Hin]; [exact (T1 _ _ _ Hin)|exact (T2 _ _ _ Hin)].
  Qed.
End ReadExact.

Lemma serve_all_first plan m lg k r :
  0 <= r_cur r < 2 ^ 32 ->
  serve_all plan m lg k [read_pkt r; ORet true] =
  (m, lg ++ [(r_uid r, ChRead, r_id r :: le_bytes 4 (r_cur r) ++
       (if plan k =? 0 then 0 :: mread m (r_id r) (r_cur r) (Z.to_nat (Z.min (r_left r) RCHUNK)) else [plan k]))],
   S k).
Proof.
  intros H. unfold serve_all. change (is_send (read_pkt r)) with true. cbv iota.
  rewrite (serve_read_pkt _ _ _ H). reflexivity.
Qed.

Theorem read_exact : forall plan m0 pre s1 tr1 i a n mid s2 tr2,
  sys_run true plan (sys_init m0) pre = (s1, tr1) ->
  wf_event (ERead i a n) -> Forall wf_sevent mid ->
  rd_get i (c_reads (s_cl s1)) = None ->
  write_idle (s_cl s1) i ->
  Forall (no_write_to i) mid ->
  all_fresh true plan s1 (SOp (ERead i a n) :: mid) = true ->
  sys_run true plan s1 (SOp (ERead i a n) :: mid) = (s2, tr2) ->
  forall i' a' d, In (OReadOk (c_next (s_cl s1)) i' a' d) tr2 ->
    i' = i /\ a' = a /\ d = mread (s_mem s2) i a (Z.to_nat n) /\ (forall x, s_mem s2 i x = s_mem s1 i x).
Proof.
  intros plan m0 pre s1 tr1 i a n mid s2 tr2 Hpre Hwf _ Hnone Hidle Hnw Hf Hrun i' a' d Hin.
  destruct Hwf as [Hi [Ha [Hn Han]]].
  destruct (reach_run _ _ _ _ _ _ (reach_init m0) Hpre) as [g [HS _]].
  cbn [sys_run all_fresh] in Hrun, Hf.
  destruct (sys_step true plan s1 (SOp (ERead i a n))) as [sa oa] eqn:St.
  destruct (sys_run true plan sa mid) as [sb ob] eqn:Rt. injection Hrun as <- <-.
  cbn [fst] in Hf. apply andb_true_iff in Hf. destruct Hf as [_ Hf].
  set (u := c_next (s_cl s1)) in *.
  set (r0 := mkR u i a n a []).
  assert (Ewf : wf_eventb (ERead i a n) = true) by (unfold wf_eventb; lia).
  assert (Sc : step true (s_cl s1) (ERead i a n) =
               (mkC (c_reads (s_cl s1) ++ [r0]) (c_writes (s_cl s1)) (c_leaked (s_cl s1)) (u + 1),
                [read_pkt r0; ORet true])).
  { unfold step. rewrite Ewf. cbn [negb]. unfold do_read. rewrite Hnone. reflexivity. }
  destruct (reach_step _ _ _ _ _ _ HS St) as [g' [HS' [A N]]].
  destruct (idle_step g plan i s1 (SOp (ERead i a n)) sa oa HS Hidle I St) as [Hidle' Hm'].
  destruct (sys_step_inv _ _ _ _ _ _ St) as [[Ev _]|[ce [c' [m' [lg' [n' [Ev [Sc' [Sv Es]]]]]]]]];
    [discriminate Ev|].
  cbn [ev_of] in Ev. injection Ev as <-. rewrite Sc in Sc'. injection Sc' as <- <-.
  rewrite (serve_all_first plan _ _ _ r0) in Sv by (cbn [r0 r_cur]; lia). injection Sv as <- <- <-.
  assert (HI : rinv i a n u (s_mem s1) sa).
  { split.
    - exists g'. split; [exact HS'|]. subst sa. cbn [s_cl c_next] in *.
      split.
      + destruct HS' as [[_ [[_ Rr] _]] _]. cbn [c_reads] in Rr.
        destruct (Rr r0) as [_ B]; [apply in_or_app; right; left; reflexivity|]. exact B.
      + split; [lia|]. split; [exact Hidle'|exact Hm'].
    - left. exists r0. subst sa. unfold rpend. cbn [s_cl s_log c_reads r0 r_uid r_addr r_cur r_left r_data].
      split; [rewrite rd_get_app, Hnone; cbn [rd_get r_id]; rewrite Z.eqb_refl; reflexivity|].
      split; [reflexivity|]. split; [reflexivity|]. split; [lia|]. split; [lia|].
      split; [replace (a - a) with 0 by lia; reflexivity|]. split; [lia|]. split; [lia|].
      intros d0 Hd. apply in_app_or in Hd. destruct Hd as [Hd|[Hd|[]]].
      + destruct HS as [_ HL]. destruct (HL _ _ _ Hd) as [B _]. unfold u in B. lia.
      + injection Hd as <-. cbn [r_id r_cur r_left].
        destruct (plan (s_n s1) =? 0) eqn:Ep.
        * exists a, 0, (mread (s_mem s1) i a (Z.to_nat (Z.min n RCHUNK))).
          split; [reflexivity|]. right. split; [lia|]. eexists. split; [reflexivity|].
          right. split; reflexivity.
        * exists a, (plan (s_n s1)), []. split; [reflexivity|left; lia]. }
  destruct (rinv_run plan i a n u (s_mem s1) Hi Ha Han mid sa sb ob HI Hnw Hf Rt) as [[g2 HB] T].
  destruct HB as [_ [_ [_ [_ Hm2]]]].
  apply in_app_or in Hin. destruct Hin as [Hin|Hin].
  { destruct Hin as [H|[H|[]]]; discriminate H. }
  destruct (T _ _ _ Hin) as [-> [-> ->]].
  split; [reflexivity|]. split; [reflexivity|]. split; [|exact Hm2].
  symmetry. apply mread_ext. exact Hm2.
Qed.

(* ================================================================ writes *)
Lemma le4_firstn x (l : list Z) : firstn 4 (le_bytes 4 x ++ l) = le_bytes 4 x.
Proof. rewrite <- (le_bytes_length 4 x) at 1. apply firstn_app_exact. Qed.

Lemma le4_skipn x (l : list Z) : skipn 4 (le_bytes 4 x ++ l) = l.
Proof. rewrite <- (le_bytes_length 4 x) at 1. apply skipn_app_exact. Qed.

Lemma serve_write_pkt st m v j x l :
  0 <= x < 2 ^ 32 ->
  serve st m (OSend v ChWrite (j :: le_bytes 4 x ++ l)) =
  if st =? 0 then (mwrite m j x l, [(v, ChWrite, j :: le_bytes 4 x ++ [0])])
  else (m, [(v, ChWrite, j :: le_bytes 4 x ++ [st])]).
Proof.
  intros H. cbn [serve]. rewrite le4_firstn, le4_skipn, (le4_val _ H). destruct (st =? 0); reflexivity.
Qed.

Lemma serve_all_wpkt plan m lg k v j x l t :
  0 <= x < 2 ^ 32 -> (t = [] \/ t = [ORet true]) ->
  serve_all plan m lg k (OSend v ChWrite (j :: le_bytes 4 x ++ l) :: t) =
  if plan k =? 0 then (mwrite m j x l, lg ++ [(v, ChWrite, j :: le_bytes 4 x ++ [0])], S k)
  else (m, lg ++ [(v, ChWrite, j :: le_bytes 4 x ++ [plan k])], S k).
Proof.
  intros H Ht. cbn [serve_all is_send]. rewrite (serve_write_pkt _ _ _ _ _ _ H).
  destruct (plan k =? 0); destruct Ht as [-> | ->]; reflexivity.
Qed.

Lemma write_reply_step c i x st tl w :
  c_leaked c = false -> wq_get i (c_writes c) = Some [w] ->
  step true c (EPkt ChWrite (i :: le_bytes 4 x ++ st :: tl)) =
  if negb (wf_eventb (EPkt ChWrite (i :: le_bytes 4 x ++ st :: tl))) then (c, [OOutOfDomain]) else
  if st =? 0 then
    if le_val (le_bytes 4 x) =? w_cur w then
      match w_rest w with
      | [] => (set_writes c (wq_set i [] (c_writes c)), [OWriteOk (w_uid w) (w_id w) (w_addr w)])
      | _ :: _ =>
          (set_writes c (wq_set i [mkW (w_uid w) (w_id w) (w_addr w) (w_cur w + w_add w)
                                       (skipn WCHUNK (w_rest w)) (zlen (firstn WCHUNK (w_rest w)))] (c_writes c)),
           [OSend (w_uid w) ChWrite (w_id w :: le_bytes 4 (w_cur w + w_add w) ++ firstn WCHUNK (w_rest w))])
      end
    else (c, [])
  else (set_writes c (wq_set i [] (c_writes c)), [OWriteFail (w_uid w) (w_id w) (w_addr w)]).
Proof.
  intros L G. unfold step. destruct (negb _); [reflexivity|].
  unfold do_write_reply. rewrite pl_len, pl_addr, pl_status, G, L.
  destruct (st =? 0); [|reflexivity]. destruct (_ =? w_cur w); [|reflexivity].
  unfold w_start, w_advance. cbn [w_uid w_id w_addr w_cur w_rest w_add].
  destruct (w_rest w); reflexivity.
Qed.

Lemma write_first_step c i a d fl :
  write_idle c i -> c_leaked c = false -> wf_eventb (EWrite i a d fl) = true ->
  step true c (EWrite i a d fl) =
  (mkC (c_reads c) (wq_set i [mkW (c_next c) i a a (skipn WCHUNK d) (zlen (firstn WCHUNK d))] (c_writes c))
       false (c_next c + 1),
   [OSend (c_next c) ChWrite (i :: le_bytes 4 a ++ firstn WCHUNK d); ORet true]).
Proof.
  intros Hidle L Ewf. unfold step. rewrite Ewf. cbn [negb]. unfold do_write. rewrite L.
  destruct Hidle as [-> | ->]; destruct fl; reflexivity.
Qed.

Lemma chunk_pos (l : list Z) : skipn WCHUNK l = [] \/ 0 < zlen (firstn WCHUNK l).
Proof.
  destruct l as [|b t]; [left; reflexivity|right]. unfold WCHUNK, zlen. cbn [firstn length]. lia.
Qed.

Lemma idle_no_wu g c i u : RC g c -> g u = i -> write_idle c i -> no_wu u c.
Proof.
  intros [L [_ [Wn Ww]]] Hg Hidle j q w Hin Hw E.
  destruct (Ww j q w Hin Hw) as [_ [_ B]]. rewrite E, Hg in B. subst j.
  pose proof (wq_in_get _ _ _ Wn Hin) as G.
  destruct Hidle as [H|H]; rewrite H in G; [discriminate G|]. injection G as <-. destruct Hw.
Qed.

Lemma idle_run plan i mid : forall g s s2 tr,
  RS g s -> write_idle (s_cl s) i -> Forall (no_write_to i) mid ->
  sys_run true plan s mid = (s2, tr) -> forall x, s_mem s2 i x = s_mem s i x.
Proof.
  induction mid as [|e t IH]; intros g s s2 tr HS Hidle Hnw R x; cbn [sys_run] in R.
  - injection R as <- <-. reflexivity.
  - destruct (sys_step true plan s e) as [s1 o1] eqn:St.
    destruct (sys_run true plan s1 t) as [s3 o3] eqn:Rt. injection R as <- <-.
    inversion Hnw as [|? ? Hn1 Hn2]; subst.
    destruct (reach_step _ _ _ _ _ _ HS St) as [g1 [HS1 _]].
    destruct (idle_step _ _ _ _ _ _ _ HS Hidle Hn1 St) as [Hidle1 Hm1].
    rewrite (IH _ _ _ _ HS1 Hidle1 Hn2 Rt x). apply Hm1.
Qed.

Section WriteExact.
  Variables (plan : nat -> Z) (i a u : Z) (dd : list Z) (M0 : memory).
  Hypotheses (Ha : 0 <= a < 2 ^ 32) (Had : a + zlen dd <= 2 ^ 32).

  Definition wgood (cur : Z) (applied : bool) (d' : list Z) : Prop :=
    exists x st tl, d' = i :: le_bytes 4 x ++ st :: tl /\
      (st <> 0 \/ (0 <= x < 2 ^ 32 /\ (x < cur \/ (x = cur /\ applied = true)))).

  Definition wpend (s : sys) (w : wreq) (sent chunk : list Z) (applied : bool) : Prop :=
    wq_get i (c_writes (s_cl s)) = Some [w] /\ w_uid w = u /\ w_addr w = a /\
    w_cur w = a + zlen sent /\ w_add w = zlen chunk /\ dd = sent ++ chunk ++ w_rest w /\
    (w_rest w = [] \/ 0 < w_add w) /\
    (forall x, s_mem s i x = mwrite M0 i a (sent ++ (if applied then chunk else [])) i x) /\
    forall d', In (u, ChWrite, d') (s_log s) -> wgood (w_cur w) applied d'.

  Definition wbase (g : Z -> Z) (s : sys) : Prop := RS g s /\ g u = i /\ u < c_next (s_cl s).

  Definition winv (s : sys) : Prop :=
    (exists g, wbase g s) /\
    ((exists w sent chunk applied, wpend s w sent chunk applied) \/ write_idle (s_cl s) i).

  Definition wdone (s : sys) : Prop :=
    write_idle (s_cl s) i /\ forall x, s_mem s i x = mwrite M0 i a dd i x.

  Lemma wbase_step g s e s' os :
    wbase g s -> sys_step true plan s e = (s', os) -> exists g', wbase g' s'.
  Proof.
    intros [HS [Hg Hu]] St.
    destruct (reach_step _ _ _ _ _ _ HS St) as [g' [HS' [A N]]].
    exists g'. split; [exact HS'|]. split; [rewrite (A _ Hu); exact Hg|lia].
  Qed.

  Lemma wgood_mono cur ap cur' ap' d' : cur < cur' -> wgood cur ap d' -> wgood cur' ap' d'.
  Proof.
    intros Hc [x [st [tl [E H]]]]. exists x, st, tl. split; [exact E|].
    destruct H as [H|[Hx H]]; [left; exact H|right]. split; [exact Hx|]. left. lia.
  Qed.

  Ltac unchanged Sc Sv w sent chunk applied P :=
    injection Sc as <- <-; cbn [serve_all is_send] in Sv; injection Sv as <- <- <-;
    split; [left; exists w, sent, chunk, applied; exact P|
            let H := fresh "H" in intros ? ? H; cbn [In] in H; intuition discriminate].

  Lemma wpend_reply g s w sent chunk applied x st tl c' os m' lg' n' :
    wbase g s -> wpend s w sent chunk applied ->
    (st <> 0 \/ (0 <= x < 2 ^ 32 /\ (x < w_cur w \/ (x = w_cur w /\ applied = true)))) ->
    step true (s_cl s) (EPkt ChWrite (i :: le_bytes 4 x ++ st :: tl)) = (c', os) ->
    serve_all plan (s_mem s) (s_log s) (s_n s) os = (m', lg', n') ->
    ((exists w' sent' chunk' applied', wpend (mkS c' m' lg' n') w' sent' chunk' applied') \/ write_idle c' i) /\
    forall i' a', In (OWriteOk u i' a') os -> i' = i /\ a' = a /\ wdone (mkS c' m' lg' n').
  Proof.
    intros [[HC HL] [Hg Hu]] P Hgood Sc Sv.
    pose proof P as [P1 [P2 [P3 [P4 [P5 [P6 [P7 [P8 P9]]]]]]]].
    destruct HC as [L [_ [Wn Ww]]].
    destruct (Ww i [w] w (wq_get_in _ _ _ P1) (or_introl eq_refl)) as [_ [Hid _]].
    rewrite (write_reply_step _ _ _ _ _ _ L P1) in Sc.
    destruct (negb (wf_eventb _)); [unchanged Sc Sv w sent chunk applied P|].
    assert (Hidle' : write_idle (set_writes (s_cl s) (wq_set i [] (c_writes (s_cl s)))) i).
    { right. cbn [set_writes c_writes]. rewrite wq_get_set, Z.eqb_refl. reflexivity. }
    destruct (st =? 0) eqn:Est.
    - destruct Hgood as [Hst|[Hx Hpos]]; [lia|].
      rewrite (le4_val _ Hx) in Sc.
      destruct (x =? w_cur w) eqn:Ex; [|unchanged Sc Sv w sent chunk applied P].
      destruct Hpos as [Hlt|[_ Happ]]; [lia|]. subst applied.
      revert Sc. destruct (w_rest w) as [|b rest] eqn:Er; intros Sc.
      + injection Sc as <- <-. cbn [serve_all is_send] in Sv. injection Sv as <- <- <-.
        split; [right; exact Hidle'|].
        intros i' a' [H|[]]. injection H as _ <- <-.
        split; [exact Hid|]. split; [exact P3|]. split; [exact Hidle'|].
        cbn [s_mem]. intros y. rewrite (P8 y), P6, app_nil_r. reflexivity.
      + assert (Hlen : zlen dd = zlen sent + zlen chunk + zlen (b :: rest)).
        { rewrite P6 at 1. rewrite !zlen_app. lia. }
        assert (Hpos : 0 < zlen (b :: rest)) by (unfold zlen; cbn [length]; lia).
        assert (Hadd : 0 < w_add w) by (destruct P7 as [P7|P7]; [discriminate P7|exact P7]).
        apply pair_equal_spec in Sc. destruct Sc as [<- <-].
        rewrite serve_all_wpkt in Sv by (try (left; reflexivity); lia).
        assert (W : forall ap' : bool,
          (forall y, m' i y = mwrite M0 i a ((sent ++ chunk) ++ (if ap' then firstn WCHUNK (b :: rest) else [])) i y) ->
          (forall d', In (u, ChWrite, d') lg' -> wgood (w_cur w + w_add w) ap' d') ->
          wpend (mkS (set_writes (s_cl s) (wq_set i [mkW (w_uid w) (w_id w) (w_addr w) (w_cur w + w_add w)
                    (skipn WCHUNK (b :: rest)) (zlen (firstn WCHUNK (b :: rest)))] (c_writes (s_cl s)))) m' lg' n')
                (mkW (w_uid w) (w_id w) (w_addr w) (w_cur w + w_add w)
                    (skipn WCHUNK (b :: rest)) (zlen (firstn WCHUNK (b :: rest))))
                (sent ++ chunk) (firstn WCHUNK (b :: rest)) ap').
        { intros ap' Hmem Hlog. unfold wpend.
          cbn [s_cl s_mem s_log set_writes c_writes w_uid w_addr w_cur w_add w_rest].
          split; [rewrite wq_get_set, Z.eqb_refl; reflexivity|].
          split; [exact P2|]. split; [exact P3|]. split; [rewrite zlen_app; lia|]. split; [reflexivity|].
          split; [rewrite P6, <- app_assoc, firstn_skipn; reflexivity|].
          split; [apply chunk_pos|]. split; [exact Hmem|exact Hlog]. }
        destruct (plan (s_n s) =? 0) eqn:Ep; injection Sv as <- <- <-.
        * split; [left; eexists; exists (sent ++ chunk), (firstn WCHUNK (b :: rest)), true; apply W|].
          -- intros y. rewrite Hid. rewrite <- mwrite_app.
             replace (w_cur w + w_add w) with (a + zlen (sent ++ chunk)) by (rewrite zlen_app; lia).
             apply mwrite_ext. exact P8.
          -- intros d' Hd. apply in_app_or in Hd. destruct Hd as [Hd|[Hd|[]]].
             ++ apply (wgood_mono (w_cur w) true); [lia|exact (P9 d' Hd)].
             ++ injection Hd as _ <-. rewrite Hid. exists (w_cur w + w_add w), 0, [].
                split; [reflexivity|]. right. split; [lia|]. right. split; reflexivity.
          -- intros i' a' [H|[]]. discriminate H.
        * split; [left; eexists; exists (sent ++ chunk), (firstn WCHUNK (b :: rest)), false; apply W|].
          -- intros y. rewrite app_nil_r. exact (P8 y).
          -- intros d' Hd. apply in_app_or in Hd. destruct Hd as [Hd|[Hd|[]]].
             ++ apply (wgood_mono (w_cur w) true); [lia|exact (P9 d' Hd)].
             ++ injection Hd as _ <-. rewrite Hid. exists (w_cur w + w_add w), (plan (s_n s)), [].
                split; [reflexivity|]. left. lia.
          -- intros i' a' [H|[]]. discriminate H.
    - injection Sc as <- <-. cbn [serve_all is_send] in Sv. injection Sv as <- <- <-.
      split; [right; exact Hidle'|]. intros i' a' [H|[]]. discriminate H.
  Qed.

  Lemma wpend_frame s s' w sent chunk applied :
    wpend s w sent chunk applied -> wq_get i (c_writes (s_cl s')) = Some [w] ->
    (forall x, s_mem s' i x = s_mem s i x) ->
    (forall d', In (u, ChWrite, d') (s_log s') -> In (u, ChWrite, d') (s_log s)) ->
    wpend s' w sent chunk applied.
  Proof.
    intros [P1 [P2 [P3 [P4 [P5 [P6 [P7 [P8 P9]]]]]]]] G Hm HL.
    split; [exact G|]. repeat (split; [assumption|]). split.
    - intros x. rewrite Hm. apply P8.
    - intros d' Hd. exact (P9 d' (HL d' Hd)).
  Qed.

  Lemma winv_step s e s' os :
    winv s -> no_write_to i e -> fresh s e = true -> sys_step true plan s e = (s', os) ->
    winv s' /\ forall i' a', In (OWriteOk u i' a') os -> i' = i /\ a' = a /\ wdone s'.
  Proof.
    intros [[g B] P] Hnw Hf St.
    destruct (wbase_step _ _ _ _ _ B St) as [g' B'].
    assert (X : ((exists w sent chunk applied, wpend s' w sent chunk applied) \/ write_idle (s_cl s') i) /\
                forall i' a', In (OWriteOk u i' a') os -> i' = i /\ a' = a /\ wdone s');
      [|destruct X as [X1 X2]; split; [split; [exists g'; exact B'|exact X1]|exact X2]].
    pose proof B as [[HC HL] [Hg Hu]].
    destruct P as [[w [sent [chunk [applied P]]]]|Hidle].
    2:{ destruct (idle_step _ _ _ _ _ _ _ (proj1 B) Hidle Hnw St) as [Hidle' _].
        split; [right; exact Hidle'|].
        destruct (sys_step_inv _ _ _ _ _ _ St) as [[_ [_ ->]]|[ce [c' [m' [lg' [n' [Ev [Sc [Sv _]]]]]]]]].
        - intros ? ? [].
        - destruct (no_wu_step u _ _ _ _ (proj1 HC) Hu (idle_no_wu _ _ _ _ HC Hg Hidle) Sc) as [_ N2].
          intros i' a' Hin. destruct (N2 _ _ Hin). }
    destruct (sys_step_inv _ _ _ _ _ _ St) as [[_ [-> ->]]|[ce [c' [m' [lg' [n' [Ev [Sc [Sv ->]]]]]]]]].
    - split; [left; exists w, sent, chunk, applied; exact P|intros ? ? []].
    - cbn [s_cl]. destruct (ce_split_w i ce) as [[p ->]|Hc].
      + destruct (ev_of_deliver _ _ _ _ Ev Hf) as [v [Hlog Hact]].
        destruct (active_write_in _ _ Hact) as [j [w1 [q1 [Hin1 Hv]]]].
        pose proof P as [P1 [P2 [_ [_ [_ [_ [_ [_ P9]]]]]]]].
        destruct (HL _ _ _ Hlog) as [_ [p' Ep]]. injection Ep as Ei _.
        destruct HC as [L [_ [Wn Ww]]].
        destruct (Ww j (w1 :: q1) w1 Hin1 (or_introl eq_refl)) as [_ [_ B1]].
        assert (Ej : j = i) by (rewrite <- B1, Hv; lia). rewrite Ej in Hin1.
        pose proof (wq_in_get _ _ _ Wn Hin1) as G1. rewrite P1 in G1. injection G1 as <- _.
        rewrite P2 in Hv. subst v.
        destruct (P9 _ Hlog) as [x [st [tl [E Hgood]]]]. injection E as ->.
        exact (wpend_reply g s w sent chunk applied x st tl _ _ _ _ _ B P Hgood Sc Sv).
      + destruct (wframe g i _ _ _ _ HC (Hc (ev_of_cond _ _ _ _ Ev Hnw)) Sc) as [F1 [F2 F3]].
        split.
        * destruct F1 as [F1|F1].
          -- left. exists w, sent, chunk, applied. apply (wpend_frame s _ w sent chunk applied P); cbn [s_cl s_log s_mem].
             ++ rewrite F1. exact (proj1 P).
             ++ apply (serve_all_mem i _ _ _ _ _ _ _ _ Sv). intros v j rest Hin. exact (proj1 (F2 v j rest Hin)).
             ++ intros d' Hd.
                destruct (serve_all_log _ _ _ _ _ _ _ _ _ _ _ Sv Hd) as [H|[j [rest [p [H1 _]]]]]; [exact H|].
                exfalso. destruct (F2 _ _ _ H1) as [_ [H|H]]; lia.
          -- right. left. rewrite F1. reflexivity.
        * intros i' a' Hin. exfalso. apply (F3 _ _ _ Hin). exact Hg.
  Qed.

  Lemma winv_run mid : forall s s2 tr2,
    winv s -> Forall (no_write_to i) mid -> all_fresh true plan s mid = true ->
    sys_run true plan s mid = (s2, tr2) ->
    forall i' a', In (OWriteOk u i' a') tr2 ->
      i' = i /\ a' = a /\ forall x, s_mem s2 i x = mwrite M0 i a dd i x.
  Proof.
    induction mid as [|e t IH]; intros s s2 tr2 HI Hnw Hf R; cbn [sys_run all_fresh] in R, Hf.
    - injection R as <- <-. intros ? ? [].
    - destruct (sys_step true plan s e) as [s1 o1] eqn:St. cbn [fst] in Hf.
      destruct (sys_run true plan s1 t) as [s3 o3] eqn:Rt. injection R as <- <-.
      apply andb_true_iff in Hf. destruct Hf as [Hf1 Hf2].
      inversion Hnw as [|? ? Hn1 Hn2]; subst.
      destruct (winv_step _ _ _ _ HI Hn1 Hf1 St) as [HI1 T1].
      intros i' a' Hin. apply in_app_or in Hin. destruct Hin as [Hin|Hin].
      + destruct (T1 _ _ Hin) as [E1 [E2 [Hidle Hm]]]. split; [exact E1|]. split; [exact E2|].
        destruct HI1 as [[g1 [HS1 _]] _].
        intros x. rewrite (idle_run _ _ _ _ _ _ _ HS1 Hidle Hn2 Rt x). apply Hm.
      + exact (IH _ _ _ HI1 Hn2 Hf2 Rt _ _ Hin).
  Qed.
End WriteExact.

Theorem write_exact : forall plan m0 pre s1 tr1 i a d fl mid s2 tr2,
  sys_run true plan (sys_init m0) pre = (s1, tr1) ->
  wf_event (EWrite i a d fl) -> Forall wf_sevent mid ->
  write_idle (s_cl s1) i ->
  Forall (no_write_to i) mid ->
  all_fresh true plan s1 (SOp (EWrite i a d fl) :: mid) = true ->
  sys_run true plan s1 (SOp (EWrite i a d fl) :: mid) = (s2, tr2) ->
  forall i' a', In (OWriteOk (c_next (s_cl s1)) i' a') tr2 ->
    i' = i /\ a' = a /\ (forall x, s_mem s2 i x = mwrite (s_mem s1) i a d i x).
Proof.
  intros plan m0 pre s1 tr1 i a d fl mid s2 tr2 Hpre Hwf _ Hidle Hnw Hf Hrun i' a' Hin.
  destruct Hwf as [Hi [Ha [Had Hb]]].
  destruct (reach_run _ _ _ _ _ _ (reach_init m0) Hpre) as [g [HS _]].
  cbn [sys_run all_fresh] in Hrun, Hf.
  destruct (sys_step true plan s1 (SOp (EWrite i a d fl))) as [sa oa] eqn:St.
  destruct (sys_run true plan sa mid) as [sb ob] eqn:Rt. injection Hrun as <- <-.
  cbn [fst] in Hf. apply andb_true_iff in Hf. destruct Hf as [_ Hf].
  set (u := c_next (s_cl s1)) in *.
  assert (Ewf : wf_eventb (EWrite i a d fl) = true).
  { unfold wf_eventb. apply andb_true_iff. split; [lia|apply bytesb_spec; exact Hb]. }
  pose proof HS as [[L _] HL].
  pose proof (write_first_step _ i a d fl Hidle L Ewf) as Sc. fold u in Sc.
  destruct (reach_step _ _ _ _ _ _ HS St) as [g' [HS' [A N]]].
  destruct (sys_step_inv _ _ _ _ _ _ St) as [[Ev _]|[ce [c' [m' [lg' [n' [Ev [Sc' [Sv Es]]]]]]]]];
    [discriminate Ev|].
  cbn [ev_of] in Ev. injection Ev as <-. rewrite Sc in Sc'.
  apply pair_equal_spec in Sc'. destruct Sc' as [<- <-].
  rewrite serve_all_wpkt in Sv by (try (right; reflexivity); lia).
  assert (Hsv : (forall x, m' i x = mwrite (s_mem s1) i a
                    ([] ++ (if plan (s_n s1) =? 0 then firstn WCHUNK d else [])) i x) /\
                forall d', In (u, ChWrite, d') lg' ->
                  In (u, ChWrite, d') (s_log s1) \/ wgood i a (plan (s_n s1) =? 0) d').
  { revert Sv. destruct (plan (s_n s1) =? 0) eqn:Ep; intros Sv; injection Sv as <- <- <-.
    - split; [intros x; reflexivity|]. intros d' Hd. apply in_app_or in Hd.
      destruct Hd as [Hd|[Hd|[]]]; [left; exact Hd|right]. injection Hd as <-.
      exists a, 0, []. split; [reflexivity|]. right. split; [lia|]. right. split; reflexivity.
    - split; [intros x; cbn [app]; symmetry; apply mwrite_nil|]. intros d' Hd. apply in_app_or in Hd.
      destruct Hd as [Hd|[Hd|[]]]; [left; exact Hd|right]. injection Hd as <-.
      exists a, (plan (s_n s1)), []. split; [reflexivity|]. left. lia. }
  destruct Hsv as [Hm' Hlg'].
  set (w0 := mkW u i a a (skipn WCHUNK d) (zlen (firstn WCHUNK d))) in *.
  assert (HI : winv i a u d (s_mem s1) sa).
  { subst sa. split.
    - exists g'. split; [exact HS'|]. split; [|cbn [s_cl c_next]; lia].
      destruct HS' as [[_ [_ [_ Ww]]] _]. cbn [s_cl c_writes] in Ww.
      destruct (Ww i [w0] w0) as [_ [_ B]]; [|left; reflexivity|exact B].
      apply wq_get_in. rewrite wq_get_set, Z.eqb_refl. reflexivity.
    - left. exists w0, [], (firstn WCHUNK d), (plan (s_n s1) =? 0).
      unfold wpend. cbn [s_cl s_mem s_log c_writes].
      split; [rewrite wq_get_set, Z.eqb_refl; reflexivity|].
      cbn [w0 w_uid w_addr w_cur w_add w_rest].
      split; [reflexivity|]. split; [reflexivity|]. split; [unfold zlen; cbn [length]; lia|].
      split; [reflexivity|]. split; [cbn [app]; symmetry; apply firstn_skipn|].
      split; [apply chunk_pos|]. split; [exact Hm'|].
      intros d' Hd. destruct (Hlg' d' Hd) as [H|H]; [|exact H].
      destruct (HL _ _ _ H) as [B _]. unfold u in B. lia. }
  apply in_app_or in Hin. destruct Hin as [Hin|Hin].
  { destruct Hin as [H|[H|[]]]; discriminate H. }
  exact (winv_run plan i a u d (s_mem s1) Ha Had mid sa sb ob HI Hnw Hf Rt i' a' Hin).
Qed.
Print Assumptions read_exact.
Print Assumptions write_exact.
